(** C06 — property theorems (statements only; every proof is [exact] of a lemma of Proofs.v).
    Dereplication conserves counts and merges exactly the identical records.

    [uniq h nchunks cats ds sts na nosingleton l] is the model of obichunk.IUniqueSequence (Model.v):
    [h] is the hash of HashClassifier — a Section variable there, universally quantified here, so every
    theorem holds for ANY hash function and any number of chunks (CRC32 is not trusted).
    [ds] maps a statistics slot ("key" or "key:weight" after -m) to (key, weight attribute); [dflt] = no weights.
    Attribute values are TYPED ([value]: Go dynamic type tag, fmt.Sprint form, exact value, StatsPlusOne key,
    integer reading).  [key cats na r] = (nucleotides, printed values of the category attributes, NA when absent);
    [same_key cats na x r] its boolean equality; [zsum F l] = sum of F over l;
    [smap ds na r k] = what record r contributes to merged_<k>: its own merged_<k> map when it is already
    merged, else {StatsPlusOne value of the key (NA when absent) |-> weight}, weight = [wgt ds r k] = the count,
    or the integer value of the weight attribute (0 when absent / not a number).

    COUNTS: [pos_counts l] = every record has a count >= 1 (the quantifier of the property).  The model carries
    BioSequence.SetCount ("a count < 1 becomes 1") on every merge step; with a count < 1 in the input the count of a class
    depends on the merge order (C06_count_is_sum_nonpositive_refuted), so the accounting theorems state this hypothesis;
    C06_output_counts_positive holds for every input.

    TYPING HYPOTHESIS [typed cats l]: for every category attribute, two records of the data set that print the same
    value hold the same typed value.  It is needed exactly where the statement identifies the class of an output
    record by the key that record shows; without it the statement is false of the code (known finding
    mixed-type-category-dropped): C06_one_per_key_refuted, C06_keys_exact_refuted.  The accounting itself
    (C06_output_is_merged_class, C06_total_conserved, C06_weight_conserved) needs no typing hypothesis. *)
From Coq Require Import List NArith ZArith Bool Permutation Sorted.
From OBI.C06 Require Import Model Proofs.
Import ListNotations.
Open Scope N_scope.

(** the records merged together are exactly the records of one key, all of them, in arrival order *)
Theorem C06_classes_exact : forall cats na h nchunks l g,
  In g (batches h nchunks cats na l) -> exists x, In x l /\ g = filter (same_key cats na x) l.
Proof. exact batches_char. Qed.

(** [untyped] every output record is the merge of one whole class of the input: its count is the sum of the counts
    of the class, every requested merged_<k> map gives per value the summed contribution (weight, or own map) *)
Theorem C06_output_is_merged_class : forall cats ds sts na h nchunks nosingleton l o, pos_counts l ->
  In o (uniq h nchunks cats ds sts na nosingleton l) ->
  exists x, In x l /\ useq o = useq x /\ ucount o = zsum ucount (filter (same_key cats na x) l) /\
    forall k, In k sts -> exists m, lookup k (umerged o) = Some m /\
      forall v, stat_get v m = zsum (fun r => stat_get v (smap ds na r k)) (filter (same_key cats na x) l).
Proof. exact uniq_output_is_class. Qed.

(** one output record per distinct key: no key twice (with or without --no-singleton) ... *)
Theorem C06_one_per_key : forall cats ds sts na h nchunks nosingleton l, typed cats l ->
  NoDup (map (key cats na) (uniq h nchunks cats ds sts na nosingleton l)).
Proof. exact uniq_keys_nodup. Qed.

(** ... which is false of the code without the typing hypothesis (sample=1, sample="1", no sample: two output
    records show the key (a, NA)) — known finding mixed-type-category-dropped *)
Theorem C06_one_per_key_refuted : exists cats ds sts na h n l,
  ~ NoDup (map (key cats na) (uniq h n cats ds sts na false l)).
Proof. exact one_per_key_refuted. Qed.

(** ... and the output keys are exactly the input keys *)
Theorem C06_keys_exact : forall cats ds sts na h nchunks l k, typed cats l ->
  (In k (map (key cats na) (uniq h nchunks cats ds sts na false l)) <-> In k (map (key cats na) l)).
Proof. exact uniq_keys_exact. Qed.

Theorem C06_keys_exact_refuted : exists cats ds sts na h n l k,
  In k (map (key cats na) (uniq h n cats ds sts na false l)) /\ ~ In k (map (key cats na) l).
Proof. exact keys_exact_refuted. Qed.

(** the count of an output record is the sum of the counts of the input records with its key
    (whatever the weights of the statistics) *)
Theorem C06_count_is_sum : forall cats ds sts na h nchunks nosingleton l o, pos_counts l -> typed cats l ->
  In o (uniq h nchunks cats ds sts na nosingleton l) ->
  ucount o = zsum ucount (filter (same_key cats na o) l).
Proof. exact uniq_count. Qed.

(** every requested merged_<k> map gives, per value, the summed contribution of the records of the class
    (already merged inputs contribute their own map, the others their weight) *)
Theorem C06_merged_maps : forall cats ds sts na h nchunks nosingleton l o k, pos_counts l -> typed cats l ->
  In o (uniq h nchunks cats ds sts na nosingleton l) -> In k sts ->
  exists m, lookup k (umerged o) = Some m /\
            forall v, stat_get v m = zsum (fun r => stat_get v (smap ds na r k)) (filter (same_key cats na o) l).
Proof. exact uniq_merged. Qed.

(** -m key:weight on raw records: per value of [key] the summed WEIGHT of the records of the class *)
Theorem C06_merged_maps_weighted : forall cats ds sts na h n nosingleton l o k, pos_counts l -> typed cats l ->
  In o (uniq h n cats ds sts na nosingleton l) -> In k sts ->
  (forall r, In r l -> lookup k (umerged r) = None) ->
  exists m, lookup k (umerged o) = Some m /\
    forall v, stat_get v m =
              zsum (fun r => if v =? sval na r (fst (ds k)) then wgt ds r k else 0%Z) (filter (same_key cats na o) l).
Proof. exact uniq_merged_raw. Qed.

(** the total count is conserved *)
Theorem C06_total_conserved : forall cats ds sts na h nchunks l, pos_counts l ->
  zsum ucount (uniq h nchunks cats ds sts na false l) = zsum ucount l.
Proof. exact uniq_total_conserved. Qed.

(** the total WEIGHT of every requested slot is conserved: over the data set ... *)
Theorem C06_weight_conserved : forall cats ds sts na h n l k, In k sts -> pos_counts l ->
  zsum (mtotal k) (uniq h n cats ds sts na false l) = zsum (wcontrib ds na k) l.
Proof. exact uniq_weight_conserved. Qed.

(** ... and inside every class (with or without --no-singleton); [wcontrib] of a raw record is its weight *)
Theorem C06_class_weight_conserved : forall cats ds sts na h n nosingleton l k, In k sts -> pos_counts l ->
  forall o, In o (uniq h n cats ds sts na nosingleton l) ->
  exists x m, In x l /\ useq o = useq x /\ lookup k (umerged o) = Some m /\
              zsum snd m = zsum (wcontrib ds na k) (filter (same_key cats na x) l).
Proof. exact uniq_class_wtotal. Qed.

Theorem C06_weight_of_raw_record : forall ds na k r, lookup k (umerged r) = None -> wcontrib ds na k r = wgt ds r k.
Proof. exact wcontrib_raw. Qed.

(** counts < 1 (outside the property): the count of a class then depends on the merge order and is not the sum *)
Theorem C06_count_is_sum_nonpositive_refuted : exists l l' o o',
  Permutation l l' /\ In o (uniq sum_hash 1 [] dflt [] 9 false l) /\ In o' (uniq sum_hash 1 [] dflt [] 9 false l') /\
  useq o = useq o' /\ ucount o <> ucount o' /\ ucount o <> zsum ucount l.
Proof. exact count_is_sum_nonpositive_refuted. Qed.

(** every output record has a count >= 1, whatever the input (SetCount) *)
Theorem C06_output_counts_positive : forall na cats ds sts h n nosingleton l, pos_counts (uniq h n cats ds sts na nosingleton l).
Proof. exact uniq_out_pos. Qed.

(** --no-singleton: the total decreases by exactly the number of dropped classes, ... *)
Theorem C06_total_conserved_nosingleton : forall cats ds sts na h nchunks l, pos_counts l ->
  (zsum ucount (uniq h nchunks cats ds sts na true l) +
   Z.of_nat (length (filter (fun g => negb (keep true g)) (batches h nchunks cats na l))))%Z = zsum ucount l.
Proof. exact uniq_total_nosingleton. Qed.

(** ... what is dropped is a whole class made of one record of count 1, ... *)
Theorem C06_nosingleton_drops_whole_classes : forall cats na h nchunks l g,
  In g (filter (fun g => negb (keep true g)) (batches h nchunks cats na l)) ->
  exists r, g = [r] /\ In r l /\ ucount r = 1%Z /\ filter (same_key cats na r) l = [r].
Proof. exact dropped_char. Qed.

(** ... the keys that remain are exactly those whose class is not such a singleton, ... *)
Theorem C06_nosingleton_keys : forall cats ds sts na h nchunks l k, typed cats l ->
  (In k (map (key cats na) (uniq h nchunks cats ds sts na true l)) <->
   exists x, In x l /\ key cats na x = k /\ singleton_one cats na x l = false).
Proof. exact uniq_nosingleton_keys. Qed.

(** ... and with counts >= 1 such a singleton is exactly a class of total count 1 *)
Theorem C06_singleton_is_total_one : forall cats na l x,
  (forall r, In r l -> (1 <= ucount r)%Z) -> In x l ->
  (singleton_one cats na x l = true <-> zsum ucount (filter (same_key cats na x) l) = 1%Z).
Proof. exact singleton_one_total. Qed.

(** an annotation survives iff every record of the class carries it with the same TYPED value *)
Theorem C06_surviving_annotations : forall cats ds sts na h nchunks nosingleton l o k v, typed cats l ->
  (forall r, In r l -> wf r) -> In o (uniq h nchunks cats ds sts na nosingleton l) ->
  (In (k, v) (uann o) <-> forall r, In r (filter (same_key cats na o) l) -> lookup k (uann r) = Some v).
Proof. exact uniq_ann. Qed.

(** the set of output records (projection: sequence, category values, count, requested merged maps,
    surviving annotations; NOT the id inherited from the first member) does not depend on the arrival
    order, on the hash function, nor on the number of chunks; workers only change the arrival order.
    With C06_one_per_key on both sides this is a bijection between the two outputs. *)
Theorem C06_order_hash_chunks_independent : forall cats ds sts na h n h' n' nosingleton l l',
  Permutation l l' -> pos_counts l -> typed cats l -> (forall r, In r l -> wf r) ->
  forall o, In o (uniq h n cats ds sts na nosingleton l) ->
  exists o', In o' (uniq h' n' cats ds sts na nosingleton l') /\ same_proj cats sts na o o'.
Proof. exact uniq_independent. Qed.

Theorem C06_order_independent : forall cats ds sts na h n nosingleton l l',
  Permutation l l' -> pos_counts l -> typed cats l -> (forall r, In r l -> wf r) ->
  forall o, In o (uniq h n cats ds sts na nosingleton l) ->
  exists o', In o' (uniq h n cats ds sts na nosingleton l') /\ same_proj cats sts na o o'.
Proof. exact uniq_order_independent. Qed.

(** in-memory mode vs on-disk mode.  [uniq_disk] writes every hash chunk to a file, reads it back ([rt] = one
    record through the FASTA/FASTQ + JSON-header writer and the reader) and processes the files in directory order
    ([ord]).  GIVEN that the write/read round trip returns the modelled fields of every record of the data set
    unchanged — the statement of C02_fasta_roundtrip / C02_fastq_roundtrip projected on (sequence, count, typed
    annotations, merged maps); it is a hypothesis here, listed in TRUSTED, and re-checked on every on-disk case of
    every run (each chunk file as re-read by the implementation against what was written) — the two modes produce
    the same multiset of output records.  No typing hypothesis. *)
Section DiskMode.
  Variable rt : urec -> urec.
  Variable ord : list (list urec) -> list (list urec).
  Variable l : list urec.
  Hypothesis C02_fasta_fastq_roundtrip_projected : forall r, In r l -> rt r = r.
  Hypothesis directory_order_is_a_rearrangement : forall gs, Permutation (ord gs) gs.

  Theorem C06_disk_equals_memory : forall h n cats ds sts na nosingleton,
    Permutation (uniq_disk h n cats ds sts na nosingleton rt ord l) (uniq h n cats ds sts na nosingleton l).
  Proof.
    exact (fun h n cats ds sts na ns =>
             disk_equals_memory h n cats ds sts na ns rt ord l
                                C02_fasta_fastq_roundtrip_projected directory_order_is_a_rearrangement).
  Qed.
End DiskMode.

(** without weight attribute, when the already merged inputs are consistent (their map adds up to their count),
    the weights of the merged_<k> map of the output add up to the count of the record *)
Theorem C06_map_total_is_count : forall cats ds sts na h n nosingleton l k,
  In k sts -> snd (ds k) = None -> pos_counts l -> (forall r, In r l -> consistent k r) ->
  forall o, In o (uniq h n cats ds sts na nosingleton l) ->
  exists m, lookup k (umerged o) = Some m /\ zsum snd m = ucount o.
Proof. exact uniq_map_total. Qed.

(** counts >= 1 and weights >= 1 on the input give counts >= 1 and weights >= 1 on the output (no weight attribute:
    a weight attribute may legitimately be 0 or absent) *)
Theorem C06_weights_positive : forall cats ds sts na h n nosingleton l, unweighted ds sts ->
  (forall r, In r l -> pos_rec r) ->
  forall o, In o (uniq h n cats ds sts na nosingleton l) -> pos_rec o.
Proof. exact uniq_pos. Qed.

(** obiuniq -m k | obidemerge -d k | obiuniq -m k = obiuniq -m k : every record of the second dereplication
    is a record of the first one (same sequence, same merged_<k> map as a function value -> weight, count =
    total of the map — the count itself by C06_map_total_is_count), for any hash / chunk count on both passes ... *)
Theorem C06_demerge_inverse : forall na k h n h' n' l,
  (forall r, In r l -> pos_rec r) ->
  forall o2, In o2 (uniq h' n' [] dflt [k] na false (demerge k (uniq h n [] dflt [k] na false l))) ->
  exists o1 m1 m2, In o1 (uniq h n [] dflt [k] na false l) /\ useq o2 = useq o1 /\
    lookup k (umerged o1) = Some m1 /\ lookup k (umerged o2) = Some m2 /\
    (forall v, stat_get v m2 = stat_get v m1) /\ ucount o2 = zsum snd m1.
Proof. exact demerge_inverse_pos. Qed.

(** ... and no record is lost on the way (sequences are unique in both outputs by C06_one_per_key) *)
Theorem C06_demerge_inverse_onto : forall na k h n h' n' l o1 m1,
  In o1 (uniq h n [] dflt [k] na false l) -> lookup k (umerged o1) = Some m1 -> m1 <> [] ->
  exists o2, In o2 (uniq h' n' [] dflt [k] na false (demerge k (uniq h n [] dflt [k] na false l))) /\ useq o2 = useq o1.
Proof. exact demerge_inverse_onto. Qed.

(** non-vacuity: a multiset with duplicates, an already merged record, a weighted statistic and a singleton meets the
    hypotheses (typed, wf, counts >= 1), and the model really merges it (4 records, 3 keys, 2 left with
    --no-singleton; total weight 5 + 0 + 2 conserved) *)
Example C06_nonvacuous :
  let s5 := mkval 0 5 5 5 None in let s6 := mkval 0 6 6 6 None in let s7 := mkval 0 7 7 7 None in
  let w := fun z => mkval 1 20 20 20 (Some z) in
  let l := [mkrec [97; 99] 1 [(1, s5); (3, w 5%Z)] []; mkrec [97; 99] 3 [(1, s6)] [(1, [(5, 2%Z); (6, 1%Z)])];
            mkrec [103] 1 [] []; mkrec [97; 99] 2 [(1, s5); (2, s7); (3, w 2%Z)] []] in
  let dsw : dspec := fun s => if s =? 4 then (1, Some 3) else (s, None) in
  typed [1] l /\ (forall r, In r l -> wf r) /\ pos_counts l /\
  length (uniq sum_hash 7 [1] dflt [1] 9 false l) = 3%nat /\ length (uniq sum_hash 7 [1] dflt [1] 9 true l) = 2%nat /\
  zsum ucount (uniq sum_hash 7 [1] dflt [1] 9 false l) = 7%Z /\
  zsum (mtotal 4) (uniq sum_hash 7 [1] dsw [4] 9 false l) = 7%Z /\
  length (uniq sum_hash 2 [] dflt [1] 9 false (demerge 1 (uniq sum_hash 7 [] dflt [1] 9 false l))) = 2%nat.
Proof.
  cbv zeta. split; [|split; [|split; [|split; [|split; [|split; [|split]]]]]]; try (vm_compute; reflexivity).
  - intros x r c Hx Hr [Hc|[]]. subst c. intros w0 v' Hw Hl Hp. cbn in Hx, Hr.
    repeat (destruct Hx as [Hx|Hx]; [subst x|]); try destruct Hx;
    repeat (destruct Hr as [Hr|Hr]; [subst r|]); try destruct Hr;
    cbn in Hw, Hl; repeat (destruct Hw as [Hw|Hw]; [inversion Hw; subst w0|]); try destruct Hw;
    try discriminate; inversion Hl; subst v'; try reflexivity; cbn in Hp; discriminate.
  - intros r H. cbn in H. unfold wf. repeat (destruct H as [H|H]; [subst r; cbn; repeat constructor; cbn; intuition discriminate|]). destruct H.
  - intros r H. cbn in H. repeat (destruct H as [H|H]; [subst r; cbn; discriminate|]). destruct H.
Qed.


(** ---------------------------------------------------------------------------------------------------- round 3
    The class-code tables of AnnotationClassifier / SequenceClassifier ([code1] = Code(), [cvalue] = Value(), the empty
    table = Reset / Clone; Model.v) and the splitting of a batch by ISequenceSubChunk ([coded]: every record gets its code,
    any sort by code, [classes_of_sorted]: the maximal runs of equal codes).  The model is compared with the real classifier
    objects (histories of Code / Value / Reset / Clone calls) and with the real ISequenceSubChunk on every run. *)

(** Value(Code(v)) = v ... *)
Theorem C06_classifier_value_of_code : forall tbl v, cvalue (snd (code1 tbl v)) (fst (code1 tbl v)) = Some v.
Proof. exact code1_value. Qed.

(** ... and a code stays decodable while further values are coded (until the next Reset) *)
Theorem C06_classifier_code_stays_valid : forall tbl v k w, cvalue tbl k = Some w -> cvalue (snd (code1 tbl v)) k = Some w.
Proof. exact code1_keeps. Qed.

(** since the last Reset two records get the same code iff the classifier reads the same value from them *)
Theorem C06_classifier_codes_separate : forall vs i j vi vj, nth_error vs i = Some vi -> nth_error vs j = Some vj ->
  (nth_error (encode_from [] vs) i = nth_error (encode_from [] vs) j <-> vi = vj).
Proof. exact codes_separate. Qed.

(** the table after a batch lists the values in order of first appearance: the classes of [groups] *)
Theorem C06_classifier_table_is_first_appearance : forall vs, table_after [] vs = dedup vs.
Proof. exact table_is_dedup. Qed.

(** histories of calls on one classifier object ([run_hist], compared step by step with the real objects): whatever
    happened before — Resets included — a value coded at step [length pre] is returned by Value() of that code at any
    later step, as long as no Reset (or Clone) occurs in between.  (False of the unchanged AnnotationClassifier, whose
    Reset kept the code counter: fixed finding.) *)
Theorem C06_classifier_value_after_code : forall pre v mid post, no_reset mid ->
  nth_error (run_hist [] [] (pre ++ SCode v :: mid ++ SValue (length pre) :: post)) (length pre + 1 + length mid) = Some (OVal (Some v)).
Proof. exact value_after_code. Qed.

(** after a Reset the codes restart at 0 *)
Theorem C06_classifier_reset_restarts : forall pre v, run_hist [] [] (pre ++ [SReset; SCode v]) = run_hist [] [] pre ++ [ONone; OCode 0].
Proof. exact reset_restarts. Qed.

Example C06_classifier_history_nonvacuous :
  run_hist [] [] [SCode [1]; SCode [2]; SReset; SCode [2]; SCode [3]; SValue 3; SValue 4]
  = [OCode 0; OCode 1; ONone; OCode 0; OCode 1; OVal (Some [2]); OVal (Some [3])] /\ no_reset [SCode [3]].
Proof. split; [reflexivity | intros st [E|[]]; subst st; discriminate]. Qed.

(** ISequenceSubChunk: WHATEVER rearrangement sorted by code sort.Sort (not stable) produces, the batches pushed (maximal
    runs of equal code) are, in order, rearrangements of the classes [groups f b] the dereplication model works with
    ([groups f l = groupsA f l] by definition) — the order inside a class is the only freedom, and
    C06_order_hash_chunks_independent shows the output does not depend on it *)
Theorem C06_subchunk_any_sort : forall (A : Type) (f : A -> list N) (b : list A) (s : list (nat * A)),
  Permutation s (coded f b) -> StronglySorted le (map fst s) ->
  Forall2 (@Permutation A) (classes_of_sorted s) (groupsA f b).
Proof. exact @subchunk_any_sort. Qed.

Theorem C06_subchunk_spec_is_groups : forall f l, groups f l = groupsA f l.
Proof. exact groups_is_groupsA. Qed.

(** with the stable sort the model evaluates (and sort.Sort on batches of at most 12 records), exactly the model's classes *)
Theorem C06_subchunk_stable : forall (A : Type) (f : A -> list N) (b : list A), subchunk f b = groupsA f b.
Proof. exact @subchunk_stable. Qed.

(** obidemerge -d key:weight (slot k, attribute a): one record per entry of merged_<k>, carrying the value in attribute a
    and the weight (at least 1: SetCount) as its count; same nucleotides, slot removed *)
Theorem C06_demerge_weighted : forall a k r m, lookup k (umerged r) = Some m ->
  map (fun r' => (lookup a (uann r'), ucount r')) (demerge1w a k r) = map (fun vw => (Some (strval (fst vw)), clamp1 (snd vw))) m /\
  forall r', In r' (demerge1w a k r) -> useq r' = useq r /\ lookup k (umerged r') = None.
Proof. exact demerge1w_spec. Qed.

(** obiuniq -m key:w | obidemerge -d key:w | obiuniq -m key (slot s = key:w with descriptor [ds s], attribute a = key):
    every record of the last dereplication is a record of the first one — same nucleotides, merged_<key> = the
    merged_<key:w> map of the first pass, count = total of that map — provided the weights of the first pass are >= 1
    (a weight < 1 demerges to a count of 1: SetCount, outside the property) and its records carry no other merged_<key>
    map ([a = s] is obiuniq -m k | obidemerge -d k | obiuniq -m k with weighted or unweighted first pass) *)
Theorem C06_demerge_weighted_inverse : forall na a s ds h n h' n' l, pos_counts l ->
  (forall o m vw, In o (uniq h n [] ds [s] na false l) -> lookup s (umerged o) = Some m -> In vw m -> (1 <= snd vw)%Z) ->
  (forall o, In o (uniq h n [] ds [s] na false l) -> a = s \/ lookup a (umerged o) = None) ->
  forall o2, In o2 (uniq h' n' [] dflt [a] na false (demergew a s (uniq h n [] ds [s] na false l))) ->
  exists o1 m1 m2, In o1 (uniq h n [] ds [s] na false l) /\ useq o2 = useq o1 /\
    lookup s (umerged o1) = Some m1 /\ lookup a (umerged o2) = Some m2 /\
    (forall v, stat_get v m2 = stat_get v m1) /\ ucount o2 = zsum snd m1.
Proof. exact demergew_inverse. Qed.

(** non-vacuity: three reads of one sequence, samples 5 / 6 / 5 with weights 5 / 7 / 2 (attribute 3), slot 4 = 1:3:
    the first pass gives merged_4 = {5: 7, 6: 7} (weights >= 1, no merged_1), demerging gives two records of count 7 with
    attribute 1 = 5 and 6, the last pass gives back merged_1 = {5: 7, 6: 7} and count 14 *)
Example C06_demerge_weighted_nonvacuous :
  let s5 := mkval 0 5 5 5 None in let s6 := mkval 0 6 6 6 None in let w := fun z => mkval 1 20 20 20 (Some z) in
  let l := [mkrec [97] 1 [(1, s5); (3, w 5%Z)] []; mkrec [97] 2 [(1, s6); (3, w 7%Z)] []; mkrec [97] 1 [(1, s5); (3, w 2%Z)] []] in
  let dsw : dspec := fun s => if s =? 4 then (1, Some 3) else (s, None) in
  map (fun o => (lookup 4 (umerged o), lookup 1 (umerged o))) (uniq sum_hash 3 [] dsw [4] 9 false l) = [(Some [(5, 7%Z); (6, 7%Z)], None)] /\
  map (fun o => (ucount o, lookup 1 (uann o))) (demergew 1 4 (uniq sum_hash 3 [] dsw [4] 9 false l)) = [(7%Z, Some s5); (7%Z, Some s6)] /\
  map (fun o => (ucount o, lookup 1 (umerged o))) (uniq sum_hash 2 [] dflt [1] 9 false (demergew 1 4 (uniq sum_hash 3 [] dsw [4] 9 false l)))
    = [(14%Z, Some [(5, 7%Z); (6, 7%Z)])].
Proof. cbv zeta. repeat split; vm_compute; reflexivity. Qed.

(** non-vacuity: an UNSTABLE sorted rearrangement of a coded batch (the two records of class [5] swapped) meets the
    hypotheses of C06_subchunk_any_sort; its runs differ from the model's classes by the order inside the class only *)
Example C06_subchunk_nonvacuous :
  let b := [(1, [5]); (2, [6]); (3, [5])] in
  let s := [(0%nat, (3, [5])); (0%nat, (1, [5])); (1%nat, (2, [6]))] in
  coded snd b = [(0%nat, (1, [5])); (1%nat, (2, [6])); (0%nat, (3, [5]))] /\
  Permutation s (coded snd b) /\ StronglySorted le (map fst s) /\
  classes_of_sorted s = [[(3, [5]); (1, [5])]; [(2, [6])]] /\ groupsA snd b = [[(1, [5]); (3, [5])]; [(2, [6])]] /\
  subchunk snd b = groupsA snd b.
Proof.
  cbv zeta. split; [reflexivity|]. split.
  - change (coded snd [(1, [5]); (2, [6]); (3, [5])]) with [(0%nat, (1, [5])); (1%nat, (2, [6])); (0%nat, (3, [5]))].
    eapply perm_trans; [apply perm_swap|]. apply perm_skip. apply perm_swap.
  - split; [repeat constructor|]. split; [reflexivity|]. split; reflexivity.
Qed.

Print Assumptions C06_classes_exact.
Print Assumptions C06_output_is_merged_class.
Print Assumptions C06_one_per_key.
Print Assumptions C06_one_per_key_refuted.
Print Assumptions C06_keys_exact.
Print Assumptions C06_keys_exact_refuted.
Print Assumptions C06_count_is_sum.
Print Assumptions C06_merged_maps.
Print Assumptions C06_merged_maps_weighted.
Print Assumptions C06_total_conserved.
Print Assumptions C06_weight_conserved.
Print Assumptions C06_class_weight_conserved.
Print Assumptions C06_weight_of_raw_record.
Print Assumptions C06_count_is_sum_nonpositive_refuted.
Print Assumptions C06_output_counts_positive.
Print Assumptions C06_total_conserved_nosingleton.
Print Assumptions C06_nosingleton_drops_whole_classes.
Print Assumptions C06_nosingleton_keys.
Print Assumptions C06_singleton_is_total_one.
Print Assumptions C06_surviving_annotations.
Print Assumptions C06_order_hash_chunks_independent.
Print Assumptions C06_order_independent.
Print Assumptions C06_disk_equals_memory.
Print Assumptions C06_map_total_is_count.
Print Assumptions C06_weights_positive.
Print Assumptions C06_demerge_inverse.
Print Assumptions C06_demerge_inverse_onto.
Print Assumptions C06_classifier_value_of_code.
Print Assumptions C06_classifier_code_stays_valid.
Print Assumptions C06_classifier_codes_separate.
Print Assumptions C06_classifier_table_is_first_appearance.
Print Assumptions C06_subchunk_any_sort.
Print Assumptions C06_subchunk_spec_is_groups.
Print Assumptions C06_demerge_weighted.
Print Assumptions C06_demerge_weighted_inverse.
Print Assumptions C06_subchunk_stable.
Print Assumptions C06_classifier_value_after_code.
Print Assumptions C06_classifier_reset_restarts.
