(** C06 — property theorems (statements only; every proof is [exact] of a lemma of Proofs.v).
    Dereplication conserves counts and merges exactly the identical records.

    [uniq h nchunks cats sts na nosingleton l] is the model of obichunk.IUniqueSequence (Model.v):
    [h] is the hash of HashClassifier — a Section variable there, universally quantified here, so every
    theorem holds for ANY hash function and any number of chunks (CRC32 is not trusted).
    [key cats na r] = (nucleotides, values of the category attributes, NA when absent);
    [same_key cats na x r] its boolean equality; [zsum F l] = sum of F over l;
    [smap na r k] = what record r contributes to merged_<k>: its own merged_<k> map when it is already
    merged, else {value of k (NA when absent) |-> count}. *)
From Coq Require Import List NArith ZArith Bool Permutation.
From OBI.C06 Require Import Model Proofs.
Import ListNotations.
Open Scope N_scope.

(** the records merged together are exactly the records of one key, all of them, in arrival order *)
Theorem C06_classes_exact : forall cats na h nchunks l g,
  In g (batches h nchunks cats na l) -> exists x, In x l /\ g = filter (same_key cats na x) l.
Proof. exact batches_char. Qed.

(** one output record per distinct key: no key twice (with or without --no-singleton) ... *)
Theorem C06_one_per_key : forall cats sts na h nchunks nosingleton l,
  NoDup (map (key cats na) (uniq h nchunks cats sts na nosingleton l)).
Proof. exact uniq_keys_nodup. Qed.

(** ... and the output keys are exactly the input keys *)
Theorem C06_keys_exact : forall cats sts na h nchunks l k,
  In k (map (key cats na) (uniq h nchunks cats sts na false l)) <-> In k (map (key cats na) l).
Proof. exact uniq_keys_exact. Qed.

(** the count of an output record is the sum of the counts of the input records with its key *)
Theorem C06_count_is_sum : forall cats sts na h nchunks nosingleton l o,
  In o (uniq h nchunks cats sts na nosingleton l) ->
  ucount o = zsum ucount (filter (same_key cats na o) l).
Proof. exact uniq_count. Qed.

(** every requested merged_<k> map gives, per value, the summed weight of the records of the class
    (already merged inputs contribute their own map) *)
Theorem C06_merged_maps : forall cats sts na h nchunks nosingleton l o k,
  In o (uniq h nchunks cats sts na nosingleton l) -> In k sts ->
  exists m, lookup k (umerged o) = Some m /\
            forall v, stat_get v m = zsum (fun r => stat_get v (smap na r k)) (filter (same_key cats na o) l).
Proof. exact uniq_merged. Qed.

(** the total count is conserved *)
Theorem C06_total_conserved : forall cats sts na h nchunks l,
  zsum ucount (uniq h nchunks cats sts na false l) = zsum ucount l.
Proof. exact uniq_total_conserved. Qed.

(** --no-singleton: the total decreases by exactly the number of dropped classes, ... *)
Theorem C06_total_conserved_nosingleton : forall cats sts na h nchunks l,
  (zsum ucount (uniq h nchunks cats sts na true l) +
   Z.of_nat (length (filter (fun g => negb (keep true g)) (batches h nchunks cats na l))))%Z = zsum ucount l.
Proof. exact uniq_total_nosingleton. Qed.

(** ... what is dropped is a whole class made of one record of count 1, ... *)
Theorem C06_nosingleton_drops_whole_classes : forall cats na h nchunks l g,
  In g (filter (fun g => negb (keep true g)) (batches h nchunks cats na l)) ->
  exists r, g = [r] /\ In r l /\ ucount r = 1%Z /\ filter (same_key cats na r) l = [r].
Proof. exact dropped_char. Qed.

(** ... the keys that remain are exactly those whose class is not such a singleton, ... *)
Theorem C06_nosingleton_keys : forall cats sts na h nchunks l k,
  In k (map (key cats na) (uniq h nchunks cats sts na true l)) <->
  exists x, In x l /\ key cats na x = k /\ singleton_one cats na x l = false.
Proof. exact uniq_nosingleton_keys. Qed.

(** ... and with counts >= 1 such a singleton is exactly a class of total count 1 *)
Theorem C06_singleton_is_total_one : forall cats na l x,
  (forall r, In r l -> (1 <= ucount r)%Z) -> In x l ->
  (singleton_one cats na x l = true <-> zsum ucount (filter (same_key cats na x) l) = 1%Z).
Proof. exact singleton_one_total. Qed.

(** an annotation survives iff every record of the class carries it with the same value *)
Theorem C06_surviving_annotations : forall cats sts na h nchunks nosingleton l o k v,
  (forall r, In r l -> wf r) -> In o (uniq h nchunks cats sts na nosingleton l) ->
  (In (k, v) (uann o) <-> forall r, In r (filter (same_key cats na o) l) -> lookup k (uann r) = Some v).
Proof. exact uniq_ann. Qed.

(** the set of output records (projection: sequence, category values, count, requested merged maps,
    surviving annotations; NOT the id inherited from the first member) does not depend on the arrival
    order, on the hash function, nor on the number of chunks; workers and memory/disk mode only change
    the arrival order.  With C06_one_per_key on both sides this is a bijection between the two outputs. *)
Theorem C06_order_hash_chunks_independent : forall cats sts na h n h' n' nosingleton l l',
  Permutation l l' -> (forall r, In r l -> wf r) ->
  forall o, In o (uniq h n cats sts na nosingleton l) ->
  exists o', In o' (uniq h' n' cats sts na nosingleton l') /\ same_proj cats sts na o o'.
Proof. exact uniq_independent. Qed.

Theorem C06_order_independent : forall cats sts na h n nosingleton l l',
  Permutation l l' -> (forall r, In r l -> wf r) ->
  forall o, In o (uniq h n cats sts na nosingleton l) ->
  exists o', In o' (uniq h n cats sts na nosingleton l') /\ same_proj cats sts na o o'.
Proof. exact uniq_order_independent. Qed.

(** when the already merged inputs are consistent (their map adds up to their count), the weights of every
    requested merged_<k> map of the output add up to the count of the record *)
Theorem C06_map_total_is_count : forall cats sts na h n nosingleton l k,
  In k sts -> (forall r, In r l -> consistent k r) ->
  forall o, In o (uniq h n cats sts na nosingleton l) ->
  exists m, lookup k (umerged o) = Some m /\ zsum snd m = ucount o.
Proof. exact uniq_map_total. Qed.

(** counts >= 1 and weights >= 1 on the input give counts >= 1 and weights >= 1 on the output *)
Theorem C06_weights_positive : forall cats sts na h n nosingleton l,
  (forall r, In r l -> pos_rec r) ->
  forall o, In o (uniq h n cats sts na nosingleton l) -> pos_rec o.
Proof. exact uniq_pos. Qed.

(** obiuniq -m k | obidemerge -d k | obiuniq -m k = obiuniq -m k : every record of the second dereplication
    is a record of the first one (same sequence, same merged_<k> map as a function value -> weight, count =
    total of the map — the count itself by C06_map_total_is_count), for any hash / chunk count on both passes ... *)
Theorem C06_demerge_inverse : forall na k h n h' n' l,
  (forall r, In r l -> pos_rec r) ->
  forall o2, In o2 (uniq h' n' [] [k] na false (demerge k (uniq h n [] [k] na false l))) ->
  exists o1 m1 m2, In o1 (uniq h n [] [k] na false l) /\ useq o2 = useq o1 /\
    lookup k (umerged o1) = Some m1 /\ lookup k (umerged o2) = Some m2 /\
    (forall v, stat_get v m2 = stat_get v m1) /\ ucount o2 = zsum snd m1.
Proof. exact demerge_inverse_pos. Qed.

(** ... and no record is lost on the way (sequences are unique in both outputs by C06_one_per_key) *)
Theorem C06_demerge_inverse_onto : forall na k h n h' n' l o1 m1,
  In o1 (uniq h n [] [k] na false l) -> lookup k (umerged o1) = Some m1 -> m1 <> [] ->
  exists o2, In o2 (uniq h' n' [] [k] na false (demerge k (uniq h n [] [k] na false l))) /\ useq o2 = useq o1.
Proof. exact demerge_inverse_onto. Qed.

(** non-vacuity: a multiset with duplicates, an already merged record and a singleton meets the
    hypotheses, and the model really merges it (4 records, 3 keys, 2 left with --no-singleton) *)
Example C06_nonvacuous :
  let l := [mkrec [97; 99] 1 [(1, 5)] []; mkrec [97; 99] 3 [(1, 6)] [(1, [(5, 2%Z); (6, 1%Z)])];
            mkrec [103] 1 [] []; mkrec [97; 99] 2 [(1, 5); (2, 7)] []] in
  (forall r, In r l -> wf r) /\ (forall r, In r l -> (1 <= ucount r)%Z) /\
  length (uniq sum_hash 7 [1] [1] 9 false l) = 3%nat /\ length (uniq sum_hash 7 [1] [1] 9 true l) = 2%nat /\
  zsum ucount (uniq sum_hash 7 [1] [1] 9 false l) = 7%Z /\
  (forall r, In r l -> pos_rec r /\ consistent 1 r) /\
  length (uniq sum_hash 2 [] [1] 9 false (demerge 1 (uniq sum_hash 7 [] [1] 9 false l))) = 2%nat.
Proof.
  cbv zeta. split; [|split; [|split; [|split; [|split; [|split]]]]]; try (vm_compute; reflexivity).
  - intros r H. cbn in H. unfold wf. repeat (destruct H as [H|H]; [subst r; cbn; repeat constructor; cbn; intuition discriminate|]). destruct H.
  - intros r H. cbn in H. repeat (destruct H as [H|H]; [subst r; cbn; discriminate|]). destruct H.
  - intros r H. cbn in H. unfold pos_rec, pos_stats, consistent.
    repeat (destruct H as [H|H]; [subst r; cbn; split; [split; [discriminate|]; intros k m Hin; repeat (destruct Hin as [Hin|Hin]; [inversion Hin; subst; intros vw Hvw; cbn in Hvw; repeat (destruct Hvw as [Hvw|Hvw]; [subst vw; cbn; discriminate|]); destruct Hvw|]); destruct Hin | intros m Hm; try discriminate; inversion Hm; subst; reflexivity]|]). destruct H.
Qed.

Print Assumptions C06_classes_exact.
Print Assumptions C06_one_per_key.
Print Assumptions C06_keys_exact.
Print Assumptions C06_count_is_sum.
Print Assumptions C06_merged_maps.
Print Assumptions C06_total_conserved.
Print Assumptions C06_total_conserved_nosingleton.
Print Assumptions C06_nosingleton_drops_whole_classes.
Print Assumptions C06_nosingleton_keys.
Print Assumptions C06_singleton_is_total_one.
Print Assumptions C06_surviving_annotations.
Print Assumptions C06_order_hash_chunks_independent.
Print Assumptions C06_order_independent.
Print Assumptions C06_map_total_is_count.
Print Assumptions C06_weights_positive.
Print Assumptions C06_demerge_inverse.
Print Assumptions C06_demerge_inverse_onto.
