(** C06 — executable model of dereplication (pkg/obichunk IUniqueSequence, pkg/obiseq Merge / classifiers).

    A record is its nucleotide string (bytes), its count ([Count()]: 1 when the attribute is absent), its
    plain annotations (key code |-> value code; a value is modelled by its printed form, [fmt.Sprint]) and
    its [merged_<k>] maps (key code |-> association list value code |-> weight).
    Association lists only (stdlib); executable definitions only — proofs are in Proofs.v. *)
From Coq Require Import List NArith ZArith Bool.
Import ListNotations.
Open Scope N_scope.

Fixpoint lookup {V : Type} (k : N) (m : list (N * V)) : option V :=
  match m with
  | [] => None
  | (k', v) :: t => if k =? k' then Some v else lookup k t
  end.

Fixpoint lN_eqb (a b : list N) : bool :=
  match a, b with
  | [], [] => true
  | x :: a', y :: b' => (x =? y) && lN_eqb a' b'
  | _, _ => false
  end.

(** ---------- merged_<k> statistics: association lists value |-> weight (Go: StatsOnValues) *)
Definition stats := list (N * Z).

(* weight recorded for value v (all entries with that value) *)
Fixpoint stat_get (v : N) (m : stats) : Z :=
  match m with
  | [] => 0%Z
  | (v', w) :: t => Z.add (if v =? v' then w else 0%Z) (stat_get v t)
  end.

(* stats[sval] = old + weight   (StatsPlusOne) *)
Fixpoint stat_add (v : N) (w : Z) (m : stats) : stats :=
  match m with
  | [] => [(v, w)]
  | (v', w') :: t => if v =? v' then (v', (w' + w)%Z) :: t else (v', w') :: stat_add v w t
  end.

(* StatsOnValues.Merge *)
Definition stat_merge (m m2 : stats) : stats :=
  fold_left (fun acc vw => stat_add (fst vw) (snd vw) acc) m2 m.

(** ---------- records *)
Record urec := mkrec {
  useq : list N;                     (* nucleotides *)
  ucount : Z;                        (* Count() *)
  uann : list (N * N);               (* annotations other than count and merged_* *)
  umerged : list (N * stats)         (* merged_<k> maps already carried by the record *)
}.

(* value of attribute k as seen by AnnotationClassifier / StatsPlusOne: NA when absent *)
Definition aval (na : N) (r : urec) (k : N) : N :=
  match lookup k (uann r) with Some v => v | None => na end.

(* BioSequence.StatsOn: the existing merged_<k> map, or a fresh one holding the record itself *)
Definition smap (na : N) (r : urec) (k : N) : stats :=
  match lookup k (umerged r) with Some m => m | None => [(aval na r k, ucount r)] end.

Definition others (ks : list N) (m : list (N * stats)) : list (N * stats) :=
  filter (fun kv => negb (existsb (N.eqb (fst kv)) ks)) m.

(* the loop "for _, desc := range statsOn { seq.StatsOn(desc, na) }" (statsOn is a Go map: independent slots).
   BioSequence.Merge creates the maps lazily at its first call, before it touches count or annotations:
   hoisting it here is exact. *)
Definition init (na : N) (sts : list N) (r : urec) : urec :=
  mkrec (useq r) (ucount r) (uann r) (map (fun k => (k, smap na r k)) sts ++ others sts (umerged r)).

(* an annotation of the accumulator survives iff tomerge carries the same value *)
Definition agree (r : urec) (kv : N * N) : bool :=
  match lookup (fst kv) (uann r) with Some v' => snd kv =? v' | None => false end.

(* BioSequence.Merge(tomerge, na, inplace, statsOn) *)
Definition merge2 (na : N) (sts : list N) (acc r : urec) : urec :=
  mkrec (useq acc)
        (ucount acc + ucount r)%Z
        (filter (agree r) (uann acc))
        (map (fun k => (k, match lookup k (umerged r) with
                           | Some mmk => stat_merge (smap na acc k) mmk                      (* tomerge.HasStatsOn *)
                           | None => stat_add (aval na r k) (ucount r) (smap na acc k)        (* StatsPlusOne *)
                           end)) sts ++ others sts (umerged acc)).

(* BioSequenceSlice.Merge: the class is merged into its first record *)
Definition merge_class (na : N) (sts : list N) (b : list urec) : list urec :=
  match b with
  | [] => []
  | r :: rest => [fold_left (merge2 na sts) rest (init na sts r)]
  end.

(** ---------- classification *)
(* distinct classes in order of first appearance (the encode table of a classifier) *)
Fixpoint dedup (l : list (list N)) : list (list N) :=
  match l with
  | [] => []
  | c :: t => c :: filter (fun c' => negb (lN_eqb c c')) (dedup t)
  end.

(* f r = class of a record (Code() of a classifier, up to the renaming of codes).
   The classes in order of first appearance, the members of each in arrival order:
   what "classifier codes, sort by code, split" of ISequenceSubChunk (and Distribute for the hash level)
   produce up to the order inside a class (sort.Sort is not stable; C06_order_independent covers it). *)
Definition groups (f : urec -> list N) (l : list urec) : list (list urec) :=
  map (fun c => filter (fun r => lN_eqb c (f r)) l) (dedup (map f l)).

(* successive sub-classification; a class of one record is sent to the output at once
   ("icat < 0 || len(batch.Slice()) == 1" in IUniqueSequence) *)
Fixpoint subclass (fs : list (urec -> list N)) (b : list urec) : list (list urec) :=
  match fs with
  | [] => [b]
  | f :: fs' => flat_map (fun g => match g with [_] => [g] | _ => subclass fs' g end) (groups f b)
  end.

Section Uniq.
  Variable h : list N -> nat.        (* the hash of HashClassifier: ANY function of the sequence *)
  Variable nchunks : nat.
  Variable cats : list N.            (* -c, in command line order *)
  Variable sts : list N.             (* -m *)
  Variable na : N.
  Variable nosingleton : bool.

  Definition hash_class (r : urec) : list N := [N.of_nat (Nat.modulo (h (useq r)) nchunks)].
  Definition cat_class (c : N) (r : urec) : list N := [aval na r c].
  (* hash chunk, then sequence, then cat[n-1], ..., cat[0] *)
  Definition levels : list (urec -> list N) := hash_class :: useq :: map cat_class (rev cats).

  Definition batches (l : list urec) : list (list urec) := subclass levels l.

  (* "!(opts.NoSingleton() && len(batch.Slice()) == 1 && batch.Slice()[0].Count() == 1)" *)
  Definition keep (b : list urec) : bool :=
    negb (nosingleton && match b with [r] => (ucount r =? 1)%Z | _ => false end).

  Definition uniq (l : list urec) : list urec :=
    flat_map (merge_class na sts) (filter keep (batches l)).
End Uniq.

(** ---------- obidemerge -d k : one record per value of merged_<k>, count = weight *)
Fixpoint mremove {V : Type} (k : N) (m : list (N * V)) : list (N * V) :=
  match m with
  | [] => []
  | (k', v) :: t => if k =? k' then mremove k t else (k', v) :: mremove k t
  end.

Definition demerge1 (k : N) (r : urec) : list urec :=
  match lookup k (umerged r) with
  | Some m => map (fun vw => mkrec (useq r) (if (snd vw <? 1)%Z then 1%Z else snd vw)       (* SetCount: a count < 1 becomes 1 *)
                                   ((k, fst vw) :: mremove k (uann r)) (mremove k (umerged r))) m
  | None => [r]
  end.
Definition demerge (k : N) (l : list urec) : list urec := flat_map (demerge1 k) l.

(** ---------- projection compared with the implementation *)
Record uout := mkout {
  oseq : list N; ocats : list N; ocount : Z; omerged : list (N * stats); oann : list (N * N)
}.

Definition project (na : N) (cats sts : list N) (r : urec) : uout :=
  mkout (useq r) (map (aval na r) cats) (ucount r)
        (map (fun k => (k, match lookup k (umerged r) with Some m => m | None => [] end)) sts) (uann r).

Definition stats_eqb (m m' : stats) : bool :=
  forallb (fun vw => (stat_get (fst vw) m' =? stat_get (fst vw) m)%Z) m &&
  forallb (fun vw => (stat_get (fst vw) m =? stat_get (fst vw) m')%Z) m'.

Definition merged_eqb (a b : list (N * stats)) : bool :=
  (length a =? length b)%nat &&
  forallb (fun km => match lookup (fst km) b with Some m' => stats_eqb (snd km) m' | None => false end) a.

Definition ann_eqb (a b : list (N * N)) : bool :=
  (length a =? length b)%nat &&
  forallb (fun kv => match lookup (fst kv) b with Some v' => snd kv =? v' | None => false end) a.

Definition out_eqb (x y : uout) : bool :=
  lN_eqb (oseq x) (oseq y) && lN_eqb (ocats x) (ocats y) && (ocount x =? ocount y)%Z &&
  merged_eqb (omerged x) (omerged y) && ann_eqb (oann x) (oann y).

(* remove the first element equivalent to x *)
Fixpoint remove1 (x : uout) (l : list uout) : option (list uout) :=
  match l with
  | [] => None
  | y :: t => if out_eqb x y then Some t else
              match remove1 x t with Some t' => Some (y :: t') | None => None end
  end.

Fixpoint same_outs (a b : list uout) : bool :=
  match a with
  | [] => match b with [] => true | _ => false end
  | x :: a' => match remove1 x b with Some b' => same_outs a' b' | None => false end
  end.

(* hash used when the model is evaluated (the result does not depend on it: C06_hash_independent) *)
Definition sum_hash (s : list N) : nat := N.to_nat (fold_left N.add s 0).

Record ccase := mkcase {
  c_op : N;                          (* 0: IUniqueSequence ; 1: obidemerge on the slot [hd c_stats] *)
  c_chunks : nat; c_cats : list N; c_stats : list N; c_na : N; c_nosingleton : bool;
  c_recs : list urec; c_outs : list uout
}.

Definition run_case (c : ccase) : list uout :=
  if c_op c =? 0 then
    map (project (c_na c) (c_cats c) (c_stats c))
        (uniq sum_hash (c_chunks c) (c_cats c) (c_stats c) (c_na c) (c_nosingleton c) (c_recs c))
  else
    map (project (c_na c) [] (c_stats c)) (demerge (hd 0 (c_stats c)) (c_recs c)).

Fixpoint mismatches_from (i : nat) (l : list ccase) : list nat :=
  match l with
  | [] => []
  | c :: l' =>
    let rest := mismatches_from (S i) l' in
    if same_outs (run_case c) (c_outs c) then rest else i :: rest
  end.
Definition mismatches := mismatches_from 0.
