(** C06 — executable model of dereplication (pkg/obichunk IUniqueSequence, pkg/obiseq Merge / classifiers).

    A record is its nucleotide string (bytes), its count ([Count()]: 1 when the attribute is absent), its
    plain annotations (key code |-> TYPED value, see [value]) and its [merged_<k>] maps (slot code |->
    association list value code |-> weight).  Strings are interned to N codes by the renderer (codes start
    at 1; 0 is never a string).
    Association lists only (stdlib); executable definitions only — proofs are in Proofs.v. *)
From Coq Require Import List NArith ZArith Bool.
Import ListNotations.
Open Scope N_scope.

Fixpoint lookup {V : Type} (k : N) (m : list (N * V)) : option V :=
  match m with
  | [] => None
  | (k', v) :: t => if k =? k' then Some v else lookup k t
  end.

Fixpoint lN_eqb (a b : list N) : bool :=
  match a, b with
  | [], [] => true
  | x :: a', y :: b' => (x =? y) && lN_eqb a' b'
  | _, _ => false
  end.

(** ---------- merged_<k> statistics: association lists value |-> weight (Go: StatsOnValues) *)
Definition stats := list (N * Z).

(* weight recorded for value v (all entries with that value) *)
Fixpoint stat_get (v : N) (m : stats) : Z :=
  match m with
  | [] => 0%Z
  | (v', w) :: t => Z.add (if v =? v' then w else 0%Z) (stat_get v t)
  end.

(* stats[sval] = old + weight   (StatsPlusOne) *)
Fixpoint stat_add (v : N) (w : Z) (m : stats) : stats :=
  match m with
  | [] => [(v, w)]
  | (v', w') :: t => if v =? v' then (v', (w' + w)%Z) :: t else (v', w') :: stat_add v w t
  end.

(* StatsOnValues.Merge *)
Definition stat_merge (m m2 : stats) : stats :=
  fold_left (fun acc vw => stat_add (fst vw) (snd vw) acc) m2 m.

(** ---------- typed attribute values (Go interface{} values as the readers / the harness builder produce them) *)
Record value := mkval {
  vtag : N;          (* dynamic type: 0 string, 1 int (OBI-format headers, programmatic), 2 float64 (what the JSON header
                        reader leaves every number, hence every number that went through a chunk file), 3 bool,
                        4 composite ([]interface{}, map[string]interface{}), 5 nil *)
  vprint : N;        (* code of fmt.Sprint(v): what AnnotationClassifier compares *)
  vexact : N;        (* code of the canonical JSON text of v: with vtag, what BioSequence.Merge compares
                        (== for scalars, reflect.DeepEqual otherwise) *)
  vstat : N;         (* code of the key StatsPlusOne uses: the string itself, Sprint of an int / bool,
                        Sprint(int(f)) of an integral float64; 0 = log.Fatalf (other floats, composites, nil) *)
  vint : option Z    (* obiutils.InterfaceToInt: the int, the truncated float64; None for every other type *)
}.

Definition oZ_eqb (a b : option Z) : bool :=
  match a, b with Some x, Some y => (x =? y)%Z | None, None => true | _, _ => false end.

Definition val_eqb (v w : value) : bool :=
  (vtag v =? vtag w) && (vprint v =? vprint w) && (vexact v =? vexact w) && (vstat v =? vstat w) && oZ_eqb (vint v) (vint w).

(* a string value (what obidemerge stores) *)
Definition strval (s : N) : value := mkval 0 s s s None.

(** ---------- records *)
Record urec := mkrec {
  useq : list N;                     (* nucleotides *)
  ucount : Z;                        (* Count() *)
  uann : list (N * value);           (* annotations other than count and merged_* *)
  umerged : list (N * stats)         (* merged_<slot> maps already carried by the record *)
}.

(* value of attribute k as seen by AnnotationClassifier: fmt.Sprint, NA when absent *)
Definition aval (na : N) (r : urec) (k : N) : N :=
  match lookup k (uann r) with Some v => vprint v | None => na end.

(* value of attribute k as seen by StatsPlusOne: NA when absent *)
Definition sval (na : N) (r : urec) (k : N) : N :=
  match lookup k (uann r) with Some v => vstat v | None => na end.

(** statistics descriptors (obiseq.MakeStatsOnDescription): a slot code s (the text after -m, "key" or "key:weight")
    is mapped by [ds] to (code of key, code of the weight attribute if any).  Slot merged_<s>. *)
Definition dspec := N -> N * option N.
Definition dflt : dspec := fun s => (s, None).

(* desc.Weight(r): Count() without weight attribute; else GetIntAttribute(weight), 0 when absent or not a number *)
Definition wgt (ds : dspec) (r : urec) (s : N) : Z :=
  match snd (ds s) with
  | None => ucount r
  | Some w => match lookup w (uann r) with
              | Some v => match vint v with Some z => z | None => 0%Z end
              | None => 0%Z
              end
  end.

(* BioSequence.StatsOn: the existing merged_<s> map, or a fresh one holding the record itself *)
Definition smap (ds : dspec) (na : N) (r : urec) (s : N) : stats :=
  match lookup s (umerged r) with Some m => m | None => [(sval na r (fst (ds s)), wgt ds r s)] end.

Definition others (ks : list N) (m : list (N * stats)) : list (N * stats) :=
  filter (fun kv => negb (existsb (N.eqb (fst kv)) ks)) m.

(* the loop "for _, desc := range statsOn { seq.StatsOn(desc, na) }" (statsOn is a Go map: independent slots).
   BioSequence.Merge creates the maps lazily at its first call, before it touches count or annotations:
   hoisting it here is exact. *)
Definition init (ds : dspec) (na : N) (sts : list N) (r : urec) : urec :=
  mkrec (useq r) (ucount r) (uann r) (map (fun k => (k, smap ds na r k)) sts ++ others sts (umerged r)).

(* an annotation of the accumulator survives iff tomerge carries the same TYPED value ("va != vm" on interface
   values: same dynamic type and same value) *)
Definition agree (r : urec) (kv : N * value) : bool :=
  match lookup (fst kv) (uann r) with Some v' => val_eqb (snd kv) v' | None => false end.

(* BioSequence.SetCount: "if count < 1 { count = 1 }" *)
Definition clamp1 (z : Z) : Z := if (z <? 1)%Z then 1%Z else z.
Definition setcount (r : urec) : urec := mkrec (useq r) (clamp1 (ucount r)) (uann r) (umerged r).

(* BioSequence.Merge(tomerge, na, inplace, statsOn): "count := sequence.Count() + tomerge.Count()" is read before the
   statistics are updated and stored through SetCount at the end *)
Definition merge2 (ds : dspec) (na : N) (sts : list N) (acc r : urec) : urec :=
  mkrec (useq acc)
        (clamp1 (ucount acc + ucount r))
        (filter (agree r) (uann acc))
        (map (fun k => (k, match lookup k (umerged r) with
                           | Some mmk => stat_merge (smap ds na acc k) mmk                              (* tomerge.HasStatsOn *)
                           | None => stat_add (sval na r (fst (ds k))) (wgt ds r k) (smap ds na acc k)  (* StatsPlusOne *)
                           end)) sts ++ others sts (umerged acc)).

(* BioSequenceSlice.Merge: the class is merged into its first record; a class of one record goes through
   "seq.SetCount(seq.Count())" and then the creation of its statistics *)
Definition merge1 (ds : dspec) (na : N) (sts : list N) (x : urec) (rest : list urec) : urec :=
  match rest with
  | [] => init ds na sts (setcount x)
  | _ => fold_left (merge2 ds na sts) rest (init ds na sts x)
  end.
Definition merge_class (ds : dspec) (na : N) (sts : list N) (b : list urec) : list urec :=
  match b with
  | [] => []
  | r :: rest => [merge1 ds na sts r rest]
  end.

(** ---------- classification *)
(* distinct classes in order of first appearance (the encode table of a classifier) *)
Fixpoint dedup (l : list (list N)) : list (list N) :=
  match l with
  | [] => []
  | c :: t => c :: filter (fun c' => negb (lN_eqb c c')) (dedup t)
  end.

(* f r = class of a record (Code() of a classifier, up to the renaming of codes).
   The classes in order of first appearance, the members of each in arrival order:
   what "classifier codes, sort by code, split" of ISequenceSubChunk (and Distribute for the hash level)
   produce up to the order inside a class (sort.Sort is not stable; C06_order_independent covers it). *)
Definition groups (f : urec -> list N) (l : list urec) : list (list urec) :=
  map (fun c => filter (fun r => lN_eqb c (f r)) l) (dedup (map f l)).

(* successive sub-classification; a class of one record is sent to the output at once
   ("icat < 0 || len(batch.Slice()) == 1" in IUniqueSequence) *)
Fixpoint subclass (fs : list (urec -> list N)) (b : list urec) : list (list urec) :=
  match fs with
  | [] => [b]
  | f :: fs' => flat_map (fun g => match g with [_] => [g] | _ => subclass fs' g end) (groups f b)
  end.

(* what happens to one class of a level: a single record goes to the output, else the next levels *)
Definition substep (fs : list (urec -> list N)) (g : list urec) : list (list urec) :=
  match g with [_] => [g] | _ => subclass fs g end.

Section Uniq.
  Variable h : list N -> nat.        (* the hash of HashClassifier: ANY function of the sequence *)
  Variable nchunks : nat.
  Variable cats : list N.            (* -c, in command line order *)
  Variable ds : dspec.               (* -m descriptors: slot |-> (key, weight attribute) *)
  Variable sts : list N.             (* -m slots *)
  Variable na : N.
  Variable nosingleton : bool.

  Definition hash_class (r : urec) : list N := [N.of_nat (Nat.modulo (h (useq r)) nchunks)].
  Definition cat_class (c : N) (r : urec) : list N := [aval na r c].
  (* hash chunk, then sequence, then cat[n-1], ..., cat[0] *)
  Definition levels : list (urec -> list N) := hash_class :: useq :: map cat_class (rev cats).

  Definition batches (l : list urec) : list (list urec) := subclass levels l.

  (* "!(opts.NoSingleton() && len(batch.Slice()) == 1 && batch.Slice()[0].Count() == 1)" *)
  Definition keep (b : list urec) : bool :=
    negb (nosingleton && match b with [r] => (ucount r =? 1)%Z | _ => false end).

  Definition uniq (l : list urec) : list urec :=
    flat_map (merge_class ds na sts) (filter keep (batches l)).

  (** on-disk mode (ISequenceChunkOnDisk, one worker): every hash chunk is written to chunk_<code>.fastx with the
      FASTA/FASTQ + JSON-header writer and read back ([rt] : one record through write + read), the files are processed
      in directory order ([ord] : some rearrangement of the chunks), each file is one batch for the sequence level. *)
  Variable rt : urec -> urec.
  Variable ord : list (list urec) -> list (list urec).
  Definition sublevels : list (urec -> list N) := useq :: map cat_class (rev cats).
  Definition batches_disk (l : list urec) : list (list urec) :=
    flat_map (fun ch => substep sublevels (map rt ch)) (ord (groups hash_class l)).
  Definition uniq_disk (l : list urec) : list urec :=
    flat_map (merge_class ds na sts) (filter keep (batches_disk l)).

  (** StatsPlusOne stops the program (log.Fatalf) on a value that is not a string / integer / boolean: it is called on
      every record of a kept class that does not carry the slot already *)
  Definition statable (r : urec) : bool :=
    forallb (fun s => match lookup s (umerged r) with
                      | Some _ => true
                      | None => match lookup (fst (ds s)) (uann r) with Some v => negb (vstat v =? 0) | None => true end
                      end) sts.
  Definition uniq_run (l : list urec) : option (list urec) :=
    if forallb (forallb statable) (filter keep (batches l)) then Some (uniq l) else None.
End Uniq.

(** ---------- obidemerge -d k : one record per value of merged_<k>, count = weight *)
Fixpoint mremove {V : Type} (k : N) (m : list (N * V)) : list (N * V) :=
  match m with
  | [] => []
  | (k', v) :: t => if k =? k' then mremove k t else (k', v) :: mremove k t
  end.

Definition demerge1 (k : N) (r : urec) : list urec :=
  match lookup k (umerged r) with
  | Some m => map (fun vw => mkrec (useq r) (clamp1 (snd vw))
                                   ((k, strval (fst vw)) :: mremove k (uann r)) (mremove k (umerged r))) m
  | None => [r]
  end.
Definition demerge (k : N) (l : list urec) : list urec := flat_map (demerge1 k) l.

(* obidemerge -d key:weight : the slot is merged_<key:weight> (code k), the values go back to the attribute key (code a);
   [demerge1 k = demerge1w k k] (Proofs.demerge1w_same) *)
Definition demerge1w (a k : N) (r : urec) : list urec :=
  match lookup k (umerged r) with
  | Some m => map (fun vw => mkrec (useq r) (clamp1 (snd vw))
                                   ((a, strval (fst vw)) :: mremove a (uann r)) (mremove k (umerged r))) m
  | None => [r]
  end.
Definition demergew (a k : N) (l : list urec) : list urec := flat_map (demerge1w a k) l.

(** ---------- projection compared with the implementation *)
Record uout := mkout {
  oseq : list N; ocats : list N; ocount : Z; omerged : list (N * stats); oann : list (N * (N * N))   (* key |-> (tag, exact) *)
}.

Definition project (na : N) (cats sts : list N) (r : urec) : uout :=
  mkout (useq r) (map (aval na r) cats) (ucount r)
        (map (fun k => (k, match lookup k (umerged r) with Some m => m | None => [] end)) sts)
        (map (fun kv => (fst kv, (vtag (snd kv), vexact (snd kv)))) (uann r)).

Definition stats_eqb (m m' : stats) : bool :=
  forallb (fun vw => (stat_get (fst vw) m' =? stat_get (fst vw) m)%Z) m &&
  forallb (fun vw => (stat_get (fst vw) m =? stat_get (fst vw) m')%Z) m'.

Definition merged_eqb (a b : list (N * stats)) : bool :=
  (length a =? length b)%nat &&
  forallb (fun km => match lookup (fst km) b with Some m' => stats_eqb (snd km) m' | None => false end) a.

Definition ann_eqb (a b : list (N * (N * N))) : bool :=
  (length a =? length b)%nat &&
  forallb (fun kv => match lookup (fst kv) b with
                     | Some v' => (fst (snd kv) =? fst v') && (snd (snd kv) =? snd v') | None => false end) a.

Definition out_eqb (x y : uout) : bool :=
  lN_eqb (oseq x) (oseq y) && lN_eqb (ocats x) (ocats y) && (ocount x =? ocount y)%Z &&
  merged_eqb (omerged x) (omerged y) && ann_eqb (oann x) (oann y).

(* remove the first element equivalent to x *)
Fixpoint remove1 (x : uout) (l : list uout) : option (list uout) :=
  match l with
  | [] => None
  | y :: t => if out_eqb x y then Some t else
              match remove1 x t with Some t' => Some (y :: t') | None => None end
  end.

Fixpoint same_outs (a b : list uout) : bool :=
  match a with
  | [] => match b with [] => true | _ => false end
  | x :: a' => match remove1 x b with Some b' => same_outs a' b' | None => false end
  end.

(* hash used when the model is evaluated (the result does not depend on it: C06_hash_independent) *)
Definition sum_hash (s : list N) : nat := N.to_nat (N.modulo (fold_left N.add s 0) 13).

Definition ds_of (al : list (N * (N * option N))) : dspec :=
  fun s => match lookup s al with Some d => d | None => (s, None) end.

Record ccase := mkcase {
  c_op : N;                          (* 0: IUniqueSequence in memory ; 2: on disk ; 1: obidemerge on the slot [hd c_stats] *)
  c_chunks : nat; c_cats : list N; c_ds : list (N * (N * option N)); c_stats : list N; c_na : N; c_nosingleton : bool;
  c_recs : list urec;
  c_ign : list N;                    (* annotations left out of the comparison (weight attributes: rewritten by GetIntAttribute) *)
  c_crash : bool;                    (* the implementation stopped in log.Fatalf *)
  c_outs : list uout
}.

Definition run_case (c : ccase) : option (list uout) :=
  if c_op c =? 1 then
    Some (map (project (c_na c) [] (c_stats c)) (demergew (fst (ds_of (c_ds c) (hd 0 (c_stats c)))) (hd 0 (c_stats c)) (c_recs c)))
  else
    match uniq_run sum_hash (c_chunks c) (c_cats c) (ds_of (c_ds c)) (c_stats c) (c_na c) (c_nosingleton c) (c_recs c) with
    | None => None
    | Some outs =>
      Some (map (project (c_na c) (c_cats c) (c_stats c))
                (if c_op c =? 0 then outs
                 else uniq_disk sum_hash (c_chunks c) (c_cats c) (ds_of (c_ds c)) (c_stats c) (c_na c) (c_nosingleton c)
                                (fun r => r) (@rev (list urec)) (c_recs c)))
    end.

Definition ignore (ign : list N) (o : uout) : uout :=
  mkout (oseq o) (ocats o) (ocount o) (omerged o) (filter (fun kv => negb (existsb (N.eqb (fst kv)) ign)) (oann o)).

Fixpoint mismatches_from (i : nat) (l : list ccase) : list nat :=
  match l with
  | [] => []
  | c :: l' =>
    let rest := mismatches_from (S i) l' in
    if match run_case c with
       | None => c_crash c
       | Some outs => negb (c_crash c) && same_outs (map (ignore (c_ign c)) outs) (c_outs c)
       end then rest else i :: rest
  end.
Definition mismatches := mismatches_from 0.

(** ====================================================================================================
    Round 3 — the pieces below IUniqueSequence, modelled one by one and compared with the real functions. *)

(** ---------- the class-code tables of AnnotationClassifier / SequenceClassifier.
    decode table = the values in order of first appearance; the code of a value is its position
    ("k = maxcode; maxcode++; encode[val] = k; decode = append(decode, val)"); Reset = the empty table
    (codes restart at 0); Clone = a classifier with an empty table. *)
Fixpoint index_of (v : list N) (tbl : list (list N)) : option nat :=
  match tbl with
  | [] => None
  | w :: t => if lN_eqb v w then Some 0%nat else option_map S (index_of v t)
  end.

(* Code(): the code of value v and the table afterwards *)
Definition code1 (tbl : list (list N)) (v : list N) : nat * list (list N) :=
  match index_of v tbl with Some k => (k, tbl) | None => (length tbl, tbl ++ [v]) end.

(* the codes of the values vs, coded one after the other from table tbl; the table afterwards *)
Fixpoint encode_from (tbl : list (list N)) (vs : list (list N)) : list nat :=
  match vs with
  | [] => []
  | v :: t => fst (code1 tbl v) :: encode_from (snd (code1 tbl v)) t
  end.
Fixpoint table_after (tbl : list (list N)) (vs : list (list N)) : list (list N) :=
  match vs with
  | [] => tbl
  | v :: t => table_after (snd (code1 tbl v)) t
  end.

(* Value(k) *)
Definition cvalue (tbl : list (list N)) (k : nat) : option (list N) := nth_error tbl k.

(* a history of calls on one classifier object.  [SValue j] decodes the code returned by step j. *)
Inductive cstep := SCode (v : list N) | SValue (j : nat) | SReset.
Inductive cobs := OCode (k : nat) | OVal (v : option (list N)) | ONone.

Fixpoint run_hist (tbl : list (list N)) (codes : list (option nat)) (h : list cstep) : list cobs :=
  match h with
  | [] => []
  | SCode v :: t => OCode (fst (code1 tbl v)) :: run_hist (snd (code1 tbl v)) (codes ++ [Some (fst (code1 tbl v))]) t
  | SValue j :: t => OVal (match nth j codes None with Some k => cvalue tbl k | None => None end) :: run_hist tbl (codes ++ [None]) t
  | SReset :: t => ONone :: run_hist [] (codes ++ [None]) t
  end.

Definition cobs_eqb (a b : cobs) : bool :=
  match a, b with
  | OCode k, OCode k' => (k =? k')%nat
  | OVal (Some v), OVal (Some v') => lN_eqb v v'
  | OVal None, OVal None => true
  | ONone, ONone => true
  | _, _ => false
  end.

Fixpoint all2 {X Y} (p : X -> Y -> bool) (a : list X) (b : list Y) : bool :=
  match a, b with
  | [], [] => true
  | x :: a', y :: b' => if p x y then all2 p a' b' else false
  | _, _ => false
  end.

Fixpoint mism_from {C} (ok : C -> bool) (i : nat) (l : list C) : list nat :=
  match l with
  | [] => []
  | c :: l' => if ok c then mism_from ok (S i) l' else i :: mism_from ok (S i) l'
  end.

(* observed codes are compared up to renaming: the renderer replaces every code by its rank of first appearance since
   the last Reset / Clone, which is what the model's codes are *)
Definition mismatches_cls (l : list (list cstep * list cobs)) : list nat :=
  mism_from (fun c => all2 cobs_eqb (run_hist [] [] (fst c)) (snd c)) 0 l.

(** ---------- ISequenceSubChunk on one batch *)
Section SubChunk.
  Context {A : Type}.
  Variable f : A -> list N.          (* the value the classifier reads from a record *)

  (* a batch of more than one record: Reset, then every record is coded in batch order *)
  Definition coded (b : list A) : list (nat * A) := combine (encode_from [] (map f b)) b.

  (* "last := ordered[0].code; for v in ordered { if v.code != last { push ss; ss = new; last = v.code }; ss = append(ss, v) };
     push ss": the maximal runs of equal codes *)
  Fixpoint runs (l : list (nat * A)) : list (list (nat * A)) :=
    match l with
    | [] => []
    | x :: t => match runs t with
                | (y :: r) :: rs => if (fst x =? fst y)%nat then (x :: y :: r) :: rs else [x] :: (y :: r) :: rs
                | _ => [[x]]
                end
    end.

  (* a stable insertion sort by code (sort.Sort IS an insertion sort on at most 12 elements and is not stable beyond;
     C06_subchunk_any_sort holds for ANY sorted rearrangement, so stability is not assumed) *)
  Fixpoint insert_code (x : nat * A) (l : list (nat * A)) : list (nat * A) :=
    match l with
    | [] => [x]
    | y :: t => if (fst x <=? fst y)%nat then x :: y :: t else y :: insert_code x t
    end.
  Definition sort_codes (l : list (nat * A)) : list (nat * A) := fold_right insert_code [] l.

  Definition classes_of_sorted (s : list (nat * A)) : list (list A) := map (map snd) (runs s).
  Definition subchunk (b : list A) : list (list A) := classes_of_sorted (sort_codes (coded b)).

  (* the specification: [groups] of the dereplication model, for any record type *)
  Definition groupsA (l : list A) : list (list A) :=
    map (fun c => filter (fun r => lN_eqb c (f r)) l) (dedup (map f l)).
End SubChunk.

(* the whole function on a stream of batches: a batch of 0 or 1 record is forwarded as it is (empty batches are not
   compared), a larger one is split into its classes.  Records are (id, value read by the classifier). *)
Definition sub_model (bs : list (list (N * list N))) : list (list N) :=
  flat_map (fun b => match b with [] => [] | [x] => [[fst x]] | _ => map (map fst) (subchunk snd b) end) bs.

(* equality of two lists of ids as sets (ids are distinct), of two lists of classes as multisets *)
Definition ids_eqb (a b : list N) : bool :=
  (length a =? length b)%nat && forallb (fun x => existsb (N.eqb x) b) a.
Fixpoint remove1_by {X} (p : X -> X -> bool) (x : X) (l : list X) : option (list X) :=
  match l with
  | [] => None
  | y :: t => if p x y then Some t else match remove1_by p x t with Some t' => Some (y :: t') | None => None end
  end.
Fixpoint same_by {X} (p : X -> X -> bool) (a b : list X) : bool :=
  match a with
  | [] => match b with [] => true | _ => false end
  | x :: a' => match remove1_by p x b with Some b' => same_by p a' b' | None => false end
  end.

Definition mismatches_sub (l : list (list (list (N * list N)) * list (list N))) : list nat :=
  mism_from (fun c => same_by ids_eqb (sub_model (fst c)) (snd c)) 0 l.

(** ---------- obiiter.MergePipe / IMergeSequenceBatch: every incoming batch is one class, merged into its first record *)
Record mpcase := mkmp {
  m_ds : list (N * (N * option N)); m_stats : list N; m_na : N; m_batches : list (list urec); m_ign : list N; m_outs : list uout
}.
Definition run_mp (c : mpcase) : list uout :=
  map (fun r => ignore (m_ign c) (project (m_na c) [] (m_stats c) r))
      (flat_map (merge_class (ds_of (m_ds c)) (m_na c) (m_stats c)) (m_batches c)).
Definition mismatches_mp (l : list mpcase) : list nat :=
  mism_from (fun c => same_outs (run_mp c) (m_outs c)) 0 l.
