From Coq Require Import ZArith QArith List Lia Lqa Permutation.
From OBI.C08 Require Import VoteModel.
Import ListNotations.

Definition st_shift (s : vstate) : Z := fst (fst s).
Definition st_count (s : vstate) : Z := snd (fst s).
Definition st_score (s : vstate) : Q := snd s.

(** [e] is the winner among [l]: highest score, and the smallest shift among the entries of that score *)
Definition winner (l : list ventry) (e : ventry) : Prop :=
  In e l /\ forall e', In e' l -> v_score e' < v_score e \/ (v_score e' == v_score e /\ (v_shift e <= v_shift e')%Z).

Definition selects (l : list ventry) (s : vstate) : Prop :=
  exists e, winner l e /\ st_shift s = v_shift e /\ st_count s = v_count e /\ st_score s == v_score e.

Lemma vote_select_snoc l x : vote_select (l ++ [x]) = vote_step (vote_select l) x.
Proof. unfold vote_select. now rewrite fold_left_app. Qed.

Lemma vote_selects_winner : forall l, l <> [] -> (forall e, In e l -> 0 <= v_score e) -> selects l (vote_select l).
Proof.
  induction l as [|x l IH] using rev_ind; intros Hne Hpos; [congruence|].
  rewrite vote_select_snoc.
  destruct l as [|y l'].
  - (* first entry visited *)
    cbn [vote_select fold_left app]. unfold vote_step, vote_init.
    assert (Hx : 0 <= v_score x) by (apply Hpos; left; reflexivity).
    destruct (v_score x ?= -1) eqn:C.
    + apply Qeq_alt in C. lra.
    + apply Qlt_alt in C. lra.
    + exists x. split; [|repeat split; reflexivity].
      split; [left; reflexivity|]. intros e' [<-|[]]. right. split; [reflexivity | lia].
  - assert (Hne' : y :: l' <> []) by discriminate.
    specialize (IH Hne' (fun e He => Hpos e (in_or_app _ _ _ (or_introl He)))).
    destruct IH as [e [[Hin Hmax] [Hs [Hc Hq]]]].
    destruct (vote_select (y :: l')) as [[ms mc] msc]. cbn [st_shift st_count st_score fst snd] in *.
    unfold vote_step.
    destruct (v_score x ?= msc) eqn:C.
    + apply Qeq_alt in C. destruct (Z.ltb_spec (v_shift x) ms) as [L|L].
      * exists x. split; [|repeat split; cbn [st_shift st_count st_score fst snd]; try reflexivity; lra].
        split; [apply in_or_app; right; left; reflexivity|].
        intros e' He'. apply in_app_or in He'. destruct He' as [He'|[<-|[]]].
        -- destruct (Hmax e' He') as [H|[H1 H2]]; [left; lra | right; split; [lra | lia]].
        -- right. split; [reflexivity | lia].
      * exists e. split; [|repeat split; cbn [st_shift st_count st_score fst snd]; assumption].
        split; [apply in_or_app; left; exact Hin|].
        intros e' He'. apply in_app_or in He'. destruct He' as [He'|[<-|[]]].
        -- exact (Hmax e' He').
        -- right. split; [lra | lia].
    + apply Qlt_alt in C.
      exists e. split; [|repeat split; cbn [st_shift st_count st_score fst snd]; assumption].
      split; [apply in_or_app; left; exact Hin|].
      intros e' He'. apply in_app_or in He'. destruct He' as [He'|[<-|[]]].
      * exact (Hmax e' He').
      * left. lra.
    + apply Qgt_alt in C.
      exists x. split; [|repeat split; reflexivity].
      split; [apply in_or_app; right; left; reflexivity|].
      intros e' He'. apply in_app_or in He'. destruct He' as [He'|[<-|[]]].
      * destruct (Hmax e' He') as [H|[H1 H2]]; left; lra.
      * right. split; [reflexivity | lia].
Qed.

Lemma winner_unique_shift l l' e e' : (forall x, In x l <-> In x l') -> winner l e -> winner l' e' -> v_shift e = v_shift e'.
Proof.
  intros Hiff [Hin Hmax] [Hin' Hmax'].
  destruct (Hmax e' (proj2 (Hiff e') Hin')) as [H|[H1 H2]];
  destruct (Hmax' e (proj1 (Hiff e) Hin)) as [H'|[H1' H2']]; try lra. lia.
Qed.

(** the diagonal (and its count) chosen by the vote does not depend on the order in which the map is visited *)
Lemma vote_order_independent l l' :
  Permutation l l' -> NoDup (map v_shift l) -> (forall e, In e l -> 0 <= v_score e) ->
  st_shift (vote_select l) = st_shift (vote_select l') /\ st_count (vote_select l) = st_count (vote_select l').
Proof.
  intros HP HND Hpos.
  destruct l as [|x l0].
  - apply Permutation_nil in HP. subst. split; reflexivity.
  - assert (Hne : x :: l0 <> []) by discriminate.
    assert (Hne' : l' <> []) by (intro E; subst; apply Permutation_sym, Permutation_nil in HP; discriminate).
    assert (Hiff : forall z, In z (x :: l0) <-> In z l')
      by (intro z; split; [apply Permutation_in; exact HP | apply Permutation_in; apply Permutation_sym; exact HP]).
    destruct (vote_selects_winner (x :: l0) Hne Hpos) as [e [W [Hs [Hc _]]]].
    destruct (vote_selects_winner l' Hne' (fun z Hz => Hpos z (proj2 (Hiff z) Hz))) as [e' [W' [Hs' [Hc' _]]]].
    pose proof (winner_unique_shift _ _ _ _ Hiff W W') as Esh.
    assert (Ee : e = e').
    { destruct W as [Hin _]. destruct W' as [Hin' _]. apply (proj2 (Hiff e')) in Hin'.
      clear - HND Hin Hin' Esh. revert HND Hin Hin'. generalize (x :: l0) as L.
      induction L as [|z L IHL]; intros HND Hin Hin'; [destruct Hin|].
      cbn [map] in HND. inversion HND as [|? ? Hnot HND']; subst.
      destruct Hin as [<-|Hin]; destruct Hin' as [E'|Hin'].
      - exact E'.
      - exfalso. apply Hnot. rewrite Esh. now apply in_map.
      - subst z. exfalso. apply Hnot. rewrite <- Esh. now apply in_map.
      - now apply IHL. }
    subst e'. split; congruence.
Qed.

(** ties go to the smaller shift: concrete run in two visiting orders *)
Lemma vote_example :
  vote_select [mkv 5 3 (3#1); mkv (-2) 3 (3#1); mkv 7 1 (1#1)] = ((-2)%Z, 3%Z, 3#1) /\
  vote_select [mkv 7 1 (1#1); mkv (-2) 3 (3#1); mkv 5 3 (3#1)] = ((-2)%Z, 3%Z, 3#1).
Proof. vm_compute. split; reflexivity. Qed.
