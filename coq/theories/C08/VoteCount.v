(** C08 — proofs about the 4-mer vote: Encode4mer = window codes, the counting loop counts diagonals exactly,
    bounds on what a vote can return. *)
From Coq Require Import ZArith QArith List Bool Lia Lqa.
From OBI.C08.Gen Require Import Tables.
From OBI.C08 Require Import VoteModel VoteProofs.
Import ListNotations.
Open Scope Z_scope.

(** ---------------------------------------------------------------- Encode4mer *)
Lemma sbc_range_all : forallb (fun c => (0 <=? c) && (c <? 4)) single_base_code = true.
Proof. vm_compute. reflexivity. Qed.

Lemma bcode_range x : 0 <= bcode x < 4.
Proof.
  unfold bcode. set (n := Z.to_nat (Z.land x 31)).
  destruct (Nat.lt_ge_cases n (length single_base_code)) as [L|L].
  - pose proof (proj1 (forallb_forall _ _) sbc_range_all _ (nth_In _ 0 L)) as H.
    apply andb_true_iff in H. destruct H as [H1 H2].
    apply Z.leb_le in H1. apply Z.ltb_lt in H2. lia.
  - rewrite nth_overflow by exact L. lia.
Qed.

Lemma lor_small_all :
  forallb (fun k => forallb (fun c => Z.lor (4 * Z.of_nat k) (Z.of_nat c) =? 4 * Z.of_nat k + Z.of_nat c) (seq 0 4)) (seq 0 64) = true.
Proof. vm_compute. reflexivity. Qed.

Lemma lor_small k c : 0 <= k < 64 -> 0 <= c < 4 -> Z.lor (4 * k) c = 4 * k + c.
Proof.
  intros Hk Hc.
  pose proof (proj1 (forallb_forall _ _) lor_small_all (Z.to_nat k)) as H.
  assert (Ik : In (Z.to_nat k) (seq 0 64)) by (apply in_seq; lia).
  specialize (H Ik).
  pose proof (proj1 (forallb_forall _ _) H (Z.to_nat c)) as H'.
  assert (Ic : In (Z.to_nat c) (seq 0 4)) by (apply in_seq; lia).
  specialize (H' Ic). apply Z.eqb_eq in H'.
  rewrite !Z2Nat.id in H' by lia. exact H'.
Qed.

Lemma step_or_wcode x0 x1 x2 x3 x : step_or (wcode x0 x1 x2 x3) x = wcode x1 x2 x3 x.
Proof.
  unfold step_or, wcode.
  pose proof (bcode_range x0) as R0. pose proof (bcode_range x1) as R1. pose proof (bcode_range x2) as R2.
  pose proof (bcode_range x3) as R3. pose proof (bcode_range x) as R.
  set (b0 := bcode x0) in *. set (b1 := bcode x1) in *. set (b2 := bcode x2) in *. set (b3 := bcode x3) in *.
  set (b := bcode x) in *.
  replace (((64 * b0 + 16 * b1 + 4 * b2 + b3) * 4) mod 256) with (4 * (16 * b1 + 4 * b2 + b3)).
  - rewrite lor_small by lia. lia.
  - apply Z.mod_unique with (q := b0); lia.
Qed.

Lemma step_add_wcode x0 x1 x2 x3 :
  step_add (step_add (step_add (step_add 0 x0) x1) x2) x3 = wcode x0 x1 x2 x3.
Proof.
  unfold step_add, wcode.
  pose proof (bcode_range x0) as R0. pose proof (bcode_range x1) as R1. pose proof (bcode_range x2) as R2.
  pose proof (bcode_range x3) as R3.
  set (b0 := bcode x0) in *. set (b1 := bcode x1) in *. set (b2 := bcode x2) in *. set (b3 := bcode x3) in *.
  assert (E0 : (0 * 4) mod 256 = 0) by reflexivity. rewrite E0. clear E0.
  replace ((0 + b0) mod 256) with b0 by (rewrite Z.mod_small; lia).
  replace ((b0 * 4) mod 256) with (b0 * 4) by (rewrite Z.mod_small; lia).
  replace ((b0 * 4 + b1) mod 256) with (b0 * 4 + b1) by (rewrite Z.mod_small; lia).
  replace (((b0 * 4 + b1) * 4) mod 256) with ((b0 * 4 + b1) * 4) by (rewrite Z.mod_small; lia).
  replace (((b0 * 4 + b1) * 4 + b2) mod 256) with ((b0 * 4 + b1) * 4 + b2) by (rewrite Z.mod_small; lia).
  replace ((((b0 * 4 + b1) * 4 + b2) * 4) mod 256) with (((b0 * 4 + b1) * 4 + b2) * 4) by (rewrite Z.mod_small; lia).
  rewrite Z.mod_small by lia. lia.
Qed.

Lemma roll_kmers : forall r x0 x1 x2 x3, roll (wcode x0 x1 x2 x3) r = kmers (x1 :: x2 :: x3 :: r).
Proof.
  induction r as [|x r IH]; intros x0 x1 x2 x3; [reflexivity|].
  cbn [roll]. rewrite step_or_wcode. rewrite IH. reflexivity.
Qed.

(** the rolling byte code of Encode4mer is, at every position, the 2-bit code of the window of four bases *)
Lemma encode4mer_kmers s : encode4mer s = kmers s.
Proof.
  destruct s as [|x0 [|x1 [|x2 [|x3 r]]]]; try reflexivity.
  unfold encode4mer. rewrite step_add_wcode. cbv zeta. rewrite roll_kmers. reflexivity.
Qed.

Lemma kmers_cons x0 x1 x2 x3 r : kmers (x0 :: x1 :: x2 :: x3 :: r) = wcode x0 x1 x2 x3 :: kmers (x1 :: x2 :: x3 :: r).
Proof. reflexivity. Qed.

Lemma kmers_length : forall s, length (kmers s) = (length s - 3)%nat.
Proof.
  induction s as [|x0 s IH]; [reflexivity|].
  destruct s as [|x1 [|x2 [|x3 r]]]; try reflexivity.
  rewrite kmers_cons. cbn [length]. rewrite IH. cbn [length]. lia.
Qed.

Lemma kmers_nth : forall s j dflt, (j + 3 < length s)%nat ->
  nth j (kmers s) dflt = wcode (nth j s 0) (nth (S j) s 0) (nth (S (S j)) s 0) (nth (S (S (S j))) s 0).
Proof.
  induction s as [|x0 s IH]; intros j dflt H; [cbn in H; lia|].
  destruct s as [|x1 [|x2 [|x3 r]]]; try (cbn in H; lia).
  rewrite kmers_cons. destruct j as [|j]; [reflexivity|].
  cbn [nth]. rewrite IH by (cbn [length] in *; lia). reflexivity.
Qed.

(** ---------------------------------------------------------------- the counting loop *)
Definition good (m : vmap) : Prop := NoDup (map fst m) /\ Forall (fun p => 1 <= snd p) m.

Lemma vget_bump : forall m s d, vget (bump m s) d = vget m d + (if s =? d then 1 else 0).
Proof.
  induction m as [|[k c] r IH]; intros s d.
  - cbn [bump vget]. lia.
  - cbn [bump]. destruct (Z.eqb_spec k s) as [E|N].
    + subst k. cbn [vget]. destruct (Z.eqb_spec s d); lia.
    + cbn [vget]. destruct (Z.eqb_spec k d) as [E|N'].
      * subst k. destruct (Z.eqb_spec s d); [congruence | lia].
      * apply IH.
Qed.

Lemma keys_bump : forall m s k, In k (map fst (bump m s)) <-> k = s \/ In k (map fst m).
Proof.
  induction m as [|[k0 c] r IH]; intros s k.
  - cbn. intuition.
  - cbn [bump]. destruct (Z.eqb_spec k0 s) as [E|N].
    + subst k0. cbn [map fst In]. intuition.
    + cbn [map fst In]. rewrite IH. intuition.
Qed.

Lemma good_bump m s : good m -> good (bump m s).
Proof.
  intros [ND F]. split.
  - induction m as [|[k c] r IH]; [cbn; constructor; [intros []|constructor]|].
    cbn [bump]. cbn [map fst] in ND. inversion ND as [|? ? Hn ND']; subst.
    inversion F as [|? ? _ F']; subst.
    destruct (Z.eqb_spec k s) as [E|N]; cbn [map fst].
    + constructor; assumption.
    + constructor; [|now apply IH].
      rewrite keys_bump. intros [E|I]; [congruence | contradiction].
  - induction m as [|[k c] r IH]; [cbn; repeat constructor; cbn; lia|].
    cbn [bump]. cbn [map fst] in ND. inversion ND as [|? ? Hn ND']; subst.
    inversion F as [|? ? Hc F']; subst. cbn [snd] in Hc.
    destruct (Z.eqb_spec k s); constructor; cbn [snd]; try lia; try assumption. now apply IH.
Qed.

Lemma good_nil : good [].
Proof. split; constructor. Qed.

Lemma vget_in : forall m s c, NoDup (map fst m) -> In (s, c) m -> vget m s = c.
Proof.
  induction m as [|[k c0] r IH]; intros s c ND I; [destruct I|].
  cbn [map fst] in ND. inversion ND as [|? ? Hn ND']; subst.
  cbn [vget]. destruct I as [E|I].
  - injection E as -> ->. now rewrite Z.eqb_refl.
  - destruct (Z.eqb_spec k s) as [E|N]; [|now apply IH].
    subst k. exfalso. apply Hn. change s with (fst (s, c)). now apply in_map.
Qed.

Lemma in_vget : forall m d, vget m d <> 0 -> In (d, vget m d) m.
Proof.
  induction m as [|[k c] r IH]; intros d H; [cbn in H; congruence|].
  cbn [vget] in *. destruct (Z.eqb_spec k d) as [E|N]; [subst; now left | right; now apply IH].
Qed.

(** one 4-mer of B at position [pos] against the index of its code in A *)
Definition hit (ks : list Z) (i0 : nat) (code : Z) (i : Z) : bool :=
  (Z.of_nat i0 <=? i) && (i <? Z.of_nat i0 + Z.of_nat (length ks)) && (nth (Z.to_nat (i - Z.of_nat i0)) ks (-1) =? code).

Lemma inner_loop code zp d : forall ks i0 m,
  vget (fold_left (fun m refpos => bump m (Z.of_nat refpos - zp)) (positions_from code ks i0) m) d =
  vget m d + (if hit ks i0 code (zp + d) then 1 else 0) /\
  (good m -> good (fold_left (fun m refpos => bump m (Z.of_nat refpos - zp)) (positions_from code ks i0) m)).
Proof.
  induction ks as [|k r IH]; intros i0 m.
  - cbn [positions_from fold_left]. split; [|tauto]. unfold hit. cbn [length].
    destruct (Z.leb_spec (Z.of_nat i0) (zp + d)); destruct (Z.ltb_spec (zp + d) (Z.of_nat i0 + Z.of_nat 0)); cbn [andb]; lia.
  - cbn [positions_from].
    assert (Hhit : (if hit (k :: r) i0 code (zp + d) then 1 else 0) =
                   (if (k =? code) && (Z.of_nat i0 - zp =? d) then 1 else 0) + (if hit r (S i0) code (zp + d) then 1 else 0)).
    { unfold hit. cbn [length]. set (i := zp + d).
      destruct (Z.eq_dec i (Z.of_nat i0)) as [E|N].
      - rewrite E. replace (Z.of_nat i0 - Z.of_nat i0) with 0 by lia. cbn [Z.to_nat nth].
        replace (Z.of_nat i0 - zp =? d) with true by (symmetry; apply Z.eqb_eq; lia).
        rewrite andb_true_r.
        destruct (Z.leb_spec (Z.of_nat i0) (Z.of_nat i0)); [|lia].
        destruct (Z.ltb_spec (Z.of_nat i0) (Z.of_nat i0 + Z.of_nat (S (length r)))); [|lia].
        destruct (Z.leb_spec (Z.of_nat (S i0)) (Z.of_nat i0)); [lia|]. cbn [andb].
        destruct (k =? code); lia.
      - replace (Z.of_nat i0 - zp =? d) with false by (symmetry; apply Z.eqb_neq; lia).
        rewrite andb_false_r.
        destruct (Z.leb_spec (Z.of_nat i0) i) as [L|L]; destruct (Z.leb_spec (Z.of_nat (S i0)) i) as [L'|L']; try lia; cbn [andb]; [|lia].
        destruct (Z.ltb_spec i (Z.of_nat i0 + Z.of_nat (S (length r)))) as [U|U];
          destruct (Z.ltb_spec i (Z.of_nat (S i0) + Z.of_nat (length r))) as [U'|U']; try lia; cbn [andb]; [|lia].
        replace (Z.to_nat (i - Z.of_nat i0)) with (S (Z.to_nat (i - Z.of_nat (S i0)))) by lia.
        cbn [nth]. lia. }
    destruct (Z.eqb_spec k code) as [E|N].
    + cbn [fold_left]. destruct (IH (S i0) (bump m (Z.of_nat i0 - zp))) as [G1 G2]. split.
      * rewrite G1, vget_bump, Hhit. cbn [andb]. lia.
      * intro Gm. apply G2. now apply good_bump.
    + destruct (IH (S i0) m) as [G1 G2]. split; [|exact G2].
      rewrite G1, Hhit. cbn [andb]. lia.
Qed.

Lemma hit_match_at ka code pos d : hit ka 0 code (Z.of_nat pos + d) = match_at ka d pos code.
Proof. unfold hit, match_at. cbn [Z.of_nat]. rewrite Z.sub_0_r, Z.add_0_l. reflexivity. Qed.

Lemma vote_loop_spec ka d : forall kb pos m,
  vget (vote_loop ka kb pos m) d = vget m d + diag_count_from ka kb pos d /\ (good m -> good (vote_loop ka kb pos m)).
Proof.
  induction kb as [|code r IH]; intros pos m.
  - cbn [vote_loop diag_count_from]. split; [lia | tauto].
  - cbn [vote_loop diag_count_from]. unfold index4.
    destruct (inner_loop code (Z.of_nat pos) d ka 0%nat m) as [I1 I2].
    destruct (IH (S pos) (fold_left (fun m refpos => bump m (Z.of_nat refpos - Z.of_nat pos)) (positions_from code ka 0) m)) as [G1 G2].
    split.
    + rewrite G1, I1, hit_match_at. lia.
    + intro Gm. apply G2, I2, Gm.
Qed.

(** the counter of diagonal [d] is exactly the number of positions of B whose 4-mer is found in A on that diagonal;
    every diagonal appears at most once in the map and only with a count >= 1 *)
Lemma count_votes_exact ka kb : good (count_votes ka kb) /\ forall d, vget (count_votes ka kb) d = diag_count ka kb d.
Proof.
  split.
  - apply (proj2 (vote_loop_spec ka 0 kb 0%nat [])), good_nil.
  - intro d. unfold count_votes, diag_count. rewrite (proj1 (vote_loop_spec ka d kb 0%nat [])). cbn [vget]. lia.
Qed.

(** ---------------------------------------------------------------- bounds *)
Lemma diag_count_from_bounds ka d : forall kb pos,
  0 <= diag_count_from ka kb pos d <= Z.of_nat (length kb) /\
  diag_count_from ka kb pos d <= Z.max 0 (Z.of_nat (length ka) - Z.max 0 (Z.of_nat pos + d)) /\
  diag_count_from ka kb pos d <= Z.max 0 (Z.of_nat pos + Z.of_nat (length kb) - Z.max (Z.of_nat pos) (- d)).
Proof.
  induction kb as [|code r IH]; intros pos.
  - cbn [diag_count_from length]. lia.
  - cbn [diag_count_from length]. destruct (IH (S pos)) as [[B0 B1] [B2 B3]].
    unfold match_at. set (i := Z.of_nat pos + d) in *.
    destruct (Z.leb_spec 0 i) as [L|L]; destruct (Z.ltb_spec i (Z.of_nat (length ka))) as [U|U]; cbn [andb];
      try destruct (nth (Z.to_nat i) ka (-1) =? code); lia.
Qed.

Lemma diag_count_pos ka kb d : 1 <= diag_count ka kb d ->
  - Z.of_nat (length kb) < d < Z.of_nat (length ka) /\
  diag_count ka kb d <= Z.of_nat (length ka) /\ diag_count ka kb d <= Z.of_nat (length kb) /\
  diag_count ka kb d <= Z.of_nat (length ka) - d /\ diag_count ka kb d <= Z.of_nat (length kb) + d.
Proof.
  unfold diag_count. intro H. destruct (diag_count_from_bounds ka d kb 0%nat) as [[B0 B1] [B2 B3]].
  cbn [Z.of_nat] in *. lia.
Qed.

(** ---------------------------------------------------------------- the same count, over PAIRS of positions *)
(** all pairs (i, j) — i a 4-mer position of A, j a 4-mer position of B — that lie on diagonal i - j = d and hold the
    same 4-mer *)
Definition pair_on_diag (ka kb : list Z) (d : Z) (p : nat * nat) : bool :=
  (Z.of_nat (fst p) - Z.of_nat (snd p) =? d) && (nth (fst p) ka (-1) =? nth (snd p) kb (-2)).
Definition all_pairs (na nb : nat) : list (nat * nat) :=
  flat_map (fun j => map (fun i => (i, j)) (seq 0 na)) (seq 0 nb).
Definition diag_pairs (ka kb : list Z) (d : Z) : list (nat * nat) :=
  filter (pair_on_diag ka kb d) (all_pairs (length ka) (length kb)).

Lemma uniq_on_row (ka : list Z) (c zj d : Z) (pos : nat) : forall n, (n <= length ka)%nat ->
  Z.of_nat (length (filter (fun p : nat * nat => (Z.of_nat (fst p) - zj =? d) && (nth (fst p) ka (-1) =? c))
                           (map (fun i => (i, pos)) (seq 0 n)))) =
  if (0 <=? zj + d) && (zj + d <? Z.of_nat n) && (nth (Z.to_nat (zj + d)) ka (-1) =? c) then 1 else 0.
Proof.
  induction n as [|n IH]; intro Hn.
  - cbn [seq map filter length]. change (Z.of_nat 0) with 0. destruct (0 <=? zj + d) eqn:A; cbn [andb]; [|reflexivity].
    destruct (Z.ltb_spec (zj + d) 0); [apply Z.leb_le in A; lia | reflexivity].
  - rewrite seq_S, map_app, filter_app, app_length, Nat2Z.inj_add, IH by lia. cbn [Nat.add map filter fst].
    destruct (Z.eq_dec (zj + d) (Z.of_nat n)) as [E|N].
    + replace (Z.of_nat n - zj =? d) with true by (symmetry; apply Z.eqb_eq; lia).
      rewrite E, Nat2Z.id. destruct (Z.leb_spec 0 (Z.of_nat n)); [|lia].
      destruct (Z.ltb_spec (Z.of_nat n) (Z.of_nat n)); [lia|].
      destruct (Z.ltb_spec (Z.of_nat n) (Z.of_nat (S n))); [|lia]. cbn [andb].
      destruct (nth n ka (-1) =? c); cbn [length]; lia.
    + replace (Z.of_nat n - zj =? d) with false by (symmetry; apply Z.eqb_neq; lia). cbn [andb length].
      change (Z.of_nat 0) with 0. rewrite Z.add_0_r.
      destruct (Z.ltb_spec (zj + d) (Z.of_nat n)); destruct (Z.ltb_spec (zj + d) (Z.of_nat (S n))); try lia; reflexivity.
Qed.

Lemma diag_count_from_pairs ka d : forall kb pos,
  diag_count_from ka kb pos d =
  Z.of_nat (length (filter (fun p : nat * nat => (Z.of_nat (fst p) - Z.of_nat (snd p) =? d) &&
                                                  (nth (fst p) ka (-1) =? nth (snd p - pos) kb (-2)))
                           (flat_map (fun j => map (fun i => (i, j)) (seq 0 (length ka))) (seq pos (length kb))))).
Proof.
  induction kb as [|c r IH]; intro pos; [reflexivity|].
  cbn [diag_count_from length seq flat_map]. rewrite filter_app, app_length, Nat2Z.inj_add.
  f_equal.
  - rewrite (filter_ext_in _ (fun p : nat * nat => (Z.of_nat (fst p) - Z.of_nat pos =? d) && (nth (fst p) ka (-1) =? c))).
    + rewrite uniq_on_row by lia. unfold match_at. reflexivity.
    + intros [i j] Hin. apply in_map_iff in Hin. destruct Hin as [i' [E _]]. injection E as -> <-.
      cbn [fst snd]. rewrite Nat.sub_diag. reflexivity.
  - rewrite IH. f_equal. f_equal. apply filter_ext_in.
    intros [i j] Hin. apply in_flat_map in Hin. destruct Hin as [j' [Hj Hin]].
    apply in_map_iff in Hin. destruct Hin as [i' [E _]]. injection E as -> <-.
    apply in_seq in Hj. cbn [fst snd].
    replace (j' - pos)%nat with (S (j' - S pos)) by lia. reflexivity.
Qed.

(** the counter of shift d = the number of pairs of equal 4-mers on diagonal d *)
Lemma diag_count_pairs ka kb d : diag_count ka kb d = Z.of_nat (length (diag_pairs ka kb d)).
Proof.
  unfold diag_count, diag_pairs, all_pairs, pair_on_diag. rewrite diag_count_from_pairs.
  f_equal. f_equal. apply filter_ext. intros [i j]. cbn [fst snd]. rewrite Nat.sub_0_r. reflexivity.
Qed.
