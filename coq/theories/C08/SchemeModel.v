(** C08 — the fill functions of pkg/obialign/pairedendalign.go as ONE recurrence parametrised by the set of free end
    gaps (a "scheme"), so that _FillMatrixPeCenterAlign (PECenterAlign: both ends of A free, the read B lies inside A) is
    modelled next to the left and right fills of Model.v.  Definitions only.

    Same conventions as Model.v: cell (i,j) speaks about the prefixes A[:i], B[:j]; a matrix is a list of columns; directions
    0 diagonal, +1 left (a base of B alone), -1 top (a base of A alone); [sc] and [gap] are data. *)
From Coq Require Import ZArith List Bool.
From OBI.C08 Require Import Model.
Import ListNotations.
Open Scope Z_scope.

Record scheme := mks {
  a_lead : bool;    (* bases of A before B starts are free: first column = 0            *)
  a_trail : bool;   (* bases of A after B ends are free: top moves free in the last column *)
  b_lead : bool;    (* bases of B before A starts are free: first row = 0                *)
  b_trail : bool }. (* bases of B after A ends are free: left moves free on the last row   *)

Definition s_left : scheme := mks true false false true.     (* _FillMatrixPeLeftAlign   *)
Definition s_right : scheme := mks false true true false.    (* _FillMatrixPeRightAlign  *)
Definition s_center : scheme := mks true true false false.   (* _FillMatrixPeCenterAlign *)
Definition scheme_of_mode (mode : bool) : scheme := if mode then s_left else s_right.

Section GFill.
  Variable sc : nat -> nat -> Z.
  Variable gap : Z.
  Variables la lb : nat.
  Variable s : scheme.

  (** penalty added to [left] on row i, to [top] in column j *)
  Definition ggl (i : nat) : Z := if b_trail s && (i =? la)%nat then 0 else gap.
  Definition ggt (j : nat) : Z := if a_trail s && (j =? lb)%nat then 0 else gap.

  Fixpoint gcol0_from (i n : nat) : list cell :=
    match n with
    | O => []
    | S n' => ((if a_lead s then 0 else Z.of_nat i * gap), (if (i =? 0)%nat then 0 else -1)) :: gcol0_from (S i) n'
    end.
  Definition gcol0 : list cell := gcol0_from 0 (S la).

  Fixpoint gcol_go (j : nat) (prev : list cell) (above : cell) (i : nat) : list cell :=
    match prev with
    | p0 :: ((p1 :: _) as tl) =>
        let c := choose (fst p0 + sc (i - 1) (j - 1)) (fst p1 + ggl i) (fst above + ggt j) in
        c :: gcol_go j tl c (S i)
    | _ => []
    end.

  (** column j >= 1: first line (0 when the leading bases of B are free, j*gap otherwise; direction +1), then the recurrence.
      After the fix of PECenterAlign this holds for EVERY column, the last one included. *)
  Definition gnext_col (prev : list cell) (j : nat) : list cell :=
    let h : cell := ((if b_lead s then 0 else Z.of_nat j * gap), 1) in
    h :: gcol_go j prev h 1.

  Fixpoint gbuild (prev : list cell) (j n : nat) : list (list cell) :=
    match n with
    | O => []
    | S n' => let c := gnext_col prev j in c :: gbuild c (S j) n'
    end.

  Definition gfill : list (list cell) := gcol0 :: gbuild gcol0 1 lb.

  (** the end-gap-free scoring of a walk under the scheme: a base of A alone costs nothing while no base of B is consumed
      (if a_lead) or once all of B is consumed (if a_trail); a base of B alone costs nothing while no base of A is
      consumed (if b_lead) or once all of A is (if b_trail); any other lone base costs [gap]. *)
  Definition gucost (cb : nat) : Z :=
    if (a_lead s && (cb =? 0)%nat) || (a_trail s && (cb =? lb)%nat) then 0 else gap.
  Definition gicost (ca : nat) : Z :=
    if (b_lead s && (ca =? 0)%nat) || (b_trail s && (ca =? la)%nat) then 0 else gap.

  Fixpoint gmscore (ca cb : nat) (w : list move) : Z :=
    match w with
    | [] => 0
    | MD :: r => sc ca cb + gmscore (S ca) (S cb) r
    | MU :: r => gucost cb + gmscore (S ca) cb r
    | MI :: r => gicost ca + gmscore ca (S cb) r
    end.

  Definition gpath_score (p : list Z) : Z := gmscore 0 0 (expand p).

  Definition gfill_bt : Z * option (list Z) :=
    let m := gfill in (mscore_of m la lb, backtrack m la lb).
End GFill.

(** PECenterAlign (after the fix): the documented panic when A is shorter than B is [None] *)
Definition pecenter (sc : nat -> nat -> Z) (gap : Z) (la lb : nat) : option (Z * option (list Z)) :=
  if (la <? lb)%nat then None else Some (gfill_bt sc gap la lb s_center).
