(** C08 — the column score of the paired-end aligner (pkg/obialign/dnamatrix.go _MatchRatio, _InitNucPartMatch;
    pairedendalign.go _PairingScorePeAlign).  Definitions only.

    The quality-dependent match / mismatch entries (_NucScorePartMatchMatch / Mismatch, float formulae) are DATA:
    [mt] and [mm] below.  What is modelled is the integer structure: the IUPAC match ratio |X n Y| / (|X| |Y|)
    from the 4-bit codes (tables regenerated from the build) and the three cases on int(partMatch * 100).
    Rationals stand for the floats: the ratios 1, 1/2 and 1/4 are exact floats; 1/3, 2/9 and 1/6 are not, and
    only for those can the truncation int(x + 0.5) differ from the rational one, when x + 1/2 is an integer
    (see [score_agrees]). *)
From Coq Require Import ZArith QArith List Bool.
From OBI.C08.Gen Require Import Tables.
Import ListNotations.
Open Scope Z_scope.

(** _FourBitsBaseCode[b & 31], _FourBitsCount[c & 15] *)
Definition sym_code (b : Z) : Z := nth (Z.to_nat (Z.land b 31)) fourbits_code 0.
Definition set_size (c : Z) : Z := nth (Z.to_nat (Z.land c 15)) fourbits_count 0.

(** _MatchRatio(a, b): cm / ca / cb, 0 when one of the three counts is 0 *)
Definition match_ratio (ca cb : Z) : Q :=
  let cm := set_size (Z.land ca cb) in
  let na := set_size ca in
  let nb := set_size cb in
  if (cm =? 0) || (na =? 0) || (nb =? 0) then 0%Q else Qmake cm (Z.to_pos (na * nb)).

(** _NucPartMatch[baseA & 31][baseB & 31] *)
Definition part_match (x y : Z) : Q := match_ratio (sym_code x) (sym_code y).

(** Go's int(f): truncation toward zero *)
Definition qtrunc (q : Q) : Z := Z.quot (Qnum q) (Zpos (Qden q)).

(** _PairingScorePeAlign given the two table entries for (qualA, qualB) *)
Definition pairing_score (mt mm : Z) (scale pm : Q) : Z :=
  let k := qtrunc (pm * 100) in
  if k =? 100 then mt
  else if k =? 0 then qtrunc (inject_Z mm * scale + (1 # 2))
  else qtrunc (pm * inject_Z mt + (1 - pm) * inject_Z mm * scale + (1 # 2)).

(** the value whose truncation is the score in the third case *)
Definition mix (mt mm : Z) (scale pm : Q) : Q := (pm * inject_Z mt + (1 - pm) * inject_Z mm * scale + (1 # 2))%Q.

Definition q_is_int (q : Q) : bool := (Qnum q mod Zpos (Qden q) =? 0).

(** a ratio that is an exact float: 1/2, 1/4 (denominator of the reduced fraction a power of two) *)
Definition q_is_dyadic (q : Q) : bool :=
  let d := Zpos (Qden (Qred q)) in (d =? 1) || (d =? 2) || (d =? 4) || (d =? 8) || (d =? 16).

(** agreement of an observed score with the rational model: equal, except that for a ratio that is NOT an exact
    float (1/3, 2/9, 1/6: third case) an exactly integral [mix] may be seen one unit off by the float computation *)
Definition score_agrees (mt mm : Z) (scale pm : Q) (obs : Z) : bool :=
  (obs =? pairing_score mt mm scale pm) ||
  (negb (q_is_dyadic pm) && q_is_int (mix mt mm scale pm) && (Z.abs (obs - pairing_score mt mm scale pm) <=? 1)).
