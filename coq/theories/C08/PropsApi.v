(** C08 — obligations over the exported entry points exercised since round 3: the scheme-parametrised fill (PECenterAlign,
    and PELeftAlign / PERightAlign as two instances), BuildAlignment, Encode4bits. *)
From Coq Require Import ZArith List Bool Lia.
From OBI.C08 Require Import Model Proofs.
From OBI.C08 Require Import SchemeModel SchemeProofs ApiModel ApiProofs.
Import ListNotations.
Open Scope Z_scope.

(** for EVERY choice of free end gaps: backtracking over the filled matrix succeeds, the path consumes both reads and its
    score under that scheme is the last cell *)
Theorem C08_scheme_fill_valid : forall sc gap la lb s, (1 <= la)%nat -> (1 <= lb)%nat ->
  exists p, backtrack (gfill sc gap la lb s) la lb = Some p /\
            consumed p = (la, lb) /\
            gpath_score sc gap la lb s p = mscore_of (gfill sc gap la lb s) la lb.
Proof. exact gbacktrack_fill. Qed.

(** ... and the last cell is the optimum over ALL alignments scored under that scheme *)
Theorem C08_scheme_fill_optimal : forall sc gap la lb s, (1 <= la)%nat -> (1 <= lb)%nat ->
  (forall p, consumed p = (la, lb) -> gpath_score sc gap la lb s p <= mscore_of (gfill sc gap la lb s) la lb) /\
  (exists p, consumed p = (la, lb) /\ gpath_score sc gap la lb s p = mscore_of (gfill sc gap la lb s) la lb).
Proof. exact gfill_optimal. Qed.

(** the left and right fills of Model.v are the two instances s_left / s_right (matrix and scoring scheme) *)
Theorem C08_scheme_generalises_fills : forall sc gap la lb mode,
  gfill sc gap la lb (scheme_of_mode mode) = fill sc gap la lb mode /\
  forall p, gpath_score sc gap la lb (scheme_of_mode mode) p = path_score sc gap la lb mode p.
Proof. intros. split; [apply gfill_of_mode | intro p; apply gpath_score_of_mode]. Qed.

(** PECenterAlign (B not longer than A): a path that consumes both reads, the reported score is its score when BOTH
    overhangs of A are free and every lone base of B is charged, and no alignment scores more under that scheme *)
Theorem C08_center_align : forall sc gap la lb, (1 <= lb)%nat -> (lb <= la)%nat ->
  exists p, pecenter sc gap la lb = Some (mscore_of (gfill sc gap la lb s_center) la lb, Some p) /\
            consumed p = (la, lb) /\
            gpath_score sc gap la lb s_center p = mscore_of (gfill sc gap la lb s_center) la lb /\
            (forall q, consumed q = (la, lb) -> gpath_score sc gap la lb s_center q <= gpath_score sc gap la lb s_center p).
Proof. exact pecenter_ok. Qed.

Theorem C08_center_refuses_short : forall sc gap la lb, (la < lb)%nat -> pecenter sc gap la lb = None.
Proof. exact pecenter_short. Qed.

(** a read lying inside the other one at offset k: under the centre scheme the alignment that puts it there costs no gap
    (its score is the sum of the pairing scores of its diagonal), so PECenterAlign reports at least that much — the
    geometry the left / right schemes cannot score (known finding fast-containment) *)
Theorem C08_center_containment : forall sc gap la lb k, (1 <= lb)%nat -> (k + lb <= la)%nat ->
  consumed [- Z.of_nat k; Z.of_nat lb; - Z.of_nat (la - k - lb); 0] = (la, lb) /\
  gpath_score sc gap la lb s_center [- Z.of_nat k; Z.of_nat lb; - Z.of_nat (la - k - lb); 0] = diag_sum sc k 0 lb /\
  diag_sum sc k 0 lb <= mscore_of (gfill sc gap la lb s_center) la lb.
Proof.
  intros sc gap la lb k Hb Hk. destruct (center_containment_score sc gap la lb k Hb Hk) as [H1 H2].
  repeat split; [exact H1 | exact H2 | now apply center_containment_optimal_ge].
Qed.

Example C08_center_nonvacuous :   (* A of 4 bases, B of 2 bases matching A[1..2] (5 each, any other pair -7), gap -10 *)
  pecenter (fun i j => if (i =? j + 1)%nat then 5 else -7) (-10) 4 2 = Some (10, Some [-1; 2; -1; 0]) /\
  fill_bt (fun i j => if (i =? j + 1)%nat then 5 else -7) (-10) 4 2 true = (0, Some [-4; 0; 2; 0]) /\
  fill_bt (fun i j => if (i =? j + 1)%nat then 5 else -7) (-10) 4 2 false = (0, Some [-1; 2; -1; 0]).
Proof. vm_compute. repeat split. Qed.

(** BuildAlignment: two rows as long as the path; each row without its gap symbols is the read it was built from *)
Theorem C08_build_alignment_rows : forall a b p g,
  consumed p = (length a, length b) -> ~ In g a -> ~ In g b ->
  length (fst (build_alignment a b p g)) = length (expand p) /\
  length (snd (build_alignment a b p g)) = length (expand p) /\
  filter (nogap g) (fst (build_alignment a b p g)) = a /\
  filter (nogap g) (snd (build_alignment a b p g)) = b.
Proof. exact build_alignment_rows. Qed.

Example C08_build_alignment_nonvacuous :   (* acg / cgt, path [-1 2 1 0]:  acg- / -cgt *)
  build_alignment [97; 99; 103] [99; 103; 116] [-1; 2; 1; 0] 45 = ([97; 99; 103; 45], [45; 99; 103; 116]) /\
  consumed [-1; 2; 1; 0] = (3, 3)%nat.
Proof. vm_compute. split; reflexivity. Qed.

(** the consensus symbol of a column with EQUAL qualities denotes exactly the union of the two base sets (4-bit codes of
    Encode4bits over the regenerated tables); with different qualities, the set of the better base *)
Theorem C08_consensus_code_union : forall na nb q, In na iupac_letters -> In nb iupac_letters ->
  code4 (cons_base na q nb q) = Z.lor (code4 na) (code4 nb).
Proof. exact consensus_code_union. Qed.

Theorem C08_consensus_code_better : forall na nb qa qb, In na iupac_letters -> In nb iupac_letters ->
  (qa > qb -> code4 (cons_base na qa nb qb) = code4 na) /\ (qb > qa -> code4 (cons_base na qa nb qb) = code4 nb).
Proof. exact consensus_code_better. Qed.

Theorem C08_encode4bits_iupac :
  encode4bits [97; 99; 103; 116] = [1; 2; 4; 8] /\
  encode4bits [45; 46] = [0; 0] /\
  (forall n, In n iupac_letters -> 1 <= code4 n <= 15) /\
  (forall n m, In n iupac_letters -> In m iupac_letters -> code4 n = code4 m -> n = m).
Proof. exact encode4bits_iupac. Qed.

Print Assumptions C08_scheme_fill_valid.
Print Assumptions C08_scheme_fill_optimal.
Print Assumptions C08_scheme_generalises_fills.
Print Assumptions C08_center_align.
Print Assumptions C08_center_refuses_short.
Print Assumptions C08_center_containment.
Print Assumptions C08_build_alignment_rows.
Print Assumptions C08_consensus_code_union.
Print Assumptions C08_consensus_code_better.
Print Assumptions C08_encode4bits_iupac.
