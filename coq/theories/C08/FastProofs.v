(** C08 — fast mode with the vote inside the model: what the vote selects (in terms of diagonal counts), validity of
    the path for every pair of reads, reassembly of error-free reads when the true offset is the strict maximiser. *)
From Coq Require Import ZArith QArith List Bool Lia Lqa.
From OBI.C08 Require Import VoteModel VoteProofs VoteCount Model Proofs.
Import ListNotations.
Open Scope Z_scope.

(** score of diagonal [d] for the reads [a], [b] *)
Definition vsc (rel : bool) (a b : list Z) (d : Z) : Q :=
  vscore rel (Z.of_nat (length a)) (Z.of_nat (length b)) d (diag_count (kmers a) (kmers b) d).

Lemma vscore_nonneg rel la lb s c : 0 <= c -> (0 <= vscore rel la lb s c)%Q.
Proof. intro H. unfold vscore. destruct rel; unfold Qle; cbn; lia. Qed.

Lemma entries_in rel la lb m e :
  In e (entries rel la lb m) <-> exists s c, In (s, c) m /\ e = mkv s c (vscore rel la lb s c).
Proof.
  unfold entries. rewrite in_map_iff. split.
  - intros [[s c] [E I]]. exists s, c. cbn [fst snd] in E. split; [exact I | now symmetry].
  - intros [s [c [I E]]]. exists (s, c). cbn [fst snd]. split; [now symmetry | exact I].
Qed.

Lemma entries_shifts rel la lb m : map v_shift (entries rel la lb m) = map fst m.
Proof. unfold entries. rewrite map_map. apply map_ext. intros [s c]. reflexivity. Qed.

(** what Index4mer + FastShiftFourMer return, in terms of the diagonal counts: either no 4-mer is shared and the
    answer is (0, 0, -1), or the diagonal of highest score — the smaller shift on ties — with its count *)
Lemma fast_shift_spec a b rel :
  ((forall d, diag_count (kmers a) (kmers b) d = 0) /\ fast_shift a b rel = (0, 0, (-1)%Q)) \/
  (exists s c q, fast_shift a b rel = (s, c, q) /\ 1 <= c /\ c = diag_count (kmers a) (kmers b) s /\
     (q == vsc rel a b s)%Q /\
     forall d, 1 <= diag_count (kmers a) (kmers b) d ->
               (vsc rel a b d < q)%Q \/ ((vsc rel a b d == q)%Q /\ s <= d)).
Proof.
  unfold fast_shift. rewrite !encode4mer_kmers.
  destruct (count_votes_exact (kmers a) (kmers b)) as [[ND F] EX].
  remember (count_votes (kmers a) (kmers b)) as m eqn:Em.
  destruct m as [|x m'].
  - left. split; [|reflexivity]. intro d. rewrite <- EX. reflexivity.
  - right. set (la := Z.of_nat (length a)). set (lb := Z.of_nat (length b)).
    set (l := entries rel la lb (x :: m')).
    assert (Hne : l <> []) by (unfold l, entries; cbn [map]; discriminate).
    assert (Hpos : forall e, In e l -> (0 <= v_score e)%Q).
    { intros e He. apply entries_in in He. destruct He as [s [c [I ->]]]. cbn [v_score].
      apply vscore_nonneg. rewrite Forall_forall in F. specialize (F _ I). cbn [snd] in F. lia. }
    destruct (vote_selects_winner l Hne Hpos) as [e [[Hin Hmax] [Hs [Hc Hq]]]].
    destruct (vote_select l) as [[s c] q]. cbn [st_shift st_count st_score fst snd] in Hs, Hc, Hq.
    apply entries_in in Hin. destruct Hin as [s0 [c0 [I0 Ee]]].
    subst e. cbn [v_shift v_count v_score] in *. subst s c.
    assert (G0 : vget (x :: m') s0 = c0) by (apply vget_in; assumption).
    rewrite EX in G0.
    assert (P0 : 1 <= c0) by (rewrite Forall_forall in F; specialize (F _ I0); cbn [snd] in F; lia).
    exists s0, c0, q. split; [reflexivity|]. split; [exact P0|]. split; [now symmetry|].
    split; [unfold vsc; fold la lb; rewrite G0; exact Hq|].
    intros d Hd.
    assert (Id : In (d, vget (x :: m') d) (x :: m')) by (apply in_vget; rewrite EX; lia).
    assert (Ie : In (mkv d (vget (x :: m') d) (vscore rel la lb d (vget (x :: m') d))) l).
    { apply entries_in. exists d, (vget (x :: m') d). split; [exact Id | reflexivity]. }
    specialize (Hmax _ Ie). cbn [v_shift v_score] in Hmax. rewrite EX in Hmax.
    unfold vsc. fold la lb.
    destruct Hmax as [H|[H1 H2]]; [left; lra | right; split; [lra | exact H2]].
Qed.

(** the visiting order of the map is irrelevant: any permutation of the entries selects the same diagonal and count *)
Lemma fast_shift_order_independent a b rel l' :
  Permutation.Permutation (entries rel (Z.of_nat (length a)) (Z.of_nat (length b)) (count_votes (encode4mer a) (encode4mer b))) l' ->
  st_shift (vote_select l') = st_shift (fast_shift a b rel) /\ st_count (vote_select l') = st_count (fast_shift a b rel).
Proof.
  intro HP. unfold fast_shift.
  destruct (count_votes_exact (encode4mer a) (encode4mer b)) as [[ND F] _].
  destruct (vote_order_independent _ _ HP) as [H1 H2].
  - rewrite entries_shifts. exact ND.
  - intros e He. apply entries_in in He. destruct He as [s [c [I ->]]]. cbn [v_score].
    apply vscore_nonneg. rewrite Forall_forall in F. specialize (F _ I). cbn [snd] in F. lia.
  - split; congruence.
Qed.

(** fast mode, vote included: for every pair of non-empty reads the returned path consumes both reads and the reported
    score is the score of that path under the scheme of the reported side *)
Lemma pealign_fast_ok sc gap a b rel delta :
  (1 <= length a)%nat -> (1 <= length b)%nat -> 0 <= delta ->
  exists isl s p, pealign_fast sc gap a b rel delta = Some (isl, s, p) /\
                  consumed p = (length a, length b) /\ path_score sc gap (length a) (length b) isl p = s.
Proof.
  intros Ha Hb Hd. unfold pealign_fast.
  destruct (fast_shift_spec a b rel) as [[_ E]|[s [c [q [E [P [C _]]]]]]]; rewrite E.
  - apply pealign_fast_valid; try assumption; lia.
  - apply pealign_fast_valid; try assumption.
    + rewrite C in P. apply diag_count_pos in P. rewrite !kmers_length in P. lia.
    + right. rewrite C in P. pose proof (diag_count_pos _ _ _ P) as B. rewrite !kmers_length in B. lia.
Qed.

(** ---------------------------------------------------------------- error-free reads *)
Lemma diag_count_from_nonneg ka d kb pos : 0 <= diag_count_from ka kb pos d.
Proof. destruct (diag_count_from_bounds ka d kb pos) as [[H _] _]. exact H. Qed.

Lemma diag_count_ge ka d : forall kb pos lo n, (lo + n <= length kb)%nat ->
  (forall j, (j < n)%nat -> match_at ka d (pos + lo + j) (nth (lo + j) kb 0) = true) ->
  Z.of_nat n <= diag_count_from ka kb pos d.
Proof.
  induction kb as [|code r IH]; intros pos lo n Hl Hm.
  - cbn [length] in Hl. assert (n = 0%nat) by lia. subst. cbn. lia.
  - cbn [diag_count_from]. destruct lo as [|lo].
    + destruct n as [|n]; [pose proof (diag_count_from_nonneg ka d r (S pos)); destruct (match_at ka d pos code); lia|].
      pose proof (Hm 0%nat ltac:(lia)) as H0. rewrite !Nat.add_0_r in H0. cbn [nth] in H0. rewrite H0.
      assert (Z.of_nat n <= diag_count_from ka r (S pos) d).
      { apply (IH (S pos) 0%nat n); [cbn [length] in Hl; lia|].
        intros j Hj. specialize (Hm (S j) ltac:(lia)). cbn [nth Nat.add] in Hm.
        replace (S pos + 0 + j)%nat with (pos + 0 + S j)%nat by lia. exact Hm. }
      lia.
    + assert (Z.of_nat n <= diag_count_from ka r (S pos) d).
      { apply (IH (S pos) lo n); [cbn [length] in Hl; lia|].
        intros j Hj. specialize (Hm j Hj). cbn [nth Nat.add] in Hm.
        replace (S pos + lo + j)%nat with (pos + S lo + j)%nat by lia. exact Hm. }
      destruct (match_at ka d pos code); lia.
Qed.

Lemma wcode_nth_app_r (X O : list Z) j : (j + 3 < length O)%nat ->
  nth (length X + j) (kmers (X ++ O)) (-1) = nth j (kmers O) (-1).
Proof.
  intro H. rewrite !kmers_nth by (rewrite ?app_length; lia).
  rewrite !app_nth2 by lia.
  replace (length X + j - length X)%nat with j by lia.
  replace (S (length X + j) - length X)%nat with (S j) by lia.
  replace (S (S (length X + j)) - length X)%nat with (S (S j)) by lia.
  replace (S (S (S (length X + j))) - length X)%nat with (S (S (S j))) by lia.
  reflexivity.
Qed.

Lemma wcode_nth_app_l (O Y : list Z) j dflt : (j + 3 < length O)%nat ->
  nth j (kmers (O ++ Y)) dflt = nth j (kmers O) (-1).
Proof.
  intro H. rewrite !kmers_nth by (rewrite ?app_length; lia).
  rewrite !app_nth1 by lia. reflexivity.
Qed.

(** A = X ++ O, B = O ++ Y: every 4-mer of the overlap O votes for the diagonal |X| *)
Lemma overlap_votes_left (X O Y : list Z) : (4 <= length O)%nat ->
  Z.of_nat (length O) - 3 <= diag_count (kmers (X ++ O)) (kmers (O ++ Y)) (Z.of_nat (length X)).
Proof.
  intro H4. unfold diag_count.
  replace (Z.of_nat (length O) - 3) with (Z.of_nat (length O - 3)) by lia.
  apply (diag_count_ge _ _ _ 0%nat 0%nat).
  - rewrite kmers_length, app_length. lia.
  - intros j Hj. cbn [Nat.add]. unfold match_at. rewrite kmers_length, app_length.
    replace (Z.to_nat (Z.of_nat j + Z.of_nat (length X))) with (length X + j)%nat by lia.
    rewrite wcode_nth_app_r by lia. rewrite (wcode_nth_app_l O Y j 0) by lia. rewrite Z.eqb_refl.
    destruct (Z.leb_spec 0 (Z.of_nat j + Z.of_nat (length X))); [|lia].
    destruct (Z.ltb_spec (Z.of_nat j + Z.of_nat (length X)) (Z.of_nat (length X + length O - 3))); [reflexivity | lia].
Qed.

(** B = X ++ O, A = O ++ Y: every 4-mer of the overlap O votes for the diagonal -|X| *)
Lemma overlap_votes_right (X O Y : list Z) : (4 <= length O)%nat ->
  Z.of_nat (length O) - 3 <= diag_count (kmers (O ++ Y)) (kmers (X ++ O)) (- Z.of_nat (length X)).
Proof.
  intro H4. unfold diag_count.
  replace (Z.of_nat (length O) - 3) with (Z.of_nat (length O - 3)) by lia.
  apply (diag_count_ge _ _ _ 0%nat (length X)).
  - rewrite kmers_length, app_length. lia.
  - intros j Hj. cbn [Nat.add]. unfold match_at. rewrite kmers_length, app_length.
    replace (Z.to_nat (Z.of_nat (length X + j) + - Z.of_nat (length X))) with j by lia.
    rewrite (wcode_nth_app_l O Y j (-1)) by lia.
    assert (E : nth (length X + j) (kmers (X ++ O)) 0 = nth j (kmers O) (-1)).
    { rewrite (nth_indep _ 0 (-1)) by (rewrite kmers_length, app_length; lia). apply wcode_nth_app_r. lia. }
    rewrite E, Z.eqb_refl.
    destruct (Z.leb_spec 0 (Z.of_nat (length X + j) + - Z.of_nat (length X))); [|lia].
    destruct (Z.ltb_spec (Z.of_nat (length X + j) + - Z.of_nat (length X)) (Z.of_nat (length O + length Y - 3))); [reflexivity | lia].
Qed.

(** the strict maximiser wins the vote *)
Lemma strict_max_selected a b rel D :
  1 <= diag_count (kmers a) (kmers b) D ->
  (forall d, d <> D -> 1 <= diag_count (kmers a) (kmers b) d -> (vsc rel a b d < vsc rel a b D)%Q) ->
  exists q, fast_shift a b rel = (D, diag_count (kmers a) (kmers b) D, q).
Proof.
  intros HD Hmax.
  destruct (fast_shift_spec a b rel) as [[Z0 _]|[s [c [q [E [P [C [Q M]]]]]]]].
  - rewrite Z0 in HD. lia.
  - destruct (Z.eq_dec s D) as [->|N].
    + exists q. rewrite E, C. reflexivity.
    + exfalso. specialize (Hmax s N ltac:(lia)). destruct (M D HD) as [H|[H _]]; lra.
Qed.

(** the identical-overlap shortcut, left and right *)
Lemma fast_with_shortcut_left sc gap la lb shift fc delta :
  (0 < shift \/ (shift = 0 /\ Z.of_nat la < Z.of_nat lb)) -> fc <> 0 -> Z.of_nat la - shift <= fc + 3 ->
  0 <= Z.of_nat la - shift <= Z.of_nat lb ->
  pealign_fast_with sc gap la lb shift fc delta =
  Some (true, diag_sum sc (Z.to_nat shift) 0 (Z.to_nat (Z.of_nat la - shift)),
        patch (- shift) (Z.of_nat lb - (Z.of_nat la - shift)) [0; Z.of_nat la - shift]).
Proof.
  intros Hs Hf Ho Hr. unfold pealign_fast_with. cbv zeta.
  replace ((shift >? 0) || ((shift =? 0) && (Z.of_nat la <? Z.of_nat lb))) with true.
  2:{ symmetry. destruct Hs as [H|[H1 H2]].
      - destruct (Z.gtb_spec shift 0); [reflexivity | lia].
      - subst shift. cbn [Z.gtb Z.compare Z.eqb orb andb]. apply Z.ltb_lt. exact H2. }
  replace ((fc =? 0) || (fc + 3 <? Z.of_nat la - shift)) with false.
  2:{ symmetry. apply orb_false_intro; [apply Z.eqb_neq; exact Hf | apply Z.ltb_ge; lia]. }
  replace ((shift <? 0) || (Z.of_nat la - shift <? 0) || (Z.of_nat la - shift >? Z.of_nat lb)) with false.
  2:{ symmetry. destruct (Z.ltb_spec shift 0); [lia|]. destruct (Z.ltb_spec (Z.of_nat la - shift) 0); [lia|].
      destruct (Z.gtb_spec (Z.of_nat la - shift) (Z.of_nat lb)); [lia | reflexivity]. }
  reflexivity.
Qed.

Lemma fast_with_shortcut_right sc gap la lb shift fc delta :
  (shift < 0 \/ (shift = 0 /\ Z.of_nat lb <= Z.of_nat la)) -> fc <> 0 -> Z.of_nat lb + shift <= fc + 3 ->
  0 <= Z.of_nat lb + shift <= Z.of_nat la ->
  pealign_fast_with sc gap la lb shift fc delta =
  Some (false, diag_sum sc 0 (Z.to_nat (- shift)) (Z.to_nat (Z.of_nat lb - - shift)),
        patch (- shift) (Z.of_nat lb - - shift - Z.of_nat la) [0; Z.of_nat lb - - shift]).
Proof.
  intros Hs Hf Ho Hr. unfold pealign_fast_with. cbv zeta.
  replace ((shift >? 0) || ((shift =? 0) && (Z.of_nat la <? Z.of_nat lb))) with false.
  2:{ symmetry. destruct Hs as [H|[H1 H2]].
      - destruct (Z.gtb_spec shift 0); [lia|]. destruct (Z.eqb_spec shift 0); [lia | reflexivity].
      - subst shift. cbn [Z.gtb Z.compare Z.eqb orb andb]. apply Z.ltb_ge. exact H2. }
  replace ((fc =? 0) || (fc + 3 <? Z.of_nat lb + shift)) with false.
  2:{ symmetry. apply orb_false_intro; [apply Z.eqb_neq; exact Hf | apply Z.ltb_ge; lia]. }
  replace ((- shift <? 0) || (Z.of_nat lb - - shift <? 0) || (Z.of_nat lb - - shift >? Z.of_nat la)) with false.
  2:{ symmetry. destruct (Z.ltb_spec (- shift) 0); [lia|]. destruct (Z.ltb_spec (Z.of_nat lb - - shift) 0); [lia|].
      destruct (Z.gtb_spec (Z.of_nat lb - - shift) (Z.of_nat la)); [lia | reflexivity]. }
  reflexivity.
Qed.

(** ---------------------------------------------------------------- consensus of the shortcut path *)
Lemma cons_base_same n q q' : cons_base n q n q' = n.
Proof. unfold cons_base. destruct (q' >? q); [reflexivity|]. rewrite Z.eqb_refl. cbn [negb]. rewrite andb_false_r. reflexivity. Qed.

Lemma zip4_same : forall s q q', length q = length s -> length q' = length s -> zip4 s q s q' = s.
Proof.
  induction s as [|n s IH]; intros q q' H1 H2; [destruct q; reflexivity|].
  destruct q as [|x q]; [discriminate|]. destruct q' as [|x' q']; [discriminate|].
  cbn [zip4]. rewrite cons_base_same. f_equal. apply IH; cbn [length] in *; lia.
Qed.

Definition letters (s : list Z) : Prop := Forall (fun n => In n iupac_letters) s.
Definition nonneg (q : list Z) : Prop := Forall (fun x => 0 <= x) q.

Lemma zip4_gapB : forall s q, length q = length s -> letters s -> nonneg q ->
  zip4 s q (repeat 32 (length s)) (repeat 0 (length s)) = s.
Proof.
  induction s as [|n s IH]; intros q H1 L Q; [destruct q; reflexivity|].
  destruct q as [|x q]; [discriminate|]. inversion L as [|? ? Ln Ls]; subst. inversion Q as [|? ? Qx Qq]; subst.
  cbn [length repeat zip4]. rewrite (proj1 (base_beats_gap n x Ln Qx)). f_equal. apply IH; cbn [length] in *; try lia; assumption.
Qed.

Lemma zip4_gapA : forall s q, length q = length s -> letters s -> nonneg q ->
  zip4 (repeat 32 (length s)) (repeat 0 (length s)) s q = s.
Proof.
  induction s as [|n s IH]; intros q H1 L Q; [destruct q; reflexivity|].
  destruct q as [|x q]; [discriminate|]. inversion L as [|? ? Ln Ls]; subst. inversion Q as [|? ? Qx Qq]; subst.
  cbn [length repeat zip4]. rewrite (proj2 (base_beats_gap n x Ln Qx)). f_equal. apply IH; cbn [length] in *; try lia; assumption.
Qed.

Lemma firstn_app_exact {A} (l1 l2 : list A) : firstn (length l1) (l1 ++ l2) = l1.
Proof. induction l1 as [|x l1 IH]; [reflexivity|]. cbn [length app firstn]. now rewrite IH. Qed.
Lemma skipn_app_exact {A} (l1 l2 : list A) : skipn (length l1) (l1 ++ l2) = l2.
Proof. induction l1 as [|x l1 IH]; [reflexivity|]. cbn [length app skipn]. exact IH. Qed.
Lemma firstn_app_len {A} n (l1 l2 : list A) : length l1 = n -> firstn n (l1 ++ l2) = l1.
Proof. intros <-. apply firstn_app_exact. Qed.
Lemma skipn_app_len {A} n (l1 l2 : list A) : length l1 = n -> skipn n (l1 ++ l2) = l2.
Proof. intros <-. apply skipn_app_exact. Qed.

Lemma pre_neg k : pre (- Z.of_nat k) = repeat MU k.
Proof. unfold pre. replace (Z.to_nat (- - Z.of_nat k)) with k by lia. replace (Z.to_nat (- Z.of_nat k)) with 0%nat by lia. cbn [repeat]. apply app_nil_r. Qed.
Lemma pre_pos k : pre (Z.of_nat k) = repeat MI k.
Proof. unfold pre. replace (Z.to_nat (- Z.of_nat k)) with 0%nat by lia. rewrite Nat2Z.id. reflexivity. Qed.
Lemma expand_diag n : expand [0; Z.of_nat n] = repeat MD n.
Proof. rewrite expand_pair. cbn [Z.opp Z.to_nat repeat app expand]. rewrite Nat2Z.id. apply app_nil_r. Qed.

(** A = X ++ O, B = O ++ Y, columns: |X| bases of A alone, |O| aligned pairs, |Y| bases of B alone *)
Lemma shortcut_columns_left X O Y qX qOa qOb qY :
  length qX = length X -> length qOa = length O -> length qOb = length O -> length qY = length Y ->
  letters X -> letters Y -> nonneg qX -> nonneg qY ->
  map cons4 (cols (repeat MU (length X) ++ repeat MD (length O) ++ repeat MI (length Y))
                  (X ++ O) (qX ++ qOa) (O ++ Y) (qOb ++ qY)) = X ++ O ++ Y.
Proof.
  intros H1 H2 H3 H4 LX LY QX QY.
  rewrite <- (app_nil_r (repeat MI (length Y))).
  rewrite cols_MU_run by (rewrite !app_length; lia).
  rewrite firstn_app_exact, (firstn_app_len _ qX qOa H1), skipn_app_exact, (skipn_app_len _ qX qOa H1).
  rewrite zip4_gapB by assumption.
  rewrite cols_MD_run by (rewrite ?app_length; lia).
  rewrite firstn_all, (@firstn_all2 _ (length O) qOa) by lia.
  rewrite firstn_app_exact, (firstn_app_len _ qOb qY H3).
  rewrite zip4_same by lia.
  rewrite skipn_all, (@skipn_all2 _ (length O) qOa) by lia.
  rewrite skipn_app_exact, (skipn_app_len _ qOb qY H3).
  rewrite cols_MI_run by lia.
  rewrite firstn_all, (@firstn_all2 _ (length Y) qY) by lia.
  rewrite zip4_gapA by assumption.
  cbn [cols map]. rewrite app_nil_r. reflexivity.
Qed.

(** B = X ++ O, A = O ++ Y, columns: |X| bases of B alone, |O| aligned pairs, |Y| bases of A alone *)
Lemma shortcut_columns_right X O Y qX qOa qOb qY :
  length qX = length X -> length qOa = length O -> length qOb = length O -> length qY = length Y ->
  letters X -> letters Y -> nonneg qX -> nonneg qY ->
  map cons4 (cols (repeat MI (length X) ++ repeat MD (length O) ++ repeat MU (length Y))
                  (O ++ Y) (qOa ++ qY) (X ++ O) (qX ++ qOb)) = X ++ O ++ Y.
Proof.
  intros H1 H2 H3 H4 LX LY QX QY.
  rewrite <- (app_nil_r (repeat MU (length Y))).
  rewrite cols_MI_run by (rewrite !app_length; lia).
  rewrite firstn_app_exact, (firstn_app_len _ qX qOb H1), skipn_app_exact, (skipn_app_len _ qX qOb H1).
  rewrite zip4_gapA by assumption.
  rewrite cols_MD_run by (rewrite ?app_length; lia).
  rewrite firstn_all, (@firstn_all2 _ (length O) qOb) by lia.
  rewrite firstn_app_exact, (firstn_app_len _ qOa qY H2).
  rewrite zip4_same by lia.
  rewrite skipn_all, (@skipn_all2 _ (length O) qOb) by lia.
  rewrite skipn_app_exact, (skipn_app_len _ qOa qY H2).
  rewrite cols_MU_run by lia.
  rewrite firstn_all, (@firstn_all2 _ (length Y) qY) by lia.
  rewrite zip4_gapB by assumption.
  cbn [cols map]. rewrite app_nil_r. reflexivity.
Qed.

Lemma patch_diag e5 e3 o : 0 < o -> patch e5 e3 [0; o] = [e5; o; e3; 0].
Proof.
  intro H. unfold patch, patch5. cbn [Z.mul Z.geb Z.compare Z.add].
  unfold patch3. cbn [rev app]. destruct (Z.eqb_spec o 0); [lia|]. reflexivity.
Qed.

(** ---------------------------------------------------------------- reassembly in fast mode *)
(** B starts inside A (or at the same position and is the longer one): A = X ++ O, B = O ++ Y, fragment X ++ O ++ Y *)
Lemma fast_reassembly_left sc gap X O Y qX qOa qOb qY rel delta :
  (4 <= length O)%nat -> (X <> [] \/ Y <> []) ->
  length qX = length X -> length qOa = length O -> length qOb = length O -> length qY = length Y ->
  letters X -> letters Y -> nonneg qX -> nonneg qY -> 0 <= delta ->
  (forall d, d <> Z.of_nat (length X) -> 1 <= diag_count (kmers (X ++ O)) (kmers (O ++ Y)) d ->
             (vsc rel (X ++ O) (O ++ Y) d < vsc rel (X ++ O) (O ++ Y) (Z.of_nat (length X)))%Q) ->
  exists s p, pealign_fast sc gap (X ++ O) (O ++ Y) rel delta = Some (true, s, p) /\
              consumed p = (length (X ++ O), length (O ++ Y)) /\
              path_score sc gap (length (X ++ O)) (length (O ++ Y)) true p = s /\
              consensus (X ++ O) (qX ++ qOa) (O ++ Y) (qOb ++ qY) p = X ++ O ++ Y /\
              p = [- Z.of_nat (length X); Z.of_nat (length O); Z.of_nat (length Y); 0].
Proof.
  intros H4 Hne H1 H2 H3 H5 LX LY QX QY Hd Hmax.
  pose proof (overlap_votes_left X O Y H4) as HV.
  destruct (strict_max_selected (X ++ O) (O ++ Y) rel (Z.of_nat (length X)) ltac:(lia) Hmax) as [q E].
  destruct (pealign_fast_ok sc gap (X ++ O) (O ++ Y) rel delta) as [isl [s [p [R [C S]]]]];
    [rewrite app_length; lia | rewrite app_length; lia | exact Hd |].
  pose proof R as R'. unfold pealign_fast in R'. rewrite E in R'.
  rewrite fast_with_shortcut_left in R'.
  - injection R' as <- Es Ep. exists s, p. split; [exact R|]. split; [exact C|]. split; [exact S|].
    rewrite consensus_cols by (rewrite ?app_length in *; try exact C; lia).
    rewrite <- Ep. rewrite patch_expand by (try discriminate; reflexivity).
    rewrite !app_length.
    replace (Z.of_nat (length X + length O) - Z.of_nat (length X)) with (Z.of_nat (length O)) by lia.
    replace (Z.of_nat (length O + length Y) - Z.of_nat (length O)) with (Z.of_nat (length Y)) by lia.
    rewrite pre_neg, pre_pos, expand_diag.
    split; [apply shortcut_columns_left; assumption|].
    apply patch_diag. lia.
  - rewrite !app_length. destruct X as [|x X']; [|left; cbn [length]; lia].
    right. split; [reflexivity|]. destruct Hne as [N|N]; [congruence|]. destruct Y; [congruence|]. cbn [length]. lia.
  - lia.
  - rewrite !app_length. lia.
  - rewrite !app_length. lia.
Qed.

(** A starts inside B (or at the same position and is at least as long): B = X ++ O, A = O ++ Y *)
Lemma fast_reassembly_right sc gap X O Y qX qOa qOb qY rel delta :
  (4 <= length O)%nat ->
  length qX = length X -> length qOa = length O -> length qOb = length O -> length qY = length Y ->
  letters X -> letters Y -> nonneg qX -> nonneg qY -> 0 <= delta ->
  (forall d, d <> - Z.of_nat (length X) -> 1 <= diag_count (kmers (O ++ Y)) (kmers (X ++ O)) d ->
             (vsc rel (O ++ Y) (X ++ O) d < vsc rel (O ++ Y) (X ++ O) (- Z.of_nat (length X)))%Q) ->
  exists s p, pealign_fast sc gap (O ++ Y) (X ++ O) rel delta = Some (false, s, p) /\
              consumed p = (length (O ++ Y), length (X ++ O)) /\
              path_score sc gap (length (O ++ Y)) (length (X ++ O)) false p = s /\
              consensus (O ++ Y) (qOa ++ qY) (X ++ O) (qX ++ qOb) p = X ++ O ++ Y /\
              p = [Z.of_nat (length X); Z.of_nat (length O); - Z.of_nat (length Y); 0].
Proof.
  intros H4 H1 H2 H3 H5 LX LY QX QY Hd Hmax.
  pose proof (overlap_votes_right X O Y H4) as HV.
  destruct (strict_max_selected (O ++ Y) (X ++ O) rel (- Z.of_nat (length X)) ltac:(lia) Hmax) as [q E].
  destruct (pealign_fast_ok sc gap (O ++ Y) (X ++ O) rel delta) as [isl [s [p [R [C S]]]]];
    [rewrite app_length; lia | rewrite app_length; lia | exact Hd |].
  pose proof R as R'. unfold pealign_fast in R'. rewrite E in R'.
  rewrite fast_with_shortcut_right in R'.
  - injection R' as <- Es Ep. exists s, p. split; [exact R|]. split; [exact C|]. split; [exact S|].
    rewrite consensus_cols by (rewrite ?app_length in *; try exact C; lia).
    rewrite <- Ep. rewrite patch_expand by (try discriminate; reflexivity).
    rewrite !app_length.
    replace (- - Z.of_nat (length X)) with (Z.of_nat (length X)) by lia.
    replace (Z.of_nat (length X + length O) - Z.of_nat (length X)) with (Z.of_nat (length O)) by lia.
    replace (Z.of_nat (length O) - Z.of_nat (length O + length Y)) with (- Z.of_nat (length Y)) by lia.
    rewrite pre_neg, pre_pos, expand_diag.
    split; [apply shortcut_columns_right; assumption|].
    apply patch_diag. lia.
  - rewrite !app_length. destruct X as [|x X']; [right; cbn [length]; lia | left; cbn [length]; lia].
  - lia.
  - rewrite !app_length. lia.
  - rewrite !app_length. lia.
Qed.

(** ---------------------------------------------------------------- exact statement of the counting, with membership *)
Lemma votes_exact a b :
  let m := count_votes (encode4mer a) (encode4mer b) in
  (forall d, vget m d = diag_count (kmers a) (kmers b) d) /\
  NoDup (map fst m) /\ Forall (fun p => 1 <= snd p) m /\
  (forall d c, In (d, c) m <-> (1 <= c /\ c = diag_count (kmers a) (kmers b) d)).
Proof.
  cbv zeta. rewrite !encode4mer_kmers.
  destruct (count_votes_exact (kmers a) (kmers b)) as [[ND F] EX].
  split; [exact EX|]. split; [exact ND|]. split; [exact F|].
  intros d c. split.
  - intro I. split.
    + rewrite Forall_forall in F. specialize (F _ I). exact F.
    + rewrite <- EX. symmetry. now apply vget_in.
  - intros [P E]. subst c. rewrite <- EX. apply in_vget. rewrite EX. lia.
Qed.

(** a diagonal that holds a vote stands for an overlap of at least count + 3 bases: the denominator of the relative
    score is >= count >= 1 (no division by zero, relative score in (0, 1]) *)
Lemma vote_over_pos a b d : 1 <= diag_count (kmers a) (kmers b) d ->
  diag_count (kmers a) (kmers b) d <= rel_over (Z.of_nat (length a)) (Z.of_nat (length b)) d - 3.
Proof.
  intro H. pose proof (diag_count_pos _ _ _ H) as [R [B1 [B2 [B3 B4]]]].
  rewrite !kmers_length in *. unfold rel_over.
  destruct (Z.gtb_spec d 0); [lia|]. destruct (Z.ltb_spec d 0); lia.
Qed.

Lemma votes_exact_pairs a b d :
  vget (count_votes (encode4mer a) (encode4mer b)) d = Z.of_nat (length (diag_pairs (kmers a) (kmers b) d)) /\
  diag_count (kmers a) (kmers b) d = Z.of_nat (length (diag_pairs (kmers a) (kmers b) d)).
Proof.
  rewrite !encode4mer_kmers. rewrite (proj2 (count_votes_exact (kmers a) (kmers b)) d).
  split; apply diag_count_pairs.
Qed.

(** ---------------------------------------------------------------- examples / witnesses *)
Definition ex_a : list Z := [97; 99] ++ [103; 116; 99; 97].   (* ac ++ gtca *)
Definition ex_b : list Z := [103; 116; 99; 97] ++ [116].      (* gtca ++ t *)
Lemma fast_reassembly_example :
  (forall d, d <> 2 -> 1 <= diag_count (kmers ex_a) (kmers ex_b) d ->
             (vsc true ex_a ex_b d <
              vsc true ex_a ex_b 2)%Q) /\
  pealign_fast (fun i j => if (i =? j + 2)%nat then 14 else -80) (-161) [97; 99; 103; 116; 99; 97] [103; 116; 99; 97; 116] true 5
  = Some (true, 56, [-2; 4; 1; 0]).
Proof.
  split; [|vm_compute; reflexivity].
  intros d Hn H1. exfalso.
  pose proof (diag_count_pos _ _ _ H1) as [R _].
  change (- 2 < d < 3) in R.
  assert (C : d = -1 \/ d = 0 \/ d = 1) by lia.
  destruct C as [ -> | [ -> | -> ] ]; vm_compute in H1; apply H1; reflexivity.
Qed.

Definition cw_a : list Z := [116; 97; 97; 97; 103; 97; 99; 97].     (* taaagaca *)
Definition cw_b : list Z := [97; 97; 97; 103; 97; 99].               (* aaagac = A[1..7) *)
Definition cw_sc (i j : nat) : Z := if nth i cw_a 0 =? nth j cw_b 1 then 14 else -80.

Lemma fast_containment_refuted :
  exists a b q sc gap,
    b = firstn 6 (skipn 1 a) /\ length a = 8%nat /\
    (exists fs, fast_shift a b false = (1, 3, fs)) /\
    (forall d, d <> 1 -> diag_count (kmers a) (kmers b) d = 0) /\
    exists isl s p, pealign_fast sc gap a b false 5 = Some (isl, s, p) /\ consensus a q b q p <> a.
Proof.
  exists cw_a, cw_b, (repeat 40 8), cw_sc, (-161).
  split; [reflexivity|]. split; [reflexivity|]. split; [eexists; vm_compute; reflexivity|]. split.
  - intros d Hn.
    destruct (Z_le_gt_dec 1 (diag_count (kmers cw_a) (kmers cw_b) d)) as [H1|H1].
    + exfalso. pose proof (diag_count_pos _ _ _ H1) as [R _].
      change (- 3 < d < 5) in R.
      assert (C : d = -2 \/ d = -1 \/ d = 0 \/ d = 2 \/ d = 3 \/ d = 4) by lia.
      destruct C as [ -> | [ -> | [ -> | [ -> | [ -> | -> ] ] ] ] ]; vm_compute in H1; apply H1; reflexivity.
    + pose proof (diag_count_from_nonneg (kmers cw_a) d (kmers cw_b) 0). unfold diag_count in *. lia.
  - eexists _, _, _. split; [vm_compute; reflexivity|]. vm_compute. discriminate.
Qed.
