(** C08 — BuildAlignment and Encode4bits. *)
From Coq Require Import ZArith List Bool Lia.
From OBI.C08.Gen Require Import Tables.
From OBI.C08 Require Import Model Proofs.
From OBI.C08 Require Import SchemeModel ApiModel.
Import ListNotations.
Open Scope Z_scope.

Definition nogap (g : Z) (x : Z) : bool := negb (x =? g).

Lemma in_firstn {A} (x : A) n l : In x (firstn n l) -> In x l.
Proof. intro H. rewrite <- (firstn_skipn n l). apply in_or_app. now left. Qed.
Lemma in_skipn {A} (x : A) n l : In x (skipn n l) -> In x l.
Proof. intro H. rewrite <- (firstn_skipn n l). apply in_or_app. now right. Qed.

Lemma filter_all {A} (f : A -> bool) l : (forall x, In x l -> f x = true) -> filter f l = l.
Proof.
  induction l as [|y l IH]; intro H; [reflexivity|].
  cbn [filter]. rewrite (H y (or_introl eq_refl)). f_equal. apply IH. intros x Hx. apply H. now right.
Qed.
Lemma filter_repeat_gap g n : filter (nogap g) (repeat g n) = [].
Proof.
  induction n as [|n IH]; [reflexivity|]. cbn [repeat filter]. unfold nogap at 1. rewrite Z.eqb_refl. exact IH.
Qed.
Lemma nogap_true g l : ~ In g l -> forall x, In x l -> nogap g x = true.
Proof.
  intros H x Hx. unfold nogap. destruct (Z.eqb_spec x g) as [->|]; [contradiction | reflexivity].
Qed.

(** the two rows of BuildAlignment: as long as the path, and each row without its gap symbols is the read *)
Lemma build_ali_rows_n g : forall n p a b, (length p <= n)%nat ->
  consumed p = (length a, length b) -> ~ In g a -> ~ In g b ->
  length (fst (build_ali a b p g)) = length (expand p) /\
  length (snd (build_ali a b p g)) = length (expand p) /\
  filter (nogap g) (fst (build_ali a b p g)) = a /\
  filter (nogap g) (snd (build_ali a b p g)) = b.
Proof.
  induction n as [|n IH]; intros p a b Hn Hc Ha Hb.
  - destruct p; [|cbn in Hn; lia]. cbn in Hc. injection Hc as E1 E2.
    destruct a, b; try discriminate. repeat split; reflexivity.
  - destruct p as [|ind [|d r]].
    + cbn in Hc. injection Hc as E1 E2. destruct a, b; try discriminate. repeat split; reflexivity.
    + cbn in Hc. injection Hc as E1 E2. destruct a, b; try discriminate. repeat split; reflexivity.
    + unfold consumed in Hc. rewrite expand_pair in Hc. rewrite !mconsumed_app in Hc.
      rewrite mconsumed_repeat_MU, mconsumed_repeat_MI, mconsumed_repeat_MD in Hc. cbn [fst snd] in Hc.
      destruct (mconsumed (expand r)) as [ca cb] eqn:Er. cbn [fst snd] in Hc.
      injection Hc as Hla Hlb.
      rewrite build_ali_pair. cbv zeta. cbn [fst snd]. rewrite expand_pair.
      set (na := Z.to_nat (- ind)) in *. set (nb := Z.to_nat ind) in *. set (nd := Z.to_nat d) in *.
      destruct (IH r (skipn nd (skipn na a)) (skipn nd (skipn nb b))) as [L1 [L2 [F1 F2]]].
      * cbn [length] in Hn. lia.
      * unfold consumed. rewrite Er, !skipn_length. f_equal; lia.
      * intro H. apply Ha. eapply in_skipn, in_skipn, H.
      * intro H. apply Hb. eapply in_skipn, in_skipn, H.
      * rewrite !app_length, !repeat_length, !firstn_length, !skipn_length, L1, L2.
        rewrite !filter_app, !filter_repeat_gap, F1, F2.
        rewrite !(filter_all (nogap g)).
        -- repeat split; try lia.
           ++ cbn [app]. rewrite (firstn_skipn nd (skipn na a)). apply firstn_skipn.
           ++ cbn [app]. rewrite (firstn_skipn nd (skipn nb b)). apply firstn_skipn.
        -- apply nogap_true. intro H. apply Hb. eapply in_skipn, in_firstn, H.
        -- apply nogap_true. intro H. apply Hb. eapply in_firstn, H.
        -- apply nogap_true. intro H. apply Ha. eapply in_skipn, in_firstn, H.
        -- apply nogap_true. intro H. apply Ha. eapply in_firstn, H.
Qed.

Lemma build_alignment_rows a b p g :
  consumed p = (length a, length b) -> ~ In g a -> ~ In g b ->
  length (fst (build_alignment a b p g)) = length (expand p) /\
  length (snd (build_alignment a b p g)) = length (expand p) /\
  filter (nogap g) (fst (build_alignment a b p g)) = a /\
  filter (nogap g) (snd (build_alignment a b p g)) = b.
Proof. intros. unfold build_alignment. now apply (build_ali_rows_n g (length p)). Qed.

(** Encode4bits *)
Lemma encode4bits_length s : length (encode4bits s) = length s.
Proof. unfold encode4bits. apply map_length. Qed.
Lemma encode4bits_app s t : encode4bits (s ++ t) = encode4bits s ++ encode4bits t.
Proof. unfold encode4bits. apply map_app. Qed.

(** the consensus base of a column whose two IUPAC symbols have EQUAL qualities denotes exactly the union of the two base
    sets, and with different qualities the set of the better base (over the regenerated code / decode tables) *)
Definition union_ok_b : bool :=
  forallb (fun na => forallb (fun nb =>
     (code4 (cons_base na 30 nb 30) =? Z.lor (code4 na) (code4 nb)) &&
     (code4 (cons_base na 31 nb 30) =? code4 na) && (code4 (cons_base na 30 nb 31) =? code4 nb)) iupac_letters) iupac_letters.

Lemma cons_base_quality_free na xa nb xb ya yb :
  (xb >? xa) = (yb >? ya) -> (xb =? xa) = (yb =? ya) -> cons_base na xa nb xb = cons_base na ya nb yb.
Proof. intros H1 H2. unfold cons_base. now rewrite H1, H2. Qed.

Lemma consensus_code_union na nb q : In na iupac_letters -> In nb iupac_letters ->
  code4 (cons_base na q nb q) = Z.lor (code4 na) (code4 nb).
Proof.
  intros Ha Hb.
  assert (T : union_ok_b = true) by (vm_compute; reflexivity).
  unfold union_ok_b in T. rewrite forallb_forall in T. specialize (T na Ha). rewrite forallb_forall in T. specialize (T nb Hb).
  apply andb_prop in T. destruct T as [T _]. apply andb_prop in T. destruct T as [T _]. apply Z.eqb_eq in T.
  rewrite (cons_base_quality_free na q nb q 30 30); [exact T| |]; rewrite ?Z.gtb_ltb, ?Z.ltb_irrefl, ?Z.eqb_refl; reflexivity.
Qed.

Lemma consensus_code_better na nb qa qb : In na iupac_letters -> In nb iupac_letters ->
  (qa > qb -> code4 (cons_base na qa nb qb) = code4 na) /\ (qb > qa -> code4 (cons_base na qa nb qb) = code4 nb).
Proof.
  intros Ha Hb.
  assert (T : union_ok_b = true) by (vm_compute; reflexivity).
  unfold union_ok_b in T. rewrite forallb_forall in T. specialize (T na Ha). rewrite forallb_forall in T. specialize (T nb Hb).
  apply andb_prop in T. destruct T as [T T3]. apply andb_prop in T. destruct T as [_ T2].
  apply Z.eqb_eq in T2, T3. split; intro H.
  - rewrite (cons_base_quality_free na qa nb qb 31 30); [exact T2| |].
    + rewrite !Z.gtb_ltb. destruct (Z.ltb_spec qa qb); [lia | reflexivity].
    + destruct (Z.eqb_spec qb qa); [lia | reflexivity].
  - rewrite (cons_base_quality_free na qa nb qb 30 31); [exact T3| |].
    + rewrite !Z.gtb_ltb. destruct (Z.ltb_spec qa qb); [reflexivity | lia].
    + destruct (Z.eqb_spec qb qa); [lia | reflexivity].
Qed.

(** Encode4bits of the IUPAC letters: the base sets a c g t = 1 2 4 8, every code in 1..15, injective on the 15 letters *)
Lemma encode4bits_iupac :
  encode4bits [97; 99; 103; 116] = [1; 2; 4; 8] /\
  encode4bits [45; 46] = [0; 0] /\
  (forall n, In n iupac_letters -> 1 <= code4 n <= 15) /\
  (forall n m, In n iupac_letters -> In m iupac_letters -> code4 n = code4 m -> n = m).
Proof.
  split; [vm_compute; reflexivity|]. split; [vm_compute; reflexivity|]. split.
  - intros n H. assert (T : forallb (fun n => (1 <=? code4 n) && (code4 n <=? 15)) iupac_letters = true) by (vm_compute; reflexivity).
    rewrite forallb_forall in T. specialize (T n H). apply andb_prop in T. destruct T as [T1 T2]. apply Z.leb_le in T1, T2. lia.
  - intros n m Hn Hm E.
    assert (T : forallb (fun n => forallb (fun m => negb (code4 n =? code4 m) || (n =? m)) iupac_letters) iupac_letters = true)
      by (vm_compute; reflexivity).
    rewrite forallb_forall in T. specialize (T n Hn). rewrite forallb_forall in T. specialize (T m Hm).
    rewrite E, Z.eqb_refl in T. cbn [negb orb] in T. now apply Z.eqb_eq.
Qed.
