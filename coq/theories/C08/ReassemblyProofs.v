(** C08 — the last clause of the property at the level of AssemblePESequences: error-free reads whose true offset wins
    the vote are returned in mode "alignment" with the fragment as sequence and the matching annotations. *)
From Coq Require Import ZArith QArith List Bool Lia.
From OBI.C08 Require Import VoteModel VoteProofs VoteCount Model Proofs FastProofs AsmProofs.
Import ListNotations.
Open Scope Z_scope.

Definition positive (q : list Z) : Prop := Forall (fun x => 0 < x) q.

Lemma zsum_app l1 l2 : zsum (l1 ++ l2) = zsum l1 + zsum l2.
Proof. unfold zsum. induction l1 as [|x l1 IH]; cbn [app fold_right]; lia. Qed.

Lemma is_match_gapB n q : is_match n q 32 0 = 0.
Proof. unfold is_match. cbn [Z.gtb Z.compare]. now rewrite andb_false_r. Qed.
Lemma is_match_gapA n q : is_match 32 0 n q = 0.
Proof. unfold is_match. cbn [Z.gtb Z.compare]. now rewrite andb_false_r. Qed.

Lemma zsum_gapB : forall s q n, zsum (zip4g is_match s q (repeat 32 n) (repeat 0 n)) = 0.
Proof.
  induction s as [|x s IH]; intros q n; [reflexivity|].
  destruct q as [|y q]; [reflexivity|]. destruct n as [|n]; [reflexivity|].
  cbn [repeat zip4g]. unfold zsum in *. cbn [fold_right]. rewrite is_match_gapB, IH. reflexivity.
Qed.
Lemma zsum_gapA : forall s q n, zsum (zip4g is_match (repeat 32 n) (repeat 0 n) s q) = 0.
Proof.
  induction s as [|x s IH]; intros q n; [destruct n; reflexivity|].
  destruct n as [|n]; [reflexivity|]. destruct q as [|y q]; [reflexivity|].
  cbn [repeat zip4g]. unfold zsum in *. cbn [fold_right]. rewrite is_match_gapA, IH. reflexivity.
Qed.
Lemma zsum_same : forall s q q', length q = length s -> length q' = length s -> positive q -> positive q' ->
  zsum (zip4g is_match s q s q') = Z.of_nat (length s).
Proof.
  induction s as [|x s IH]; intros q q' H1 H2 P P'; [destruct q; reflexivity|].
  destruct q as [|y q]; [discriminate|]. destruct q' as [|y' q']; [discriminate|].
  inversion P as [|? ? Py Pq]; subst. inversion P' as [|? ? Py' Pq']; subst.
  cbn [zip4g]. unfold zsum in *. cbn [fold_right]. rewrite IH by (cbn [length] in *; try lia; assumption).
  unfold is_match. rewrite Z.eqb_refl. destruct (Z.gtb_spec y 0); [|lia]. destruct (Z.gtb_spec y' 0); [|lia].
  cbn [andb length]. lia.
Qed.

Section G.
  Variable f : Z -> Z -> Z -> Z -> Z.

  Lemma columns_g_left X O Y qX qOa qOb qY :
    length qX = length X -> length qOa = length O -> length qOb = length O -> length qY = length Y ->
    map (app4 f) (cols (repeat MU (length X) ++ repeat MD (length O) ++ repeat MI (length Y))
                       (X ++ O) (qX ++ qOa) (O ++ Y) (qOb ++ qY)) =
    zip4g f X qX (repeat 32 (length X)) (repeat 0 (length X)) ++ zip4g f O qOa O qOb ++
    zip4g f (repeat 32 (length Y)) (repeat 0 (length Y)) Y qY.
  Proof.
    intros H1 H2 H3 H4.
    rewrite <- (app_nil_r (repeat MI (length Y))).
    rewrite colsg_MU_run by (rewrite !app_length; lia).
    rewrite firstn_app_exact, (firstn_app_len _ qX qOa H1), skipn_app_exact, (skipn_app_len _ qX qOa H1).
    rewrite colsg_MD_run by (rewrite ?app_length; lia).
    rewrite firstn_all, (@firstn_all2 _ (length O) qOa) by lia.
    rewrite firstn_app_exact, (firstn_app_len _ qOb qY H3).
    rewrite skipn_all, (@skipn_all2 _ (length O) qOa) by lia.
    rewrite skipn_app_exact, (skipn_app_len _ qOb qY H3).
    rewrite colsg_MI_run by lia.
    rewrite firstn_all, (@firstn_all2 _ (length Y) qY) by lia.
    cbn [cols map]. rewrite app_nil_r. reflexivity.
  Qed.

  Lemma columns_g_right X O Y qX qOa qOb qY :
    length qX = length X -> length qOa = length O -> length qOb = length O -> length qY = length Y ->
    map (app4 f) (cols (repeat MI (length X) ++ repeat MD (length O) ++ repeat MU (length Y))
                       (O ++ Y) (qOa ++ qY) (X ++ O) (qX ++ qOb)) =
    zip4g f (repeat 32 (length X)) (repeat 0 (length X)) X qX ++ zip4g f O qOa O qOb ++
    zip4g f Y qY (repeat 32 (length Y)) (repeat 0 (length Y)).
  Proof.
    intros H1 H2 H3 H4.
    rewrite <- (app_nil_r (repeat MU (length Y))).
    rewrite colsg_MI_run by (rewrite !app_length; lia).
    rewrite firstn_app_exact, (firstn_app_len _ qX qOb H1), skipn_app_exact, (skipn_app_len _ qX qOb H1).
    rewrite colsg_MD_run by (rewrite ?app_length; lia).
    rewrite firstn_all, (@firstn_all2 _ (length O) qOb) by lia.
    rewrite firstn_app_exact, (firstn_app_len _ qOa qY H2).
    rewrite skipn_all, (@skipn_all2 _ (length O) qOb) by lia.
    rewrite skipn_app_exact, (skipn_app_len _ qOa qY H2).
    rewrite colsg_MU_run by lia.
    rewrite firstn_all, (@firstn_all2 _ (length Y) qY) by lia.
    cbn [cols map]. rewrite app_nil_r. reflexivity.
  Qed.
End G.

Lemma expand_left_path x o y :
  expand [- Z.of_nat x; Z.of_nat o; Z.of_nat y; 0] = repeat MU x ++ repeat MD o ++ repeat MI y.
Proof.
  rewrite !expand_pair.
  replace (Z.to_nat (- - Z.of_nat x)) with x by lia. replace (Z.to_nat (- Z.of_nat x)) with 0%nat by lia.
  replace (Z.to_nat (- Z.of_nat y)) with 0%nat by lia. rewrite !Nat2Z.id.
  cbn [Z.to_nat repeat app expand]. rewrite !app_nil_r. reflexivity.
Qed.

Lemma expand_right_path x o y :
  expand [Z.of_nat x; Z.of_nat o; - Z.of_nat y; 0] = repeat MI x ++ repeat MD o ++ repeat MU y.
Proof.
  rewrite !expand_pair.
  replace (Z.to_nat (- - Z.of_nat y)) with y by lia. replace (Z.to_nat (- Z.of_nat x)) with 0%nat by lia.
  replace (Z.to_nat (- Z.of_nat y)) with 0%nat by lia. rewrite !Nat2Z.id.
  cbn [Z.to_nat repeat app expand]. rewrite !app_nil_r. reflexivity.
Qed.

Lemma ident_one o minid : 0 < o -> (minid <= 1)%Q -> Qle_bool minid (if o =? 0 then 0%Q else Qmake o (Z.to_pos o)) = true.
Proof.
  intros Ho Hm. destruct (Z.eqb_spec o 0); [lia|]. apply Qle_bool_iff.
  assert (E : (Qmake o (Z.to_pos o) == 1)%Q) by (unfold Qeq; cbn [Qnum Qden]; rewrite Z2Pos.id by lia; lia).
  rewrite E. exact Hm.
Qed.

(** the record written for A = X ++ O, B = O ++ Y and the path [-|X| |O| |Y| 0] *)
Lemma assemble_left X O Y qX qOa qOb qY s minov minid :
  (1 <= length O)%nat ->
  length qX = length X -> length qOa = length O -> length qOb = length O -> length qY = length Y ->
  positive qOa -> positive qOb -> minov <= Z.of_nat (length O) -> (minid <= 1)%Q ->
  consensus (X ++ O) (qX ++ qOa) (O ++ Y) (qOb ++ qY) [- Z.of_nat (length X); Z.of_nat (length O); Z.of_nat (length Y); 0] = X ++ O ++ Y ->
  let p := [- Z.of_nat (length X); Z.of_nat (length O); Z.of_nat (length Y); 0] in
  assemble (X ++ O) (qX ++ qOa) (O ++ Y) (qOb ++ qY) true s p minov minid =
  mka true (X ++ O ++ Y) (consensus_qual (X ++ O) (qX ++ qOa) (O ++ Y) (qOb ++ qY) p)
      (Z.of_nat (length O)) (Z.of_nat (length O)) (Z.of_nat (length X)) (Z.of_nat (length Y)) true s.
Proof.
  intros Ho H1 H2 H3 H4 Pa Pb Hov Hid Hc. cbv zeta.
  set (p := [- Z.of_nat (length X); Z.of_nat (length O); Z.of_nat (length Y); 0]) in *.
  assert (Cp : consumed p = (length (X ++ O), length (O ++ Y))).
  { unfold consumed, p. rewrite expand_left_path, !mconsumed_app, mconsumed_repeat_MU, mconsumed_repeat_MD, mconsumed_repeat_MI.
    cbn [fst snd]. rewrite !app_length. f_equal; lia. }
  assert (M : match_count (X ++ O) (qX ++ qOa) (O ++ Y) (qOb ++ qY) p = Z.of_nat (length O)).
  { unfold match_count. rewrite columns_map_cols by (first [exact Cp | rewrite !app_length; lia]).
    unfold p. rewrite expand_left_path, columns_g_left by assumption.
    fold (zsum (zip4g is_match X qX (repeat 32 (length X)) (repeat 0 (length X)) ++ zip4g is_match O qOa O qOb ++
                zip4g is_match (repeat 32 (length Y)) (repeat 0 (length Y)) Y qY)).
    rewrite !zsum_app, zsum_gapB, zsum_gapA, zsum_same by assumption. lia. }
  unfold assemble. cbv zeta. rewrite Hc, M.
  assert (AL : ann_left p = - Z.of_nat (length X)) by reflexivity.
  assert (AR : ann_right p = Z.of_nat (length Y)) by reflexivity.
  rewrite AL, AR, !app_length.
  replace (Z.of_nat (length X + (length O + length Y)) - Z.abs (- Z.of_nat (length X)) - Z.abs (Z.of_nat (length Y)))
    with (Z.of_nat (length O)) by lia.
  replace (Z.of_nat (length O) >=? minov) with true by (symmetry; apply Z.geb_le; lia).
  rewrite ident_one by (try assumption; lia). cbn [andb].
  unfold a_single, b_single. rewrite AL, AR. f_equal; lia.
Qed.

(** the record written for B = X ++ O, A = O ++ Y and the path [|X| |O| -|Y| 0] *)
Lemma assemble_right X O Y qX qOa qOb qY s minov minid :
  (1 <= length O)%nat ->
  length qX = length X -> length qOa = length O -> length qOb = length O -> length qY = length Y ->
  positive qOa -> positive qOb -> minov <= Z.of_nat (length O) -> (minid <= 1)%Q ->
  consensus (O ++ Y) (qOa ++ qY) (X ++ O) (qX ++ qOb) [Z.of_nat (length X); Z.of_nat (length O); - Z.of_nat (length Y); 0] = X ++ O ++ Y ->
  let p := [Z.of_nat (length X); Z.of_nat (length O); - Z.of_nat (length Y); 0] in
  assemble (O ++ Y) (qOa ++ qY) (X ++ O) (qX ++ qOb) false s p minov minid =
  mka true (X ++ O ++ Y) (consensus_qual (O ++ Y) (qOa ++ qY) (X ++ O) (qX ++ qOb) p)
      (Z.of_nat (length O)) (Z.of_nat (length O)) (Z.of_nat (length Y)) (Z.of_nat (length X)) false s.
Proof.
  intros Ho H1 H2 H3 H4 Pa Pb Hov Hid Hc. cbv zeta.
  set (p := [Z.of_nat (length X); Z.of_nat (length O); - Z.of_nat (length Y); 0]) in *.
  assert (Cp : consumed p = (length (O ++ Y), length (X ++ O))).
  { unfold consumed, p. rewrite expand_right_path, !mconsumed_app, mconsumed_repeat_MU, mconsumed_repeat_MD, mconsumed_repeat_MI.
    cbn [fst snd]. rewrite !app_length. f_equal; lia. }
  assert (M : match_count (O ++ Y) (qOa ++ qY) (X ++ O) (qX ++ qOb) p = Z.of_nat (length O)).
  { unfold match_count. rewrite columns_map_cols by (first [exact Cp | rewrite !app_length; lia]).
    unfold p. rewrite expand_right_path, columns_g_right by assumption.
    fold (zsum (zip4g is_match (repeat 32 (length X)) (repeat 0 (length X)) X qX ++ zip4g is_match O qOa O qOb ++
                zip4g is_match Y qY (repeat 32 (length Y)) (repeat 0 (length Y)))).
    rewrite !zsum_app, zsum_gapB, zsum_gapA, zsum_same by assumption. lia. }
  unfold assemble. cbv zeta. rewrite Hc, M.
  assert (AL : ann_left p = Z.of_nat (length X)) by reflexivity.
  assert (AR : ann_right p = - Z.of_nat (length Y)) by reflexivity.
  rewrite AL, AR, !app_length.
  replace (Z.of_nat (length X + (length O + length Y)) - Z.abs (Z.of_nat (length X)) - Z.abs (- Z.of_nat (length Y)))
    with (Z.of_nat (length O)) by lia.
  replace (Z.of_nat (length O) >=? minov) with true by (symmetry; apply Z.geb_le; lia).
  rewrite ident_one by (try assumption; lia). cbn [andb].
  unfold a_single, b_single. rewrite AL, AR. f_equal; lia.
Qed.

(** PEAlign (fast) followed by AssemblePESequences on error-free reads whose true offset wins the vote *)
Lemma fast_reassembly_record_left sc gap X O Y qX qOa qOb qY rel delta minov minid :
  (4 <= length O)%nat -> (X <> [] \/ Y <> []) ->
  length qX = length X -> length qOa = length O -> length qOb = length O -> length qY = length Y ->
  letters X -> letters Y -> nonneg qX -> nonneg qY -> positive qOa -> positive qOb -> 0 <= delta ->
  minov <= Z.of_nat (length O) -> (minid <= 1)%Q ->
  (forall d, d <> Z.of_nat (length X) -> 1 <= diag_count (kmers (X ++ O)) (kmers (O ++ Y)) d ->
             (vsc rel (X ++ O) (O ++ Y) d < vsc rel (X ++ O) (O ++ Y) (Z.of_nat (length X)))%Q) ->
  exists s p, pealign_fast sc gap (X ++ O) (O ++ Y) rel delta = Some (true, s, p) /\
    assemble (X ++ O) (qX ++ qOa) (O ++ Y) (qOb ++ qY) true s p minov minid =
    mka true (X ++ O ++ Y) (consensus_qual (X ++ O) (qX ++ qOa) (O ++ Y) (qOb ++ qY) p)
        (Z.of_nat (length O)) (Z.of_nat (length O)) (Z.of_nat (length X)) (Z.of_nat (length Y)) true s.
Proof.
  intros H4 Hne H1 H2 H3 H5 LX LY QX QY Pa Pb Hd Hov Hid Hmax.
  destruct (fast_reassembly_left sc gap X O Y qX qOa qOb qY rel delta H4 Hne H1 H2 H3 H5 LX LY QX QY Hd Hmax)
    as [s [p [R [_ [_ [Hc Ep]]]]]].
  exists s, p. split; [exact R|]. subst p. apply assemble_left; try assumption; lia.
Qed.

Lemma fast_reassembly_record_right sc gap X O Y qX qOa qOb qY rel delta minov minid :
  (4 <= length O)%nat ->
  length qX = length X -> length qOa = length O -> length qOb = length O -> length qY = length Y ->
  letters X -> letters Y -> nonneg qX -> nonneg qY -> positive qOa -> positive qOb -> 0 <= delta ->
  minov <= Z.of_nat (length O) -> (minid <= 1)%Q ->
  (forall d, d <> - Z.of_nat (length X) -> 1 <= diag_count (kmers (O ++ Y)) (kmers (X ++ O)) d ->
             (vsc rel (O ++ Y) (X ++ O) d < vsc rel (O ++ Y) (X ++ O) (- Z.of_nat (length X)))%Q) ->
  exists s p, pealign_fast sc gap (O ++ Y) (X ++ O) rel delta = Some (false, s, p) /\
    assemble (O ++ Y) (qOa ++ qY) (X ++ O) (qX ++ qOb) false s p minov minid =
    mka true (X ++ O ++ Y) (consensus_qual (O ++ Y) (qOa ++ qY) (X ++ O) (qX ++ qOb) p)
        (Z.of_nat (length O)) (Z.of_nat (length O)) (Z.of_nat (length Y)) (Z.of_nat (length X)) false s.
Proof.
  intros H4 H1 H2 H3 H5 LX LY QX QY Pa Pb Hd Hov Hid Hmax.
  destruct (fast_reassembly_right sc gap X O Y qX qOa qOb qY rel delta H4 H1 H2 H3 H5 LX LY QX QY Hd Hmax)
    as [s [p [R [_ [_ [Hc Ep]]]]]].
  exists s, p. split; [exact R|]. subst p. apply assemble_right; try assumption; lia.
Qed.
