(** C08 — AssemblePESequences: consensus qualities and match count are computed column by column; the annotations are
    consistent with the returned sequence; the quality tables (regenerated) have the integer structure of the code. *)
From Coq Require Import ZArith QArith List Bool Lia.
From OBI.C08.Gen Require Import Tables.
From OBI.C08 Require Import VoteModel Model Proofs.
Import ListNotations.
Open Scope Z_scope.

Definition app4 (f : Z -> Z -> Z -> Z -> Z) (c : col4) : Z := let '(na, xa, nb, xb) := c in f na xa nb xb.

Section Columns.
  Variable f : Z -> Z -> Z -> Z -> Z.

  Lemma zip4g_app : forall s1 x1 t1 y1 s2 x2 t2 y2,
    length x1 = length s1 -> length t1 = length s1 -> length y1 = length s1 ->
    zip4g f (s1 ++ s2) (x1 ++ x2) (t1 ++ t2) (y1 ++ y2) = zip4g f s1 x1 t1 y1 ++ zip4g f s2 x2 t2 y2.
  Proof.
    induction s1 as [|s s1 IH]; intros x1 t1 y1 s2 x2 t2 y2 H1 H2 H3.
    - destruct x1, t1, y1; try discriminate. reflexivity.
    - destruct x1, t1, y1; try discriminate. cbn [app zip4g]. f_equal.
      apply IH; cbn [length] in *; lia.
  Qed.

  Lemma colsg_MU_run : forall n a qa b qb r, (n <= length a)%nat -> length qa = length a ->
    map (app4 f) (cols (repeat MU n ++ r) a qa b qb) =
    zip4g f (firstn n a) (firstn n qa) (repeat 32 n) (repeat 0 n) ++ map (app4 f) (cols r (skipn n a) (skipn n qa) b qb).
  Proof.
    induction n as [|n IH]; intros a qa b qb r Hn Hq; [reflexivity|].
    destruct a as [|na a]; [cbn in Hn; lia|]. destruct qa as [|xa qa]; [discriminate|].
    cbn [repeat app cols map firstn skipn zip4g app4]. f_equal. apply IH; cbn [length] in *; lia.
  Qed.

  Lemma colsg_MI_run : forall n a qa b qb r, (n <= length b)%nat -> length qb = length b ->
    map (app4 f) (cols (repeat MI n ++ r) a qa b qb) =
    zip4g f (repeat 32 n) (repeat 0 n) (firstn n b) (firstn n qb) ++ map (app4 f) (cols r a qa (skipn n b) (skipn n qb)).
  Proof.
    induction n as [|n IH]; intros a qa b qb r Hn Hq; [reflexivity|].
    destruct b as [|nb b]; [cbn in Hn; lia|]. destruct qb as [|xb qb]; [discriminate|].
    cbn [repeat app cols map firstn skipn zip4g app4]. f_equal. apply IH; cbn [length] in *; lia.
  Qed.

  Lemma colsg_MD_run : forall n a qa b qb r, (n <= length a)%nat -> length qa = length a ->
    (n <= length b)%nat -> length qb = length b ->
    map (app4 f) (cols (repeat MD n ++ r) a qa b qb) =
    zip4g f (firstn n a) (firstn n qa) (firstn n b) (firstn n qb) ++
    map (app4 f) (cols r (skipn n a) (skipn n qa) (skipn n b) (skipn n qb)).
  Proof.
    induction n as [|n IH]; intros a qa b qb r Hn Hq Hm Hp; [reflexivity|].
    destruct a as [|na a]; [cbn in Hn; lia|]. destruct qa as [|xa qa]; [discriminate|].
    destruct b as [|nb b]; [cbn in Hm; lia|]. destruct qb as [|xb qb]; [discriminate|].
    cbn [repeat app cols map firstn skipn zip4g app4]. f_equal. apply IH; cbn [length] in *; lia.
  Qed.

  Lemma columns_map_cols_n : forall n p a qa b qb, (length p <= n)%nat ->
    consumed p = (length a, length b) -> length qa = length a -> length qb = length b ->
    zip4g f (fst (build_ali a b p 32)) (fst (build_ali qa qb p 0)) (snd (build_ali a b p 32)) (snd (build_ali qa qb p 0)) =
    map (app4 f) (cols (expand p) a qa b qb).
  Proof.
    induction n as [|n IH]; intros p a qa b qb Hn Hc Hqa Hqb.
    - destruct p; [reflexivity | cbn in Hn; lia].
    - destruct p as [|ind [|d r]]; [reflexivity | reflexivity |].
      unfold consumed in Hc. rewrite expand_pair in Hc. rewrite !mconsumed_app in Hc.
      rewrite mconsumed_repeat_MU, mconsumed_repeat_MI, mconsumed_repeat_MD in Hc. cbn [fst snd] in Hc.
      destruct (mconsumed (expand r)) as [ca cb] eqn:Er. cbn [fst snd] in Hc.
      injection Hc as Ha Hb.
      assert (Hind : Z.to_nat (- ind) = 0%nat \/ Z.to_nat ind = 0%nat) by lia.
      rewrite !build_ali_pair. cbv zeta. cbn [fst snd]. rewrite expand_pair.
      set (na := Z.to_nat (- ind)) in *. set (nb := Z.to_nat ind) in *. set (nd := Z.to_nat d) in *.
      rewrite colsg_MU_run by lia.
      rewrite colsg_MI_run by lia.
      rewrite colsg_MD_run by (rewrite ?skipn_length; lia).
      rewrite <- IH.
      + rewrite !zip4g_app; rewrite ?firstn_length, ?repeat_length, ?skipn_length; try lia. reflexivity.
      + cbn [length] in Hn. lia.
      + unfold consumed. rewrite Er, !skipn_length. f_equal; lia.
      + rewrite !skipn_length. lia.
      + rewrite !skipn_length. lia.
  Qed.

  (** whatever is computed from the aligned buffers is computed column by column *)
  Lemma columns_map_cols p a qa b qb :
    consumed p = (length a, length b) -> length qa = length a -> length qb = length b ->
    columns_map f a qa b qb p = map (app4 f) (cols (expand p) a qa b qb).
  Proof.
    intros Hc Hqa Hqb. unfold columns_map.
    rewrite <- (columns_map_cols_n (length p) p a qa b qb (le_n _) Hc Hqa Hqb).
    destruct (build_ali a b p 32), (build_ali qa qb p 0). reflexivity.
  Qed.

  Lemma columns_map_length p a qa b qb :
    consumed p = (length a, length b) -> length qa = length a -> length qb = length b ->
    length (columns_map f a qa b qb p) = length (expand p).
  Proof.
    intros Hc Hqa Hqb. rewrite columns_map_cols by assumption. rewrite map_length. now apply cols_length.
  Qed.
End Columns.

(** ---------------------------------------------------------------- seq_ab_match *)
Fixpoint count_MD (w : list move) : Z :=
  match w with [] => 0 | MD :: r => 1 + count_MD r | _ :: r => count_MD r end.

Definition zsum (l : list Z) : Z := fold_right Z.add 0 l.

Lemma is_match_range na xa nb xb : 0 <= is_match na xa nb xb <= 1.
Proof. unfold is_match. destruct ((na =? nb) && (xa >? 0) && (xb >? 0)); lia. Qed.

(** only columns that pair a base of A with a base of B can count as matches (the gap side has quality 0) *)
Lemma count_MD_nonneg w : 0 <= count_MD w.
Proof. induction w as [|m w IH]; [cbn; lia|]. destruct m; cbn [count_MD]; lia. Qed.

Lemma match_le_MD : forall w a qa b qb, 0 <= zsum (map (app4 is_match) (cols w a qa b qb)) <= count_MD w.
Proof.
  induction w as [|m w IH]; intros a qa b qb; [cbn; lia|].
  pose proof (count_MD_nonneg w) as N.
  destruct m; cbn [cols count_MD].
  - destruct a as [|na a]; [cbn [map zsum fold_right]; lia|].
    destruct qa as [|xa qa]; [cbn [map zsum fold_right]; lia|].
    destruct b as [|nb b]; [cbn [map zsum fold_right]; lia|].
    destruct qb as [|xb qb]; [cbn [map zsum fold_right]; lia|].
    cbn [map zsum fold_right app4]. specialize (IH a qa b qb). unfold zsum in IH.
    pose proof (is_match_range na xa nb xb). lia.
  - destruct a as [|na a]; [cbn [map zsum fold_right]; lia|].
    destruct qa as [|xa qa]; [cbn [map zsum fold_right]; lia|].
    cbn [map zsum fold_right app4]. specialize (IH a qa b qb). unfold zsum in IH.
    assert (E0 : is_match na xa 32 0 = 0) by (unfold is_match; cbn [Z.gtb Z.compare]; now rewrite andb_false_r).
    rewrite E0. lia.
  - destruct b as [|nb b]; [cbn [map zsum fold_right]; lia|].
    destruct qb as [|xb qb]; [cbn [map zsum fold_right]; lia|].
    cbn [map zsum fold_right app4]. specialize (IH a qa b qb). unfold zsum in IH.
    assert (E0 : is_match 32 0 nb xb = 0) by (unfold is_match; cbn [Z.gtb Z.compare]; now rewrite andb_false_r).
    rewrite E0. lia.
Qed.

Lemma count_MD_app w1 w2 : count_MD (w1 ++ w2) = count_MD w1 + count_MD w2.
Proof. induction w1 as [|m w1 IH]; [cbn; lia|]. destruct m; cbn [app count_MD]; lia. Qed.
Lemma count_MD_le_length w : count_MD w <= Z.of_nat (length w).
Proof. induction w as [|m w IH]; [cbn; lia|]. destruct m; cbn [count_MD length]; lia. Qed.
Lemma count_MD_pre e : count_MD (pre e) = 0.
Proof.
  unfold pre. rewrite count_MD_app.
  assert (A : forall n, count_MD (repeat MU n) = 0) by (induction n; cbn; lia).
  assert (B : forall n, count_MD (repeat MI n) = 0) by (induction n; cbn; lia).
  rewrite A, B. lia.
Qed.

Lemma match_count_le_ali p a qa b qb :
  Nat.even (length p) = true -> (1 <= length a)%nat -> (1 <= length b)%nat ->
  consumed p = (length a, length b) -> length qa = length a -> length qb = length b ->
  0 <= match_count a qa b qb p <= ali_length p.
Proof.
  intros He Ha Hb Hc Hqa Hqb. unfold match_count. rewrite columns_map_cols by assumption.
  pose proof (match_le_MD (expand p) a qa b qb) as [M0 M1]. unfold zsum in *.
  destruct (ends_decomposition p He) as [mid [E [L _]]]; [rewrite Hc; cbn; lia | rewrite Hc; cbn; lia |].
  rewrite E in M1 at 2. rewrite !count_MD_app, !count_MD_pre in M1.
  pose proof (count_MD_le_length mid). lia.
Qed.

(** ---------------------------------------------------------------- the quality tables (re-proved over Gen/Tables.v) *)
Definition q94 : list Z := map Z.of_nat (seq 0 94).

(** every entry is in 0..90; both tables are symmetric; agreeing bases: min(qa + qb, 90); a quality 0 (hence a gap):
    both tables give min(qa + qb, 90), i.e. the quality of the other base capped at 90; disagreeing bases: at least the
    higher quality (capped) and never above the quality of the same column with agreeing bases *)
Definition quality_tables_ok : bool :=
  forallb (fun i => forallb (fun j =>
    let mi := tab2 mismatch_qual i j in let ma := tab2 match_qual i j in
    (0 <=? mi) && (mi <=? 90) && (mi =? tab2 mismatch_qual j i) && (ma =? tab2 match_qual j i) &&
    (ma =? Z.min (i + j) 90) &&
    (if (i =? 0) || (j =? 0) then mi =? ma else (Z.min (Z.max i j) 90 <=? mi))) q94) q94 &&
  (length mismatch_qual =? 94)%nat && (length match_qual =? 94)%nat &&
  forallb (fun r => (length r =? 94)%nat) mismatch_qual && forallb (fun r => (length r =? 94)%nat) match_qual.

Lemma quality_tables : quality_tables_ok = true.
Proof. vm_compute. reflexivity. Qed.

Lemma tab2_range_all t : forallb (fun r => forallb (fun x => (0 <=? x) && (x <=? 90)) r) t = true ->
  forall i j, 0 <= tab2 t i j <= 90.
Proof.
  intros H i j. unfold tab2.
  destruct (nth_in_or_default (Z.to_nat i) t []) as [Hr|Hr].
  - rewrite forallb_forall in H. specialize (H _ Hr).
    destruct (nth_in_or_default (Z.to_nat j) (nth (Z.to_nat i) t []) 0) as [Hx|Hx].
    + rewrite forallb_forall in H. specialize (H _ Hx). apply andb_true_iff in H. destruct H as [H1 H2].
      apply Z.leb_le in H1. apply Z.leb_le in H2. lia.
    + rewrite Hx. lia.
  - rewrite Hr. destruct (Z.to_nat j); cbn; lia.
Qed.

Lemma tables_range : forallb (fun r => forallb (fun x => (0 <=? x) && (x <=? 90)) r) mismatch_qual = true /\
                     forallb (fun r => forallb (fun x => (0 <=? x) && (x <=? 90)) r) match_qual = true.
Proof. split; vm_compute; reflexivity. Qed.

Lemma cons_qual_range na xa nb xb : 0 <= cons_qual na xa nb xb <= 90.
Proof.
  unfold cons_qual. destruct (na =? nb); apply tab2_range_all; [exact (proj2 tables_range) | exact (proj1 tables_range)].
Qed.

Lemma consensus_qual_range p a qa b qb :
  consumed p = (length a, length b) -> length qa = length a -> length qb = length b ->
  Forall (fun q => 0 <= q <= 90) (consensus_qual a qa b qb p).
Proof.
  intros Hc Hqa Hqb. unfold consensus_qual. rewrite columns_map_cols by assumption.
  rewrite Forall_forall. intros q Hq. apply in_map_iff in Hq. destruct Hq as [[[[na xa] nb] xb] [E _]].
  cbn [app4] in E. subst q. apply cons_qual_range.
Qed.

(** ---------------------------------------------------------------- AssemblePESequences *)
Definition ident_of (m ali : Z) : Q := if ali =? 0 then 0%Q else Qmake m (Z.to_pos ali).

Lemma assemble_consistent a qa b qb isl score p minov minid :
  Nat.even (length p) = true -> (1 <= length a)%nat -> (1 <= length b)%nat ->
  consumed p = (length a, length b) -> length qa = length a -> length qb = length b ->
  let r := assemble a qa b qb isl score p minov minid in
  as_ali r = ali_length p /\ as_match r = match_count a qa b qb p /\ 0 <= as_match r <= as_ali r /\
  as_score r = score /\ as_dirleft r = isl /\
  (as_mode r = true ->
     as_seq r = consensus a qa b qb p /\ as_qual r = consensus_qual a qa b qb p /\
     length (as_qual r) = length (as_seq r) /\ Forall (fun q => 0 <= q <= 90) (as_qual r) /\
     as_asingle r = a_single p /\ as_bsingle r = b_single p /\
     Z.of_nat (length (as_seq r)) = as_asingle r + as_bsingle r + as_ali r /\
     minov <= as_ali r /\ (minid <= ident_of (as_match r) (as_ali r))%Q) /\
  (as_mode r = false ->
     as_seq r = a ++ ten 46 ++ b /\ as_qual r = qa ++ ten 0 ++ qb /\
     (as_ali r < minov \/ ~ (minid <= ident_of (as_match r) (as_ali r))%Q)).
Proof.
  intros He Ha Hb Hc Hqa Hqb. cbv zeta.
  destruct (consensus_columns p a qa b qb Hc Hqa Hqb) as [_ Hl].
  destruct (ends_decomposition p He) as [mid [E [L [P [_ [_ S]]]]]]; [rewrite Hc; cbn; lia | rewrite Hc; cbn; lia |].
  pose proof (match_count_le_ali p a qa b qb He Ha Hb Hc Hqa Hqb) as M.
  assert (EA : Z.of_nat (length (consensus a qa b qb p)) - Z.abs (ann_left p) - Z.abs (ann_right p) = ali_length p)
    by (rewrite Hl; reflexivity).
  unfold assemble. cbv zeta. rewrite EA. fold (ident_of (match_count a qa b qb p) (ali_length p)).
  destruct (ali_length p >=? minov) eqn:G; cbn [andb].
  - destruct (Qle_bool minid (ident_of (match_count a qa b qb p) (ali_length p))) eqn:Q.
    + cbn [as_ali as_match as_score as_dirleft as_mode as_seq as_qual as_asingle as_bsingle].
      repeat (split; [first [reflexivity | lia]|]). split.
      * intros _. repeat (split; [reflexivity|]). split.
        { unfold consensus_qual. rewrite columns_map_length by assumption. now rewrite Hl. }
        split; [now apply consensus_qual_range|]. repeat (split; [reflexivity|]).
        split; [rewrite Hl; lia|]. split; [apply Z.geb_le in G; lia | now apply Qle_bool_iff].
      * discriminate.
    + cbn [as_ali as_match as_score as_dirleft as_mode as_seq as_qual as_asingle as_bsingle].
      repeat (split; [first [reflexivity | lia]|]). try (split; [discriminate|]).
      try intros _. repeat (split; [reflexivity|]). right. intro X. apply Qle_bool_iff in X. congruence.
  - cbn [as_ali as_match as_score as_dirleft as_mode as_seq as_qual as_asingle as_bsingle].
    repeat (split; [first [reflexivity | lia]|]). try (split; [discriminate|]).
    try intros _. repeat (split; [reflexivity|]). left.
    destruct (Z.geb_spec (ali_length p) minov); [discriminate | lia].
Qed.
