From Coq Require Import ZArith List Bool Lia.
From OBI.C08 Require Import Model.
Import ListNotations.
Open Scope Z_scope.

Lemma choose_cases d l t :
  (choose d l t = (d, 0) /\ d >= l /\ d >= t) \/
  (choose d l t = (l, 1) /\ l >= d /\ l >= t) \/
  (choose d l t = (t, -1) /\ t >= d /\ t >= l).
Proof.
  unfold choose. rewrite !Z.geb_leb.
  destruct (Z.leb_spec l d), (Z.leb_spec t d), (Z.leb_spec d l), (Z.leb_spec t l); cbn [andb];
    first [ left; split; [reflexivity | lia]
          | right; left; split; [reflexivity | lia]
          | right; right; split; [reflexivity | lia]
          | exfalso; lia ].
Qed.

Lemma of_nat_S_mul n g : Z.of_nat (S n) * g = Z.of_nat n * g + g.
Proof. rewrite Nat2Z.inj_succ. ring. Qed.


(** ---------------------------------------------------------------- unit moves *)
Lemma mconsumed_app w1 w2 :
  mconsumed (w1 ++ w2) = (fst (mconsumed w1) + fst (mconsumed w2), snd (mconsumed w1) + snd (mconsumed w2))%nat.
Proof.
  induction w1 as [|m w1 IH]; cbn [app mconsumed].
  - destruct (mconsumed w2); reflexivity.
  - rewrite IH. destruct (mconsumed w1) as [a b], (mconsumed w2) as [a2 b2]. cbn [fst snd].
    destruct m; cbn [fst snd]; reflexivity.
Qed.

Lemma mscore_app sc gap la lb mode : forall w1 ca cb w2,
  mscore sc gap la lb mode ca cb (w1 ++ w2) =
  mscore sc gap la lb mode ca cb w1 +
  mscore sc gap la lb mode (ca + fst (mconsumed w1)) (cb + snd (mconsumed w1)) w2.
Proof.
  induction w1 as [|m w1 IH]; intros ca cb w2.
  - cbn [app mscore mconsumed fst snd]. rewrite !Nat.add_0_r. lia.
  - cbn [app mscore mconsumed]. destruct (mconsumed w1) as [a b] eqn:E.
    destruct m; rewrite IH; rewrite ?E; cbn [fst snd];
      repeat match goal with |- context [(S ?x + ?y)%nat] => replace (S x + y)%nat with (x + S y)%nat by lia end; lia.
Qed.

Definition pending (ldiag lup lleft : Z) (acc : list Z) : list move :=
  repeat MU (Z.to_nat (- lup)) ++ repeat MI (Z.to_nat lleft) ++ repeat MD (Z.to_nat ldiag) ++ expand acc.

Lemma expand_pair ind d r :
  expand (ind :: d :: r) =
  repeat MU (Z.to_nat (- ind)) ++ repeat MI (Z.to_nat ind) ++ repeat MD (Z.to_nat d) ++ expand r.
Proof. reflexivity. Qed.

Lemma pend_nil : pending 0 0 0 [] = [].
Proof. reflexivity. Qed.

Lemma pend_push_L ldiag lleft acc : 0 <= lleft -> pending 0 0 0 (lleft :: ldiag :: acc) = pending ldiag 0 lleft acc.
Proof.
  intro H. unfold pending. rewrite expand_pair.
  replace (Z.to_nat (- lleft)) with 0%nat by lia. reflexivity.
Qed.

Lemma pend_push_U ldiag lup acc : lup <= 0 -> pending 0 0 0 (lup :: ldiag :: acc) = pending ldiag lup 0 acc.
Proof.
  intro H. unfold pending. rewrite expand_pair.
  replace (Z.to_nat lup) with 0%nat by lia. reflexivity.
Qed.

Lemma pend_D ldiag acc : 0 <= ldiag -> pending (ldiag + 1) 0 0 acc = MD :: pending ldiag 0 0 acc.
Proof.
  intro H. unfold pending. replace (Z.to_nat (ldiag + 1)) with (S (Z.to_nat ldiag)) by lia. reflexivity.
Qed.

Lemma pend_I ldiag lleft acc : 0 <= lleft -> pending ldiag 0 (lleft + 1) acc = MI :: pending ldiag 0 lleft acc.
Proof.
  intro H. unfold pending. replace (Z.to_nat (lleft + 1)) with (S (Z.to_nat lleft)) by lia. reflexivity.
Qed.

Lemma pend_U ldiag lup lleft acc : lup <= 0 -> pending ldiag (lup + -1) lleft acc = MU :: pending ldiag lup lleft acc.
Proof.
  intro H. unfold pending. replace (Z.to_nat (- (lup + -1))) with (S (Z.to_nat (- lup))) by lia. reflexivity.
Qed.

Lemma expand_finish ldiag lup lleft acc : 0 <= ldiag -> lup <= 0 -> 0 <= lleft -> (lup = 0 \/ lleft = 0) ->
  expand (finish ldiag lup lleft acc) = pending ldiag lup lleft acc.
Proof.
  intros Hd Hu Hl Hx. unfold finish.
  destruct (Z.eqb_spec lleft 0) as [El|El]; destruct (Z.eqb_spec lup 0) as [Eu|Eu]; try (exfalso; lia).
  - subst. destruct (Z.eqb_spec ldiag 0) as [Ed|Ed].
    + subst. reflexivity.
    + reflexivity.
  - subst lleft. cbn [Z.eqb]. change (expand (lup :: ldiag :: acc)) with (pending 0 0 0 (lup :: ldiag :: acc)).
    now rewrite pend_push_U.
  - subst lup. cbn [Z.eqb]. change (expand (lleft :: ldiag :: acc)) with (pending 0 0 0 (lleft :: ldiag :: acc)).
    now rewrite pend_push_L.
Qed.

Lemma bt_S f m i j ldiag lup lleft acc :
  bt (S f) m i j ldiag lup lleft acc =
    if (i =? 0)%nat && (j =? 0)%nat then Some (finish ldiag lup lleft acc)
    else
      let step := snd (getc m i j) in
      if step =? 0 then
        if (i =? 0)%nat || (j =? 0)%nat then None else
        let '(ldiag1, acc1) := if lleft =? 0 then (ldiag, acc) else (0, lleft :: ldiag :: acc) in
        let '(ldiag2, acc2) := if lup =? 0 then (ldiag1, acc1) else (0, lup :: ldiag1 :: acc1) in
        bt f m (i - 1) (j - 1) (ldiag2 + 1) 0 0 acc2
      else if step >? 0 then
        if (j <? Z.to_nat step)%nat then None else
        let '(ldiag1, lup1, acc1) := if lup =? 0 then (ldiag, lup, acc) else (0, 0, lup :: ldiag :: acc) in
        bt f m i (j - Z.to_nat step) ldiag1 lup1 (lleft + step) acc1
      else
        if (i <? Z.to_nat (- step))%nat then None else
        let '(ldiag1, lleft1, acc1) := if lleft =? 0 then (ldiag, lleft, acc) else (0, 0, lleft :: ldiag :: acc) in
        bt f m (i - Z.to_nat (- step)) j ldiag1 (lup + step) lleft1 acc1.
Proof. reflexivity. Qed.

(** ---------------------------------------------------------------- the matrix built by [fill] *)
Section FillFacts.
  Variable sc : nat -> nat -> Z.
  Variable gap : Z.
  Variables la lb : nat.
  Variable mode : bool.
  Let d0 : cell := (0, 0).

  Lemma col0_from_length n i : length (col0_from gap mode i n) = n.
  Proof. revert i; induction n as [|n IH]; intro i; cbn [col0_from length]; [reflexivity | now rewrite IH]. Qed.

  Lemma col0_from_nth n : forall i k, (k < n)%nat ->
    nth k (col0_from gap mode i n) d0 =
      ((if mode then 0 else Z.of_nat (i + k) * gap), (if (i + k =? 0)%nat then 0 else -1)).
  Proof.
    induction n as [|n IH]; intros i k Hk; [lia|].
    cbn [col0_from]. destruct k as [|k].
    - cbn [nth]. now rewrite Nat.add_0_r.
    - cbn [nth]. rewrite IH by lia. now replace (S i + k)%nat with (i + S k)%nat by lia.
  Qed.

  Lemma col_go_cons j p0 p1 tl above i :
    col_go sc gap la lb mode j (p0 :: p1 :: tl) above i =
      choose (fst p0 + sc (i - 1)%nat (j - 1)%nat) (fst p1 + gl gap la mode i) (fst above + gt gap lb mode j)
      :: col_go sc gap la lb mode j (p1 :: tl)
           (choose (fst p0 + sc (i - 1)%nat (j - 1)%nat) (fst p1 + gl gap la mode i) (fst above + gt gap lb mode j)) (S i).
  Proof. reflexivity. Qed.

  Lemma col_go_length j : forall prev above i, length (col_go sc gap la lb mode j prev above i) = pred (length prev).
  Proof.
    induction prev as [|p0 tl IH]; intros above i; [reflexivity|].
    destruct tl as [|p1 tl']; [reflexivity|].
    rewrite col_go_cons. cbn [length]. rewrite IH. reflexivity.
  Qed.

  Lemma col_go_nth j : forall prev above i0 k, (S k < length prev)%nat ->
    nth (S k) (above :: col_go sc gap la lb mode j prev above i0) d0 =
      choose (fst (nth k prev d0) + sc (i0 + k - 1)%nat (j - 1)%nat)
             (fst (nth (S k) prev d0) + gl gap la mode (i0 + k)%nat)
             (fst (nth k (above :: col_go sc gap la lb mode j prev above i0) d0) + gt gap lb mode j).
  Proof.
    induction prev as [|p0 tl IH]; intros above i0 k Hk; [cbn in Hk; lia|].
    destruct tl as [|p1 tl']; [cbn in Hk; lia|].
    rewrite col_go_cons.
    destruct k as [|k].
    - cbn [nth]. now rewrite Nat.add_0_r.
    - change (nth (S (S k)) (above :: ?c :: ?r) d0) with (nth (S k) (c :: r) d0).
      change (nth (S k) (above :: ?c :: ?r) d0) with (nth k (c :: r) d0).
      change (nth (S k) (p0 :: p1 :: tl') d0) with (nth k (p1 :: tl') d0).
      change (nth (S (S k)) (p0 :: p1 :: tl') d0) with (nth (S k) (p1 :: tl') d0).
      rewrite IH by (cbn [length] in *; lia).
      now replace (S i0 + k)%nat with (i0 + S k)%nat by lia.
  Qed.

  Lemma next_col_length prev j : prev <> [] -> length (next_col sc gap la lb mode prev j) = length prev.
  Proof.
    intro H. unfold next_col. cbn [length]. rewrite col_go_length. destruct prev; [congruence | reflexivity].
  Qed.

  Lemma next_col_0 prev j : nth 0 (next_col sc gap la lb mode prev j) d0 = ((if mode then Z.of_nat j * gap else 0), 1).
  Proof. reflexivity. Qed.

  Lemma next_col_S prev j k : (S k < length prev)%nat ->
    nth (S k) (next_col sc gap la lb mode prev j) d0 =
      choose (fst (nth k prev d0) + sc k (j - 1)%nat)
             (fst (nth (S k) prev d0) + gl gap la mode (S k))
             (fst (nth k (next_col sc gap la lb mode prev j) d0) + gt gap lb mode j).
  Proof.
    intro H. unfold next_col. rewrite col_go_nth by exact H.
    now replace (1 + k - 1)%nat with k by lia.
  Qed.

  Lemma build_nth : forall n prev j0 k, (k < n)%nat ->
    nth k (build sc gap la lb mode prev j0 n) [] =
      next_col sc gap la lb mode (match k with O => prev | S k' => nth k' (build sc gap la lb mode prev j0 n) [] end) (j0 + k)%nat.
  Proof.
    induction n as [|n IH]; intros prev j0 k Hk; [lia|].
    cbn [build]. destruct k as [|k].
    - cbn [nth]. now rewrite Nat.add_0_r.
    - cbn [nth]. rewrite IH by lia.
      replace (S j0 + k)%nat with (j0 + S k)%nat by lia.
      destruct k; reflexivity.
  Qed.

  Let M := fill sc gap la lb mode.

  Lemma fill_col_0 : nth 0 M [] = col0 gap la mode.
  Proof. reflexivity. Qed.

  Lemma fill_col_S j : (j < lb)%nat -> nth (S j) M [] = next_col sc gap la lb mode (nth j M []) (S j).
  Proof.
    intro H. unfold M, fill. cbn [nth]. rewrite build_nth by exact H.
    destruct j; reflexivity.
  Qed.

  Lemma fill_col_length j : (j <= lb)%nat -> length (nth j M []) = S la.
  Proof.
    induction j as [|j IH]; intro H.
    - rewrite fill_col_0. unfold col0. apply col0_from_length.
    - rewrite fill_col_S by lia. rewrite next_col_length; [apply IH; lia|].
      intro E. specialize (IH ltac:(lia)). rewrite E in IH. discriminate.
  Qed.

  Definition Sm (i j : nat) : Z := fst (getc M i j).
  Definition Pm (i j : nat) : Z := snd (getc M i j).

  Lemma G_col0 i : (i <= la)%nat ->
    getc M i 0 = ((if mode then 0 else Z.of_nat i * gap), (if (i =? 0)%nat then 0 else -1)).
  Proof.
    intro H. unfold getc. rewrite fill_col_0. unfold col0.
    change (0, 0) with d0. rewrite col0_from_nth by lia. reflexivity.
  Qed.

  Lemma G_row0 j : (1 <= j <= lb)%nat -> getc M 0 j = ((if mode then Z.of_nat j * gap else 0), 1).
  Proof.
    intro H. unfold getc. destruct j as [|j]; [lia|].
    rewrite fill_col_S by lia. reflexivity.
  Qed.

  Lemma G_inner i j : (1 <= i <= la)%nat -> (1 <= j <= lb)%nat ->
    getc M i j = choose (Sm (i - 1) (j - 1) + sc (i - 1)%nat (j - 1)%nat)
                        (Sm i (j - 1) + gl gap la mode i)
                        (Sm (i - 1) j + gt gap lb mode j).
  Proof.
    intros Hi Hj. unfold Sm, getc.
    destruct j as [|j]; [lia|]. destruct i as [|i]; [lia|].
    replace (S j - 1)%nat with j by lia. replace (S i - 1)%nat with i by lia.
    rewrite fill_col_S by lia.
    change (0, 0) with d0.
    rewrite next_col_S by (rewrite fill_col_length by lia; lia).
    replace (S j - 1)%nat with j by lia. reflexivity.
  Qed.

  (** what one backward step of the direction matrix means for the scores *)
  Definition step_ok (i j : nat) : Prop :=
    (Pm i j = 0 /\ (1 <= i)%nat /\ (1 <= j)%nat /\ Sm i j = Sm (i - 1) (j - 1) + sc (i - 1)%nat (j - 1)%nat) \/
    (Pm i j = 1 /\ (1 <= j)%nat /\ Sm i j = Sm i (j - 1) + icost gap la mode i) \/
    (Pm i j = -1 /\ (1 <= i)%nat /\ Sm i j = Sm (i - 1) j + ucost gap lb mode j).

  Hypothesis Hla : (1 <= la)%nat.
  Hypothesis Hlb : (1 <= lb)%nat.

  Lemma gl_icost i : (1 <= i)%nat -> gl gap la mode i = icost gap la mode i.
  Proof.
    intro H. unfold gl, icost. destruct mode; cbn [andb].
    - reflexivity.
    - destruct (i =? 0)%nat eqn:E; [apply Nat.eqb_eq in E; lia | reflexivity].
  Qed.

  Lemma gt_ucost j : (1 <= j)%nat -> gt gap lb mode j = ucost gap lb mode j.
  Proof.
    intro H. unfold gt, ucost. destruct mode; cbn [andb negb].
    - destruct (j =? 0)%nat eqn:E; [apply Nat.eqb_eq in E; lia | reflexivity].
    - reflexivity.
  Qed.

  Lemma S_origin : Sm 0 0 = 0.
  Proof. unfold Sm. rewrite G_col0 by lia. destruct mode; reflexivity. Qed.

  Lemma fill_step_ok i j : (i <= la)%nat -> (j <= lb)%nat -> (i + j <> 0)%nat -> step_ok i j.
  Proof.
    intros Hi Hj Hne. unfold step_ok, Pm, Sm.
    destruct j as [|j].
    - (* first column *)
      right; right. rewrite (G_col0 i Hi).
      destruct i as [|i]; [lia|]. rewrite (G_col0 (S i - 1)) by lia.
      cbn [fst snd Nat.eqb]. split; [reflexivity|]. split; [lia|].
      unfold ucost. destruct mode.
      + reflexivity.
      + destruct (0 =? lb)%nat eqn:E; [apply Nat.eqb_eq in E; lia|].
        replace (S i - 1)%nat with i by lia. apply of_nat_S_mul.
    - destruct i as [|i].
      + (* first row *)
        right; left. rewrite (G_row0 (S j)) by lia. cbn [fst snd].
        split; [reflexivity|]. split; [lia|].
        replace (S j - 1)%nat with j by lia.
        unfold icost.
        destruct j as [|j].
        * rewrite (G_col0 0) by lia. cbn [fst].
          destruct mode; [|reflexivity].
          destruct (0 =? la)%nat eqn:E; [apply Nat.eqb_eq in E; lia|]. lia.
        * rewrite (G_row0 (S j)) by lia. cbn [fst].
          destruct mode; [|reflexivity].
          destruct (0 =? la)%nat eqn:E; [apply Nat.eqb_eq in E; lia|]. apply of_nat_S_mul.
      + rewrite (G_inner (S i) (S j)) by lia.
        rewrite gl_icost, gt_ucost by lia.
        destruct (choose_cases (Sm (S i - 1) (S j - 1) + sc (S i - 1)%nat (S j - 1)%nat)
                               (Sm (S i) (S j - 1) + icost gap la mode (S i))
                               (Sm (S i - 1) (S j) + ucost gap lb mode (S j))) as [[E _]|[[E _]|[E _]]];
          rewrite E; cbn [fst snd]; unfold Sm.
        * left. repeat split; lia.
        * right; left. repeat split; lia.
        * right; right. repeat split; lia.
  Qed.

  (** the score of a cell dominates every way of entering it *)
  Lemma fill_dom_diag i j : (1 <= i <= la)%nat -> (1 <= j <= lb)%nat ->
    Sm i j >= Sm (i - 1) (j - 1) + sc (i - 1)%nat (j - 1)%nat.
  Proof.
    intros Hi Hj. unfold Sm at 1. rewrite G_inner by lia.
    destruct (choose_cases (Sm (i - 1) (j - 1) + sc (i - 1)%nat (j - 1)%nat)
                           (Sm i (j - 1) + gl gap la mode i) (Sm (i - 1) j + gt gap lb mode j)) as [[E ?]|[[E ?]|[E ?]]];
      rewrite E; cbn [fst]; lia.
  Qed.
  Lemma fill_dom_left i j : (i <= la)%nat -> (1 <= j <= lb)%nat ->
    Sm i j >= Sm i (j - 1) + icost gap la mode i.
  Proof.
    intros Hi Hj. destruct i as [|i].
    - destruct (fill_step_ok 0 j) as [[E _]|[[_ [_ E]]|[_ [E _]]]]; try lia.
      unfold Pm in E. rewrite G_row0 in E by lia. discriminate.
    - unfold Sm at 1. rewrite G_inner by lia. rewrite gl_icost by lia.
      destruct (choose_cases (Sm (S i - 1) (j - 1) + sc (S i - 1)%nat (j - 1)%nat)
                             (Sm (S i) (j - 1) + icost gap la mode (S i)) (Sm (S i - 1) j + gt gap lb mode j)) as [[E ?]|[[E ?]|[E ?]]];
        rewrite E; cbn [fst]; lia.
  Qed.
  Lemma fill_dom_top i j : (1 <= i <= la)%nat -> (j <= lb)%nat ->
    Sm i j >= Sm (i - 1) j + ucost gap lb mode j.
  Proof.
    intros Hi Hj. destruct j as [|j].
    - destruct (fill_step_ok i 0) as [[E _]|[[_ [E _]]|[_ [_ E]]]]; try lia.
      unfold Pm in E. rewrite G_col0 in E by lia.
      destruct (i =? 0)%nat eqn:E0; [apply Nat.eqb_eq in E0; lia | discriminate].
    - unfold Sm at 1. rewrite G_inner by lia. rewrite gt_ucost by lia.
      destruct (choose_cases (Sm (i - 1) (S j - 1) + sc (i - 1)%nat (S j - 1)%nat)
                             (Sm i (S j - 1) + gl gap la mode i) (Sm (i - 1) (S j) + ucost gap lb mode (S j))) as [[E ?]|[[E ?]|[E ?]]];
        rewrite E; cbn [fst]; lia.
  Qed.

  (** ------------------------------------------------------------ backtracking over the filled matrix *)
  Lemma bt_inv : forall fuel i j ldiag lup lleft acc,
    (i <= la)%nat -> (j <= lb)%nat -> (i + j < fuel)%nat ->
    0 <= ldiag -> lup <= 0 -> 0 <= lleft -> (lup = 0 \/ lleft = 0) ->
    exists p W, bt fuel M i j ldiag lup lleft acc = Some p /\
                expand p = W ++ pending ldiag lup lleft acc /\
                mconsumed W = (i, j) /\
                mscore sc gap la lb mode 0 0 W = Sm i j.
  Proof.
    induction fuel as [|f IH]; intros i j ldiag lup lleft acc Hi Hj Hf Hd Hu Hl Hx; [lia|].
    rewrite bt_S.
    destruct (Nat.eqb_spec i 0) as [Ei|Ei]; destruct (Nat.eqb_spec j 0) as [Ej|Ej]; cbn [andb orb].
    { subst. exists (finish ldiag lup lleft acc), []. repeat split.
      - now rewrite expand_finish.
      - now rewrite S_origin. }
    all: cbn zeta; change (snd (getc M i j)) with (Pm i j);
      destruct (fill_step_ok i j Hi Hj ltac:(lia)) as [[EP [Hi1 [Hj1 ES]]]|[[EP [Hj1 ES]]|[EP [Hi1 ES]]]];
      rewrite EP; cbn [Z.eqb Z.gtb Z.compare Z.opp Z.to_nat Pos.to_nat Pos.iter_op Nat.add];
      try lia.
    all: change (Pos.to_nat 1) with 1%nat.
    all: try (destruct (Nat.ltb_spec j 1) as [?|_]; [lia|]).
    all: try (destruct (Nat.ltb_spec i 1) as [?|_]; [lia|]).
    all: destruct (Z.eqb_spec lleft 0) as [El|El]; destruct (Z.eqb_spec lup 0) as [Eu|Eu]; try (exfalso; lia); subst.
    all: match goal with
         | |- exists p W, bt _ _ ?i' ?j' ?d' ?u' ?l' ?a' = Some p /\ _ =>
             destruct (IH i' j' d' u' l' a') as [p [W [Hb [He [Hc Hs]]]]]; try lia; exists p
         end.
    (* diag from (i-1,j-1) *)
    all: try (exists (W ++ [MD]); split; [exact Hb|]; split;
              [ rewrite He, <- app_assoc; f_equal; rewrite pend_D by lia;
                rewrite ?pend_push_L, ?pend_push_U by lia; reflexivity
              | split; [ rewrite mconsumed_app, Hc; cbn [mconsumed fst snd]; f_equal; lia
                       | rewrite mscore_app, Hs, Hc; cbn [fst snd mscore Nat.add]; rewrite ES; lia ] ]; fail).
    (* left from (i,j-1) *)
    all: try (exists (W ++ [MI]); split; [exact Hb|]; split;
              [ rewrite He, <- app_assoc; f_equal; rewrite pend_I by lia;
                rewrite ?pend_push_L, ?pend_push_U by lia; reflexivity
              | split; [ rewrite mconsumed_app, Hc; cbn [mconsumed fst snd]; f_equal; lia
                       | rewrite mscore_app, Hs, Hc; cbn [fst snd mscore Nat.add]; rewrite ES; lia ] ]; fail).
    (* top from (i-1,j) *)
    all: try (exists (W ++ [MU]); split; [exact Hb|]; split;
              [ rewrite He, <- app_assoc; f_equal; rewrite pend_U by lia;
                rewrite ?pend_push_L, ?pend_push_U by lia; reflexivity
              | split; [ rewrite mconsumed_app, Hc; cbn [mconsumed fst snd]; f_equal; lia
                       | rewrite mscore_app, Hs, Hc; cbn [fst snd mscore Nat.add]; rewrite ES; lia ] ]; fail).
  Qed.
End FillFacts.

(** ---------------------------------------------------------------- top level *)
Lemma backtrack_fill sc gap la lb mode : (1 <= la)%nat -> (1 <= lb)%nat ->
  exists p, backtrack (fill sc gap la lb mode) la lb = Some p /\
            consumed p = (la, lb) /\
            path_score sc gap la lb mode p = mscore_of (fill sc gap la lb mode) la lb.
Proof.
  intros Ha Hb. unfold backtrack.
  destruct (bt_inv sc gap la lb mode Ha Hb (S (la + lb)) la lb 0 0 0 []) as [p [W [H1 [H2 [H3 H4]]]]]; try lia.
  exists p. rewrite pend_nil, app_nil_r in H2. unfold consumed, path_score. rewrite H2.
  repeat split; assumption.
Qed.

Lemma walk_le_fill sc gap la lb mode : (1 <= la)%nat -> (1 <= lb)%nat ->
  forall W i j, mconsumed W = (i, j) -> (i <= la)%nat -> (j <= lb)%nat ->
  mscore sc gap la lb mode 0 0 W <= Sm sc gap la lb mode i j.
Proof.
  intros Ha Hb. induction W as [|x W IHW] using rev_ind; intros i j Hc Hi Hj.
  - cbn in Hc. inversion Hc; subst. cbn [mscore]. rewrite S_origin by assumption. lia.
  - rewrite mconsumed_app in Hc. destruct (mconsumed W) as [a b] eqn:E.
    rewrite mscore_app, E. cbn [fst snd Nat.add].
    destruct x; cbn [mconsumed fst snd mscore] in *; inversion Hc; subst; clear Hc.
    + specialize (IHW a b eq_refl ltac:(lia) ltac:(lia)).
      pose proof (fill_dom_diag sc gap la lb mode Ha Hb (a + 1)%nat (b + 1)%nat ltac:(lia) ltac:(lia)) as D.
      replace (a + 1 - 1)%nat with a in D by lia. replace (b + 1 - 1)%nat with b in D by lia. lia.
    + rewrite Nat.add_0_r in *.
      specialize (IHW a b eq_refl ltac:(lia) ltac:(lia)).
      pose proof (fill_dom_top sc gap la lb mode Ha Hb (a + 1)%nat b ltac:(lia) ltac:(lia)) as D.
      replace (a + 1 - 1)%nat with a in D by lia. lia.
    + rewrite Nat.add_0_r in *.
      specialize (IHW a b eq_refl ltac:(lia) ltac:(lia)).
      pose proof (fill_dom_left sc gap la lb mode Ha Hb a (b + 1)%nat ltac:(lia) ltac:(lia)) as D.
      replace (b + 1 - 1)%nat with b in D by lia. lia.
Qed.

Lemma fill_optimal sc gap la lb mode : (1 <= la)%nat -> (1 <= lb)%nat ->
  (forall p, consumed p = (la, lb) -> path_score sc gap la lb mode p <= mscore_of (fill sc gap la lb mode) la lb) /\
  (exists p, consumed p = (la, lb) /\ path_score sc gap la lb mode p = mscore_of (fill sc gap la lb mode) la lb).
Proof.
  intros Ha Hb. split.
  - intros p Hp. unfold path_score, consumed in *.
    apply (walk_le_fill sc gap la lb mode Ha Hb _ la lb Hp); lia.
  - destruct (backtrack_fill sc gap la lb mode Ha Hb) as [p [_ [H1 H2]]]. now exists p.
Qed.

Definition score_left sc gap la lb := mscore_of (fill sc gap la lb true) la lb.
Definition score_right sc gap la lb := mscore_of (fill sc gap la lb false) la lb.

Lemma pealign_exact_ok sc gap la lb : (1 <= la)%nat -> (1 <= lb)%nat ->
  exists isl s p, pealign_exact sc gap la lb = Some (isl, s, p) /\
    consumed p = (la, lb) /\
    path_score sc gap la lb isl p = s /\
    s = Z.max (score_left sc gap la lb) (score_right sc gap la lb) /\
    isl = (score_left sc gap la lb >? score_right sc gap la lb).
Proof.
  intros Ha Hb. unfold pealign_exact, fill_bt, score_left, score_right.
  destruct (backtrack_fill sc gap la lb false Ha Hb) as [pr [Br [Cr Sr]]].
  destruct (backtrack_fill sc gap la lb true Ha Hb) as [pl [Bl [Cl Sl]]].
  rewrite Br, Bl.
  destruct (Z.gtb_spec (mscore_of (fill sc gap la lb true) la lb) (mscore_of (fill sc gap la lb false) la lb)) as [G|G].
  - exists true, (mscore_of (fill sc gap la lb true) la lb), pl. repeat split; try assumption. lia.
  - exists false, (mscore_of (fill sc gap la lb false) la lb), pr. repeat split; try assumption. lia.
Qed.

Lemma pealign_exact_optimal sc gap la lb : (1 <= la)%nat -> (1 <= lb)%nat ->
  forall isl s p, pealign_exact sc gap la lb = Some (isl, s, p) ->
  forall m q, consumed q = (la, lb) -> path_score sc gap la lb m q <= s.
Proof.
  intros Ha Hb isl s p E m q Hq.
  destruct (pealign_exact_ok sc gap la lb Ha Hb) as [isl' [s' [p' [E' [_ [_ [Hs _]]]]]]].
  rewrite E in E'. inversion E'; subst.
  pose proof (proj1 (fill_optimal sc gap la lb m Ha Hb) q Hq) as H.
  unfold score_left, score_right. destruct m; lia.
Qed.

Lemma exact_consumes sc gap la lb : (1 <= la)%nat -> (1 <= lb)%nat ->
  exists isl s p, pealign_exact sc gap la lb = Some (isl, s, p) /\ consumed p = (la, lb).
Proof.
  intros Ha Hb. destruct (pealign_exact_ok sc gap la lb Ha Hb) as [isl [s [p [E [C _]]]]].
  exists isl, s, p. now split.
Qed.

Lemma exact_score_is_path_score sc gap la lb : (1 <= la)%nat -> (1 <= lb)%nat ->
  forall isl s p, pealign_exact sc gap la lb = Some (isl, s, p) ->
  consumed p = (la, lb) /\ path_score sc gap la lb isl p = s.
Proof.
  intros Ha Hb isl s p E. destruct (pealign_exact_ok sc gap la lb Ha Hb) as [isl' [s' [p' [E' [C [P _]]]]]].
  rewrite E in E'. inversion E'; subst. now split.
Qed.

Lemma exact_reports_score sc gap la lb : (1 <= la)%nat -> (1 <= lb)%nat ->
  forall isl s p, pealign_exact sc gap la lb = Some (isl, s, p) ->
  s = Z.max (score_left sc gap la lb) (score_right sc gap la lb) /\
  isl = (score_left sc gap la lb >? score_right sc gap la lb).
Proof.
  intros Ha Hb isl s p E. destruct (pealign_exact_ok sc gap la lb Ha Hb) as [isl' [s' [p' [E' [_ [_ [M I]]]]]]].
  rewrite E in E'. inversion E'; subst. now split.
Qed.

(** ---------------------------------------------------------------- consensus *)
Definition col4 := (Z * Z * Z * Z)%type.   (* base of A, quality of A, base of B, quality of B; gap = (32, 0) *)
Definition cons4 (c : col4) : Z := let '(na, xa, nb, xb) := c in cons_base na xa nb xb.

(** the columns of an alignment, one per unit move (independent of the run-length buffers of the code) *)
Fixpoint cols (w : list move) (a qa b qb : list Z) : list col4 :=
  match w with
  | [] => []
  | MD :: r => match a, qa, b, qb with
               | na :: a', xa :: qa', nb :: b', xb :: qb' => (na, xa, nb, xb) :: cols r a' qa' b' qb'
               | _, _, _, _ => [] end
  | MU :: r => match a, qa with
               | na :: a', xa :: qa' => (na, xa, 32, 0) :: cols r a' qa' b qb
               | _, _ => [] end
  | MI :: r => match b, qb with
               | nb :: b', xb :: qb' => (32, 0, nb, xb) :: cols r a qa b' qb'
               | _, _ => [] end
  end.

Lemma zip4_app : forall s1 x1 t1 y1 s2 x2 t2 y2,
  length x1 = length s1 -> length t1 = length s1 -> length y1 = length s1 ->
  zip4 (s1 ++ s2) (x1 ++ x2) (t1 ++ t2) (y1 ++ y2) = zip4 s1 x1 t1 y1 ++ zip4 s2 x2 t2 y2.
Proof.
  induction s1 as [|s s1 IH]; intros x1 t1 y1 s2 x2 t2 y2 H1 H2 H3.
  - destruct x1, t1, y1; try discriminate. reflexivity.
  - destruct x1, t1, y1; try discriminate. cbn [app zip4]. f_equal.
    apply IH; cbn [length] in *; lia.
Qed.

Lemma mconsumed_repeat_MU n : mconsumed (repeat MU n) = (n, 0%nat).
Proof. induction n as [|n IH]; [reflexivity|]. cbn [repeat mconsumed]. now rewrite IH. Qed.
Lemma mconsumed_repeat_MI n : mconsumed (repeat MI n) = (0%nat, n).
Proof. induction n as [|n IH]; [reflexivity|]. cbn [repeat mconsumed]. now rewrite IH. Qed.
Lemma mconsumed_repeat_MD n : mconsumed (repeat MD n) = (n, n).
Proof. induction n as [|n IH]; [reflexivity|]. cbn [repeat mconsumed]. now rewrite IH. Qed.

Lemma cols_MU_run : forall n a qa b qb r, (n <= length a)%nat -> length qa = length a ->
  map cons4 (cols (repeat MU n ++ r) a qa b qb) =
  zip4 (firstn n a) (firstn n qa) (repeat 32 n) (repeat 0 n) ++ map cons4 (cols r (skipn n a) (skipn n qa) b qb).
Proof.
  induction n as [|n IH]; intros a qa b qb r Hn Hq; [reflexivity|].
  destruct a as [|na a]; [cbn in Hn; lia|]. destruct qa as [|xa qa]; [discriminate|].
  cbn [repeat app cols map firstn skipn zip4]. f_equal. apply IH; cbn [length] in *; lia.
Qed.

Lemma cols_MI_run : forall n a qa b qb r, (n <= length b)%nat -> length qb = length b ->
  map cons4 (cols (repeat MI n ++ r) a qa b qb) =
  zip4 (repeat 32 n) (repeat 0 n) (firstn n b) (firstn n qb) ++ map cons4 (cols r a qa (skipn n b) (skipn n qb)).
Proof.
  induction n as [|n IH]; intros a qa b qb r Hn Hq; [reflexivity|].
  destruct b as [|nb b]; [cbn in Hn; lia|]. destruct qb as [|xb qb]; [discriminate|].
  cbn [repeat app cols map firstn skipn zip4]. f_equal. apply IH; cbn [length] in *; lia.
Qed.

Lemma cols_MD_run : forall n a qa b qb r, (n <= length a)%nat -> length qa = length a ->
  (n <= length b)%nat -> length qb = length b ->
  map cons4 (cols (repeat MD n ++ r) a qa b qb) =
  zip4 (firstn n a) (firstn n qa) (firstn n b) (firstn n qb) ++
  map cons4 (cols r (skipn n a) (skipn n qa) (skipn n b) (skipn n qb)).
Proof.
  induction n as [|n IH]; intros a qa b qb r Hn Hq Hm Hp; [reflexivity|].
  destruct a as [|na a]; [cbn in Hn; lia|]. destruct qa as [|xa qa]; [discriminate|].
  destruct b as [|nb b]; [cbn in Hm; lia|]. destruct qb as [|xb qb]; [discriminate|].
  cbn [repeat app cols map firstn skipn zip4]. f_equal. apply IH; cbn [length] in *; lia.
Qed.

Lemma build_ali_pair sa sb ind d r g :
  build_ali sa sb (ind :: d :: r) g =
    let na := Z.to_nat (- ind) in let nb := Z.to_nat ind in let nd := Z.to_nat d in
    (firstn na sa ++ repeat g nb ++ firstn nd (skipn na sa) ++ fst (build_ali (skipn nd (skipn na sa)) (skipn nd (skipn nb sb)) r g),
     repeat g na ++ firstn nb sb ++ firstn nd (skipn nb sb) ++ snd (build_ali (skipn nd (skipn na sa)) (skipn nd (skipn nb sb)) r g)).
Proof.
  cbn [build_ali]. cbv zeta.
  destruct (build_ali (skipn (Z.to_nat d) (skipn (Z.to_nat (- ind)) sa)) (skipn (Z.to_nat d) (skipn (Z.to_nat ind) sb)) r g).
  reflexivity.
Qed.

Lemma consensus_cols_n : forall n p a qa b qb, (length p <= n)%nat ->
  consumed p = (length a, length b) -> length qa = length a -> length qb = length b ->
  zip4 (fst (build_ali a b p 32)) (fst (build_ali qa qb p 0)) (snd (build_ali a b p 32)) (snd (build_ali qa qb p 0)) =
  map cons4 (cols (expand p) a qa b qb).
Proof.
  induction n as [|n IH]; intros p a qa b qb Hn Hc Hqa Hqb.
  - destruct p; [reflexivity | cbn in Hn; lia].
  - destruct p as [|ind [|d r]]; [reflexivity | reflexivity |].
    unfold consumed in Hc. rewrite expand_pair in Hc. rewrite !mconsumed_app in Hc.
    rewrite mconsumed_repeat_MU, mconsumed_repeat_MI, mconsumed_repeat_MD in Hc. cbn [fst snd] in Hc.
    destruct (mconsumed (expand r)) as [ca cb] eqn:Er. cbn [fst snd] in Hc.
    injection Hc as Ha Hb.
    assert (Hind : Z.to_nat (- ind) = 0%nat \/ Z.to_nat ind = 0%nat) by lia.
    rewrite !build_ali_pair. cbv zeta. cbn [fst snd]. rewrite expand_pair.
    set (na := Z.to_nat (- ind)) in *. set (nb := Z.to_nat ind) in *. set (nd := Z.to_nat d) in *.
    rewrite cols_MU_run by lia.
    rewrite cols_MI_run by lia.
    rewrite cols_MD_run by (rewrite ?skipn_length; lia).
    rewrite <- IH.
    + rewrite !zip4_app; rewrite ?firstn_length, ?repeat_length, ?skipn_length; try lia. reflexivity.
    + cbn [length] in Hn. lia.
    + unfold consumed. rewrite Er, !skipn_length. f_equal; lia.
    + rewrite !skipn_length. lia.
    + rewrite !skipn_length. lia.
Qed.

Lemma consensus_cols p a qa b qb :
  consumed p = (length a, length b) -> length qa = length a -> length qb = length b ->
  consensus a qa b qb p = map cons4 (cols (expand p) a qa b qb).
Proof.
  intros Hc Hqa Hqb. unfold consensus.
  rewrite <- (consensus_cols_n (length p) p a qa b qb (le_n _) Hc Hqa Hqb).
  destruct (build_ali a b p 32), (build_ali qa qb p 0). reflexivity.
Qed.

Lemma cols_length : forall w a qa b qb, mconsumed w = (length a, length b) -> length qa = length a -> length qb = length b ->
  length (cols w a qa b qb) = length w.
Proof.
  induction w as [|m w IH]; intros a qa b qb Hc Hqa Hqb; [reflexivity|].
  cbn [mconsumed] in Hc. destruct (mconsumed w) as [x y] eqn:E.
  destruct m; injection Hc as Ha Hb.
  - destruct a as [|na a]; [discriminate|]. destruct qa as [|xa qa]; [discriminate|].
    destruct b as [|nb b]; [discriminate|]. destruct qb as [|xb qb]; [discriminate|].
    cbn [cols length]. f_equal. apply IH; cbn [length] in *; try lia. f_equal; lia.
  - destruct a as [|na a]; [discriminate|]. destruct qa as [|xa qa]; [discriminate|].
    cbn [cols length]. f_equal. apply IH; cbn [length] in *; try lia. f_equal; lia.
  - destruct b as [|nb b]; [discriminate|]. destruct qb as [|xb qb]; [discriminate|].
    cbn [cols length]. f_equal. apply IH; cbn [length] in *; try lia. f_equal; lia.
Qed.

(** one base per column, computed from that column alone by [cons_base] *)
Lemma consensus_columns p a qa b qb :
  consumed p = (length a, length b) -> length qa = length a -> length qb = length b ->
  consensus a qa b qb p = map cons4 (cols (expand p) a qa b qb) /\
  length (consensus a qa b qb p) = length (expand p).
Proof.
  intros Hc Hqa Hqb. split; [now apply consensus_cols|].
  rewrite consensus_cols by assumption. rewrite map_length. now apply cols_length.
Qed.

(** the column rule: higher quality wins; equal qualities and equal bases keep the base *)
Lemma cons_base_rule na xa nb xb :
  (xa > xb -> cons_base na xa nb xb = na) /\
  (xb > xa -> cons_base na xa nb xb = nb) /\
  (xa = xb -> na = nb -> cons_base na xa nb xb = na).
Proof.
  unfold cons_base. repeat split; intro H.
  - destruct (Z.gtb_spec xb xa); [lia|]. destruct (Z.eqb_spec xb xa); [lia|]. reflexivity.
  - destruct (Z.gtb_spec xb xa); [reflexivity | lia].
  - intro E. subst. destruct (Z.gtb_spec xb xb); [lia|]. rewrite !Z.eqb_refl. reflexivity.
Qed.

(** a base always beats a gap (gap = byte 32 with quality 0), whatever its quality: checked on the 15 IUPAC letters *)
Definition iupac_letters : list Z := [97; 99; 103; 116; 114; 121; 115; 119; 107; 109; 98; 100; 104; 118; 110].
Lemma base_beats_gap : forall n q, In n iupac_letters -> 0 <= q ->
  cons_base n q 32 0 = n /\ cons_base 32 0 n q = n.
Proof.
  intros n q Hn Hq. unfold cons_base.
  destruct (Z.gtb_spec 0 q); [lia|]. destruct (Z.gtb_spec q 0).
  - split; [|reflexivity]. destruct (Z.eqb_spec 0 q); [lia | reflexivity].
  - assert (q = 0) by lia. subst q. cbn [Z.eqb andb].
    cbn in Hn. repeat (destruct Hn as [Hn|Hn]; [subst n; vm_compute; split; reflexivity|]). contradiction.
Qed.

(** equal qualities, different bases: IUPAC union of the two codes (e.g. a/g -> r, c/t -> y, a/c/g/t with n -> n) *)
Lemma cons_base_union_examples :
  cons_base 97 30 103 30 = 114 /\ cons_base 99 7 116 7 = 121 /\ cons_base 110 0 97 0 = 110 /\ cons_base 97 12 116 12 = 119.
Proof. vm_compute. repeat split; reflexivity. Qed.

(** ---------------------------------------------------------------- fast mode: patching of the path *)
Definition pre (e : Z) : list move := repeat MU (Z.to_nat (- e)) ++ repeat MI (Z.to_nat e).

Lemma list_pair_ind (P : list Z -> Prop) :
  P [] -> (forall a, P [a]) -> (forall a b l, P l -> P (a :: b :: l)) -> forall l, P l.
Proof.
  intros H0 H1 H2. fix IH 1. intros [|a [|b l]]; [exact H0 | apply H1 | apply H2, IH].
Qed.

Lemma expand_app_even Y : forall X, Nat.even (length X) = true -> expand (X ++ Y) = expand X ++ expand Y.
Proof.
  induction X as [|a|a b l IH] using list_pair_ind; intro H.
  - reflexivity.
  - discriminate.
  - cbn [app]. rewrite !expand_pair. rewrite IH by exact H. now rewrite !app_assoc.
Qed.

Lemma repeat_add {A} (x : A) n m : repeat x (n + m) = repeat x n ++ repeat x m.
Proof. induction n as [|n IH]; [reflexivity|]. cbn [Nat.add repeat app]. now rewrite IH. Qed.

Lemma pre_merge ind e : 0 <= ind * e ->
  repeat MU (Z.to_nat (- (ind + e))) ++ repeat MI (Z.to_nat (ind + e)) =
  pre e ++ repeat MU (Z.to_nat (- ind)) ++ repeat MI (Z.to_nat ind).
Proof.
  intro H. unfold pre.
  assert (C : (0 <= ind /\ 0 <= e) \/ (ind <= 0 /\ e <= 0)) by nia.
  destruct C as [[H1 H2]|[H1 H2]].
  - replace (Z.to_nat (- (ind + e))) with 0%nat by lia. replace (Z.to_nat (- e)) with 0%nat by lia.
    replace (Z.to_nat (- ind)) with 0%nat by lia.
    replace (Z.to_nat (ind + e)) with (Z.to_nat e + Z.to_nat ind)%nat by lia.
    cbn [repeat app]. apply repeat_add.
  - replace (Z.to_nat (ind + e)) with 0%nat by lia. replace (Z.to_nat e) with 0%nat by lia.
    replace (Z.to_nat ind) with 0%nat by lia.
    replace (Z.to_nat (- (ind + e))) with (Z.to_nat (- e) + Z.to_nat (- ind))%nat by lia.
    cbn [repeat app]. rewrite !app_nil_r. apply repeat_add.
Qed.

Lemma pre_merge_r ind e : 0 <= ind * e ->
  repeat MU (Z.to_nat (- (ind + e))) ++ repeat MI (Z.to_nat (ind + e)) =
  (repeat MU (Z.to_nat (- ind)) ++ repeat MI (Z.to_nat ind)) ++ pre e.
Proof.
  intro H. unfold pre.
  assert (C : (0 <= ind /\ 0 <= e) \/ (ind <= 0 /\ e <= 0)) by nia.
  destruct C as [[H1 H2]|[H1 H2]].
  - replace (Z.to_nat (- (ind + e))) with 0%nat by lia. replace (Z.to_nat (- e)) with 0%nat by lia.
    replace (Z.to_nat (- ind)) with 0%nat by lia.
    replace (Z.to_nat (ind + e)) with (Z.to_nat ind + Z.to_nat e)%nat by lia.
    cbn [repeat app]. apply repeat_add.
  - replace (Z.to_nat (ind + e)) with 0%nat by lia. replace (Z.to_nat e) with 0%nat by lia.
    replace (Z.to_nat ind) with 0%nat by lia.
    replace (Z.to_nat (- (ind + e))) with (Z.to_nat (- ind) + Z.to_nat (- e))%nat by lia.
    cbn [repeat app]. rewrite !app_nil_r. apply repeat_add.
Qed.

Lemma patch5_expand e5 ind d r : expand (patch5 e5 (ind :: d :: r)) = pre e5 ++ expand (ind :: d :: r).
Proof.
  unfold patch5. destruct (ind * e5 >=? 0) eqn:E.
  - apply Z.geb_le in E. rewrite !expand_pair. rewrite !app_assoc. rewrite (pre_merge ind e5 E).
    now rewrite !app_assoc.
  - rewrite (expand_pair e5 0). cbn [Z.to_nat repeat app]. unfold pre. now rewrite <- app_assoc.
Qed.

Lemma patch5_even e5 p : p <> [] -> Nat.even (length p) = true -> Nat.even (length (patch5 e5 p)) = true /\ patch5 e5 p <> [].
Proof.
  intros Hn He. destruct p as [|ind r]; [congruence|]. unfold patch5.
  destruct (ind * e5 >=? 0); split; try discriminate; cbn [length Nat.even] in *; assumption.
Qed.

Lemma even_rev_tail (p1 : list Z) d ind r' :
  rev p1 = d :: ind :: r' -> p1 = rev r' ++ [ind; d] /\ Nat.even (length (rev r')) = Nat.even (length p1).
Proof.
  intro H. assert (E : p1 = rev r' ++ [ind; d]).
  { rewrite <- (rev_involutive p1), H. cbn [rev]. now rewrite <- app_assoc. }
  split; [exact E|]. rewrite E. rewrite app_length. cbn [length].
  replace (length (rev r') + 2)%nat with (S (S (length (rev r')))) by lia. reflexivity.
Qed.

Lemma patch3_expand e3 p1 : p1 <> [] -> Nat.even (length p1) = true ->
  expand (patch3 e3 p1) = expand p1 ++ pre e3.
Proof.
  intros Hn He. unfold patch3.
  assert (Hgen : expand (p1 ++ [e3; 0]) = expand p1 ++ pre e3).
  { rewrite expand_app_even by exact He. rewrite expand_pair. cbn [Z.to_nat repeat app expand].
    unfold pre. now rewrite !app_nil_r. }
  destruct (rev p1) as [|d [|ind r']] eqn:R; try exact Hgen.
  destruct (even_rev_tail p1 d ind r' R) as [E Hev]. rewrite He in Hev.
  destruct ((d =? 0) && (ind * e3 >=? 0)) eqn:C; [|exact Hgen].
  apply andb_prop in C. destruct C as [C1 C2]. apply Z.eqb_eq in C1. apply Z.geb_le in C2. subst d.
  rewrite E. rewrite !expand_app_even by exact Hev. rewrite !expand_pair.
  cbn [Z.to_nat repeat app expand]. rewrite !app_nil_r.
  rewrite (pre_merge_r ind e3 C2). now rewrite !app_assoc.
Qed.

(** the patched path = unaligned 5' end, path of the sub-alignment, unaligned 3' end *)
Lemma patch_expand e5 e3 p : p <> [] -> Nat.even (length p) = true ->
  expand (patch e5 e3 p) = pre e5 ++ expand p ++ pre e3.
Proof.
  intros Hn He. unfold patch.
  destruct (patch5_even e5 p Hn He) as [H1 H2].
  rewrite patch3_expand by assumption.
  destruct p as [|ind [|d r]]; [congruence | discriminate |].
  rewrite patch5_expand. now rewrite <- app_assoc.
Qed.

Lemma mconsumed_pre e : mconsumed (pre e) = (Z.to_nat (- e), Z.to_nat e).
Proof.
  unfold pre. rewrite mconsumed_app, mconsumed_repeat_MU, mconsumed_repeat_MI. cbn [fst snd]. f_equal; lia.
Qed.

Lemma patch_consumed e5 e3 p : p <> [] -> Nat.even (length p) = true ->
  consumed (patch e5 e3 p) =
    (Z.to_nat (- e5) + fst (consumed p) + Z.to_nat (- e3), Z.to_nat e5 + snd (consumed p) + Z.to_nat e3)%nat.
Proof.
  intros Hn He. unfold consumed. rewrite patch_expand by assumption.
  rewrite !mconsumed_app, !mconsumed_pre. cbn [fst snd]. f_equal; lia.
Qed.

(** the unchanged tree: adding the end to an indel run of the opposite direction cancels bases.
    Witness = the sub-alignment path observed on the real code for acccaca / aaccaa (extra3 = -1). *)
Lemma patch_old_refuted :
  exists e5 e3 p, p <> [] /\ Nat.even (length p) = true /\
    consumed (patch_old e5 e3 p) <>
    (Z.to_nat (- e5) + fst (consumed p) + Z.to_nat (- e3), Z.to_nat e5 + snd (consumed p) + Z.to_nat e3)%nat.
Proof.
  exists 0, (-1), [-2; 0; 2; 3; -1; 0; 1; 0]. split; [discriminate|]. split; [reflexivity|].
  vm_compute. discriminate.
Qed.

(** ---------------------------------------------------------------- fast mode: the whole pipeline after the vote *)
Lemma finish_even ld lu ll acc : Nat.even (length acc) = true -> Nat.even (length (finish ld lu ll acc)) = true.
Proof.
  intro H. unfold finish.
  destruct (ll =? 0); destruct (lu =? 0); cbn beta iota;
    match goal with |- context [if ?c then _ else _] => destruct c end; cbn [length Nat.even]; assumption.
Qed.

Lemma bt_even : forall fuel m i j ld lu ll acc p,
  Nat.even (length acc) = true -> bt fuel m i j ld lu ll acc = Some p -> Nat.even (length p) = true.
Proof.
  induction fuel as [|f IH]; intros m i j ld lu ll acc p He H; [discriminate|].
  rewrite bt_S in H. cbv zeta in H.
  repeat match type of H with
         | context [if ?c then _ else _] => destruct c; cbn beta iota in H
         end;
    try discriminate;
    try (injection H as <-; now apply finish_even);
    (eapply IH; [|exact H]; cbn [length Nat.even]; assumption).
Qed.

Lemma backtrack_even m la lb p : backtrack m la lb = Some p -> Nat.even (length p) = true.
Proof. unfold backtrack. apply bt_even. reflexivity. Qed.

Lemma consumed_nonempty p a b : consumed p = (a, b) -> (1 <= a)%nat -> p <> [].
Proof. intros H Ha E. subst p. cbn in H. injection H as H1 H2. lia. Qed.

Lemma mscore_MD_run sc gap la lb mode : forall n ca cb w,
  mscore sc gap la lb mode ca cb (repeat MD n ++ w) =
  diag_sum sc ca cb n + mscore sc gap la lb mode (ca + n) (cb + n) w.
Proof.
  induction n as [|n IH]; intros ca cb w.
  - cbn [repeat app diag_sum]. now rewrite !Nat.add_0_r.
  - cbn [repeat app mscore diag_sum]. rewrite IH.
    replace (S ca + n)%nat with (ca + S n)%nat by lia. replace (S cb + n)%nat with (cb + S n)%nat by lia. lia.
Qed.

Lemma mscore_MU_free sc gap la lb mode cb : ucost gap lb mode cb = 0 -> forall n ca w,
  mscore sc gap la lb mode ca cb (repeat MU n ++ w) = mscore sc gap la lb mode (ca + n) cb w.
Proof.
  intro F. induction n as [|n IH]; intros ca w.
  - cbn [repeat app]. now rewrite Nat.add_0_r.
  - cbn [repeat app mscore]. rewrite IH, F. replace (S ca + n)%nat with (ca + S n)%nat by lia. lia.
Qed.

Lemma mscore_MI_free sc gap la lb mode ca : icost gap la mode ca = 0 -> forall n cb w,
  mscore sc gap la lb mode ca cb (repeat MI n ++ w) = mscore sc gap la lb mode ca (cb + n) w.
Proof.
  intro F. induction n as [|n IH]; intros cb w.
  - cbn [repeat app]. now rewrite Nat.add_0_r.
  - cbn [repeat app mscore]. rewrite IH, F. replace (S cb + n)%nat with (cb + S n)%nat by lia. lia.
Qed.

Lemma mscore_pre_nil sc gap la lb mode ca cb : mscore sc gap la lb mode ca cb (pre 0) = 0.
Proof. reflexivity. Qed.

(** the sub-alignment sees A from [k] on (left mode: nothing depends on |B|) *)
Lemma mscore_shift_left sc gap k la' lb lb' : forall w ca cb,
  mscore sc gap (la' + k) lb true (ca + k) cb w =
  mscore (fun i j => sc (i + k)%nat j) gap la' lb' true ca cb w.
Proof.
  induction w as [|m w IH]; intros ca cb; [reflexivity|].
  destruct m; cbn [mscore].
  - change (S (ca + k)) with (S ca + k)%nat. now rewrite IH.
  - change (S (ca + k)) with (S ca + k)%nat. rewrite IH. reflexivity.
  - rewrite IH. unfold icost. replace (ca + k =? la' + k)%nat with (ca =? la')%nat; [reflexivity|].
    destruct (Nat.eqb_spec ca la'), (Nat.eqb_spec (ca + k) (la' + k)); try reflexivity; lia.
Qed.

(** ... resp. B from [k] on (right mode: nothing depends on |A|) *)
Lemma mscore_shift_right sc gap k la la' lb' : forall w ca cb,
  mscore sc gap la (lb' + k) false ca (cb + k) w =
  mscore (fun i j => sc i (j + k)%nat) gap la' lb' false ca cb w.
Proof.
  induction w as [|m w IH]; intros ca cb; [reflexivity|].
  destruct m; cbn [mscore].
  - change (S (cb + k)) with (S cb + k)%nat. now rewrite IH.
  - rewrite IH. unfold ucost. replace (cb + k =? lb' + k)%nat with (cb =? lb')%nat; [reflexivity|].
    destruct (Nat.eqb_spec cb lb'), (Nat.eqb_spec (cb + k) (lb' + k)); try reflexivity; lia.
  - change (S (cb + k)) with (S cb + k)%nat. rewrite IH. reflexivity.
Qed.

(** left alignment of A[k:] with B[:lb'] extended by the unaligned ends *)
Lemma fast_left_valid sc gap la lb (k la' lb' : nat) p s :
  (la = la' + k)%nat -> (lb' <= lb)%nat -> p <> [] -> Nat.even (length p) = true ->
  consumed p = (la', lb') ->
  path_score (fun i j => sc (i + k)%nat j) gap la' lb' true p = s ->
  consumed (patch (- Z.of_nat k) (Z.of_nat lb - Z.of_nat lb') p) = (la, lb) /\
  path_score sc gap la lb true (patch (- Z.of_nat k) (Z.of_nat lb - Z.of_nat lb') p) = s.
Proof.
  intros Hla Hlb Hn He Hc Hs. split.
  - rewrite patch_consumed by assumption. rewrite Hc. cbn [fst snd]. f_equal; lia.
  - unfold path_score in *. rewrite patch_expand by assumption. unfold pre.
    replace (Z.to_nat (- - Z.of_nat k)) with k by lia.
    replace (Z.to_nat (- Z.of_nat k)) with 0%nat by lia.
    replace (Z.to_nat (- (Z.of_nat lb - Z.of_nat lb'))) with 0%nat by lia.
    cbn [repeat app]. rewrite app_nil_r.
    rewrite mscore_MU_free by reflexivity.
    rewrite mscore_app. unfold consumed in Hc. rewrite Hc. cbn [fst snd Nat.add].
    rewrite <- (app_nil_r (repeat MI _)).
    rewrite mscore_MI_free.
    + cbn [mscore]. subst la. pose proof (mscore_shift_left sc gap k la' lb lb' (expand p) 0%nat 0%nat) as Sh.
      cbn [Nat.add] in Sh. rewrite Sh. lia.
    + unfold icost. replace (k + la' =? la)%nat with true; [reflexivity|]. symmetry. apply Nat.eqb_eq. lia.
Qed.

Lemma fast_right_valid sc gap la lb (k la' lb' : nat) p s :
  (lb = lb' + k)%nat -> (la' <= la)%nat -> p <> [] -> Nat.even (length p) = true ->
  consumed p = (la', lb') ->
  path_score (fun i j => sc i (j + k)%nat) gap la' lb' false p = s ->
  consumed (patch (Z.of_nat k) (Z.of_nat la' - Z.of_nat la) p) = (la, lb) /\
  path_score sc gap la lb false (patch (Z.of_nat k) (Z.of_nat la' - Z.of_nat la) p) = s.
Proof.
  intros Hlb Hla Hn He Hc Hs. split.
  - rewrite patch_consumed by assumption. rewrite Hc. cbn [fst snd]. f_equal; lia.
  - unfold path_score in *. rewrite patch_expand by assumption. unfold pre.
    replace (Z.to_nat (- Z.of_nat k)) with 0%nat by lia.
    replace (Z.to_nat (Z.of_nat k)) with k by lia.
    replace (Z.to_nat (Z.of_nat la' - Z.of_nat la)) with 0%nat by lia.
    cbn [repeat app].
    rewrite mscore_MI_free by reflexivity.
    rewrite mscore_app. unfold consumed in Hc. rewrite Hc. cbn [fst snd Nat.add].
    rewrite app_nil_r. rewrite <- (app_nil_r (repeat MU _)).
    rewrite mscore_MU_free.
    + cbn [mscore]. subst lb. pose proof (mscore_shift_right sc gap k la la' lb' (expand p) 0%nat 0%nat) as Sh.
      cbn [Nat.add] in Sh. rewrite Sh. lia.
    + unfold ucost. replace (k + lb' =? lb)%nat with true; [reflexivity|]. symmetry. apply Nat.eqb_eq. lia.
Qed.

Lemma consumed_diag d : consumed [0; d] = (Z.to_nat d, Z.to_nat d).
Proof.
  unfold consumed. rewrite expand_pair. cbn [Z.opp Z.to_nat repeat app expand]. rewrite app_nil_r.
  apply mconsumed_repeat_MD.
Qed.

Lemma diag_sum_shift_l sc k : forall n i j, diag_sum (fun i j => sc (i + k)%nat j) i j n = diag_sum sc (i + k) j n.
Proof. induction n as [|n IH]; intros i j; [reflexivity|]. cbn [diag_sum]. now rewrite IH. Qed.
Lemma diag_sum_shift_r sc k : forall n i j, diag_sum (fun i j => sc i (j + k)%nat) i j n = diag_sum sc i (j + k) n.
Proof. induction n as [|n IH]; intros i j; [reflexivity|]. cbn [diag_sum]. now rewrite IH. Qed.

Lemma path_score_diag sc gap la lb mode d : path_score sc gap la lb mode [0; d] = diag_sum sc 0 0 (Z.to_nat d).
Proof.
  unfold path_score. rewrite expand_pair. cbn [Z.opp Z.to_nat repeat app expand].
  rewrite mscore_MD_run. cbn [mscore]. lia.
Qed.

(** fast mode after the vote: whatever diagonal (shift) and count the vote reports (within the bounds a vote can
    produce), the returned path consumes both reads and the reported score is the score of that path *)
Lemma pealign_fast_valid sc gap la lb shift fc delta :
  (1 <= la)%nat -> (1 <= lb)%nat -> 0 <= delta ->
  - Z.of_nat lb < shift < Z.of_nat la ->
  (fc = 0 \/ (fc + 3 <= Z.of_nat la /\ fc + 3 <= Z.of_nat lb)) ->
  exists isl s p, pealign_fast_with sc gap la lb shift fc delta = Some (isl, s, p) /\
                  consumed p = (la, lb) /\ path_score sc gap la lb isl p = s.
Proof.
  intros Ha Hb Hd Hs Hf. unfold pealign_fast_with. cbv zeta.
  destruct ((shift >? 0) || ((shift =? 0) && (Z.of_nat la <? Z.of_nat lb))) eqn:SA.
  - (* B starts inside A: left alignment *)
    assert (Hs0 : 0 <= shift).
    { destruct (Z.gtb_spec shift 0); [lia|]. destruct (Z.eqb_spec shift 0); [lia|]. discriminate. }
    destruct ((fc =? 0) || (fc + 3 <? Z.of_nat la - shift)) eqn:DP.
    + set (startA := Z.max 0 (shift - delta)).
      assert (H0 : 0 <= startA < Z.of_nat la) by (unfold startA; lia).
      destruct (Z.gtb_spec startA (Z.of_nat la)); [lia|].
      set (k := Z.to_nat startA). set (la' := Z.to_nat (Z.of_nat la - startA)).
      set (lb' := Z.to_nat (Z.min (Z.of_nat la - startA) (Z.of_nat lb))).
      destruct (backtrack_fill (fun i j => sc (i + k)%nat j) gap la' lb' true) as [p [Bp [Cp Sp]]];
        [unfold la'; lia | unfold lb'; lia |].
      unfold fill_bt. rewrite Bp.
      pose proof (fast_left_valid sc gap la lb k la' lb' p _
                    ltac:(unfold la', k; lia) ltac:(unfold lb'; lia)
                    (consumed_nonempty p la' lb' Cp ltac:(unfold la'; lia))
                    (backtrack_even _ _ _ _ Bp) Cp Sp) as [V1 V2].
      replace (- Z.of_nat k) with (- startA) in * by (unfold k; lia).
      replace (Z.of_nat lb') with (Z.min (Z.of_nat la - startA) (Z.of_nat lb)) in * by (unfold lb'; lia).
      eexists _, _, _. split; [reflexivity|]. split; assumption.
    + apply orb_false_elim in DP. destruct DP as [D1 D2].
      apply Z.eqb_neq in D1. apply Z.ltb_ge in D2.
      assert (Hle : Z.of_nat la - shift <= Z.of_nat lb) by lia.
      destruct (Z.ltb_spec shift 0); [lia|]. destruct (Z.ltb_spec (Z.of_nat la - shift) 0); [lia|].
      destruct (Z.gtb_spec (Z.of_nat la - shift) (Z.of_nat lb)); [lia|]. cbn [orb].
      set (k := Z.to_nat shift). set (n := Z.to_nat (Z.of_nat la - shift)).
      pose proof (fast_left_valid sc gap la lb k n n [0; Z.of_nat la - shift] (diag_sum sc k 0 n)
                    ltac:(unfold n, k; lia) ltac:(unfold n; lia) ltac:(discriminate) eq_refl
                    (consumed_diag _)) as V.
      rewrite path_score_diag, diag_sum_shift_l in V. specialize (V eq_refl). destruct V as [V1 V2].
      replace (- Z.of_nat k) with (- shift) in * by (unfold k; lia).
      replace (Z.of_nat n) with (Z.of_nat la - shift) in * by (unfold n; lia).
      eexists _, _, _. split; [reflexivity|]. split; assumption.
  - (* A starts inside B (or at the same position, A at least as long): right alignment *)
    assert (Hs0 : shift <= 0).
    { destruct (Z.gtb_spec shift 0); [discriminate | lia]. }
    destruct ((fc =? 0) || (fc + 3 <? Z.of_nat lb + shift)) eqn:DP.
    + set (startB := Z.max 0 (- shift - delta)).
      assert (H0 : 0 <= startB < Z.of_nat lb) by (unfold startB; lia).
      destruct (Z.gtb_spec startB (Z.of_nat lb)); [lia|].
      set (k := Z.to_nat startB). set (lb' := Z.to_nat (Z.of_nat lb - startB)).
      set (la' := Z.to_nat (Z.min (Z.of_nat lb - startB) (Z.of_nat la))).
      destruct (backtrack_fill (fun i j => sc i (j + k)%nat) gap la' lb' false) as [p [Bp [Cp Sp]]];
        [unfold la'; lia | unfold lb'; lia |].
      unfold fill_bt. rewrite Bp.
      pose proof (fast_right_valid sc gap la lb k la' lb' p _
                    ltac:(unfold lb', k; lia) ltac:(unfold la'; lia)
                    (consumed_nonempty p la' lb' Cp ltac:(unfold la'; lia))
                    (backtrack_even _ _ _ _ Bp) Cp Sp) as [V1 V2].
      replace (Z.of_nat k) with startB in * by (unfold k; lia).
      replace (Z.of_nat la') with (Z.min (Z.of_nat lb - startB) (Z.of_nat la)) in * by (unfold la'; lia).
      eexists _, _, _. split; [reflexivity|]. split; assumption.
    + apply orb_false_elim in DP. destruct DP as [D1 D2].
      apply Z.eqb_neq in D1. apply Z.ltb_ge in D2.
      assert (Hle : Z.of_nat lb + shift <= Z.of_nat la) by lia.
      replace (Z.of_nat lb - - shift) with (Z.of_nat lb + shift) by lia.
      destruct (Z.ltb_spec (- shift) 0); [lia|]. destruct (Z.ltb_spec (Z.of_nat lb + shift) 0); [lia|].
      destruct (Z.gtb_spec (Z.of_nat lb + shift) (Z.of_nat la)); [lia|]. cbn [orb].
      set (k := Z.to_nat (- shift)). set (n := Z.to_nat (Z.of_nat lb + shift)).
      pose proof (fast_right_valid sc gap la lb k n n [0; Z.of_nat lb + shift] (diag_sum sc 0 k n)
                    ltac:(unfold n, k; lia) ltac:(unfold n; lia) ltac:(discriminate) eq_refl
                    (consumed_diag _)) as V.
      rewrite path_score_diag, diag_sum_shift_r in V. specialize (V eq_refl). destruct V as [V1 V2].
      replace (Z.of_nat k) with (- shift) in * by (unfold k; lia).
      replace (Z.of_nat n) with (Z.of_nat lb + shift) in * by (unfold n; lia).
      eexists _, _, _. split; [reflexivity|]. split; assumption.
Qed.

Lemma reassembly_refuted :
  exists frag a b q isl s p,
    a = firstn 100 frag /\ b = skipn 50 frag /\ length frag = 150%nat /\
    pealign_exact (fun _ _ => 14) (-161) 100 100 = Some (isl, s, p) /\
    consensus a q b q p <> frag.
Proof.
  exists (repeat 97 150), (repeat 97 100), (repeat 97 100), (repeat 40 100), false, 1400, [0; 100].
  split; [reflexivity|]. split; [reflexivity|]. split; [reflexivity|].
  split; [vm_compute; reflexivity|].
  intro H. apply (f_equal (@length Z)) in H. vm_compute in H. discriminate.
Qed.

(** ---------------------------------------------------------------- conditional reassembly *)
Lemma consensus_expand p q a qa b qb :
  consumed p = (length a, length b) -> consumed q = (length a, length b) ->
  length qa = length a -> length qb = length b ->
  expand p = expand q -> consensus a qa b qb p = consensus a qa b qb q.
Proof.
  intros Hp Hq Ha Hb E. rewrite !consensus_cols by assumption. now rewrite E.
Qed.

(** if the columns of an alignment [q] (scored on side [mq]) are the STRICT optimum of the scheme (every alignment
    with other columns scores less, on either side), exact mode returns these columns, hence the same consensus *)
Lemma reassembly_if_strict sc gap a qa b qb mq q :
  (1 <= length a)%nat -> (1 <= length b)%nat -> length qa = length a -> length qb = length b ->
  consumed q = (length a, length b) ->
  (forall m p, consumed p = (length a, length b) -> expand p <> expand q ->
               path_score sc gap (length a) (length b) m p < path_score sc gap (length a) (length b) mq q) ->
  exists isl s p, pealign_exact sc gap (length a) (length b) = Some (isl, s, p) /\
              expand p = expand q /\ consensus a qa b qb p = consensus a qa b qb q.
Proof.
  intros Ha Hb Hqa Hqb Hq Hstrict.
  destruct (pealign_exact_ok sc gap (length a) (length b) Ha Hb) as [isl [s [p [E [C [P _]]]]]].
  pose proof (pealign_exact_optimal sc gap (length a) (length b) Ha Hb isl s p E mq q Hq) as Hopt.
  assert (He : expand p = expand q).
  { destruct (list_eq_dec (fun x y : move => ltac:(decide equality) : {x = y} + {x <> y}) (expand p) (expand q)) as [e|n]; [exact e|].
    specialize (Hstrict isl p C n). lia. }
  exists isl, s, p. split; [exact E|]. split; [exact He|].
  now apply consensus_expand.
Qed.

Lemma mconsumed_length : forall w a b, mconsumed w = (a, b) -> (length w <= a + b)%nat.
Proof.
  induction w as [|m w IH]; intros a b H; [cbn; lia|].
  cbn [mconsumed] in H. destruct (mconsumed w) as [x y] eqn:E. specialize (IH x y eq_refl).
  cbn [length]. destruct m; injection H as <- <-; lia.
Qed.

(** the hypotheses of [reassembly_if_strict] are satisfiable: one base against one base, score 5, gap -3 *)
Lemma reassembly_strict_example : forall m p, consumed p = (1, 1)%nat -> expand p <> expand [0; 1] ->
  path_score (fun _ _ => 5) (-3) 1 1 m p < path_score (fun _ _ => 5) (-3) 1 1 true [0; 1].
Proof.
  intros m p Hc Hne. unfold consumed, path_score in *.
  pose proof (mconsumed_length _ _ _ Hc) as HL.
  change (expand [0; 1]) with [MD] in *.
  destruct (expand p) as [|x [|y [|z w]]]; cbn [length] in HL; try lia.
  - cbn in Hc. discriminate.
  - destruct x; cbn in Hc; try discriminate. congruence.
  - destruct x, y; cbn in Hc; try discriminate; destruct m; vm_compute; reflexivity.
Qed.

(** ---------------------------------------------------------------- annotations of AssemblePESequences *)
Lemma length_pre e : Z.of_nat (length (pre e)) = Z.abs e.
Proof. unfold pre. rewrite app_length, !repeat_length. lia. Qed.

Lemma even_split2 (l : list Z) : Nat.even (length l) = true -> l <> [] -> exists x y r, l = x :: y :: r /\ Nat.even (length r) = true.
Proof.
  intros He Hn. destruct l as [|x [|y r]]; [congruence | discriminate |].
  exists x, y, r. split; [reflexivity | exact He].
Qed.

(** the consensus is: unaligned end [ann_left], aligned region of [ali_length] columns, unaligned end [ann_right];
    a negative end holds bases of A only, a positive end bases of B only *)
Lemma ends_decomposition p : Nat.even (length p) = true ->
  (1 <= fst (consumed p))%nat -> (1 <= snd (consumed p))%nat ->
  exists mid, expand p = pre (ann_left p) ++ mid ++ pre (ann_right p) /\
              Z.of_nat (length mid) = ali_length p /\ 0 <= ali_length p /\
              Z.of_nat (fst (mconsumed (pre (ann_left p))) + fst (mconsumed (pre (ann_right p)))) = a_single p /\
              Z.of_nat (snd (mconsumed (pre (ann_left p))) + snd (mconsumed (pre (ann_right p)))) = b_single p /\
              a_single p + b_single p + ali_length p = Z.of_nat (length (expand p)).
Proof.
  intros He Ha Hb.
  assert (Hn : p <> []) by (intro E; subst; cbn in Ha; lia).
  destruct (even_split2 p He Hn) as [L [d [r [Ep Her]]]].
  assert (Hgoal : forall mid R, ann_right p = R -> expand p = pre L ++ mid ++ pre R ->
            exists mid0, expand p = pre (ann_left p) ++ mid0 ++ pre (ann_right p) /\
              Z.of_nat (length mid0) = ali_length p /\ 0 <= ali_length p /\
              Z.of_nat (fst (mconsumed (pre (ann_left p))) + fst (mconsumed (pre (ann_right p)))) = a_single p /\
              Z.of_nat (snd (mconsumed (pre (ann_left p))) + snd (mconsumed (pre (ann_right p)))) = b_single p /\
              a_single p + b_single p + ali_length p = Z.of_nat (length (expand p))).
  { intros mid R HR HE. exists mid.
    assert (HL : ann_left p = L) by (subst p; reflexivity).
    unfold ali_length, a_single, b_single. rewrite HL, HR, HE.
    rewrite !app_length, !Nat2Z.inj_add, !length_pre, !mconsumed_pre. cbn [fst snd].
    repeat split; lia. }
  destruct (rev p) as [|dl [|R r']] eqn:Rv.
  - exfalso. apply (f_equal (@length Z)) in Rv. rewrite rev_length in Rv. subst p. discriminate.
  - exfalso. apply (f_equal (@length Z)) in Rv. rewrite rev_length in Rv. subst p. cbn in Rv. lia.
  - destruct (even_rev_tail p dl R r' Rv) as [Ep' Hev]. rewrite He in Hev.
    destruct (Z.eqb_spec dl 0) as [E0|E0].
    + (* trailing (R, 0) run *)
      subst dl.
      destruct r' as [|y' r''].
      * (* p = [R; 0]: consumes one read only *)
        exfalso. cbn [rev app] in Ep'. subst p. injection Ep' as; intros; subst.
        unfold consumed in Ha, Hb. rewrite expand_pair in Ha, Hb.
        rewrite !mconsumed_app, mconsumed_repeat_MU, mconsumed_repeat_MI, mconsumed_repeat_MD in Ha, Hb.
        cbn [expand mconsumed fst snd] in Ha, Hb. lia.
      * assert (Hne : rev (y' :: r'') <> []) by (intro E; apply (f_equal (@length Z)) in E; rewrite rev_length in E; discriminate).
        destruct (even_split2 (rev (y' :: r'')) Hev Hne) as [L' [d' [m' [Em Hem]]]].
        assert (L' = L /\ d' = d) as [-> ->].
        { rewrite Em in Ep'. rewrite Ep in Ep'. cbn [app] in Ep'. injection Ep' as -> ->. split; reflexivity. }
        apply (Hgoal (repeat MD (Z.to_nat d) ++ expand m') R).
        -- unfold ann_right. rewrite Rv. reflexivity.
        -- rewrite Ep'. rewrite expand_app_even by exact Hev. rewrite Em, !expand_pair.
           cbn [Z.to_nat repeat app expand]. unfold pre. rewrite !app_nil_r. now rewrite <- !app_assoc.
    + apply (Hgoal (repeat MD (Z.to_nat d) ++ expand r) 0).
      * unfold ann_right. rewrite Rv. destruct (Z.eqb_spec dl 0); [contradiction | reflexivity].
      * rewrite Ep, expand_pair. unfold pre. cbn [Z.opp Z.to_nat repeat app]. rewrite !app_nil_r. now rewrite <- !app_assoc.
Qed.
