(** C08 — the exported entry points of the anchored files that PEAlign does not go through (observed by vh c08, field
    "api"): PELeftAlign / PERightAlign / PECenterAlign, BuildAlignment, Encode4bits.  Definitions only, and the
    correspondence predicate of the whole observation ([mismatches2]). *)
From Coq Require Import ZArith QArith List Bool.
From OBI.C08 Require Import Model.
From OBI.C08 Require Import SchemeModel.
Import ListNotations.
Open Scope Z_scope.

(** BuildAlignment(seqA, seqB, path, gap): the two gapped rows (_BuildAlignment with the caller's gap symbol) *)
Definition build_alignment (a b : list Z) (p : list Z) (g : Z) : list Z * list Z := build_ali a b p g.

(** Encode4bits: '.' (46) and '-' (45) are coded 0, any other byte by _FourBitsBaseCode[byte land 31] *)
Definition encode4bits (s : list Z) : list Z :=
  map (fun n => if (n =? 46) || (n =? 45) then 0 else code4 n) s.

Record acase := mkapi {
  a_base : ccase;
  (* PELeftAlign / PERightAlign on the whole reads *)
  a_scoreL : Z; a_pathL : list Z; a_scoreR : Z; a_pathR : list Z;
  (* PECenterAlign: observed panic (|A| < |B|), or (score, path) *)
  a_cpanic : bool; a_scoreC : Z; a_pathC : list Z;
  (* BuildAlignment on the path of PEAlign with '-' *)
  a_alia : list Z; a_alib : list Z;
  (* Encode4bits of A, of B, of A with "-." inserted after its first base *)
  a_e4a : list Z; a_e4b : list Z; a_e4g : list Z }.

Definition ok_sides (x : acase) : bool :=
  let c := a_base x in
  let sc := sc_of (c_rows c) in
  let la := length (c_a c) in let lb := length (c_b c) in
  let '(sl, pl) := gfill_bt sc (c_gap c) la lb s_left in
  let '(sr, pr) := gfill_bt sc (c_gap c) la lb s_right in
  (sl =? a_scoreL x) && opath_eqb pl (a_pathL x) && (sr =? a_scoreR x) && opath_eqb pr (a_pathR x).

Definition ok_center (x : acase) : bool :=
  let c := a_base x in
  match pecenter (sc_of (c_rows c)) (c_gap c) (length (c_a c)) (length (c_b c)) with
  | None => a_cpanic x
  | Some (s, op) => negb (a_cpanic x) && (s =? a_scoreC x) && opath_eqb op (a_pathC x)
  end.

Definition ok_ali (x : acase) : bool :=
  let c := a_base x in
  let '(ra, rb) := build_alignment (c_a c) (c_b c) (c_path c) 45 in
  zl_eqb ra (a_alia x) && zl_eqb rb (a_alib x).

Definition gapped (s : list Z) : list Z :=
  match s with n :: r => n :: 45 :: 46 :: r | [] => [] end.

Definition ok_e4 (x : acase) : bool :=
  let c := a_base x in
  zl_eqb (encode4bits (c_a c)) (a_e4a x) && zl_eqb (encode4bits (c_b c)) (a_e4b x) &&
  zl_eqb (encode4bits (gapped (c_a c))) (a_e4g x).

Definition api_ok (x : acase) : bool := case_ok (a_base x) && ok_sides x && ok_center x && ok_ali x && ok_e4 x.

Fixpoint mismatches2_from (i : nat) (l : list acase) : list nat :=
  match l with
  | [] => []
  | c :: l' => let rest := mismatches2_from (S i) l' in if api_ok c then rest else i :: rest
  end.
Definition mismatches2 := mismatches2_from 0.

(** diagnostics: 0 the base case (see diverging_parts), 6 sides, 7 centre, 8 BuildAlignment, 9 Encode4bits *)
Definition diverging_parts2 (x : acase) : list nat :=
  diverging_parts (a_base x) ++ (if ok_sides x then [] else [6%nat]) ++ (if ok_center x then [] else [7%nat]) ++
  (if ok_ali x then [] else [8%nat]) ++ (if ok_e4 x then [] else [9%nat]).
