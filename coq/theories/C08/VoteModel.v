(** C08 — executable model of the fast-mode diagonal vote: obikmer.Encode4mer, Index4mer, FastShiftFourMer
    (pkg/obikmer/encodefourmer.go).  Definitions only.

    Encode4mer: rolling byte code, two bits per base (table [single_base_code], regenerated from the build).
    Index4mer: for every code the ascending list of its positions in read A.
    FastShiftFourMer: for every position [pos] of a 4-mer of read B and every position [refpos] of the same 4-mer in A,
    the counter of the diagonal [refpos - pos] is incremented in a map; then the map is visited in SOME order
    (Go map iteration order is unspecified; the model visits it in insertion order and the theorem
    C08_vote_order_independent shows that the order is irrelevant); each entry carries its score (count, or
    count / (overlap - 3) in relative mode — an exact rational here: IEEE division is correctly rounded, equal
    rationals give equal floats and distinct rationals with denominators below 2^20 give distinct, equally ordered
    floats). *)
From Coq Require Import ZArith QArith List Bool.
From OBI.C08.Gen Require Import Tables.
Import ListNotations.

(** ---- Encode4mer *)
Definition bcode (b : Z) : Z := nth (Z.to_nat (Z.land b 31)) single_base_code 0%Z.
(** byte arithmetic: [code <<= 2; code += x] (first four bases) and [code <<= 2; code |= x] (the others) *)
Definition step_add (code x : Z) : Z := (((code * 4) mod 256 + bcode x) mod 256)%Z.
Definition step_or (code x : Z) : Z := Z.lor ((code * 4) mod 256) (bcode x).

Fixpoint roll (code : Z) (s : list Z) : list Z :=
  match s with
  | [] => []
  | x :: r => let c := step_or code x in c :: roll c r
  end.

(** [length <= 0 => nil] (after the fix: a read of length 3 has no 4-mer) *)
Definition encode4mer (s : list Z) : list Z :=
  match s with
  | x0 :: x1 :: x2 :: x3 :: r =>
      let c := step_add (step_add (step_add (step_add 0 x0) x1) x2) x3 in c :: roll c r
  | _ => []
  end.

(** ---- Index4mer: index[code] = positions of [code] in the 4-mer list of A, ascending *)
Fixpoint positions_from (code : Z) (ks : list Z) (i : nat) : list nat :=
  match ks with
  | [] => []
  | k :: r => if (k =? code)%Z then i :: positions_from code r (S i) else positions_from code r (S i)
  end.
Definition index4 (ks : list Z) (code : Z) : list nat := positions_from code ks 0.

(** ---- FastShiftFourMer, counting loop.  The map shift -> count is an association list in insertion order. *)
Definition vmap := list (Z * Z).

Fixpoint bump (m : vmap) (s : Z) : vmap :=
  match m with
  | [] => [(s, 1%Z)]
  | (k, c) :: r => if (k =? s)%Z then (k, (c + 1)%Z) :: r else (k, c) :: bump r s
  end.

Fixpoint vget (m : vmap) (s : Z) : Z :=
  match m with
  | [] => 0%Z
  | (k, c) :: r => if (k =? s)%Z then c else vget r s
  end.

Fixpoint vote_loop (ka kb : list Z) (pos : nat) (m : vmap) : vmap :=
  match kb with
  | [] => m
  | code :: r =>
      vote_loop ka r (S pos)
        (fold_left (fun m refpos => bump m (Z.of_nat refpos - Z.of_nat pos)%Z) (index4 ka code) m)
  end.

Definition count_votes (ka kb : list Z) : vmap := vote_loop ka kb 0 [].

(** ---- selection loop *)
Record ventry := mkv { v_shift : Z; v_count : Z; v_score : Q }.
Definition vstate := (Z * Z * Q)%type.

(** maxshift := 0; maxcount := 0; maxscore := -1.0 *)
Definition vote_init : vstate := (0%Z, 0%Z, (-1)%Q).

(** if score > maxscore {take all} else if score == maxscore && shift < maxshift {take shift and count} *)
Definition vote_step (st : vstate) (e : ventry) : vstate :=
  let '(ms, mc, msc) := st in
  match (v_score e ?= msc)%Q with
  | Gt => (v_shift e, v_count e, v_score e)
  | Eq => if (v_shift e <? ms)%Z then (v_shift e, v_count e, msc) else st
  | Lt => st
  end.

Definition vote_select (l : list ventry) : vstate := fold_left vote_step l vote_init.

(** the overlap a diagonal stands for in the relative score: lindex - shift, len(seq) + shift, min(lindex, len(seq)) *)
Definition rel_over (la lb shift : Z) : Z :=
  if (shift >? 0)%Z then (la - shift)%Z else if (shift <? 0)%Z then (lb + shift)%Z else Z.min la lb.

(** score = float64(count) [/ float64(over - 3)].  A diagonal that holds a vote has over - 3 >= 1 (lemma vote_over). *)
Definition vscore (rel : bool) (la lb shift count : Z) : Q :=
  if rel then Qmake count (Z.to_pos (rel_over la lb shift - 3)) else inject_Z count.

Definition entries (rel : bool) (la lb : Z) (m : vmap) : list ventry :=
  map (fun p => mkv (fst p) (snd p) (vscore rel la lb (fst p) (snd p))) m.

(** Index4mer(seqA) + FastShiftFourMer(index, shifts, len(seqA), seqB, relscore): (shift, count, score) *)
Definition fast_shift (a b : list Z) (rel : bool) : vstate :=
  vote_select (entries rel (Z.of_nat (length a)) (Z.of_nat (length b)) (count_votes (encode4mer a) (encode4mer b))).

(** ---- specification side (used by the theorems) *)
(** the 4-mer code of the window starting at each position *)
Definition wcode (x0 x1 x2 x3 : Z) : Z := (64 * bcode x0 + 16 * bcode x1 + 4 * bcode x2 + bcode x3)%Z.
Fixpoint kmers (s : list Z) : list Z :=
  match s with
  | x0 :: ((x1 :: x2 :: x3 :: _) as r) => wcode x0 x1 x2 x3 :: kmers r
  | _ => []
  end.

(** the 4-mer [code] at position [pos] of B faces the same 4-mer of A on diagonal [d] (A position pos + d) *)
Definition match_at (ka : list Z) (d : Z) (pos : nat) (code : Z) : bool :=
  let i := (Z.of_nat pos + d)%Z in
  (0 <=? i)%Z && (i <? Z.of_nat (length ka))%Z && (nth (Z.to_nat i) ka (-1)%Z =? code)%Z.

(** number of positions of B (from [pos] on) whose 4-mer is found in A on diagonal [d] *)
Fixpoint diag_count_from (ka kb : list Z) (pos : nat) (d : Z) : Z :=
  match kb with
  | [] => 0%Z
  | code :: r => ((if match_at ka d pos code then 1 else 0) + diag_count_from ka r (S pos) d)%Z
  end.
Definition diag_count (ka kb : list Z) (d : Z) : Z := diag_count_from ka kb 0 d.
