(** C08 — the selection loop of obikmer.FastShiftFourMer: the map shift -> count is visited in SOME order
    (Go map iteration order is unspecified); each entry carries its score (count, or count / (overlap - 3) in
    relative mode, an exact rational here: IEEE division is correctly rounded, equal rationals give equal floats).
    Definitions only. *)
From Coq Require Import ZArith QArith List.
Import ListNotations.

Record ventry := mkv { v_shift : Z; v_count : Z; v_score : Q }.
Definition vstate := (Z * Z * Q)%type.

(** maxshift := 0; maxcount := 0; maxscore := -1.0 *)
Definition vote_init : vstate := (0%Z, 0%Z, (-1)%Q).

(** if score > maxscore {take all} else if score == maxscore && shift < maxshift {take shift and count} *)
Definition vote_step (st : vstate) (e : ventry) : vstate :=
  let '(ms, mc, msc) := st in
  match v_score e ?= msc with
  | Gt => (v_shift e, v_count e, v_score e)
  | Eq => if (v_shift e <? ms)%Z then (v_shift e, v_count e, msc) else st
  | Lt => st
  end.

Definition vote_select (l : list ventry) : vstate := fold_left vote_step l vote_init.
