(** C08 — the integer structure of the column score: IUPAC match ratio and the three cases of _PairingScorePeAlign.
    Every lemma over the tables is re-proved on each run over the regenerated Gen/Tables.v. *)
From Coq Require Import ZArith QArith List Bool Lia Lqa.
From OBI.C08.Gen Require Import Tables.
From OBI.C08 Require Import ScoreModel.
Import ListNotations.
Open Scope Z_scope.

(** the 4-bit codes a symbol can have: the table entries, or 0 *)
Definition codes : list Z := 0 :: fourbits_code.

Lemma sym_code_in x : In (sym_code x) codes.
Proof.
  unfold sym_code, codes. destruct (nth_in_or_default (Z.to_nat (Z.land x 31)) fourbits_code 0) as [H|H].
  - right. exact H.
  - left. now symmetry.
Qed.

Lemma forall_codes2 (P : Z -> Z -> bool) :
  forallb (fun ca => forallb (P ca) codes) codes = true -> forall x y, P (sym_code x) (sym_code y) = true.
Proof.
  intros H x y. rewrite forallb_forall in H. specialize (H _ (sym_code_in x)).
  rewrite forallb_forall in H. exact (H _ (sym_code_in y)).
Qed.

(** symmetric (for any two codes, whatever the tables) *)
Lemma match_ratio_sym ca cb : match_ratio ca cb = match_ratio cb ca.
Proof.
  unfold match_ratio. rewrite (Z.land_comm cb ca), (Z.mul_comm (set_size cb) (set_size ca)).
  destruct (set_size (Z.land ca cb) =? 0), (set_size ca =? 0), (set_size cb =? 0); reflexivity.
Qed.

Lemma part_match_sym x y : part_match x y = part_match y x.
Proof. apply match_ratio_sym. Qed.

(** between 0 and 1 *)
Lemma ratio_range_all :
  forallb (fun ca => forallb (fun cb => Qle_bool 0 (match_ratio ca cb) && Qle_bool (match_ratio ca cb) 1) codes) codes = true.
Proof. vm_compute. reflexivity. Qed.

Lemma part_match_range x y : (0 <= part_match x y <= 1)%Q.
Proof.
  pose proof (forall_codes2 _ ratio_range_all x y) as H. apply andb_true_iff in H.
  destruct H as [H1 H2]. apply Qle_bool_iff in H1. apply Qle_bool_iff in H2. split; assumption.
Qed.

(** 1 exactly for a symbol that stands for a single base, against itself *)
Lemma ratio_one_all :
  forallb (fun ca => forallb (fun cb => if (set_size ca =? 1) && (ca =? cb) then Qeq_bool (match_ratio ca cb) 1 else true) codes) codes = true.
Proof. vm_compute. reflexivity. Qed.

Lemma part_match_one x y : set_size (sym_code x) = 1 -> sym_code x = sym_code y -> (part_match x y == 1)%Q.
Proof.
  intros H1 H2. pose proof (forall_codes2 _ ratio_one_all x y) as H. cbv beta in H.
  rewrite H1, <- H2, !Z.eqb_refl in H. cbn [andb] in H. apply Qeq_bool_iff in H. unfold part_match. rewrite <- H2. exact H.
Qed.

(** ... and 1 only then; 0 exactly when the two sets are disjoint (or one symbol is not a nucleotide) *)
Lemma ratio_cases_all :
  forallb (fun ca => forallb (fun cb =>
     Bool.eqb (Qeq_bool (match_ratio ca cb) 0) ((Z.land ca cb =? 0) || (set_size ca =? 0) || (set_size cb =? 0)) &&
     Bool.eqb (Qeq_bool (match_ratio ca cb) 1) ((set_size ca =? 1) && (ca =? cb))) codes) codes = true.
Proof. vm_compute. reflexivity. Qed.

Lemma part_match_zero_iff x y :
  (part_match x y == 0)%Q <-> (Z.land (sym_code x) (sym_code y) = 0 \/ set_size (sym_code x) = 0 \/ set_size (sym_code y) = 0).
Proof.
  pose proof (forall_codes2 _ ratio_cases_all x y) as H. cbv beta in H. apply andb_true_iff in H. destruct H as [H _].
  apply eqb_prop in H. unfold part_match. rewrite <- Qeq_bool_iff, H, !orb_true_iff, !Z.eqb_eq. tauto.
Qed.

Lemma part_match_one_iff x y :
  (part_match x y == 1)%Q <-> (set_size (sym_code x) = 1 /\ sym_code x = sym_code y).
Proof.
  pose proof (forall_codes2 _ ratio_cases_all x y) as H. cbv beta in H. apply andb_true_iff in H. destruct H as [_ H].
  apply eqb_prop in H. unfold part_match. rewrite <- Qeq_bool_iff, H, andb_true_iff, !Z.eqb_eq. tauto.
Qed.

(** the ratios of the four bases (either case) and of u: 1 on the diagonal, 0 elsewhere *)
Lemma acgt_ratios :
  forallb (fun x => forallb (fun y => Qeq_bool (part_match x y) (if nth (Z.to_nat (Z.land x 31)) fourbits_code 0 =? nth (Z.to_nat (Z.land y 31)) fourbits_code 0 then 1 else 0))
                            [97; 99; 103; 116; 117; 65; 67; 71; 84; 85]) [97; 99; 103; 116; 117; 65; 67; 71; 84; 85] = true.
Proof. vm_compute. reflexivity. Qed.

(** the table of int(partMatch * 100) computed by the real code (floats) is the truncation of 100 |X n Y| / (|X| |Y|) *)
Definition pct_of_model (i j : nat) : Z := qtrunc (match_ratio (nth i fourbits_code 0) (nth j fourbits_code 0) * 100).
Lemma pct_table_all :
  forallb (fun i => forallb (fun j => pct_of_model i j =? nth j (nth i part_match_pct []) (-1)) (seq 0 32)) (seq 0 32) = true.
Proof. vm_compute. reflexivity. Qed.

Lemma pct_table i j : (i < 32)%nat -> (j < 32)%nat -> pct_of_model i j = nth j (nth i part_match_pct []) (-1).
Proof.
  intros Hi Hj. pose proof pct_table_all as H. rewrite forallb_forall in H.
  specialize (H i ltac:(apply in_seq; lia)). rewrite forallb_forall in H.
  specialize (H j ltac:(apply in_seq; lia)). now apply Z.eqb_eq.
Qed.

(** ---------------------------------------------------------------- truncation and the mixture *)
Lemma qtrunc_mono p q : (p <= q)%Q -> qtrunc p <= qtrunc q.
Proof.
  destruct p as [a b], q as [c d]. unfold Qle, qtrunc. cbn [Qnum Qden]. intro H.
  rewrite <- (Z.quot_mul_cancel_r a (Zpos b) (Zpos d)) by lia.
  rewrite <- (Z.quot_mul_cancel_r c (Zpos d) (Zpos b)) by lia.
  rewrite (Z.mul_comm (Zpos d) (Zpos b)). apply Z.quot_le_mono; lia.
Qed.

Lemma qtrunc_half n : 0 <= n -> qtrunc (inject_Z n + (1 # 2)) = n.
Proof.
  intro H. unfold qtrunc, inject_Z, Qplus. cbn [Qnum Qden].
  replace (n * 2 + 1 * 1) with (1 + n * 2) by lia. change (Z.pos (1 * 2)) with 2.
  rewrite Z.quot_add by lia. cbn. lia.
Qed.

Lemma mix_bounds mt mm scale pm : (0 <= pm <= 1)%Q -> (inject_Z mm * scale <= inject_Z mt)%Q ->
  (inject_Z mm * scale + (1 # 2) <= mix mt mm scale pm <= inject_Z mt + (1 # 2))%Q.
Proof.
  intros [P0 P1] H. unfold mix.
  set (M := inject_Z mt) in *. set (S := (inject_Z mm * scale)%Q) in *.
  assert (E : (pm * M + (1 - pm) * inject_Z mm * scale + (1 # 2) == S + pm * (M - S) + (1 # 2))%Q) by (unfold S; ring).
  rewrite E.
  assert (0 <= pm * (M - S))%Q by (apply Qmult_le_0_compat; lra).
  assert (pm * (M - S) <= 1 * (M - S))%Q by (apply Qmult_le_compat_r; lra).
  split; lra.
Qed.

Lemma mix_monotone mt mm scale p1 p2 : (p1 <= p2)%Q -> (inject_Z mm * scale <= inject_Z mt)%Q ->
  (mix mt mm scale p1 <= mix mt mm scale p2)%Q.
Proof.
  intros P H. unfold mix.
  set (M := inject_Z mt) in *. set (S := (inject_Z mm * scale)%Q) in *.
  assert (E : forall pm, (pm * M + (1 - pm) * inject_Z mm * scale + (1 # 2) == S + pm * (M - S) + (1 # 2))%Q) by (intro; unfold S; ring).
  rewrite !E.
  assert (p1 * (M - S) <= p2 * (M - S))%Q by (apply Qmult_le_compat_r; lra).
  lra.
Qed.

(** the score lies between the (scaled, rounded) mismatch entry and the match entry, whatever the ratio *)
Lemma score_between mt mm scale pm : 0 <= mt -> (0 <= pm <= 1)%Q -> (inject_Z mm * scale <= inject_Z mt)%Q ->
  qtrunc (inject_Z mm * scale + (1 # 2)) <= pairing_score mt mm scale pm <= mt.
Proof.
  intros Hm HP H.
  assert (L : qtrunc (inject_Z mm * scale + (1 # 2)) <= mt).
  { rewrite <- (qtrunc_half mt Hm). apply qtrunc_mono. lra. }
  unfold pairing_score. cbv zeta.
  destruct (qtrunc (pm * 100) =? 100); [lia|].
  destruct (qtrunc (pm * 100) =? 0); [lia|].
  destruct (mix_bounds mt mm scale pm HP H) as [B1 B2]. fold (mix mt mm scale pm).
  split; [now apply qtrunc_mono|].
  apply Z.le_trans with (qtrunc (inject_Z mt + (1 # 2))); [now apply qtrunc_mono | rewrite qtrunc_half by lia; lia].
Qed.

(** ... and grows with the ratio *)
Lemma score_monotone mt mm scale p1 p2 : (p1 <= p2)%Q -> (inject_Z mm * scale <= inject_Z mt)%Q ->
  qtrunc (mix mt mm scale p1) <= qtrunc (mix mt mm scale p2).
Proof. intros P H. apply qtrunc_mono. now apply mix_monotone. Qed.

(** the three cases, by the ratio itself *)
Lemma score_cases mt mm scale x y :
  ((part_match x y == 1)%Q -> pairing_score mt mm scale (part_match x y) = mt) /\
  ((part_match x y == 0)%Q -> pairing_score mt mm scale (part_match x y) = qtrunc (inject_Z mm * scale + (1 # 2))).
Proof.
  split; intro H; unfold pairing_score; cbv zeta.
  - assert (E : qtrunc (part_match x y * 100) = 100).
    { assert (L1 : qtrunc (1 * 100) <= qtrunc (part_match x y * 100)) by (apply qtrunc_mono; rewrite H; lra).
      assert (L2 : qtrunc (part_match x y * 100) <= qtrunc (1 * 100)) by (apply qtrunc_mono; rewrite H; lra).
      change (qtrunc (1 * 100)) with 100 in *. lia. }
    rewrite E. reflexivity.
  - assert (E : qtrunc (part_match x y * 100) = 0).
    { assert (L1 : qtrunc (0 * 100) <= qtrunc (part_match x y * 100)) by (apply qtrunc_mono; rewrite H; lra).
      assert (L2 : qtrunc (part_match x y * 100) <= qtrunc (0 * 100)) by (apply qtrunc_mono; rewrite H; lra).
      change (qtrunc (0 * 100)) with 0 in *. lia. }
    rewrite E. reflexivity.
Qed.

(** ---------------------------------------------------------------- the two score tables (DATA, regenerated) *)
Definition quals94 : list Z := map Z.of_nat (seq 0 94).
Definition tabz (t : list (list Z)) (i j : Z) : Z := nth (Z.to_nat j) (nth (Z.to_nat i) t []) 0.

(** both tables are symmetric; as soon as both qualities are >= 2 the mismatch entry is <= 0 <= the match entry
    (with a quality 0 or 1 — a base that is wrong with probability >= 0.79 — an observed match is no evidence: the
    order of the two entries may be reversed) *)
Definition score_tables_ok : bool :=
  forallb (fun i => forallb (fun j =>
    (tabz nuc_match i j =? tabz nuc_match j i) && (tabz nuc_mismatch i j =? tabz nuc_mismatch j i) &&
    (if (2 <=? i) && (2 <=? j) then (tabz nuc_mismatch i j <=? 0) && (0 <=? tabz nuc_match i j) else true)) quals94) quals94 &&
  (length nuc_match =? 94)%nat && (length nuc_mismatch =? 94)%nat &&
  forallb (fun r => (length r =? 94)%nat) nuc_match && forallb (fun r => (length r =? 94)%nat) nuc_mismatch.

Lemma score_tables : score_tables_ok = true.
Proof. vm_compute. reflexivity. Qed.

Lemma score_tables_ordered qa qb : 2 <= qa <= 93 -> 2 <= qb <= 93 ->
  tabz nuc_mismatch qa qb <= 0 <= tabz nuc_match qa qb.
Proof.
  intros Ha Hb. pose proof score_tables as H. unfold score_tables_ok in H.
  do 4 (apply andb_true_iff in H; destruct H as [H _]).
  rewrite forallb_forall in H.
  assert (Ia : In qa quals94) by (unfold quals94; apply in_map_iff; exists (Z.to_nat qa); split; [lia | apply in_seq; lia]).
  assert (Ib : In qb quals94) by (unfold quals94; apply in_map_iff; exists (Z.to_nat qb); split; [lia | apply in_seq; lia]).
  specialize (H _ Ia). rewrite forallb_forall in H. specialize (H _ Ib).
  apply andb_true_iff in H. destruct H as [_ H].
  destruct (Z.leb_spec 2 qa); [|lia]. destruct (Z.leb_spec 2 qb); [|lia]. cbn [andb] in H.
  apply andb_true_iff in H. destruct H as [G1 G2]. apply Z.leb_le in G1. apply Z.leb_le in G2. lia.
Qed.

(** hence, for the real tables, qualities 2..93 and any scale >= 0, the score of a column lies between the rounded
    scaled mismatch entry and the match entry *)
Lemma score_between_real qa qb scale x y : 2 <= qa <= 93 -> 2 <= qb <= 93 -> (0 <= scale)%Q ->
  qtrunc (inject_Z (tabz nuc_mismatch qa qb) * scale + (1 # 2)) <=
  pairing_score (tabz nuc_match qa qb) (tabz nuc_mismatch qa qb) scale (part_match x y) <= tabz nuc_match qa qb.
Proof.
  intros Ha Hb Hs. destruct (score_tables_ordered qa qb Ha Hb) as [H1 H2].
  apply score_between; [exact H2 | apply part_match_range |].
  assert (inject_Z (tabz nuc_mismatch qa qb) <= 0)%Q by (unfold Qle, inject_Z; cbn [Qnum Qden]; lia).
  assert (0 <= inject_Z (tabz nuc_match qa qb))%Q by (unfold Qle, inject_Z; cbn [Qnum Qden]; lia).
  assert (inject_Z (tabz nuc_mismatch qa qb) * scale <= 0)%Q.
  { setoid_replace 0%Q with (0 * scale)%Q by ring. apply Qmult_le_compat_r; assumption. }
  lra.
Qed.
