(** C08 — the facts of Proofs.v about [fill] (matrix cells, backtracking invariant, optimality) for the scheme-parametrised fill of
    SchemeModel.v: they hold for EVERY choice of free end gaps, in particular for the centre scheme of PECenterAlign. *)
From Coq Require Import ZArith List Bool Lia.
From OBI.C08 Require Import Model Proofs.
From OBI.C08 Require Import SchemeModel.
Import ListNotations.
Open Scope Z_scope.

Lemma gmscore_app sc gap la lb s : forall w1 ca cb w2,
  gmscore sc gap la lb s ca cb (w1 ++ w2) =
  gmscore sc gap la lb s ca cb w1 +
  gmscore sc gap la lb s (ca + fst (mconsumed w1)) (cb + snd (mconsumed w1)) w2.
Proof.
  induction w1 as [|m w1 IH]; intros ca cb w2.
  - cbn [app gmscore mconsumed fst snd]. rewrite !Nat.add_0_r. lia.
  - cbn [app gmscore mconsumed]. destruct (mconsumed w1) as [a b] eqn:E.
    destruct m; rewrite IH; rewrite ?E; cbn [fst snd];
      repeat match goal with |- context [(S ?x + ?y)%nat] => replace (S x + y)%nat with (x + S y)%nat by lia end; lia.
Qed.

(** ---------------------------------------------------------------- the matrix built by [gfill] *)
Section FillFacts.
  Variable sc : nat -> nat -> Z.
  Variable gap : Z.
  Variables la lb : nat.
  Variable s : scheme.
  Let d0 : cell := (0, 0).

  Lemma gcol0_from_length n i : length (gcol0_from gap s i n) = n.
  Proof. revert i; induction n as [|n IH]; intro i; cbn [gcol0_from length]; [reflexivity | now rewrite IH]. Qed.

  Lemma gcol0_from_nth n : forall i k, (k < n)%nat ->
    nth k (gcol0_from gap s i n) d0 =
      ((if a_lead s then 0 else Z.of_nat (i + k) * gap), (if (i + k =? 0)%nat then 0 else -1)).
  Proof.
    induction n as [|n IH]; intros i k Hk; [lia|].
    cbn [gcol0_from]. destruct k as [|k].
    - cbn [nth]. now rewrite Nat.add_0_r.
    - cbn [nth]. rewrite IH by lia. now replace (S i + k)%nat with (i + S k)%nat by lia.
  Qed.

  Lemma gcol_go_cons j p0 p1 tl above i :
    gcol_go sc gap la lb s j (p0 :: p1 :: tl) above i =
      choose (fst p0 + sc (i - 1)%nat (j - 1)%nat) (fst p1 + ggl gap la s i) (fst above + ggt gap lb s j)
      :: gcol_go sc gap la lb s j (p1 :: tl)
           (choose (fst p0 + sc (i - 1)%nat (j - 1)%nat) (fst p1 + ggl gap la s i) (fst above + ggt gap lb s j)) (S i).
  Proof. reflexivity. Qed.

  Lemma gcol_go_length j : forall prev above i, length (gcol_go sc gap la lb s j prev above i) = pred (length prev).
  Proof.
    induction prev as [|p0 tl IH]; intros above i; [reflexivity|].
    destruct tl as [|p1 tl']; [reflexivity|].
    rewrite gcol_go_cons. cbn [length]. rewrite IH. reflexivity.
  Qed.

  Lemma gcol_go_nth j : forall prev above i0 k, (S k < length prev)%nat ->
    nth (S k) (above :: gcol_go sc gap la lb s j prev above i0) d0 =
      choose (fst (nth k prev d0) + sc (i0 + k - 1)%nat (j - 1)%nat)
             (fst (nth (S k) prev d0) + ggl gap la s (i0 + k)%nat)
             (fst (nth k (above :: gcol_go sc gap la lb s j prev above i0) d0) + ggt gap lb s j).
  Proof.
    induction prev as [|p0 tl IH]; intros above i0 k Hk; [cbn in Hk; lia|].
    destruct tl as [|p1 tl']; [cbn in Hk; lia|].
    rewrite gcol_go_cons.
    destruct k as [|k].
    - cbn [nth]. now rewrite Nat.add_0_r.
    - change (nth (S (S k)) (above :: ?c :: ?r) d0) with (nth (S k) (c :: r) d0).
      change (nth (S k) (above :: ?c :: ?r) d0) with (nth k (c :: r) d0).
      change (nth (S k) (p0 :: p1 :: tl') d0) with (nth k (p1 :: tl') d0).
      change (nth (S (S k)) (p0 :: p1 :: tl') d0) with (nth (S k) (p1 :: tl') d0).
      rewrite IH by (cbn [length] in *; lia).
      now replace (S i0 + k)%nat with (i0 + S k)%nat by lia.
  Qed.

  Lemma gnext_col_length prev j : prev <> [] -> length (gnext_col sc gap la lb s prev j) = length prev.
  Proof.
    intro H. unfold gnext_col. cbn [length]. rewrite gcol_go_length. destruct prev; [congruence | reflexivity].
  Qed.

  Lemma gnext_col_0 prev j : nth 0 (gnext_col sc gap la lb s prev j) d0 = ((if b_lead s then 0 else Z.of_nat j * gap), 1).
  Proof. reflexivity. Qed.

  Lemma gnext_col_S prev j k : (S k < length prev)%nat ->
    nth (S k) (gnext_col sc gap la lb s prev j) d0 =
      choose (fst (nth k prev d0) + sc k (j - 1)%nat)
             (fst (nth (S k) prev d0) + ggl gap la s (S k))
             (fst (nth k (gnext_col sc gap la lb s prev j) d0) + ggt gap lb s j).
  Proof.
    intro H. unfold gnext_col. rewrite gcol_go_nth by exact H.
    now replace (1 + k - 1)%nat with k by lia.
  Qed.

  Lemma gbuild_nth : forall n prev j0 k, (k < n)%nat ->
    nth k (gbuild sc gap la lb s prev j0 n) [] =
      gnext_col sc gap la lb s (match k with O => prev | S k' => nth k' (gbuild sc gap la lb s prev j0 n) [] end) (j0 + k)%nat.
  Proof.
    induction n as [|n IH]; intros prev j0 k Hk; [lia|].
    cbn [gbuild]. destruct k as [|k].
    - cbn [nth]. now rewrite Nat.add_0_r.
    - cbn [nth]. rewrite IH by lia.
      replace (S j0 + k)%nat with (j0 + S k)%nat by lia.
      destruct k; reflexivity.
  Qed.

  Let M := gfill sc gap la lb s.

  Lemma gfill_col_0 : nth 0 M [] = gcol0 gap la s.
  Proof. reflexivity. Qed.

  Lemma gfill_col_S j : (j < lb)%nat -> nth (S j) M [] = gnext_col sc gap la lb s (nth j M []) (S j).
  Proof.
    intro H. unfold M, gfill. cbn [nth]. rewrite gbuild_nth by exact H.
    destruct j; reflexivity.
  Qed.

  Lemma gfill_col_length j : (j <= lb)%nat -> length (nth j M []) = S la.
  Proof.
    induction j as [|j IH]; intro H.
    - rewrite gfill_col_0. unfold gcol0. apply gcol0_from_length.
    - rewrite gfill_col_S by lia. rewrite gnext_col_length; [apply IH; lia|].
      intro E. specialize (IH ltac:(lia)). rewrite E in IH. discriminate.
  Qed.

  Definition gSm (i j : nat) : Z := fst (getc M i j).
  Definition gPm (i j : nat) : Z := snd (getc M i j).

  Lemma gG_col0 i : (i <= la)%nat ->
    getc M i 0 = ((if a_lead s then 0 else Z.of_nat i * gap), (if (i =? 0)%nat then 0 else -1)).
  Proof.
    intro H. unfold getc. rewrite gfill_col_0. unfold gcol0.
    change (0, 0) with d0. rewrite gcol0_from_nth by lia. reflexivity.
  Qed.

  Lemma gG_row0 j : (1 <= j <= lb)%nat -> getc M 0 j = ((if b_lead s then 0 else Z.of_nat j * gap), 1).
  Proof.
    intro H. unfold getc. destruct j as [|j]; [lia|].
    rewrite gfill_col_S by lia. reflexivity.
  Qed.

  Lemma gG_inner i j : (1 <= i <= la)%nat -> (1 <= j <= lb)%nat ->
    getc M i j = choose (gSm (i - 1) (j - 1) + sc (i - 1)%nat (j - 1)%nat)
                        (gSm i (j - 1) + ggl gap la s i)
                        (gSm (i - 1) j + ggt gap lb s j).
  Proof.
    intros Hi Hj. unfold gSm, getc.
    destruct j as [|j]; [lia|]. destruct i as [|i]; [lia|].
    replace (S j - 1)%nat with j by lia. replace (S i - 1)%nat with i by lia.
    rewrite gfill_col_S by lia.
    change (0, 0) with d0.
    rewrite gnext_col_S by (rewrite gfill_col_length by lia; lia).
    replace (S j - 1)%nat with j by lia. reflexivity.
  Qed.

  (** what one backward step of the direction matrix means for the scores *)
  Definition gstep_ok (i j : nat) : Prop :=
    (gPm i j = 0 /\ (1 <= i)%nat /\ (1 <= j)%nat /\ gSm i j = gSm (i - 1) (j - 1) + sc (i - 1)%nat (j - 1)%nat) \/
    (gPm i j = 1 /\ (1 <= j)%nat /\ gSm i j = gSm i (j - 1) + gicost gap la s i) \/
    (gPm i j = -1 /\ (1 <= i)%nat /\ gSm i j = gSm (i - 1) j + gucost gap lb s j).

  Hypothesis Hla : (1 <= la)%nat.
  Hypothesis Hlb : (1 <= lb)%nat.

  Lemma ggl_icost i : (1 <= i)%nat -> ggl gap la s i = gicost gap la s i.
  Proof.
    intro H. unfold ggl, gicost.
    destruct (i =? 0)%nat eqn:E; [apply Nat.eqb_eq in E; lia|].
    rewrite andb_false_r. reflexivity.
  Qed.

  Lemma ggt_ucost j : (1 <= j)%nat -> ggt gap lb s j = gucost gap lb s j.
  Proof.
    intro H. unfold ggt, gucost.
    destruct (j =? 0)%nat eqn:E; [apply Nat.eqb_eq in E; lia|].
    rewrite andb_false_r. reflexivity.
  Qed.

  Lemma gS_origin : gSm 0 0 = 0.
  Proof. unfold gSm. rewrite gG_col0 by lia. destruct (a_lead s); reflexivity. Qed.

  Lemma gfill_step_ok i j : (i <= la)%nat -> (j <= lb)%nat -> (i + j <> 0)%nat -> gstep_ok i j.
  Proof.
    intros Hi Hj Hne. unfold gstep_ok, gPm, gSm.
    destruct j as [|j].
    - (* first column *)
      right; right. rewrite (gG_col0 i Hi).
      destruct i as [|i]; [lia|]. rewrite (gG_col0 (S i - 1)) by lia.
      cbn [fst snd Nat.eqb]. split; [reflexivity|]. split; [lia|].
      unfold gucost.
      destruct (0 =? lb)%nat eqn:E; [apply Nat.eqb_eq in E; lia|].
      rewrite andb_false_r, orb_false_r. cbn [Nat.eqb]. rewrite andb_true_r.
      destruct (a_lead s).
      + reflexivity.
      + replace (S i - 1)%nat with i by lia. apply of_nat_S_mul.
    - destruct i as [|i].
      + (* first row *)
        right; left. rewrite (gG_row0 (S j)) by lia. cbn [fst snd].
        split; [reflexivity|]. split; [lia|].
        replace (S j - 1)%nat with j by lia.
        unfold gicost.
        destruct (0 =? la)%nat eqn:E; [apply Nat.eqb_eq in E; lia|].
        rewrite andb_false_r, orb_false_r. cbn [Nat.eqb]. rewrite andb_true_r.
        destruct j as [|j].
        * rewrite (gG_col0 0) by lia. cbn [fst].
          change (Z.of_nat 1) with 1; change (Z.of_nat 0) with 0. destruct (b_lead s), (a_lead s); lia.
        * rewrite (gG_row0 (S j)) by lia. cbn [fst].
          destruct (b_lead s); [reflexivity|]. apply of_nat_S_mul.
      + rewrite (gG_inner (S i) (S j)) by lia.
        rewrite ggl_icost, ggt_ucost by lia.
        destruct (choose_cases (gSm (S i - 1) (S j - 1) + sc (S i - 1)%nat (S j - 1)%nat)
                               (gSm (S i) (S j - 1) + gicost gap la s (S i))
                               (gSm (S i - 1) (S j) + gucost gap lb s (S j))) as [[E _]|[[E _]|[E _]]];
          rewrite E; cbn [fst snd]; unfold gSm.
        * left. repeat split; lia.
        * right; left. repeat split; lia.
        * right; right. repeat split; lia.
  Qed.

  (** the score of a cell dominates every way of entering it *)
  Lemma gfill_dom_diag i j : (1 <= i <= la)%nat -> (1 <= j <= lb)%nat ->
    gSm i j >= gSm (i - 1) (j - 1) + sc (i - 1)%nat (j - 1)%nat.
  Proof.
    intros Hi Hj. unfold gSm at 1. rewrite gG_inner by lia.
    destruct (choose_cases (gSm (i - 1) (j - 1) + sc (i - 1)%nat (j - 1)%nat)
                           (gSm i (j - 1) + ggl gap la s i) (gSm (i - 1) j + ggt gap lb s j)) as [[E ?]|[[E ?]|[E ?]]];
      rewrite E; cbn [fst]; lia.
  Qed.
  Lemma gfill_dom_left i j : (i <= la)%nat -> (1 <= j <= lb)%nat ->
    gSm i j >= gSm i (j - 1) + gicost gap la s i.
  Proof.
    intros Hi Hj. destruct i as [|i].
    - destruct (gfill_step_ok 0 j) as [[E _]|[[_ [_ E]]|[_ [E _]]]]; try lia.
      unfold gPm in E. rewrite gG_row0 in E by lia. discriminate.
    - unfold gSm at 1. rewrite gG_inner by lia. rewrite ggl_icost by lia.
      destruct (choose_cases (gSm (S i - 1) (j - 1) + sc (S i - 1)%nat (j - 1)%nat)
                             (gSm (S i) (j - 1) + gicost gap la s (S i)) (gSm (S i - 1) j + ggt gap lb s j)) as [[E ?]|[[E ?]|[E ?]]];
        rewrite E; cbn [fst]; lia.
  Qed.
  Lemma gfill_dom_top i j : (1 <= i <= la)%nat -> (j <= lb)%nat ->
    gSm i j >= gSm (i - 1) j + gucost gap lb s j.
  Proof.
    intros Hi Hj. destruct j as [|j].
    - destruct (gfill_step_ok i 0) as [[E _]|[[_ [E _]]|[_ [_ E]]]]; try lia.
      unfold gPm in E. rewrite gG_col0 in E by lia.
      destruct (i =? 0)%nat eqn:E0; [apply Nat.eqb_eq in E0; lia | discriminate].
    - unfold gSm at 1. rewrite gG_inner by lia. rewrite ggt_ucost by lia.
      destruct (choose_cases (gSm (i - 1) (S j - 1) + sc (i - 1)%nat (S j - 1)%nat)
                             (gSm i (S j - 1) + ggl gap la s i) (gSm (i - 1) (S j) + gucost gap lb s (S j))) as [[E ?]|[[E ?]|[E ?]]];
        rewrite E; cbn [fst]; lia.
  Qed.

  (** ------------------------------------------------------------ backtracking over the filled matrix *)
  Lemma gbt_inv : forall fuel i j ldiag lup lleft acc,
    (i <= la)%nat -> (j <= lb)%nat -> (i + j < fuel)%nat ->
    0 <= ldiag -> lup <= 0 -> 0 <= lleft -> (lup = 0 \/ lleft = 0) ->
    exists p W, bt fuel M i j ldiag lup lleft acc = Some p /\
                expand p = W ++ pending ldiag lup lleft acc /\
                mconsumed W = (i, j) /\
                gmscore sc gap la lb s 0 0 W = gSm i j.
  Proof.
    induction fuel as [|f IH]; intros i j ldiag lup lleft acc Hi Hj Hf Hd Hu Hl Hx; [lia|].
    rewrite bt_S.
    destruct (Nat.eqb_spec i 0) as [Ei|Ei]; destruct (Nat.eqb_spec j 0) as [Ej|Ej]; cbn [andb orb].
    { subst. exists (finish ldiag lup lleft acc), []. repeat split.
      - now rewrite expand_finish.
      - now rewrite gS_origin. }
    all: cbn zeta; change (snd (getc M i j)) with (gPm i j);
      destruct (gfill_step_ok i j Hi Hj ltac:(lia)) as [[EP [Hi1 [Hj1 ES]]]|[[EP [Hj1 ES]]|[EP [Hi1 ES]]]];
      rewrite EP; cbn [Z.eqb Z.gtb Z.compare Z.opp Z.to_nat Pos.to_nat Pos.iter_op Nat.add];
      try lia.
    all: change (Pos.to_nat 1) with 1%nat.
    all: try (destruct (Nat.ltb_spec j 1) as [?|_]; [lia|]).
    all: try (destruct (Nat.ltb_spec i 1) as [?|_]; [lia|]).
    all: destruct (Z.eqb_spec lleft 0) as [El|El]; destruct (Z.eqb_spec lup 0) as [Eu|Eu]; try (exfalso; lia); subst.
    all: match goal with
         | |- exists p W, bt _ _ ?i' ?j' ?d' ?u' ?l' ?a' = Some p /\ _ =>
             destruct (IH i' j' d' u' l' a') as [p [W [Hb [He [Hc Hs]]]]]; try lia; exists p
         end.
    (* diag from (i-1,j-1) *)
    all: try (exists (W ++ [MD]); split; [exact Hb|]; split;
              [ rewrite He, <- app_assoc; f_equal; rewrite pend_D by lia;
                rewrite ?pend_push_L, ?pend_push_U by lia; reflexivity
              | split; [ rewrite mconsumed_app, Hc; cbn [mconsumed fst snd]; f_equal; lia
                       | rewrite gmscore_app, Hs, Hc; cbn [fst snd gmscore Nat.add]; rewrite ES; lia ] ]; fail).
    (* left from (i,j-1) *)
    all: try (exists (W ++ [MI]); split; [exact Hb|]; split;
              [ rewrite He, <- app_assoc; f_equal; rewrite pend_I by lia;
                rewrite ?pend_push_L, ?pend_push_U by lia; reflexivity
              | split; [ rewrite mconsumed_app, Hc; cbn [mconsumed fst snd]; f_equal; lia
                       | rewrite gmscore_app, Hs, Hc; cbn [fst snd gmscore Nat.add]; rewrite ES; lia ] ]; fail).
    (* top from (i-1,j) *)
    all: try (exists (W ++ [MU]); split; [exact Hb|]; split;
              [ rewrite He, <- app_assoc; f_equal; rewrite pend_U by lia;
                rewrite ?pend_push_L, ?pend_push_U by lia; reflexivity
              | split; [ rewrite mconsumed_app, Hc; cbn [mconsumed fst snd]; f_equal; lia
                       | rewrite gmscore_app, Hs, Hc; cbn [fst snd gmscore Nat.add]; rewrite ES; lia ] ]; fail).
  Qed.
End FillFacts.

(** ---------------------------------------------------------------- top level *)
Lemma gbacktrack_fill sc gap la lb s : (1 <= la)%nat -> (1 <= lb)%nat ->
  exists p, backtrack (gfill sc gap la lb s) la lb = Some p /\
            consumed p = (la, lb) /\
            gpath_score sc gap la lb s p = mscore_of (gfill sc gap la lb s) la lb.
Proof.
  intros Ha Hb. unfold backtrack.
  destruct (gbt_inv sc gap la lb s Ha Hb (S (la + lb)) la lb 0 0 0 []) as [p [W [H1 [H2 [H3 H4]]]]]; try lia.
  exists p. rewrite pend_nil, app_nil_r in H2. unfold consumed, gpath_score. rewrite H2.
  repeat split; assumption.
Qed.

Lemma gwalk_le_fill sc gap la lb s : (1 <= la)%nat -> (1 <= lb)%nat ->
  forall W i j, mconsumed W = (i, j) -> (i <= la)%nat -> (j <= lb)%nat ->
  gmscore sc gap la lb s 0 0 W <= gSm sc gap la lb s i j.
Proof.
  intros Ha Hb. induction W as [|x W IHW] using rev_ind; intros i j Hc Hi Hj.
  - cbn in Hc. inversion Hc; subst. cbn [gmscore]. rewrite gS_origin by assumption. lia.
  - rewrite mconsumed_app in Hc. destruct (mconsumed W) as [a b] eqn:E.
    rewrite gmscore_app, E. cbn [fst snd Nat.add].
    destruct x; cbn [mconsumed fst snd gmscore] in *; inversion Hc; subst; clear Hc.
    + specialize (IHW a b eq_refl ltac:(lia) ltac:(lia)).
      pose proof (gfill_dom_diag sc gap la lb s Ha Hb (a + 1)%nat (b + 1)%nat ltac:(lia) ltac:(lia)) as D.
      replace (a + 1 - 1)%nat with a in D by lia. replace (b + 1 - 1)%nat with b in D by lia. lia.
    + rewrite Nat.add_0_r in *.
      specialize (IHW a b eq_refl ltac:(lia) ltac:(lia)).
      pose proof (gfill_dom_top sc gap la lb s Ha Hb (a + 1)%nat b ltac:(lia) ltac:(lia)) as D.
      replace (a + 1 - 1)%nat with a in D by lia. lia.
    + rewrite Nat.add_0_r in *.
      specialize (IHW a b eq_refl ltac:(lia) ltac:(lia)).
      pose proof (gfill_dom_left sc gap la lb s Ha Hb a (b + 1)%nat ltac:(lia) ltac:(lia)) as D.
      replace (b + 1 - 1)%nat with b in D by lia. lia.
Qed.

Lemma gfill_optimal sc gap la lb s : (1 <= la)%nat -> (1 <= lb)%nat ->
  (forall p, consumed p = (la, lb) -> gpath_score sc gap la lb s p <= mscore_of (gfill sc gap la lb s) la lb) /\
  (exists p, consumed p = (la, lb) /\ gpath_score sc gap la lb s p = mscore_of (gfill sc gap la lb s) la lb).
Proof.
  intros Ha Hb. split.
  - intros p Hp. unfold gpath_score, consumed in *.
    apply (gwalk_le_fill sc gap la lb s Ha Hb _ la lb Hp); lia.
  - destruct (gbacktrack_fill sc gap la lb s Ha Hb) as [p [_ [H1 H2]]]. now exists p.
Qed.

(** ---------------------------------------------------------------- the scheme fill generalises the two fills of Model.v *)
Lemma ggl_of_mode gap la mode i : ggl gap la (scheme_of_mode mode) i = gl gap la mode i.
Proof. destruct mode; reflexivity. Qed.
Lemma ggt_of_mode gap lb mode j : ggt gap lb (scheme_of_mode mode) j = gt gap lb mode j.
Proof. destruct mode; reflexivity. Qed.

Lemma gcol0_from_of_mode gap mode : forall n i, gcol0_from gap (scheme_of_mode mode) i n = col0_from gap mode i n.
Proof.
  induction n as [|n IH]; intro i; [reflexivity|].
  cbn [gcol0_from col0_from]. rewrite IH. destruct mode; reflexivity.
Qed.

Lemma gcol_go_of_mode sc gap la lb mode j : forall prev above i,
  gcol_go sc gap la lb (scheme_of_mode mode) j prev above i = col_go sc gap la lb mode j prev above i.
Proof.
  induction prev as [|p0 tl IH]; intros above i; [reflexivity|].
  destruct tl as [|p1 tl']; [reflexivity|].
  rewrite gcol_go_cons, col_go_cons. rewrite ggl_of_mode, ggt_of_mode. f_equal. apply IH.
Qed.

Lemma gnext_col_of_mode sc gap la lb mode prev j :
  gnext_col sc gap la lb (scheme_of_mode mode) prev j = next_col sc gap la lb mode prev j.
Proof.
  unfold gnext_col, next_col. rewrite gcol_go_of_mode. destruct mode; reflexivity.
Qed.

Lemma gbuild_of_mode sc gap la lb mode : forall n prev j,
  gbuild sc gap la lb (scheme_of_mode mode) prev j n = build sc gap la lb mode prev j n.
Proof.
  induction n as [|n IH]; intros prev j; [reflexivity|].
  cbn [gbuild build]. rewrite gnext_col_of_mode, IH. reflexivity.
Qed.

Lemma gfill_of_mode sc gap la lb mode : gfill sc gap la lb (scheme_of_mode mode) = fill sc gap la lb mode.
Proof.
  unfold gfill, fill, gcol0, col0. rewrite gcol0_from_of_mode, gbuild_of_mode. reflexivity.
Qed.

Lemma gucost_of_mode gap lb mode cb : gucost gap lb (scheme_of_mode mode) cb = ucost gap lb mode cb.
Proof. unfold gucost, ucost. destruct mode; cbn [scheme_of_mode s_left s_right a_lead a_trail andb orb]; [now rewrite orb_false_r | reflexivity]. Qed.
Lemma gicost_of_mode gap la mode ca : gicost gap la (scheme_of_mode mode) ca = icost gap la mode ca.
Proof. unfold gicost, icost. destruct mode; cbn [scheme_of_mode s_left s_right b_lead b_trail andb orb]; [reflexivity | now rewrite orb_false_r]. Qed.

Lemma gmscore_of_mode sc gap la lb mode : forall w ca cb,
  gmscore sc gap la lb (scheme_of_mode mode) ca cb w = mscore sc gap la lb mode ca cb w.
Proof.
  induction w as [|m w IH]; intros ca cb; [reflexivity|].
  destruct m; cbn [gmscore mscore]; rewrite IH, ?gucost_of_mode, ?gicost_of_mode; reflexivity.
Qed.

Lemma gpath_score_of_mode sc gap la lb mode p :
  gpath_score sc gap la lb (scheme_of_mode mode) p = path_score sc gap la lb mode p.
Proof. apply gmscore_of_mode. Qed.

(** ---------------------------------------------------------------- PECenterAlign *)
Lemma pecenter_ok sc gap la lb : (1 <= lb)%nat -> (lb <= la)%nat ->
  exists p, pecenter sc gap la lb = Some (mscore_of (gfill sc gap la lb s_center) la lb, Some p) /\
            consumed p = (la, lb) /\
            gpath_score sc gap la lb s_center p = mscore_of (gfill sc gap la lb s_center) la lb /\
            (forall q, consumed q = (la, lb) -> gpath_score sc gap la lb s_center q <= gpath_score sc gap la lb s_center p).
Proof.
  intros Hb Hab.
  destruct (gbacktrack_fill sc gap la lb s_center ltac:(lia) Hb) as [p [H1 [H2 H3]]].
  exists p. unfold pecenter, gfill_bt.
  destruct (Nat.ltb_spec la lb) as [?|_]; [lia|].
  rewrite H1. repeat split; try assumption.
  intros q Hq. rewrite H3. apply (proj1 (gfill_optimal sc gap la lb s_center ltac:(lia) Hb)). exact Hq.
Qed.

Lemma pecenter_short sc gap la lb : (la < lb)%nat -> pecenter sc gap la lb = None.
Proof. intro H. unfold pecenter. destruct (Nat.ltb_spec la lb); [reflexivity | lia]. Qed.

(** ---------------------------------------------------------------- a read lying inside the other one *)
Lemma gmscore_MD_run sc gap la lb s : forall n ca cb w,
  gmscore sc gap la lb s ca cb (repeat MD n ++ w) = diag_sum sc ca cb n + gmscore sc gap la lb s (ca + n) (cb + n) w.
Proof.
  induction n as [|n IH]; intros ca cb w.
  - cbn [repeat app diag_sum]. rewrite !Nat.add_0_r. lia.
  - cbn [repeat app gmscore diag_sum]. rewrite IH.
    replace (S ca + n)%nat with (ca + S n)%nat by lia. replace (S cb + n)%nat with (cb + S n)%nat by lia. lia.
Qed.

Lemma gmscore_MU_free sc gap la lb s cb : gucost gap lb s cb = 0 -> forall n ca w,
  gmscore sc gap la lb s ca cb (repeat MU n ++ w) = gmscore sc gap la lb s (ca + n) cb w.
Proof.
  intros H. induction n as [|n IH]; intros ca w.
  - cbn [repeat app]. now rewrite Nat.add_0_r.
  - cbn [repeat app gmscore]. rewrite H, IH. replace (S ca + n)%nat with (ca + S n)%nat by lia. lia.
Qed.

Lemma center_containment_score sc gap la lb k : (1 <= lb)%nat -> (k + lb <= la)%nat ->
  consumed [- Z.of_nat k; Z.of_nat lb; - Z.of_nat (la - k - lb); 0] = (la, lb) /\
  gpath_score sc gap la lb s_center [- Z.of_nat k; Z.of_nat lb; - Z.of_nat (la - k - lb); 0] = diag_sum sc k 0 lb.
Proof.
  intros Hb Hk.
  assert (E : expand [- Z.of_nat k; Z.of_nat lb; - Z.of_nat (la - k - lb); 0] =
              repeat MU k ++ repeat MD lb ++ repeat MU (la - k - lb) ++ []).
  { rewrite !expand_pair. cbn [expand].
    replace (Z.to_nat (- - Z.of_nat k)) with k by lia.
    replace (Z.to_nat (- Z.of_nat k)) with 0%nat by lia.
    replace (Z.to_nat (Z.of_nat lb)) with lb by lia.
    replace (Z.to_nat (- - Z.of_nat (la - k - lb))) with (la - k - lb)%nat by lia.
    replace (Z.to_nat (- Z.of_nat (la - k - lb))) with 0%nat by lia.
    cbn [repeat app Z.to_nat]. reflexivity. }
  split.
  - unfold consumed. rewrite E. rewrite !mconsumed_app.
    rewrite mconsumed_repeat_MU, mconsumed_repeat_MD, mconsumed_repeat_MU. cbn [mconsumed fst snd]. f_equal; lia.
  - unfold gpath_score. rewrite E.
    rewrite gmscore_MU_free by (unfold gucost; cbn [s_center a_lead a_trail Nat.eqb andb orb]; reflexivity).
    rewrite gmscore_MD_run.
    rewrite gmscore_MU_free.
    + cbn [gmscore Nat.add]. lia.
    + unfold gucost. cbn [s_center a_lead a_trail andb Nat.add]. rewrite Nat.eqb_refl. now rewrite orb_true_r.
Qed.

Lemma center_containment_optimal_ge sc gap la lb k : (1 <= lb)%nat -> (k + lb <= la)%nat ->
  diag_sum sc k 0 lb <= mscore_of (gfill sc gap la lb s_center) la lb.
Proof.
  intros Hb Hk. destruct (center_containment_score sc gap la lb k Hb Hk) as [Hc Hs].
  rewrite <- Hs. apply (proj1 (gfill_optimal sc gap la lb s_center ltac:(lia) Hb)). exact Hc.
Qed.
