(** C08 — executable model of the paired-end aligner (pkg/obialign/pairedendalign.go, backtracking.go,
    alignment.go).  Definitions only.

    Scores are DATA: [sc i j] is the pairing score of A[i] with B[j] (0-based) and [gap] the gap penalty,
    both as computed by the real code (exported per case by the verif hook).

    Matrix coordinates are shifted by one with respect to the Go code: row/column 0 is the Go row/column -1;
    cell (i,j) speaks about the prefixes A[:i], B[:j].  A matrix is a list of columns (the Go code is
    column-major), each column a list of cells (score, direction) for rows 0..la.
    Directions: 0 diagonal, +1 left (consumes a base of B), -1 top (consumes a base of A). *)
From Coq Require Import ZArith QArith List Bool.
From OBI.C08.Gen Require Import Tables.
From OBI.C08 Require Import VoteModel ScoreModel.
Import ListNotations.
Open Scope Z_scope.

Definition cell := (Z * Z)%type.

(** the [switch] of the fill functions: diag >= left && diag >= top ; left >= diag && left >= top ; default top *)
Definition choose (diag left top : Z) : cell :=
  if (diag >=? left) && (diag >=? top) then (diag, 0)
  else if (left >=? diag) && (left >=? top) then (left, 1)
  else (top, -1).

Section Fill.
  Variable sc : nat -> nat -> Z.
  Variable gap : Z.
  Variables la lb : nat.
  (** [mode = true]: _FillMatrixPeLeftAlign (first column free, left moves free on the last row);
      [mode = false]: _FillMatrixPeRightAlign (first row free, top moves free in the last column). *)
  Variable mode : bool.

  (** penalty added to [left] on row i, to [top] in column j *)
  Definition gl (i : nat) : Z := if mode && (i =? la)%nat then 0 else gap.
  Definition gt (j : nat) : Z := if negb mode && (j =? lb)%nat then 0 else gap.

  (** first column: rows 0..la.  left: score 0, right: (i)*gap; direction 0 at the origin, -1 below *)
  Fixpoint col0_from (i n : nat) : list cell :=
    match n with
    | O => []
    | S n' => ((if mode then 0 else Z.of_nat i * gap), (if (i =? 0)%nat then 0 else -1)) :: col0_from (S i) n'
    end.
  Definition col0 : list cell := col0_from 0 (S la).

  (** rows 1.. of column j, given the previous column [prev] (from row i-1 on) and the cell above *)
  Fixpoint col_go (j : nat) (prev : list cell) (above : cell) (i : nat) : list cell :=
    match prev with
    | p0 :: ((p1 :: _) as tl) =>
        let c := choose (fst p0 + sc (i - 1) (j - 1)) (fst p1 + gl i) (fst above + gt j) in
        c :: col_go j tl c (S i)
    | _ => []
    end.

  (** column j >= 1: first line (j*gap resp. 0, direction +1) then the recurrence *)
  Definition next_col (prev : list cell) (j : nat) : list cell :=
    let h : cell := ((if mode then Z.of_nat j * gap else 0), 1) in
    h :: col_go j prev h 1.

  Fixpoint build (prev : list cell) (j n : nat) : list (list cell) :=
    match n with
    | O => []
    | S n' => let c := next_col prev j in c :: build c (S j) n'
    end.

  Definition fill : list (list cell) := col0 :: build col0 1 lb.
End Fill.

Definition getc (m : list (list cell)) (i j : nat) : cell := nth i (nth j m []) (0, 0).
Definition mscore_of (m : list (list cell)) (la lb : nat) : Z := fst (getc m la lb).

(** ---- _Backtracking: walks the direction matrix from (la,lb) to (0,0), run-length encoding the path as
    (indel, diag) pairs pushed at the FRONT (the Go code fills the path slice from its end).
    [None] = the walk would leave the matrix (Go: index out of range / wrong cell) or fuel exhausted. *)
Definition finish (ldiag lup lleft : Z) (acc : list Z) : list Z :=
  let '(ldiag1, acc1) := if lleft =? 0 then (ldiag, acc) else (0, lleft :: ldiag :: acc) in
  let '(ldiag2, acc2) := if lup =? 0 then (ldiag1, acc1) else (0, lup :: ldiag1 :: acc1) in
  if ldiag2 =? 0 then acc2 else 0 :: ldiag2 :: acc2.

Fixpoint bt (fuel : nat) (m : list (list cell)) (i j : nat) (ldiag lup lleft : Z) (acc : list Z)
  : option (list Z) :=
  match fuel with
  | O => None
  | S f =>
    if (i =? 0)%nat && (j =? 0)%nat then Some (finish ldiag lup lleft acc)
    else
      let step := snd (getc m i j) in
      if step =? 0 then
        if (i =? 0)%nat || (j =? 0)%nat then None else
        let '(ldiag1, acc1) := if lleft =? 0 then (ldiag, acc) else (0, lleft :: ldiag :: acc) in
        let '(ldiag2, acc2) := if lup =? 0 then (ldiag1, acc1) else (0, lup :: ldiag1 :: acc1) in
        bt f m (i - 1) (j - 1) (ldiag2 + 1) 0 0 acc2
      else if step >? 0 then
        if (j <? Z.to_nat step)%nat then None else
        let '(ldiag1, lup1, acc1) := if lup =? 0 then (ldiag, lup, acc) else (0, 0, lup :: ldiag :: acc) in
        bt f m i (j - Z.to_nat step) ldiag1 lup1 (lleft + step) acc1
      else
        if (i <? Z.to_nat (- step))%nat then None else
        let '(ldiag1, lleft1, acc1) := if lleft =? 0 then (ldiag, lleft, acc) else (0, 0, lleft :: ldiag :: acc) in
        bt f m (i - Z.to_nat (- step)) j ldiag1 (lup + step) lleft1 acc1
  end.

Definition backtrack (m : list (list cell)) (la lb : nat) : option (list Z) :=
  bt (S (la + lb)) m la lb 0 0 0 [].

(** ---- paths.  A path is the list [indel1; diag1; indel2; diag2; ...]; its unit moves: *)
Inductive move := MD | MU | MI.    (* diagonal / A alone (Go: top, indel < 0) / B alone (Go: left, indel > 0) *)

Fixpoint expand (p : list Z) : list move :=
  match p with
  | ind :: d :: r =>
      repeat MU (Z.to_nat (- ind)) ++ repeat MI (Z.to_nat ind) ++ repeat MD (Z.to_nat d) ++ expand r
  | _ => []
  end.

Fixpoint mconsumed (w : list move) : nat * nat :=
  match w with
  | [] => (0, 0)%nat
  | m :: r => let '(a, b) := mconsumed r in
              match m with MD => (S a, S b) | MU => (S a, b) | MI => (a, S b) end
  end.

Definition consumed (p : list Z) : nat * nat := mconsumed (expand p).

Section Score.
  Variable sc : nat -> nat -> Z.
  Variable gap : Z.
  Variables la lb : nat.
  Variable mode : bool.
  (** the end-gap-free scheme.  left: A alone is free while no base of B is consumed, B alone is free once all
      of A is consumed; right: B alone is free while no base of A is consumed, A alone is free once all of B is. *)
  Definition ucost (cb : nat) : Z := if (if mode then (cb =? 0)%nat else (cb =? lb)%nat) then 0 else gap.
  Definition icost (ca : nat) : Z := if (if mode then (ca =? la)%nat else (ca =? 0)%nat) then 0 else gap.

  Fixpoint mscore (ca cb : nat) (w : list move) : Z :=
    match w with
    | [] => 0
    | MD :: r => sc ca cb + mscore (S ca) (S cb) r
    | MU :: r => ucost cb + mscore (S ca) cb r
    | MI :: r => icost ca + mscore ca (S cb) r
    end.

  Definition path_score (p : list Z) : Z := mscore 0 0 (expand p).
End Score.

(** ---- PEAlign, exact mode (after the fix: the score is reported) *)
Definition fill_bt (sc : nat -> nat -> Z) (gap : Z) (la lb : nat) (mode : bool) : Z * option (list Z) :=
  let m := fill sc gap la lb mode in (mscore_of m la lb, backtrack m la lb).

Definition pealign_exact (sc : nat -> nat -> Z) (gap : Z) (la lb : nat) : option (bool * Z * list Z) :=
  let '(sr, pr) := fill_bt sc gap la lb false in
  match pr with
  | None => None
  | Some pr =>
    let '(sl, pl) := fill_bt sc gap la lb true in
    if sl >? sr then match pl with None => None | Some pl => Some (true, sl, pl) end
    else Some (false, sr, pr)
  end.

(** ---- PEAlign, fast mode: patching of the path of the sub-alignment with the unaligned ends (after the fix:
    an end is merged with the first / last indel run only when both go in the same direction) *)
Definition patch5 (extra5 : Z) (p : list Z) : list Z :=
  match p with
  | ind :: r => if ind * extra5 >=? 0 then (ind + extra5) :: r else extra5 :: 0 :: p
  | [] => p
  end.
Definition patch3 (extra3 : Z) (p1 : list Z) : list Z :=
  match rev p1 with
  | d :: ind :: r' =>
      if (d =? 0) && (ind * extra3 >=? 0) then rev r' ++ [ind + extra3; d] else p1 ++ [extra3; 0]
  | _ => p1 ++ [extra3; 0]
  end.
Definition patch (extra5 extra3 : Z) (p : list Z) : list Z := patch3 extra3 (patch5 extra5 p).

(** the patching of the unchanged tree (defective), kept for the refutation theorem *)
Definition patch_old (extra5 extra3 : Z) (p : list Z) : list Z :=
  let p1 := match p with ind :: r => (ind + extra5) :: r | [] => p end in
  match rev p1 with
  | d :: ind :: r' => if d =? 0 then rev r' ++ [ind + extra3; d] else p1 ++ [extra3; 0]
  | _ => p1 ++ [extra3; 0]
  end.

(** fast mode given the outcome (shift, fastCount) of the 4-mer vote.
    [None]: a slice bound of the Go code would be out of range. *)
Fixpoint diag_sum (sc : nat -> nat -> Z) (i j n : nat) : Z :=
  match n with O => 0 | S n' => sc i j + diag_sum sc (S i) (S j) n' end.

Definition pealign_fast_with (sc : nat -> nat -> Z) (gap : Z) (la lb : nat) (shift fastcount delta : Z)
  : option (bool * Z * list Z) :=
  let zla := Z.of_nat la in let zlb := Z.of_nat lb in
  let starts_in_a := (shift >? 0) || ((shift =? 0) && (zla <? zlb)) in
  let over := if starts_in_a then zla - shift else zlb + shift in
  if (fastcount =? 0) || (fastcount + 3 <? over) then
    if starts_in_a then
      let startA := Z.max 0 (shift - delta) in
      if startA >? zla then None else
      let lra := zla - startA in
      let partLen := Z.min lra zlb in
      let sc' := fun i j => sc (i + Z.to_nat startA)%nat j in
      let '(s, op) := fill_bt sc' gap (Z.to_nat lra) (Z.to_nat partLen) true in
      match op with
      | None => None
      | Some p => Some (true, s, patch (- startA) (zlb - partLen) p)
      end
    else
      let startB := Z.max 0 (- shift - delta) in
      if startB >? zlb then None else
      let lrb := zlb - startB in
      let partLen := Z.min lrb zla in
      let sc' := fun i j => sc i (j + Z.to_nat startB)%nat in
      let '(s, op) := fill_bt sc' gap (Z.to_nat partLen) (Z.to_nat lrb) false in
      match op with
      | None => None
      | Some p => Some (false, s, patch startB (partLen - zla) p)
      end
  else
    if starts_in_a then
      let startA := shift in
      let partLen := zla - startA in
      if (startA <? 0) || (partLen <? 0) || (partLen >? zlb) then None else
      Some (true, diag_sum sc (Z.to_nat startA) 0 (Z.to_nat partLen), patch (- startA) (zlb - partLen) [0; partLen])
    else
      let startB := - shift in
      let partLen := zlb - startB in
      if (startB <? 0) || (partLen <? 0) || (partLen >? zla) then None else
      Some (false, diag_sum sc 0 (Z.to_nat startB) (Z.to_nat partLen), patch startB (partLen - zla) [0; partLen]).

(** the overlap reported by PEAlign for the diagonal chosen by the vote *)
Definition fast_over (la lb : nat) (shift : Z) : Z :=
  if (shift >? 0) || ((shift =? 0) && (Z.of_nat la <? Z.of_nat lb)) then Z.of_nat la - shift else Z.of_nat lb + shift.

(** PEAlign, fast mode, on the two reads (bytes): Index4mer(A) + FastShiftFourMer(B) (VoteModel), then the above *)
Definition pealign_fast (sc : nat -> nat -> Z) (gap : Z) (a b : list Z) (rel : bool) (delta : Z)
  : option (bool * Z * list Z) :=
  let '(shift, fastcount, _) := fast_shift a b rel in
  pealign_fast_with sc gap (length a) (length b) shift fastcount delta.

(** ---- consensus (BuildQualityConsensus): _BuildAlignment run twice (bases with ' ' = 32 for gaps, qualities
    with 0 for gaps), then one pass over the columns.  Bases and qualities are [Z] (bytes). *)
Fixpoint build_ali (sa sb : list Z) (p : list Z) (gapc : Z) : list Z * list Z :=
  match p with
  | ind :: d :: r =>
      let na := Z.to_nat (- ind) in
      let nb := Z.to_nat ind in
      let nd := Z.to_nat d in
      let '(ra, rb) := build_ali (skipn nd (skipn na sa)) (skipn nd (skipn nb sb)) r gapc in
      (firstn na sa ++ repeat gapc nb ++ firstn nd (skipn na sa) ++ ra,
       repeat gapc na ++ firstn nb sb ++ firstn nd (skipn nb sb) ++ rb)
  | _ => ([], [])
  end.

(** _FourBitsBaseCode (index = byte land 31) and _FourBitsBaseDecode *)
Definition fourbits : list Z := fourbits_code.       (* regenerated from the build: Gen/Tables.v *)
Definition fourdecode : list Z := fourbits_decode.   (* . a c m g r s v t w y h k d b n *)
Definition code4 (b : Z) : Z := nth (Z.to_nat (Z.land b 31)) fourbits 0.

Definition cons_base (na qa nb qb : Z) : Z :=
  if qb >? qa then nb
  else if (qb =? qa) && negb (na =? nb) then nth (Z.to_nat (Z.lor (code4 na) (code4 nb))) fourdecode 0
  else na.

Fixpoint zip4 (sa qa sb qb : list Z) : list Z :=
  match sa, qa, sb, qb with
  | na :: sa', xa :: qa', nb :: sb', xb :: qb' => cons_base na xa nb xb :: zip4 sa' qa' sb' qb'
  | _, _, _, _ => []
  end.

Definition consensus (a qa b qb : list Z) (p : list Z) : list Z :=
  let '(sa, sb) := build_ali a b p 32 in
  let '(xa, xb) := build_ali qa qb p 0 in
  zip4 sa xa sb xb.

(** consensus quality of one column: a function of (nA = nB, qA, qB) alone.  The float expression
    [qM - byte(log10(1 - 10^(-qm/30)) * 10 + 0.5)] is DATA: the two tables are regenerated from the build by running the
    real BuildQualityConsensus on every one-column alignment a/c and a/a with qualities 0..93 (Gen/Tables.v).  A gap is
    (32, 0): the tables agree on every pair with a quality 0 (theorem C08_quality_tables). *)
Definition tab2 (t : list (list Z)) (i j : Z) : Z := nth (Z.to_nat j) (nth (Z.to_nat i) t []) 0.
Definition cons_qual (na qa nb qb : Z) : Z :=
  if na =? nb then tab2 match_qual qa qb else tab2 mismatch_qual qa qb.
(** [match++] : identical bases, both qualities > 0 *)
Definition is_match (na qa nb qb : Z) : Z := if (na =? nb) && (qa >? 0) && (qb >? 0) then 1 else 0.

Fixpoint zip4g (f : Z -> Z -> Z -> Z -> Z) (sa qa sb qb : list Z) : list Z :=
  match sa, qa, sb, qb with
  | na :: sa', xa :: qa', nb :: sb', xb :: qb' => f na xa nb xb :: zip4g f sa' qa' sb' qb'
  | _, _, _, _ => []
  end.

Definition columns_map (f : Z -> Z -> Z -> Z -> Z) (a qa b qb : list Z) (p : list Z) : list Z :=
  let '(sa, sb) := build_ali a b p 32 in
  let '(xa, xb) := build_ali qa qb p 0 in
  zip4g f sa xa sb xb.

Definition consensus_qual (a qa b qb : list Z) (p : list Z) : list Z := columns_map cons_qual a qa b qb p.
Definition match_count (a qa b qb : list Z) (p : list Z) : Z := fold_right Z.add 0 (columns_map is_match a qa b qb p).

(** ---- AssemblePESequences: what it derives from the path (left = path[0]; right = path[len-2] when the last
    diagonal run is empty).  After the fix seq_a_single / seq_b_single follow the direction of the end runs. *)
Definition ann_left (p : list Z) : Z := hd 0 p.
Definition ann_right (p : list Z) : Z :=
  match rev p with d :: r :: _ => if d =? 0 then r else 0 | _ => 0 end.
Definition ali_length (p : list Z) : Z :=
  Z.of_nat (length (expand p)) - Z.abs (ann_left p) - Z.abs (ann_right p).
Definition a_single (p : list Z) : Z := Z.abs (Z.min (ann_left p) 0) + Z.abs (Z.min (ann_right p) 0).
Definition b_single (p : list Z) : Z := Z.max (ann_left p) 0 + Z.max (ann_right p) 0.

(** the record returned by AssemblePESequences (withStats): sequence, qualities and the integer / string annotations
    mode (true = "alignment", false = "join"), ali_dir (true = "left"), ali_length, seq_ab_match, seq_a_single,
    seq_b_single (0 in join mode: not written), score.  score_norm = round(1000 * match / ali_length) / 1000 and the
    pairing_mismatches map are not modelled (floats / strings: oracle). *)
Record asm := mka {
  as_mode : bool; as_seq : list Z; as_qual : list Z; as_ali : Z; as_match : Z;
  as_asingle : Z; as_bsingle : Z; as_dirleft : bool; as_score : Z }.

Definition ten (x : Z) : list Z := repeat x 10.

Definition assemble (a qa b qb : list Z) (isl : bool) (score : Z) (p : list Z) (minov : Z) (minid : Q) : asm :=
  let cons := consensus a qa b qb p in
  let m := match_count a qa b qb p in
  let ali := Z.of_nat (length cons) - Z.abs (ann_left p) - Z.abs (ann_right p) in
  (* identity := float64(match) / float64(aliLength); 0 when aliLength == 0 *)
  let ident : Q := if ali =? 0 then 0%Q else Qmake m (Z.to_pos ali) in
  if (ali >=? minov) && Qle_bool minid ident
  then mka true cons (consensus_qual a qa b qb p) ali m (a_single p) (b_single p) isl score
  else mka false (a ++ ten 46 ++ b) (qa ++ ten 0 ++ qb) ali m 0 0 isl score.

(** ---- correspondence cases: inputs + what the real code answered *)
Record ccase := mkc {
  c_rows : list (list Z); c_gap : Z;
  c_a : list Z; c_qa : list Z; c_b : list Z; c_qb : list Z;
  c_fast : bool; c_rel : bool; c_delta : Z;
  (* the vote: obikmer.Index4mer + FastShiftFourMer called directly, and what PEAlign reports *)
  c_shift : Z; c_fastcount : Z; c_fscore : Q; c_over : Z; c_ka : list Z; c_kb : list Z;
  c_hasfills : bool; c_scoreL : Z; c_pathL : list Z; c_scoreR : Z; c_pathR : list Z;
  c_isleft : bool; c_score : Z; c_path : list Z;
  (* the column scores: scale (the match / mismatch entries of (qA[i], qB[j]) are read in the regenerated tables) *)
  c_hassc : bool; c_scale : Q;
  (* AssemblePESequences *)
  c_minov : Z; c_minid : Q; c_asm : asm }.

Definition sc_of (rows : list (list Z)) (i j : nat) : Z := nth j (nth i rows []) 0.

Fixpoint zl_eqb (x y : list Z) : bool :=
  match x, y with
  | [], [] => true
  | a :: x', b :: y' => (a =? b) && zl_eqb x' y'
  | _, _ => false
  end.

Definition opath_eqb (o : option (list Z)) (p : list Z) : bool :=
  match o with Some q => zl_eqb q p | None => false end.

Definition ores_eqb (o : option (bool * Z * list Z)) (isl : bool) (s : Z) (p : list Z) : bool :=
  match o with
  | Some (isl', s', p') => Bool.eqb isl' isl && (s' =? s) && zl_eqb p' p
  | None => false
  end.

(** both fills + backtracking alone *)
Definition ok_fills (c : ccase) : bool :=
  let sc := sc_of (c_rows c) in
  let la := length (c_a c) in let lb := length (c_b c) in
  if c_hasfills c then
    let '(sl, pl) := fill_bt sc (c_gap c) la lb true in
    let '(sr, pr) := fill_bt sc (c_gap c) la lb false in
    (sl =? c_scoreL c) && opath_eqb pl (c_pathL c) && (sr =? c_scoreR c) && opath_eqb pr (c_pathR c)
  else true.

(** the 4-mer vote: Encode4mer of both reads, (shift, count, score) and the overlap reported by PEAlign *)
Definition ok_vote (c : ccase) : bool :=
  if c_fast c then
    let '(s, fc, q) := fast_shift (c_a c) (c_b c) (c_rel c) in
    (s =? c_shift c) && (fc =? c_fastcount c) && Qeq_bool q (c_fscore c) &&
    (fast_over (length (c_a c)) (length (c_b c)) s =? c_over c) &&
    zl_eqb (encode4mer (c_a c)) (c_ka c) && zl_eqb (encode4mer (c_b c)) (c_kb c)
  else true.

(** PEAlign: (isLeft, score, path); in fast mode the vote is computed by the model *)
Definition ok_align (c : ccase) : bool :=
  let sc := sc_of (c_rows c) in
  if c_fast c then ores_eqb (pealign_fast sc (c_gap c) (c_a c) (c_b c) (c_rel c) (c_delta c)) (c_isleft c) (c_score c) (c_path c)
  else ores_eqb (pealign_exact sc (c_gap c) (length (c_a c)) (length (c_b c))) (c_isleft c) (c_score c) (c_path c).

(** every cell of the exported score matrix against _PairingScorePeAlign over the table entries of (qA[i], qB[j])
    ([nuc_match], [nuc_mismatch]: regenerated from the build, Gen/Tables.v) *)
Definition cell_score (scale : Q) (x qx y qy : Z) (s : Z) : bool :=
  score_agrees (tab2 nuc_match qx qy) (tab2 nuc_mismatch qx qy) scale (part_match x y) s.
Fixpoint ok_score_row (scale : Q) (x qx : Z) (b qb : list Z) (sc : list Z) : bool :=
  match b, qb, sc with
  | [], [], [] => true
  | y :: b', qy :: qb', s :: sc' => cell_score scale x qx y qy s && ok_score_row scale x qx b' qb' sc'
  | _, _, _ => false
  end.
Fixpoint ok_score_rows (scale : Q) (a qa b qb : list Z) (sc : list (list Z)) : bool :=
  match a, qa, sc with
  | [], [], [] => true
  | x :: a', qx :: qa', s :: sc' => ok_score_row scale x qx b qb s && ok_score_rows scale a' qa' b qb sc'
  | _, _, _ => false
  end.
Definition ok_scores (c : ccase) : bool :=
  if c_hassc c then ok_score_rows (c_scale c) (c_a c) (c_qa c) (c_b c) (c_qb c) (c_rows c) else true.

(** AssemblePESequences on the path returned by the real PEAlign *)
Definition asm_eqb (x y : asm) : bool :=
  Bool.eqb (as_mode x) (as_mode y) && zl_eqb (as_seq x) (as_seq y) && zl_eqb (as_qual x) (as_qual y) &&
  (as_ali x =? as_ali y) && (as_match x =? as_match y) && (as_asingle x =? as_asingle y) &&
  (as_bsingle x =? as_bsingle y) && Bool.eqb (as_dirleft x) (as_dirleft y) && (as_score x =? as_score y).
Definition ok_asm (c : ccase) : bool :=
  asm_eqb (assemble (c_a c) (c_qa c) (c_b c) (c_qb c) (c_isleft c) (c_score c) (c_path c) (c_minov c) (c_minid c)) (c_asm c).

Definition case_ok (c : ccase) : bool := ok_fills c && ok_vote c && ok_align c && ok_scores c && ok_asm c.

Fixpoint mismatches_from (i : nat) (l : list ccase) : list nat :=
  match l with
  | [] => []
  | c :: l' => let rest := mismatches_from (S i) l' in if case_ok c then rest else i :: rest
  end.
Definition mismatches := mismatches_from 0.

(** which part diverges (diagnostics): 1 fills, 2 vote, 3 align, 4 scores, 5 assembly *)
Definition diverging_parts (c : ccase) : list nat :=
  (if ok_fills c then [] else [1%nat]) ++ (if ok_vote c then [] else [2%nat]) ++ (if ok_align c then [] else [3%nat]) ++
  (if ok_scores c then [] else [4%nat]) ++ (if ok_asm c then [] else [5%nat]).
