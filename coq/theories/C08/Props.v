(** C08 — property theorems (statements only; every proof is [exact] of a lemma of Proofs.v).
    Paired-end assembly: valid path, optimal score, correct consensus.
    The pairing scores [sc i j] (score of A[i] against B[j]) and the gap penalty [gap] are DATA: the
    theorems hold for every score function and every gap penalty (of any sign). *)
From Coq Require Import ZArith QArith List Bool.
From OBI.C08 Require Import Model Proofs VoteModel VoteProofs.
Import ListNotations.
Open Scope Z_scope.

(** each fill + backtracking (left: mode = true, right: mode = false): the path returned consumes both reads
    exactly and the last cell of the matrix is the score recomputed along that path *)
Theorem C08_fill_backtrack_valid : forall sc gap la lb mode, (1 <= la)%nat -> (1 <= lb)%nat ->
  exists p, backtrack (fill sc gap la lb mode) la lb = Some p /\
            consumed p = (la, lb) /\
            path_score sc gap la lb mode p = mscore_of (fill sc gap la lb mode) la lb.
Proof. exact backtrack_fill. Qed.

(** exact mode of PEAlign never fails and the returned path consumes (|A|, |B|) *)
Theorem C08_path_consumes_both : forall sc gap la lb, (1 <= la)%nat -> (1 <= lb)%nat ->
  exists isl s p, pealign_exact sc gap la lb = Some (isl, s, p) /\ consumed p = (la, lb).
Proof. exact exact_consumes. Qed.

(** the reported score is the score of the returned path under the end-gap-free scheme of the reported side *)
Theorem C08_score_is_path_score : forall sc gap la lb, (1 <= la)%nat -> (1 <= lb)%nat ->
  forall isl s p, pealign_exact sc gap la lb = Some (isl, s, p) ->
  consumed p = (la, lb) /\ path_score sc gap la lb isl p = s.
Proof. exact exact_score_is_path_score. Qed.

(** after the fix: exact mode reports max(left, right) and isLeft says which (ties: right) *)
Theorem C08_exact_reports_score : forall sc gap la lb, (1 <= la)%nat -> (1 <= lb)%nat ->
  forall isl s p, pealign_exact sc gap la lb = Some (isl, s, p) ->
  s = Z.max (score_left sc gap la lb) (score_right sc gap la lb) /\
  isl = (score_left sc gap la lb >? score_right sc gap la lb).
Proof. exact exact_reports_score. Qed.

(** the last cell is the optimum over ALL paths consuming both reads (general proof, no size bound), and it
    is attained *)
Theorem C08_fill_optimal : forall sc gap la lb mode, (1 <= la)%nat -> (1 <= lb)%nat ->
  (forall p, consumed p = (la, lb) -> path_score sc gap la lb mode p <= mscore_of (fill sc gap la lb mode) la lb) /\
  (exists p, consumed p = (la, lb) /\ path_score sc gap la lb mode p = mscore_of (fill sc gap la lb mode) la lb).
Proof. exact fill_optimal. Qed.

(** no alignment of either side scores more than what exact mode reports *)
Theorem C08_exact_optimal : forall sc gap la lb, (1 <= la)%nat -> (1 <= lb)%nat ->
  forall isl s p, pealign_exact sc gap la lb = Some (isl, s, p) ->
  forall m q, consumed q = (la, lb) -> path_score sc gap la lb m q <= s.
Proof. exact pealign_exact_optimal. Qed.

(** consensus (BuildQualityConsensus): exactly one base per path column, a function of that column alone
    ([cols]: the columns of the unit moves of the path; gap = (32, 0)) *)
Theorem C08_consensus_columns : forall p a qa b qb,
  consumed p = (length a, length b) -> length qa = length a -> length qb = length b ->
  consensus a qa b qb p = map cons4 (cols (expand p) a qa b qb) /\
  length (consensus a qa b qb p) = length (expand p).
Proof. exact consensus_columns. Qed.

(** the base of the higher quality wins; agreeing bases of equal quality are kept *)
Theorem C08_consensus_rule : forall na xa nb xb,
  (xa > xb -> cons_base na xa nb xb = na) /\
  (xb > xa -> cons_base na xa nb xb = nb) /\
  (xa = xb -> na = nb -> cons_base na xa nb xb = na).
Proof. exact cons_base_rule. Qed.

(** a base (any of the 15 IUPAC letters, any quality) always beats a gap *)
Theorem C08_base_beats_gap : forall n q, In n iupac_letters -> 0 <= q ->
  cons_base n q 32 0 = n /\ cons_base 32 0 n q = n.
Proof. exact base_beats_gap. Qed.

(** equal qualities, different bases: IUPAC union (a/g -> r, c/t -> y, n/a -> n, a/t -> w) *)
Theorem C08_consensus_union_examples :
  cons_base 97 30 103 30 = 114 /\ cons_base 99 7 116 7 = 121 /\ cons_base 110 0 97 0 = 110 /\ cons_base 97 12 116 12 = 119.
Proof. exact cons_base_union_examples. Qed.

Example C08_consensus_nonvacuous :   (* acg/[30,10,40] vs cgt/[20,20,20], path [-1 2 1 0]: a c g t *)
  consumed [-1; 2; 1; 0] = (3%nat, 3%nat) /\
  consensus [97; 99; 103] [30; 10; 40] [99; 103; 116] [20; 20; 20] [-1; 2; 1; 0] = [97; 99; 103; 116].
Proof. vm_compute. split; reflexivity. Qed.

(** fast mode, everything after the 4-mer vote (the vote is NOT modelled: [shift] and [fc] are whatever it reports,
    within the bounds a vote can produce): alignment of the predicted overlap +- delta or identical-overlap shortcut,
    then patching with the unaligned ends.  After the fixes the path consumes both reads and the reported score is
    the score of the returned path under the scheme of the reported side. *)
Theorem C08_fast_path_consumes_both : forall sc gap la lb shift fc delta,
  (1 <= la)%nat -> (1 <= lb)%nat -> 0 <= delta ->
  - Z.of_nat lb < shift < Z.of_nat la ->
  (fc = 0 \/ (fc + 3 <= Z.of_nat la /\ fc + 3 <= Z.of_nat lb)) ->
  exists isl s p, pealign_fast sc gap la lb shift fc delta = Some (isl, s, p) /\
                  consumed p = (la, lb) /\ path_score sc gap la lb isl p = s.
Proof. exact pealign_fast_valid. Qed.

(** the path surgery alone: unaligned 5' end ++ path of the sub-alignment ++ unaligned 3' end *)
Theorem C08_fast_patch_consumes : forall e5 e3 p, p <> [] -> Nat.even (length p) = true ->
  expand (patch e5 e3 p) = pre e5 ++ expand p ++ pre e3 /\
  consumed (patch e5 e3 p) =
    (Z.to_nat (- e5) + fst (consumed p) + Z.to_nat (- e3), Z.to_nat e5 + snd (consumed p) + Z.to_nat e3)%nat.
Proof. intros e5 e3 p H1 H2. split; [exact (patch_expand e5 e3 p H1 H2) | exact (patch_consumed e5 e3 p H1 H2)]. Qed.

(** the surgery of the unchanged tree ([patch_old]: ends always added to the first / last indel run) loses bases:
    witness = the sub-alignment path observed on the real code for acccaca / aaccaa (fixed by a fix: commit) *)
Theorem C08_fast_path_refuted :
  exists e5 e3 p, p <> [] /\ Nat.even (length p) = true /\
    consumed (patch_old e5 e3 p) <>
    (Z.to_nat (- e5) + fst (consumed p) + Z.to_nat (- e3), Z.to_nat e5 + snd (consumed p) + Z.to_nat e3)%nat.
Proof. exact patch_old_refuted. Qed.

(** the unconditional reassembly clause is false by construction (known finding ambiguous-overlap): the fragment
    a^150 read as two error-free a^100 (q40: every pair scores 14, gap -161) is assembled as a^100 *)
Theorem C08_reassembly_refuted :
  exists frag a b q isl s p,
    a = firstn 100 frag /\ b = skipn 50 frag /\ length frag = 150%nat /\
    pealign_exact (fun _ _ => 14) (-161) 100 100 = Some (isl, s, p) /\
    consensus a q b q p <> frag.
Proof. exact reassembly_refuted. Qed.

(** conditional reassembly (what the property can demand of any aligner): if the columns of the alignment [q] that
    rebuilds the fragment are the STRICT optimum of the scheme, exact mode returns exactly these columns and therefore
    the same consensus.  (Fast mode: when the vote designates the true diagonal of error-free reads the shortcut
    returns [patch e5 e3 [0; overlap]], covered by C08_fast_path_consumes_both and by the oracle.) *)
Theorem C08_reassembly_if_strict_optimum : forall sc gap a qa b qb mq q,
  (1 <= length a)%nat -> (1 <= length b)%nat -> length qa = length a -> length qb = length b ->
  consumed q = (length a, length b) ->
  (forall m p, consumed p = (length a, length b) -> expand p <> expand q ->
               path_score sc gap (length a) (length b) m p < path_score sc gap (length a) (length b) mq q) ->
  exists isl s p, pealign_exact sc gap (length a) (length b) = Some (isl, s, p) /\
              expand p = expand q /\ consensus a qa b qb p = consensus a qa b qb q.
Proof. exact reassembly_if_strict. Qed.

Example C08_reassembly_nonvacuous : forall m p, consumed p = (1, 1)%nat -> expand p <> expand [0; 1] ->
  path_score (fun _ _ => 5) (-3) 1 1 m p < path_score (fun _ _ => 5) (-3) 1 1 true [0; 1].
Proof. exact reassembly_strict_example. Qed.

(** annotations of AssemblePESequences: the consensus is [ann_left] unaligned columns, then [ali_length] columns, then
    [ann_right] unaligned columns; a negative end run holds bases of A only and a positive one bases of B only, which is
    what seq_a_single / seq_b_single count (after the fix); the three numbers add up to the length of the consensus *)
Theorem C08_annotations_consistent : forall p, Nat.even (length p) = true ->
  (1 <= fst (consumed p))%nat -> (1 <= snd (consumed p))%nat ->
  exists mid, expand p = pre (ann_left p) ++ mid ++ pre (ann_right p) /\
              Z.of_nat (length mid) = ali_length p /\ 0 <= ali_length p /\
              Z.of_nat (fst (mconsumed (pre (ann_left p))) + fst (mconsumed (pre (ann_right p)))) = a_single p /\
              Z.of_nat (snd (mconsumed (pre (ann_left p))) + snd (mconsumed (pre (ann_right p)))) = b_single p /\
              a_single p + b_single p + ali_length p = Z.of_nat (length (expand p)).
Proof. exact ends_decomposition. Qed.

Example C08_annotations_nonvacuous :   (* B contains A: both ends are bases of B *)
  consumed [4; 30; 4; 0] = (30%nat, 38%nat) /\ ali_length [4; 30; 4; 0] = 30 /\
  a_single [4; 30; 4; 0] = 0 /\ b_single [4; 30; 4; 0] = 8.
Proof. vm_compute. repeat split; reflexivity. Qed.

(** fast mode, the selection loop of the 4-mer vote (FastShiftFourMer) over the map shift -> count visited in any
    order: the state after the loop is the entry of highest score and, among those, of smallest shift ... *)
Theorem C08_vote_selects_best_diagonal : forall l, l <> [] -> (forall e, In e l -> (0 <= v_score e)%Q) ->
  selects l (vote_select l).
Proof. exact vote_selects_winner. Qed.

(** ... hence the chosen diagonal and its count do not depend on Go's map iteration order *)
Theorem C08_vote_order_independent : forall l l',
  Permutation.Permutation l l' -> NoDup (map v_shift l) -> (forall e, In e l -> (0 <= v_score e)%Q) ->
  st_shift (vote_select l) = st_shift (vote_select l') /\ st_count (vote_select l) = st_count (vote_select l').
Proof. exact vote_order_independent. Qed.

Example C08_vote_nonvacuous :
  vote_select [mkv 5 3 (3#1)%Q; mkv (-2) 3 (3#1)%Q; mkv 7 1 (1#1)%Q] = ((-2)%Z, 3%Z, (3#1)%Q) /\
  vote_select [mkv 7 1 (1#1)%Q; mkv (-2) 3 (3#1)%Q; mkv 5 3 (3#1)%Q] = ((-2)%Z, 3%Z, (3#1)%Q).
Proof. exact vote_example. Qed.

Example C08_fast_nonvacuous :   (* 6 x 5 bases, B starts at A[2], one 4-mer... shift 2, count 1, delta 1 *)
  pealign_fast (fun i j => if (i =? j + 2)%nat then 5 else -4) (-3) 6 5 2 1 1 = Some (true, 20, [-2; 4; 1; 0]).
Proof. vm_compute. reflexivity. Qed.

(** hypotheses are satisfiable and the pipeline computes: 3 x 4 bases, match 5 / mismatch -4, gap -3 *)
Example C08_exact_nonvacuous :
  pealign_exact (fun i j => if (i =? j)%nat then 5 else -4) (-3) 3 4 = Some (true, 15, [0; 3; 1; 0]).
Proof. vm_compute. reflexivity. Qed.

Print Assumptions C08_fill_backtrack_valid.
Print Assumptions C08_path_consumes_both.
Print Assumptions C08_score_is_path_score.
Print Assumptions C08_exact_reports_score.
Print Assumptions C08_fill_optimal.
Print Assumptions C08_exact_optimal.
Print Assumptions C08_consensus_columns.
Print Assumptions C08_consensus_rule.
Print Assumptions C08_base_beats_gap.
Print Assumptions C08_consensus_union_examples.
Print Assumptions C08_fast_path_consumes_both.
Print Assumptions C08_fast_patch_consumes.
Print Assumptions C08_fast_path_refuted.
Print Assumptions C08_reassembly_refuted.
Print Assumptions C08_reassembly_if_strict_optimum.
Print Assumptions C08_vote_selects_best_diagonal.
Print Assumptions C08_vote_order_independent.
Print Assumptions C08_annotations_consistent.
