(** C08 — property theorems (statements only; every proof is [exact] of a lemma of Proofs.v).
    Paired-end assembly: valid path, optimal score, correct consensus.
    The pairing scores [sc i j] (score of A[i] against B[j]) and the gap penalty [gap] are DATA: the
    theorems hold for every score function and every gap penalty (of any sign). *)
From Coq Require Import ZArith QArith List Bool.
From OBI.C08.Gen Require Import Tables.
From OBI.C08 Require Import Model Proofs VoteModel VoteProofs VoteCount FastProofs ScoreModel ScoreProofs AsmProofs ReassemblyProofs.
Import ListNotations.
Open Scope Z_scope.

(** each fill + backtracking (left: mode = true, right: mode = false): the path returned consumes both reads
    exactly and the last cell of the matrix is the score recomputed along that path *)
Theorem C08_fill_backtrack_valid : forall sc gap la lb mode, (1 <= la)%nat -> (1 <= lb)%nat ->
  exists p, backtrack (fill sc gap la lb mode) la lb = Some p /\
            consumed p = (la, lb) /\
            path_score sc gap la lb mode p = mscore_of (fill sc gap la lb mode) la lb.
Proof. exact backtrack_fill. Qed.

(** exact mode of PEAlign never fails and the returned path consumes (|A|, |B|) *)
Theorem C08_path_consumes_both : forall sc gap la lb, (1 <= la)%nat -> (1 <= lb)%nat ->
  exists isl s p, pealign_exact sc gap la lb = Some (isl, s, p) /\ consumed p = (la, lb).
Proof. exact exact_consumes. Qed.

(** the reported score is the score of the returned path under the end-gap-free scheme of the reported side *)
Theorem C08_score_is_path_score : forall sc gap la lb, (1 <= la)%nat -> (1 <= lb)%nat ->
  forall isl s p, pealign_exact sc gap la lb = Some (isl, s, p) ->
  consumed p = (la, lb) /\ path_score sc gap la lb isl p = s.
Proof. exact exact_score_is_path_score. Qed.

(** after the fix: exact mode reports max(left, right) and isLeft says which (ties: right) *)
Theorem C08_exact_reports_score : forall sc gap la lb, (1 <= la)%nat -> (1 <= lb)%nat ->
  forall isl s p, pealign_exact sc gap la lb = Some (isl, s, p) ->
  s = Z.max (score_left sc gap la lb) (score_right sc gap la lb) /\
  isl = (score_left sc gap la lb >? score_right sc gap la lb).
Proof. exact exact_reports_score. Qed.

(** the last cell is the optimum over ALL paths consuming both reads (general proof, no size bound), and it
    is attained *)
Theorem C08_fill_optimal : forall sc gap la lb mode, (1 <= la)%nat -> (1 <= lb)%nat ->
  (forall p, consumed p = (la, lb) -> path_score sc gap la lb mode p <= mscore_of (fill sc gap la lb mode) la lb) /\
  (exists p, consumed p = (la, lb) /\ path_score sc gap la lb mode p = mscore_of (fill sc gap la lb mode) la lb).
Proof. exact fill_optimal. Qed.

(** no alignment of either side scores more than what exact mode reports *)
Theorem C08_exact_optimal : forall sc gap la lb, (1 <= la)%nat -> (1 <= lb)%nat ->
  forall isl s p, pealign_exact sc gap la lb = Some (isl, s, p) ->
  forall m q, consumed q = (la, lb) -> path_score sc gap la lb m q <= s.
Proof. exact pealign_exact_optimal. Qed.

(** consensus (BuildQualityConsensus): exactly one base per path column, a function of that column alone
    ([cols]: the columns of the unit moves of the path; gap = (32, 0)) *)
Theorem C08_consensus_columns : forall p a qa b qb,
  consumed p = (length a, length b) -> length qa = length a -> length qb = length b ->
  consensus a qa b qb p = map cons4 (cols (expand p) a qa b qb) /\
  length (consensus a qa b qb p) = length (expand p).
Proof. exact consensus_columns. Qed.

(** the base of the higher quality wins; agreeing bases of equal quality are kept *)
Theorem C08_consensus_rule : forall na xa nb xb,
  (xa > xb -> cons_base na xa nb xb = na) /\
  (xb > xa -> cons_base na xa nb xb = nb) /\
  (xa = xb -> na = nb -> cons_base na xa nb xb = na).
Proof. exact cons_base_rule. Qed.

(** a base (any of the 15 IUPAC letters, any quality) always beats a gap *)
Theorem C08_base_beats_gap : forall n q, In n iupac_letters -> 0 <= q ->
  cons_base n q 32 0 = n /\ cons_base 32 0 n q = n.
Proof. exact base_beats_gap. Qed.

(** equal qualities, different bases: IUPAC union (a/g -> r, c/t -> y, n/a -> n, a/t -> w) *)
Theorem C08_consensus_union_examples :
  cons_base 97 30 103 30 = 114 /\ cons_base 99 7 116 7 = 121 /\ cons_base 110 0 97 0 = 110 /\ cons_base 97 12 116 12 = 119.
Proof. exact cons_base_union_examples. Qed.

Example C08_consensus_nonvacuous :   (* acg/[30,10,40] vs cgt/[20,20,20], path [-1 2 1 0]: a c g t *)
  consumed [-1; 2; 1; 0] = (3%nat, 3%nat) /\
  consensus [97; 99; 103] [30; 10; 40] [99; 103; 116] [20; 20; 20] [-1; 2; 1; 0] = [97; 99; 103; 116].
Proof. vm_compute. split; reflexivity. Qed.

(** fast mode, everything after the 4-mer vote, for EVERY outcome [shift], [fc] a vote could report (within the bounds
    proved below for the real vote): alignment of the predicted overlap +- delta or identical-overlap shortcut, then
    patching with the unaligned ends.  After the fixes the path consumes both reads and the reported score is the score
    of the returned path under the scheme of the reported side. *)
Theorem C08_fast_after_vote_valid : forall sc gap la lb shift fc delta,
  (1 <= la)%nat -> (1 <= lb)%nat -> 0 <= delta ->
  - Z.of_nat lb < shift < Z.of_nat la ->
  (fc = 0 \/ (fc + 3 <= Z.of_nat la /\ fc + 3 <= Z.of_nat lb)) ->
  exists isl s p, pealign_fast_with sc gap la lb shift fc delta = Some (isl, s, p) /\
                  consumed p = (la, lb) /\ path_score sc gap la lb isl p = s.
Proof. exact pealign_fast_valid. Qed.

(** ---- the 4-mer vote (obikmer.Encode4mer, Index4mer, FastShiftFourMer), now INSIDE the model *)

(** the rolling byte code of Encode4mer (<<2, += / |=, truncation to a byte) is at every position the 2-bit code
    64 c0 + 16 c1 + 4 c2 + c3 of the window of four bases starting there *)
Theorem C08_encode4mer_windows : forall s, encode4mer s = kmers s /\ length (kmers s) = (length s - 3)%nat.
Proof. intro s. split; [apply encode4mer_kmers | apply kmers_length]. Qed.

(** the counting loop: the counter of shift d is exactly the number of PAIRS (i, j) — i a 4-mer position of A, j a 4-mer
    position of B — on diagonal i - j = d that hold the same 4-mer ([diag_pairs]: explicit enumeration of all pairs);
    [diag_count] is the same number counted along B; every shift is present at most once and only with a count >= 1
    (a shift without such a pair is absent from the map) *)
Theorem C08_vote_counts_exact : forall a b,
  let m := count_votes (encode4mer a) (encode4mer b) in
  (forall d, vget m d = Z.of_nat (length (diag_pairs (kmers a) (kmers b) d)) /\
             diag_count (kmers a) (kmers b) d = Z.of_nat (length (diag_pairs (kmers a) (kmers b) d))) /\
  NoDup (map fst m) /\ Forall (fun p => 1 <= snd p) m /\
  (forall d c, In (d, c) m <-> (1 <= c /\ c = diag_count (kmers a) (kmers b) d)).
Proof.
  intros a b. cbv zeta. split; [intro d; apply votes_exact_pairs|].
  destruct (votes_exact a b) as [_ H]. exact H.
Qed.

Example C08_vote_counts_nonvacuous :   (* acgtacgt / gtacgtac: three pairs on diagonal 2, three on -2; the tie goes to -2 *)
  diag_pairs (kmers [97; 99; 103; 116; 97; 99; 103; 116]) (kmers [103; 116; 97; 99; 103; 116; 97; 99]) 2 = [(2, 0); (3, 1); (4, 2)]%nat /\
  count_votes (encode4mer [97; 99; 103; 116; 97; 99; 103; 116]) (encode4mer [103; 116; 97; 99; 103; 116; 97; 99]) = [(2, 3); (-2, 3)] /\
  fast_shift [97; 99; 103; 116; 97; 99; 103; 116] [103; 116; 97; 99; 103; 116; 97; 99] false = (-2, 3, inject_Z 3).
Proof. vm_compute. repeat split; reflexivity. Qed.

(** a diagonal that holds a vote lies strictly between -(|B|-3) and |A|-3 and its count is at most the number of
    4-mers of either read that fit on it *)
Theorem C08_vote_count_bounds : forall ka kb d, 1 <= diag_count ka kb d ->
  - Z.of_nat (length kb) < d < Z.of_nat (length ka) /\
  diag_count ka kb d <= Z.of_nat (length ka) /\ diag_count ka kb d <= Z.of_nat (length kb) /\
  diag_count ka kb d <= Z.of_nat (length ka) - d /\ diag_count ka kb d <= Z.of_nat (length kb) + d.
Proof. exact diag_count_pos. Qed.

(** ... and stands for an overlap of at least count + 3 bases: the denominator overlap - 3 of the relative score is
    >= count >= 1 *)
Theorem C08_vote_overlap_positive : forall a b d, 1 <= diag_count (kmers a) (kmers b) d ->
  diag_count (kmers a) (kmers b) d <= rel_over (Z.of_nat (length a)) (Z.of_nat (length b)) d - 3.
Proof. exact vote_over_pos. Qed.

(** what Index4mer + FastShiftFourMer return: (0, 0, -1) when no 4-mer is shared, otherwise the diagonal of highest
    score (count, or count / (overlap - 3)) — the SMALLER shift on ties — together with its exact count and score *)
Theorem C08_fast_shift_selects : forall a b rel,
  ((forall d, diag_count (kmers a) (kmers b) d = 0) /\ fast_shift a b rel = (0, 0, (-1)%Q)) \/
  (exists s c q, fast_shift a b rel = (s, c, q) /\ 1 <= c /\ c = diag_count (kmers a) (kmers b) s /\
     (q == vsc rel a b s)%Q /\
     forall d, 1 <= diag_count (kmers a) (kmers b) d ->
               (vsc rel a b d < q)%Q \/ ((vsc rel a b d == q)%Q /\ s <= d)).
Proof. exact fast_shift_spec. Qed.

(** the model visits the map in insertion order, Go in an unspecified order: any other order gives the same answer *)
Theorem C08_fast_shift_order_independent : forall a b rel l',
  Permutation.Permutation (entries rel (Z.of_nat (length a)) (Z.of_nat (length b)) (count_votes (encode4mer a) (encode4mer b))) l' ->
  st_shift (vote_select l') = st_shift (fast_shift a b rel) /\ st_count (vote_select l') = st_count (fast_shift a b rel).
Proof. exact fast_shift_order_independent. Qed.

(** fast mode of PEAlign, the vote included: for EVERY pair of non-empty reads (bytes), every delta >= 0, both fast scores,
    the path consumes both reads and the reported score is the score of the returned path *)
Theorem C08_fast_path_consumes_both : forall sc gap a b rel delta,
  (1 <= length a)%nat -> (1 <= length b)%nat -> 0 <= delta ->
  exists isl s p, pealign_fast sc gap a b rel delta = Some (isl, s, p) /\
                  consumed p = (length a, length b) /\ path_score sc gap (length a) (length b) isl p = s.
Proof. exact pealign_fast_ok. Qed.

(** the last clause of the property.  Error-free reads cut from the fragment X ++ O ++ Y with an overlap O of at least one
    4-mer, A = X ++ O and B = O ++ Y (B starts inside A, or at the same position and ends later): whenever the true offset
    |X| is the STRICT maximiser of the diagonal score among the diagonals holding a vote, fast mode returns a left
    alignment whose consensus is the fragment (bases outside the overlap: IUPAC letters, qualities >= 0) ... *)
Theorem C08_fast_reassembly : forall sc gap X O Y qX qOa qOb qY rel delta,
  (4 <= length O)%nat -> (X <> [] \/ Y <> []) ->
  length qX = length X -> length qOa = length O -> length qOb = length O -> length qY = length Y ->
  letters X -> letters Y -> nonneg qX -> nonneg qY -> 0 <= delta ->
  (forall d, d <> Z.of_nat (length X) -> 1 <= diag_count (kmers (X ++ O)) (kmers (O ++ Y)) d ->
             (vsc rel (X ++ O) (O ++ Y) d < vsc rel (X ++ O) (O ++ Y) (Z.of_nat (length X)))%Q) ->
  exists s p, pealign_fast sc gap (X ++ O) (O ++ Y) rel delta = Some (true, s, p) /\
              consumed p = (length (X ++ O), length (O ++ Y)) /\
              path_score sc gap (length (X ++ O)) (length (O ++ Y)) true p = s /\
              consensus (X ++ O) (qX ++ qOa) (O ++ Y) (qOb ++ qY) p = X ++ O ++ Y /\
              p = [- Z.of_nat (length X); Z.of_nat (length O); Z.of_nat (length Y); 0].
Proof. exact fast_reassembly_left. Qed.

(** ... and the mirrored geometry B = X ++ O, A = O ++ Y (A starts inside B, or at the same position and ends later or
    at the same place; X = Y = [] are identical reads): right alignment, same fragment.  The two theorems cover every
    placement of two reads on a fragment EXCEPT a read that ends strictly inside the other one while starting after
    it (containment with trailing bases: C08_fast_containment_refuted). *)
Theorem C08_fast_reassembly_mirror : forall sc gap X O Y qX qOa qOb qY rel delta,
  (4 <= length O)%nat ->
  length qX = length X -> length qOa = length O -> length qOb = length O -> length qY = length Y ->
  letters X -> letters Y -> nonneg qX -> nonneg qY -> 0 <= delta ->
  (forall d, d <> - Z.of_nat (length X) -> 1 <= diag_count (kmers (O ++ Y)) (kmers (X ++ O)) d ->
             (vsc rel (O ++ Y) (X ++ O) d < vsc rel (O ++ Y) (X ++ O) (- Z.of_nat (length X)))%Q) ->
  exists s p, pealign_fast sc gap (O ++ Y) (X ++ O) rel delta = Some (false, s, p) /\
              consumed p = (length (O ++ Y), length (X ++ O)) /\
              path_score sc gap (length (O ++ Y)) (length (X ++ O)) false p = s /\
              consensus (O ++ Y) (qOa ++ qY) (X ++ O) (qX ++ qOb) p = X ++ O ++ Y /\
              p = [Z.of_nat (length X); Z.of_nat (length O); - Z.of_nat (length Y); 0].
Proof. exact fast_reassembly_right. Qed.

(** the hypotheses are satisfiable: acgtca / gtcat (X = ac, O = gtca, Y = t): one shared 4-mer, on diagonal 2 *)
Example C08_fast_reassembly_nonvacuous :
  (forall d, d <> 2 -> 1 <= diag_count (kmers ex_a) (kmers ex_b) d ->
             (vsc true ex_a ex_b d <
              vsc true ex_a ex_b 2)%Q) /\
  pealign_fast (fun i j => if (i =? j + 2)%nat then 14 else -80) (-161) [97; 99; 103; 116; 99; 97] [103; 116; 99; 97; 116] true 5
  = Some (true, 56, [-2; 4; 1; 0]).
Proof. exact fast_reassembly_example. Qed.

(** known finding fast-containment.  B = A[1..7) lies strictly inside A = taaagaca with ONE trailing base of A; error-free,
    q40 (match 14, mismatch -80, gap -161 as computed by the real code), the true offset 1 is the only diagonal holding
    votes (3 = every 4-mer of B) — yet fast mode does not take the identical-overlap shortcut (it compares the count with
    |A| - shift = 7, not with the 6 bases of B that face A), runs the left alignment, in which bases of A after the end of
    B are not free, and returns [-7 1 5 0]: the consensus is not the fragment. *)
Theorem C08_fast_containment_refuted :
  exists a b q sc gap,
    b = firstn 6 (skipn 1 a) /\ length a = 8%nat /\
    (exists fs, fast_shift a b false = (1, 3, fs)) /\
    (forall d, d <> 1 -> diag_count (kmers a) (kmers b) d = 0) /\
    exists isl s p, pealign_fast sc gap a b false 5 = Some (isl, s, p) /\ consensus a q b q p <> a.
Proof. exact fast_containment_refuted. Qed.

(** the path surgery alone: unaligned 5' end ++ path of the sub-alignment ++ unaligned 3' end *)
Theorem C08_fast_patch_consumes : forall e5 e3 p, p <> [] -> Nat.even (length p) = true ->
  expand (patch e5 e3 p) = pre e5 ++ expand p ++ pre e3 /\
  consumed (patch e5 e3 p) =
    (Z.to_nat (- e5) + fst (consumed p) + Z.to_nat (- e3), Z.to_nat e5 + snd (consumed p) + Z.to_nat e3)%nat.
Proof. intros e5 e3 p H1 H2. split; [exact (patch_expand e5 e3 p H1 H2) | exact (patch_consumed e5 e3 p H1 H2)]. Qed.

(** the surgery of the unchanged tree ([patch_old]: ends always added to the first / last indel run) loses bases:
    witness = the sub-alignment path observed on the real code for acccaca / aaccaa (fixed by a fix: commit) *)
Theorem C08_fast_path_refuted :
  exists e5 e3 p, p <> [] /\ Nat.even (length p) = true /\
    consumed (patch_old e5 e3 p) <>
    (Z.to_nat (- e5) + fst (consumed p) + Z.to_nat (- e3), Z.to_nat e5 + snd (consumed p) + Z.to_nat e3)%nat.
Proof. exact patch_old_refuted. Qed.

(** the unconditional reassembly clause is false by construction (known finding ambiguous-overlap): the fragment
    a^150 read as two error-free a^100 (q40: every pair scores 14, gap -161) is assembled as a^100 *)
Theorem C08_reassembly_refuted :
  exists frag a b q isl s p,
    a = firstn 100 frag /\ b = skipn 50 frag /\ length frag = 150%nat /\
    pealign_exact (fun _ _ => 14) (-161) 100 100 = Some (isl, s, p) /\
    consensus a q b q p <> frag.
Proof. exact reassembly_refuted. Qed.

(** conditional reassembly (what the property can demand of any aligner): if the columns of the alignment [q] that
    rebuilds the fragment are the STRICT optimum of the scheme, exact mode returns exactly these columns and therefore
    the same consensus.  (Fast mode: when the vote designates the true diagonal of error-free reads the shortcut
    returns [patch e5 e3 [0; overlap]], covered by C08_fast_path_consumes_both and by the oracle.) *)
Theorem C08_reassembly_if_strict_optimum : forall sc gap a qa b qb mq q,
  (1 <= length a)%nat -> (1 <= length b)%nat -> length qa = length a -> length qb = length b ->
  consumed q = (length a, length b) ->
  (forall m p, consumed p = (length a, length b) -> expand p <> expand q ->
               path_score sc gap (length a) (length b) m p < path_score sc gap (length a) (length b) mq q) ->
  exists isl s p, pealign_exact sc gap (length a) (length b) = Some (isl, s, p) /\
              expand p = expand q /\ consensus a qa b qb p = consensus a qa b qb q.
Proof. exact reassembly_if_strict. Qed.

Example C08_reassembly_nonvacuous : forall m p, consumed p = (1, 1)%nat -> expand p <> expand [0; 1] ->
  path_score (fun _ _ => 5) (-3) 1 1 m p < path_score (fun _ _ => 5) (-3) 1 1 true [0; 1].
Proof. exact reassembly_strict_example. Qed.

(** annotations of AssemblePESequences: the consensus is [ann_left] unaligned columns, then [ali_length] columns, then
    [ann_right] unaligned columns; a negative end run holds bases of A only and a positive one bases of B only, which is
    what seq_a_single / seq_b_single count (after the fix); the three numbers add up to the length of the consensus *)
Theorem C08_annotations_consistent : forall p, Nat.even (length p) = true ->
  (1 <= fst (consumed p))%nat -> (1 <= snd (consumed p))%nat ->
  exists mid, expand p = pre (ann_left p) ++ mid ++ pre (ann_right p) /\
              Z.of_nat (length mid) = ali_length p /\ 0 <= ali_length p /\
              Z.of_nat (fst (mconsumed (pre (ann_left p))) + fst (mconsumed (pre (ann_right p)))) = a_single p /\
              Z.of_nat (snd (mconsumed (pre (ann_left p))) + snd (mconsumed (pre (ann_right p)))) = b_single p /\
              a_single p + b_single p + ali_length p = Z.of_nat (length (expand p)).
Proof. exact ends_decomposition. Qed.

Example C08_annotations_nonvacuous :   (* B contains A: both ends are bases of B *)
  consumed [4; 30; 4; 0] = (30%nat, 38%nat) /\ ali_length [4; 30; 4; 0] = 30 /\
  a_single [4; 30; 4; 0] = 0 /\ b_single [4; 30; 4; 0] = 8.
Proof. vm_compute. repeat split; reflexivity. Qed.

(** fast mode, the selection loop of the 4-mer vote (FastShiftFourMer) over the map shift -> count visited in any
    order: the state after the loop is the entry of highest score and, among those, of smallest shift ... *)
Theorem C08_vote_selects_best_diagonal : forall l, l <> [] -> (forall e, In e l -> (0 <= v_score e)%Q) ->
  selects l (vote_select l).
Proof. exact vote_selects_winner. Qed.

(** ... hence the chosen diagonal and its count do not depend on Go's map iteration order *)
Theorem C08_vote_order_independent : forall l l',
  Permutation.Permutation l l' -> NoDup (map v_shift l) -> (forall e, In e l -> (0 <= v_score e)%Q) ->
  st_shift (vote_select l) = st_shift (vote_select l') /\ st_count (vote_select l) = st_count (vote_select l').
Proof. exact vote_order_independent. Qed.

Example C08_vote_nonvacuous :
  vote_select [mkv 5 3 (3#1)%Q; mkv (-2) 3 (3#1)%Q; mkv 7 1 (1#1)%Q] = ((-2)%Z, 3%Z, (3#1)%Q) /\
  vote_select [mkv 7 1 (1#1)%Q; mkv (-2) 3 (3#1)%Q; mkv 5 3 (3#1)%Q] = ((-2)%Z, 3%Z, (3#1)%Q).
Proof. exact vote_example. Qed.

Example C08_fast_nonvacuous :   (* 6 x 5 bases, B starts at A[2], one 4-mer... shift 2, count 1, delta 1 *)
  pealign_fast_with (fun i j => if (i =? j + 2)%nat then 5 else -4) (-3) 6 5 2 1 1 = Some (true, 20, [-2; 4; 1; 0]).
Proof. vm_compute. reflexivity. Qed.

(** ---- the column score (_PairingScorePeAlign): the quality-dependent match / mismatch entries are data, the integer
    structure is proved; the IUPAC tables are regenerated from the build (Gen/Tables.v) and everything below is re-proved
    over them on every run *)

(** the match ratio |X n Y| / (|X| |Y|) of two symbols is symmetric, lies in [0, 1], ... *)
Theorem C08_ratio_symmetric : forall x y, part_match x y = part_match y x.
Proof. exact part_match_sym. Qed.

Theorem C08_ratio_range : forall x y, (0 <= part_match x y <= 1)%Q.
Proof. exact part_match_range. Qed.

(** ... is 1 exactly for identical unambiguous bases (a symbol standing for ONE base, against a symbol with the same
    code: a/a, a/A, t/u; never n/n or r/r), ... *)
Theorem C08_ratio_one_iff : forall x y,
  (part_match x y == 1)%Q <-> (set_size (sym_code x) = 1 /\ sym_code x = sym_code y).
Proof. exact part_match_one_iff. Qed.

(** ... and 0 exactly when the two sets share no base (or a symbol is not a nucleotide code) *)
Theorem C08_ratio_zero_iff : forall x y,
  (part_match x y == 0)%Q <->
  (Z.land (sym_code x) (sym_code y) = 0 \/ set_size (sym_code x) = 0 \/ set_size (sym_code y) = 0).
Proof. exact part_match_zero_iff. Qed.

(** the switch of the real code, int(_NucPartMatch[i][j] * 100) computed with floats (regenerated table), is the
    truncation of 100 |X n Y| / (|X| |Y|) for all 32 x 32 symbol indices *)
Theorem C08_part_match_pct_table : forall i j, (i < 32)%nat -> (j < 32)%nat ->
  pct_of_model i j = nth j (nth i part_match_pct []) (-1).
Proof. exact pct_table. Qed.

(** ratio 1: the match entry; ratio 0: the scaled, rounded mismatch entry *)
Theorem C08_score_cases : forall mt mm scale x y,
  ((part_match x y == 1)%Q -> pairing_score mt mm scale (part_match x y) = mt) /\
  ((part_match x y == 0)%Q -> pairing_score mt mm scale (part_match x y) = qtrunc (inject_Z mm * scale + (1 # 2))).
Proof. exact score_cases. Qed.

(** whatever the ratio, the score lies between the mismatch and the match entries (match entry >= 0, scaled mismatch
    entry <= match entry) and the mixture grows with the ratio *)
Theorem C08_score_between : forall mt mm scale pm,
  0 <= mt -> (0 <= pm <= 1)%Q -> (inject_Z mm * scale <= inject_Z mt)%Q ->
  qtrunc (inject_Z mm * scale + (1 # 2)) <= pairing_score mt mm scale pm <= mt.
Proof. exact score_between. Qed.

(** the two score tables themselves (float formulae: data, regenerated): symmetric, and mismatch <= 0 <= match as soon as
    both qualities are >= 2, so that the bounds above hold for the real tables, every pair of symbols and every scale >= 0 *)
Theorem C08_score_tables : score_tables_ok = true /\
  forall qa qb scale x y, 2 <= qa <= 93 -> 2 <= qb <= 93 -> (0 <= scale)%Q ->
  qtrunc (inject_Z (tabz nuc_mismatch qa qb) * scale + (1 # 2)) <=
  pairing_score (tabz nuc_match qa qb) (tabz nuc_mismatch qa qb) scale (part_match x y) <= tabz nuc_match qa qb.
Proof. split; [exact score_tables | exact score_between_real]. Qed.

Theorem C08_score_monotone_in_ratio : forall mt mm scale p1 p2,
  (p1 <= p2)%Q -> (inject_Z mm * scale <= inject_Z mt)%Q ->
  qtrunc (mix mt mm scale p1) <= qtrunc (mix mt mm scale p2).
Proof. exact score_monotone. Qed.

Example C08_score_nonvacuous :   (* a/a, a/c, n/n (1/4), r/a (1/2) at q40 x q40: match entry 14, mismatch entry -81 *)
  pairing_score 14 (-81) 1 (part_match 97 97) = 14 /\ pairing_score 14 (-81) 1 (part_match 97 99) = -80 /\
  pairing_score 14 (-81) 1 (part_match 110 110) = -56 /\ pairing_score 14 (-81) 1 (part_match 114 97) = -33 /\
  (part_match 110 110 == 1 # 4)%Q /\ (part_match 114 98 == 1 # 6)%Q.
Proof. vm_compute. repeat split; reflexivity. Qed.

(** ---- consensus qualities and annotations of AssemblePESequences (integers and strings) *)

(** qualities and the match count are computed column by column, from that column alone *)
Theorem C08_quality_columns : forall p a qa b qb,
  consumed p = (length a, length b) -> length qa = length a -> length qb = length b ->
  consensus_qual a qa b qb p = map (app4 cons_qual) (cols (expand p) a qa b qb) /\
  length (consensus_qual a qa b qb p) = length (expand p) /\
  Forall (fun q => 0 <= q <= 90) (consensus_qual a qa b qb p) /\
  match_count a qa b qb p = zsum (map (app4 is_match) (cols (expand p) a qa b qb)).
Proof.
  intros p a qa b qb Hc Hqa Hqb. split; [now apply columns_map_cols|]. split; [now apply columns_map_length|].
  split; [now apply consensus_qual_range|]. unfold match_count, zsum. now rewrite columns_map_cols.
Qed.

(** the two quality tables, regenerated by running the real BuildQualityConsensus on every one-column alignment
    (qualities 0..93): entries in 0..90, symmetric, agreeing bases min(qa + qb, 90), a quality 0 (a gap) gives the same
    in both tables, disagreeing bases at least the higher quality (capped at 90) *)
Theorem C08_quality_tables : quality_tables_ok = true.
Proof. exact quality_tables. Qed.

(** what AssemblePESequences writes is consistent with the sequence it returns: ali_length, seq_ab_match <= ali_length,
    score, ali_dir; mode = alignment exactly when ali_length >= minOverlap and seq_ab_match / ali_length >= minIdentity,
    and then sequence = consensus, one quality (0..90) per base, seq_a_single + seq_b_single + ali_length = length;
    mode = join: A, ten dots, B with ten zero qualities *)
Theorem C08_assemble_consistent : forall a qa b qb isl score p minov minid,
  Nat.even (length p) = true -> (1 <= length a)%nat -> (1 <= length b)%nat ->
  consumed p = (length a, length b) -> length qa = length a -> length qb = length b ->
  let r := assemble a qa b qb isl score p minov minid in
  as_ali r = ali_length p /\ as_match r = match_count a qa b qb p /\ 0 <= as_match r <= as_ali r /\
  as_score r = score /\ as_dirleft r = isl /\
  (as_mode r = true ->
     as_seq r = consensus a qa b qb p /\ as_qual r = consensus_qual a qa b qb p /\
     length (as_qual r) = length (as_seq r) /\ Forall (fun q => 0 <= q <= 90) (as_qual r) /\
     as_asingle r = a_single p /\ as_bsingle r = b_single p /\
     Z.of_nat (length (as_seq r)) = as_asingle r + as_bsingle r + as_ali r /\
     minov <= as_ali r /\ (minid <= ident_of (as_match r) (as_ali r))%Q) /\
  (as_mode r = false ->
     as_seq r = a ++ ten 46 ++ b /\ as_qual r = qa ++ ten 0 ++ qb /\
     (as_ali r < minov \/ ~ (minid <= ident_of (as_match r) (as_ali r))%Q)).
Proof. exact assemble_consistent. Qed.

(** the last clause of the property at the level of obipairing.AssemblePESequences (PEAlign fast + consensus +
    annotations): error-free reads whose true offset is the strict maximiser of the vote, overlap qualities > 0,
    minOverlap <= |O|, minIdentity <= 1: the record is mode = alignment, sequence = the fragment X ++ O ++ Y,
    ali_length = seq_ab_match = |O|, seq_a_single = |X|, seq_b_single = |Y|, ali_dir = left, score = the score of PEAlign *)
Theorem C08_fast_reassembly_record : forall sc gap X O Y qX qOa qOb qY rel delta minov minid,
  (4 <= length O)%nat -> (X <> [] \/ Y <> []) ->
  length qX = length X -> length qOa = length O -> length qOb = length O -> length qY = length Y ->
  letters X -> letters Y -> nonneg qX -> nonneg qY -> positive qOa -> positive qOb -> 0 <= delta ->
  minov <= Z.of_nat (length O) -> (minid <= 1)%Q ->
  (forall d, d <> Z.of_nat (length X) -> 1 <= diag_count (kmers (X ++ O)) (kmers (O ++ Y)) d ->
             (vsc rel (X ++ O) (O ++ Y) d < vsc rel (X ++ O) (O ++ Y) (Z.of_nat (length X)))%Q) ->
  exists s p, pealign_fast sc gap (X ++ O) (O ++ Y) rel delta = Some (true, s, p) /\
    assemble (X ++ O) (qX ++ qOa) (O ++ Y) (qOb ++ qY) true s p minov minid =
    mka true (X ++ O ++ Y) (consensus_qual (X ++ O) (qX ++ qOa) (O ++ Y) (qOb ++ qY) p)
        (Z.of_nat (length O)) (Z.of_nat (length O)) (Z.of_nat (length X)) (Z.of_nat (length Y)) true s.
Proof. exact fast_reassembly_record_left. Qed.

(** mirrored geometry (B = X ++ O, A = O ++ Y): ali_dir = right, seq_a_single = |Y|, seq_b_single = |X| *)
Theorem C08_fast_reassembly_record_mirror : forall sc gap X O Y qX qOa qOb qY rel delta minov minid,
  (4 <= length O)%nat ->
  length qX = length X -> length qOa = length O -> length qOb = length O -> length qY = length Y ->
  letters X -> letters Y -> nonneg qX -> nonneg qY -> positive qOa -> positive qOb -> 0 <= delta ->
  minov <= Z.of_nat (length O) -> (minid <= 1)%Q ->
  (forall d, d <> - Z.of_nat (length X) -> 1 <= diag_count (kmers (O ++ Y)) (kmers (X ++ O)) d ->
             (vsc rel (O ++ Y) (X ++ O) d < vsc rel (O ++ Y) (X ++ O) (- Z.of_nat (length X)))%Q) ->
  exists s p, pealign_fast sc gap (O ++ Y) (X ++ O) rel delta = Some (false, s, p) /\
    assemble (O ++ Y) (qOa ++ qY) (X ++ O) (qX ++ qOb) false s p minov minid =
    mka true (X ++ O ++ Y) (consensus_qual (O ++ Y) (qOa ++ qY) (X ++ O) (qX ++ qOb) p)
        (Z.of_nat (length O)) (Z.of_nat (length O)) (Z.of_nat (length Y)) (Z.of_nat (length X)) false s.
Proof. exact fast_reassembly_record_right. Qed.

Example C08_assemble_nonvacuous :   (* acg/[30,10,40] vs cgt/[20,20,20], path [-1 2 1 0], minOverlap 2, minIdentity 9/10 *)
  assemble [97; 99; 103] [30; 10; 40] [99; 103; 116] [20; 20; 20] true 28 [-1; 2; 1; 0] 2 (9 # 10) =
  mka true [97; 99; 103; 116] [30; 30; 60; 20] 2 2 1 1 true 28 /\
  as_mode (assemble [97; 99; 103] [30; 10; 40] [99; 103; 116] [20; 20; 20] true 28 [-1; 2; 1; 0] 3 (9 # 10)) = false.
Proof. vm_compute. split; reflexivity. Qed.

(** hypotheses are satisfiable and the pipeline computes: 3 x 4 bases, match 5 / mismatch -4, gap -3 *)
Example C08_exact_nonvacuous :
  pealign_exact (fun i j => if (i =? j)%nat then 5 else -4) (-3) 3 4 = Some (true, 15, [0; 3; 1; 0]).
Proof. vm_compute. reflexivity. Qed.

Print Assumptions C08_fill_backtrack_valid.
Print Assumptions C08_path_consumes_both.
Print Assumptions C08_score_is_path_score.
Print Assumptions C08_exact_reports_score.
Print Assumptions C08_fill_optimal.
Print Assumptions C08_exact_optimal.
Print Assumptions C08_consensus_columns.
Print Assumptions C08_consensus_rule.
Print Assumptions C08_base_beats_gap.
Print Assumptions C08_consensus_union_examples.
Print Assumptions C08_fast_path_consumes_both.
Print Assumptions C08_fast_after_vote_valid.
Print Assumptions C08_encode4mer_windows.
Print Assumptions C08_vote_counts_exact.
Print Assumptions C08_vote_count_bounds.
Print Assumptions C08_vote_overlap_positive.
Print Assumptions C08_fast_shift_selects.
Print Assumptions C08_fast_shift_order_independent.
Print Assumptions C08_fast_reassembly.
Print Assumptions C08_fast_reassembly_mirror.
Print Assumptions C08_fast_containment_refuted.
Print Assumptions C08_fast_patch_consumes.
Print Assumptions C08_fast_path_refuted.
Print Assumptions C08_reassembly_refuted.
Print Assumptions C08_reassembly_if_strict_optimum.
Print Assumptions C08_vote_selects_best_diagonal.
Print Assumptions C08_vote_order_independent.
Print Assumptions C08_annotations_consistent.
Print Assumptions C08_ratio_symmetric.
Print Assumptions C08_ratio_range.
Print Assumptions C08_ratio_one_iff.
Print Assumptions C08_ratio_zero_iff.
Print Assumptions C08_part_match_pct_table.
Print Assumptions C08_score_cases.
Print Assumptions C08_score_between.
Print Assumptions C08_score_monotone_in_ratio.
Print Assumptions C08_score_tables.
Print Assumptions C08_quality_columns.
Print Assumptions C08_quality_tables.
Print Assumptions C08_assemble_consistent.
Print Assumptions C08_fast_reassembly_record.
Print Assumptions C08_fast_reassembly_record_mirror.
