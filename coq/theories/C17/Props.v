(* C17 — truncated or corrupt compressed input is reported, never silently accepted: obligations.
   Codec contract (assumption, validated by the harness on every run, see TRUSTED): a damaged
   container is decoded into a stream whose `fin` is not REof. *)
From Coq Require Import List NArith ZArith Bool.
Import ListNotations.
From OBI.C17 Require Import Model Proofs.
Open Scope N_scope.

(* [core] repaired read path, every buffer size B and extension-read size >= 1 (B-1 in the code, B after the C01 repair), every sniffer size (or none), every splitter that
   cuts inside the buffer, every detector: a stream that ends with anything but a clean EOF is fatal *)
Theorem C17_fault_is_fatal :
  forall (split : list N -> option nat) (B ext : N) (detect : list N -> bool) (sn : option N) (s : stream),
    (forall b e, split b = Some e -> (0 < e <= length b)%nat) -> 1 <= ext ->
    fin s <> REof -> command_gen split B ext detect sn s = ExitFatal.
Proof. intros split B ext detect sn s Hs HE Hf. exact (command_fault_is_fatal split B ext Hs HE detect sn s Hf). Qed.

(* [core] ... and a stream that ends cleanly (empty, or of a recognised format) exits 0 after delivering every
   byte of the data (up to the line ends stripped at chunk boundaries) *)
Theorem C17_clean_input_is_complete :
  forall (split : list N -> option nat) (B ext : N) (detect : list N -> bool) (sn : option N) (s : stream),
    (forall b e, split b = Some e -> (0 < e <= length b)%nat) -> 1 <= ext ->
    fin s = REof -> (data s = [] \/ forall n, sn = Some n -> detect (sniffed n s) = true) ->
    exists ch, command_gen split B ext detect sn s = ExitOk ch /\ sig (concat ch) = sig (data s).
Proof. intros split B ext detect sn s Hs HE Hf Hd. exact (command_clean_is_complete split B ext Hs HE detect sn s Hf Hd). Qed.

(* the transcribed EndOfLastFastaEntry satisfies the splitter hypothesis *)
Theorem C17_fasta_splitter_cuts_inside :
  forall b e, fasta_split b = Some e -> (0 < e <= length b)%nat.
Proof. exact fasta_split_ok. Qed.

(* production instance (1 MiB sniffer, 1 MiB chunks, EndOfLastFastaEntry, any extension-read size >= 1:
   fileChunkSize-1 in the code, fileChunkSize after the C01 repair), no hypothesis left *)
Theorem C17_fault_is_fatal_production :
  forall ext s, 1 <= ext -> fin s <> REof -> command_outcome_with ext s = ExitFatal.
Proof.
  intros ext s He Hf. unfold command_outcome_with.
  apply (command_fault_is_fatal fasta_split CHUNK ext fasta_split_ok); [exact He | exact Hf].
Qed.

Theorem C17_clean_input_is_complete_production :
  forall ext s, 1 <= ext -> fin s = REof -> (data s = [] \/ fasta_detect (sniffed SNIFF s) = true) ->
    exists ch, command_outcome_with ext s = ExitOk ch /\ sig (concat ch) = sig (data s).
Proof.
  intros ext s He Hf Hd. unfold command_outcome_with.
  apply (command_clean_is_complete fasta_split CHUNK ext fasta_split_ok); [exact He | exact Hf |].
  destruct Hd as [Hd|Hd]; [left; exact Hd | right; intros n Hn; inversion Hn; subst; exact Hd].
Qed.

(* the repair is invisible on streams that end cleanly *)
Theorem C17_repair_conservative :
  forall split B ext detect sn s, fin s = REof ->
    command_gen_orig split B ext detect sn s = command_gen split B ext detect sn s.
Proof. exact repair_conservative. Qed.

(* The unrepaired error handling violates the property (the finding; the same inputs fail on the real
   unrepaired code): *)
(* 1. a gzip stream cut inside its second record: the decompressor's io.ErrUnexpectedEOF is taken for
      io.ReadFull's short read by the sniffer, the command exits 0 with the first record and a half *)
Definition trunc_witness : stream :=
  mkstream [62;97;10;97;99;103;116;10;62;98;10;97;99] RUnexpectedEof.     (* ">a\nacgt\n>b\nac" *)

Theorem C17_fault_is_fatal_orig_refuted :
  exists s, fin s = RUnexpectedEof /\
    command_outcome_orig s = ExitOk [[62;97;10;97;99;103;116]; [62;98;10;97;99]].
Proof. exists trunc_witness. split; [reflexivity | vm_compute; reflexivity]. Qed.

(* 2. same through ReadSeqFileChunk alone, with a small buffer (no sniffer in between) *)
Theorem C17_chunker_orig_refuted :
  exists s B ext, fin s = RUnexpectedEof /\ 1 <= ext /\
    command_gen_orig fasta_split B ext fasta_detect None s = ExitOk [[62;97;10;97;99;103;116]; [62;98;10;97;99]].
Proof. exists trunc_witness, 4, 3. split; [reflexivity | split; [discriminate | vm_compute; reflexivity]]. Qed.

(* 3. a read error (any kind) before the first byte is reported as an empty file *)
Theorem C17_first_read_error_orig_refuted :
  exists s, fin s = ROther /\ command_outcome_orig s = ExitOk [].
Proof. exists (mkstream [] ROther). split; [reflexivity | vm_compute; reflexivity]. Qed.

(* ... and the repaired handling is fatal on these very witnesses *)
Theorem C17_witnesses_repaired :
  command_outcome trunc_witness = ExitFatal /\
  command_gen fasta_split 4 3 fasta_detect None trunc_witness = ExitFatal /\
  command_outcome (mkstream [] ROther) = ExitFatal.
Proof. vm_compute. repeat split; reflexivity. Qed.

(* hypotheses are satisfiable / the ok branch is reachable: a clean two-record stream is delivered entirely *)
Example C17_clean_input_nonvacuous :
  let s := mkstream [62;97;10;97;99;103;116;10;62;98;10;97;99;10] REof in
  fin s = REof /\ fasta_detect (sniffed SNIFF s) = true /\
  command_outcome s = ExitOk [[62;97;10;97;99;103;116]; [62;98;10;97;99]] /\
  command_gen fasta_split 3 2 fasta_detect (Some 5) s = ExitOk [[62;97;10;97;99;103;116]; [62;98;10;97;99]].
Proof. vm_compute. repeat split; reflexivity. Qed.

(* ================================================================ round 2 ================================================================ *)
(* --- xopen's end-of-stream guard for xz (the library ends several truncations with a clean io.EOF) *)

(* xzStreamEnd, fed by any sequence of Read calls, decides exactly "the bytes read end with a valid index (when it fits in the
   window) and a valid stream footer followed by stream padding (a multiple of 4 zero bytes)": the verdict depends on the
   concatenation of the chunks only, for every size of the window *)
Theorem C17_xz_tracker_schedule_independent :
  forall chunks : list (list N), xz_complete_st (xz_track chunks) = xz_complete (concat chunks).
Proof. exact xz_track_complete. Qed.

(* [core] whatever the xz library answers (clean EOF included) and whatever it decoded, an xz container which does not end with
   a valid stream footer makes the command fatal: the codec contract is no longer an assumption for this class of damage *)
Theorem C17_xz_guard_rejects_incomplete :
  forall (split : list N -> option nat) (B ext : N) (detect : list N -> bool) (sn : option N) (raw data : list N) (lib : rfin),
    (forall b e, split b = Some e -> (0 < e <= length b)%nat) -> 1 <= ext ->
    xz_complete raw = false ->
    command_gen split B ext detect sn (mkstream data (xz_guard raw lib)) = ExitFatal.
Proof.
  intros split B ext detect sn raw data lib Hs HE Hc.
  apply (command_fault_is_fatal split B ext Hs HE detect sn). cbn [fin]. apply xz_guard_not_eof. exact Hc.
Qed.

Theorem C17_xz_tracker_schedule_independent_any_window :
  forall W (chunks : list (list N)), xz_complete_st (xz_track_w W chunks) = xz_complete_w W (concat chunks).
Proof. exact xz_track_complete_w. Qed.

(* the guard changes nothing on a container which ends with a stream footer *)
Theorem C17_xz_guard_transparent :
  forall raw lib, xz_complete raw = true -> xz_guard raw lib = lib.
Proof. exact xz_guard_transparent. Qed.

(* without the guard (round-1 state): the 12 bytes stream header alone, which the library ends with a clean EOF before any data,
   is an EMPTY FILE for xopen.Buf (ErrNoContent) and the command exits 0; with the guard it is fatal. Same on the real code. *)
Theorem C17_xz_unguarded_refuted :
  xz_complete xz_header_only = false /\
  command_outcome (mkstream [] REof) = ExitOk [] /\
  command_outcome (mkstream [] (xz_guard xz_header_only REof)) = ExitFatal /\
  xz_guard xz_empty_container REof = REof.
Proof. vm_compute. repeat split; reflexivity. Qed.

(* ErrNoContent (the input is handled as an empty file) is answered only for an empty decoded stream which ends cleanly; behind
   the xz guard only if moreover the compressed bytes end with a stream footer *)
Theorem C17_no_content_only_if_clean_and_empty :
  forall s, open_fixed (wrap s) = NoContent -> data s = [] /\ fin s = REof.
Proof.
  intros [d f] H. unfold open_fixed, wrap in H. cbn [rdata rfin_ data fin] in *.
  destruct d; [|discriminate]. destruct f; try discriminate. split; reflexivity.
Qed.

Theorem C17_xz_no_content_only_if_complete :
  forall raw data lib, open_fixed (wrap (mkstream data (xz_guard raw lib))) = NoContent -> data = [] /\ xz_complete raw = true.
Proof.
  intros raw data lib H. apply C17_no_content_only_if_clean_and_empty in H. cbn [Model.data fin] in H.
  destruct H as [Hd Hf]. split; [exact Hd|].
  destruct (xz_complete raw) eqn:E; [reflexivity|]. exfalso. eapply xz_guard_not_eof; eassumption.
Qed.

(* --- readers with a read schedule (source with per-call sizes and a final error delivered alone or together with the last
       bytes, bytes.Reader, io.MultiReader, bufio.Reader) *)

(* io.ReadFull as the loop of Read calls gives the bytes and the error of the abstract `readfull` on the stream the reader stands
   for, and leaves a reader which stands for the rest: the round-1 theorems hold for every read schedule *)
Theorem C17_readfull_schedule_independent :
  forall k r a r' e, wf r -> readfull_s k k [] r = (a, r', e) ->
    wf r' /\ fst (fst (readfull (N.of_nat k) (den_stream r))) = a /\ snd (readfull (N.of_nat k) (den_stream r)) = e /\
    (e = ENil -> snd (fst (readfull (N.of_nat k) (den_stream r))) = den_stream r').
Proof. exact readfull_schedule_independent. Qed.

(* OBIMimeTypeGuesser on readers (ReadFull of sn bytes, detection on the whole zero padded buffer, MultiReader(bytes.Reader, stream)
   or bytes.Reader alone) is the `sniff` of the abstract model *)
Theorem C17_sniffer_refines_model :
  forall sn r, wf r ->
    match sniff_s sn r, sniff (N.of_nat sn) (den_stream r) with
    | Some (seen, r1), Some (a, s1) => seen = a ++ repeat 0 (sn - length a) /\ den_stream r1 = s1 /\ wf r1
    | None, None => True
    | _, _ => False
    end.
Proof. exact sniff_s_refines. Qed.

(* [core] no byte is lost or duplicated between sniffing and parsing, the way the stream ends is kept: for every source, read
   schedule and buffering layer the reader handed to the parser stands for exactly the stream of the source; the detector has
   seen its first sn bytes, padded with zeros up to sn *)
Theorem C17_sniffer_conserves_stream :
  forall sn r seen r1, wf r -> snd (den r) <> FUnexpected -> sniff_s sn r = Some (seen, r1) ->
    wf r1 /\ den r1 = den r /\ seen = firstn sn (fst (den r)) ++ repeat 0 (sn - length (firstn sn (fst (den r)))).
Proof. exact sniffer_conserves_stream. Qed.

(* a consumer reading with any request sizes until the first error receives all the bytes of the stream, then its end *)
Theorem C17_drain_any_schedule :
  forall fuel ks r, wf r -> (length (fst (den r)) < fuel)%nat -> drain fuel ks r = (fst (den r), Some (snd (den r))).
Proof. exact drain_den. Qed.

(* end to end: source (any schedule, error alone or with the last bytes) -> bufio.Reader of xopen.Buf -> OBIMimeTypeGuesser ->
   bufio.Reader of readSequencesFromReader -> any consumer: exactly the bytes of the source, then its final error *)
Theorem C17_sniff_pipeline_conserves :
  forall d sch f eager bs1 bs2 sn seen r1 ks fuel, f <> FUnexpected ->
    sniff_s sn (RBuf bs1 [] None (RSrc d sch f eager)) = Some (seen, r1) -> (length d < fuel)%nat ->
    drain fuel ks (RBuf bs2 [] None r1) = (d, Some f).
Proof. exact sniff_pipeline_conserves. Qed.

(* [core] the fault theorem at the level of readers: whatever the read schedule, a reader whose stream ends with ErrTruncatedInput
   or another error makes the command fatal *)
Theorem C17_fault_is_fatal_any_schedule :
  forall (split : list N -> option nat) (B ext : N) (detect : list N -> bool) (sn : option N) (r : reader),
    (forall b e, split b = Some e -> (0 < e <= length b)%nat) -> 1 <= ext ->
    snd (den r) = FTruncated \/ snd (den r) = FOther ->
    pipeline split B ext detect open_fixed sn (den_stream r) = ExitFatal.
Proof.
  intros split B ext detect sn r Hs HE Hf.
  assert (E : exists s, den_stream r = wrap s /\ fin s <> REof).
  { unfold den_stream. destruct Hf as [Hf|Hf]; rewrite Hf.
    - exists (mkstream (fst (den r)) RUnexpectedEof). split; [reflexivity | discriminate].
    - exists (mkstream (fst (den r)) ROther). split; [reflexivity | discriminate]. }
  destruct E as (s & Es & Hne). rewrite Es.
  exact (command_fault_is_fatal split B ext Hs HE detect sn s Hne).
Qed.

(* the schedule-level definitions compute: eager EOF, 1/3/1/7-byte reads, two bufio layers of 4 and 3 bytes, sniffer of 5 bytes *)
Example C17_schedule_nonvacuous :
  let src := RBuf 4 [] None (RSrc [62;97;10;97;99;103;116;10;62;98;10;97;99;10] [0;2;0;6]%nat FEof true) in
  exists seen r1, sniff_s 5 src = Some (seen, r1) /\ seen = [62;97;10;97;99] /\
    drain 40 [0;3;1]%nat (RBuf 3 [] None r1) = ([62;97;10;97;99;103;116;10;62;98;10;97;99;10], Some FEof).
Proof. eexists. eexists. vm_compute. repeat split; reflexivity. Qed.

Example C17_xz_guard_nonvacuous :
  xz_complete (xz_empty_container ++ [0;0;0;0]) = true /\ xz_complete (xz_empty_container ++ [0;0;0]) = false /\
  xz_complete (firstn 12 xz_empty_container ++ [128] ++ skipn 13 xz_empty_container) = false /\
  xz_complete_st (xz_track [firstn 14 xz_empty_container; firstn 17 (skipn 14 xz_empty_container); skipn 31 xz_empty_container]) = true.
Proof. vm_compute. repeat split; reflexivity. Qed.


(* ================================================================ round 3 ================================================================ *)
(* --- the raw input behind shortInputReporter (the decompressors behind truncationReporter): io.ErrUnexpectedEOF is renamed *)

(* the function-level wrapper `report_src` is the Go wrapper: every Read of the wrapped source is the Read of the source with its
   error renamed (io.ErrUnexpectedEOF -> ErrShortInput / ErrTruncatedInput), same bytes, same schedule *)
Theorem C17_reporter_is_read_wrapper :
  forall k d sch f eager,
    read k (RSrc d sch (report_err f) eager) =
    let '(x, e, r') := read k (RSrc d sch f eager) in (x, report_opt e, report_src r').
Proof. exact read_report_src. Qed.

(* [core] EVERY way a raw input can end other than a clean EOF -- io.ErrUnexpectedEOF included, which round 2 had to exclude
   (hypothesis `snd (den r) <> FUnexpected`, `f <> FUnexpected`) -- is fatal behind the reporter, for every read schedule, error
   delivered alone or with the last bytes, every bufio size, sniffer, chunk size and splitter *)
Theorem C17_short_input_is_fatal_any_schedule :
  forall (split : list N -> option nat) (B ext : N) (detect : list N -> bool) (sn : option N) d sch f eager bs,
    (forall b e, split b = Some e -> (0 < e <= length b)%nat) -> 1 <= ext -> f <> FEof ->
    pipeline split B ext detect open_fixed sn (den_stream (RBuf bs [] None (RSrc d sch (report_err f) eager))) = ExitFatal.
Proof. exact short_input_is_fatal_any_schedule. Qed.

(* ... and the sniffing pipeline conserves the bytes and the (renamed) end of every source: no hypothesis on f any more *)
Theorem C17_reported_pipeline_conserves :
  forall d sch f eager bs1 bs2 sn seen r1 ks fuel,
    sniff_s sn (RBuf bs1 [] None (RSrc d sch (report_err f) eager)) = Some (seen, r1) -> (length d < fuel)%nat ->
    drain fuel ks (RBuf bs2 [] None r1) = (d, Some (report_err f)).
Proof. exact reported_pipeline_conserves. Qed.

(* the finding of round 3 (same input fails on the real unrepaired code): a plain input whose reader ends with io.ErrUnexpectedEOF
   (HTTP body shorter than its Content-Length), handed over without the reporter, exits 0 with the first record and a half;
   behind the reporter it is fatal *)
Theorem C17_short_input_unreported_refuted :
  pipeline fasta_split CHUNK EXT fasta_detect open_fixed (Some SNIFF) (den_stream (RBuf 4 [] None (RSrc short_witness [] FUnexpected false)))
    = ExitOk [[62;97;10;97;99;103;116]; [62;98;10;97;99]] /\
  pipeline fasta_split CHUNK EXT fasta_detect open_fixed (Some SNIFF) (den_stream (RBuf 4 [] None (RSrc short_witness [] (report_err FUnexpected) false)))
    = ExitFatal.
Proof. exact short_input_unreported_refuted. Qed.

(* --- several inputs (file arguments, directory, --paired-with) *)

(* the command on one input never hangs: fatal or successful, nothing else (the model's fuel is never exhausted) *)
Theorem C17_command_never_diverges :
  forall (split : list N -> option nat) (B ext : N) (detect : list N -> bool) (sn : option N) (s : stream),
    (forall b e, split b = Some e -> (0 < e <= length b)%nat) -> 1 <= ext ->
    command_gen split B ext detect sn s = ExitFatal \/ exists ch, command_gen split B ext detect sn s = ExitOk ch.
Proof. intros split B ext detect sn s Hs HE. exact (command_total split B ext Hs HE detect sn s). Qed.

(* [core] one damaged input among any number of inputs, at any place in the list, makes the command fatal *)
Theorem C17_multi_fault_is_fatal :
  forall (split : list N -> option nat) (B ext : N) (detect : list N -> bool) (sn : option N) (l : list stream),
    (forall b e, split b = Some e -> (0 < e <= length b)%nat) -> 1 <= ext ->
    Exists (fun s => fin s <> REof) l -> multi_command split B ext detect sn l = ExitFatal.
Proof. exact multi_fault_is_fatal_gen. Qed.

(* ... inputs which all end cleanly are delivered entirely, in order *)
Theorem C17_multi_clean_is_complete :
  forall (split : list N -> option nat) (B ext : N) (detect : list N -> bool) (sn : option N) (l : list stream),
    (forall b e, split b = Some e -> (0 < e <= length b)%nat) -> 1 <= ext ->
    Forall (fun s => fin s = REof /\ (data s = [] \/ forall n, sn = Some n -> detect (sniffed n s) = true)) l ->
    exists ch, multi_command split B ext detect sn l = ExitOk ch /\ sig (concat ch) = concat (map (fun s => sig (data s)) l).
Proof. intros split B ext detect sn l Hs HE. exact (multi_clean_is_complete split B ext Hs HE detect sn l). Qed.

(* ... and status 0 is only reached when every input ended cleanly *)
Theorem C17_multi_ok_only_if_all_clean :
  forall (split : list N -> option nat) (B ext : N) (detect : list N -> bool) (sn : option N) (l : list stream) ch,
    (forall b e, split b = Some e -> (0 < e <= length b)%nat) -> 1 <= ext ->
    multi_command split B ext detect sn l = ExitOk ch -> Forall (fun s => fin s = REof) l.
Proof. intros split B ext detect sn l ch Hs HE. exact (multi_ok_only_if_all_clean split B ext Hs HE detect sn l ch). Qed.

(* hypotheses met / the definitions compute: two clean inputs, a cut one in the middle, the correspondence function *)
Example C17_multi_nonvacuous :
  let a := mkstream [62;97;10;97;99;103;116;10] REof in
  let b := mkstream [62;98;10;97;99;10] REof in
  let bcut := mkstream [62;98;10;97] RUnexpectedEof in
  multi_command fasta_split CHUNK EXT fasta_detect (Some SNIFF) [a; b] = ExitOk [[62;97;10;97;99;103;116]; [62;98;10;97;99]] /\
  multi_command fasta_split CHUNK EXT fasta_detect (Some SNIFF) [a; bcut; b] = ExitFatal /\
  multi_mismatches [mkm [mkc [62;97;10;97;99;103;116;10] REof true (Some 1048576) 1048576 1048576 true OFatal;
                         mkc [62;98;10;97] RUnexpectedEof true (Some 1048576) 1048576 1048576 true OFatal] OFatal;
                    mkm [mkc [62;97;10;97;99;103;116;10] REof true (Some 1048576) 1048576 1048576 true OFatal] OOkAll;
                    mkm [mkc [62;97;10;97;99;103;116;10] REof true (Some 1048576) 1048576 1048576 true OFatal] OFatal] = [2%nat].
Proof. vm_compute. repeat split; reflexivity. Qed.

(* --- xopen.Buf: the decompressor is chosen from the magic number (CheckBytes; gzip 2 bytes, zstd 4, xz 6, bzip2 3, tested in this order) *)
(* [the repair of round 3] a stream which begins with the complete magic number of a format goes to that decompressor WHATEVER ITS LENGTH
   (so that its truncation is the decompressor's to report); plain data is only what begins with none of the four; the repair changes
   nothing from six bytes on; the original chain gave up at the first magic number longer than the stream: "BZh9" (a bzip2 file cut to
   4 bytes) was plain data. Same on the real unrepaired code: `printf BZh9 | obiconvert --embl` exits 0. *)
Theorem C17_codec_selected_by_magic :
  forall c r, c <> CRaw -> select check_fixed (magic c ++ r) = c.
Proof. exact select_fixed_magic. Qed.

Theorem C17_plain_only_without_magic :
  forall l, select check_fixed l = CRaw <-> (forall c, c <> CRaw -> prefixb (magic c) l = false).
Proof. exact select_fixed_raw. Qed.

Theorem C17_magic_repair_conservative :
  forall l, (6 <= length l)%nat -> select check_orig l = select check_fixed l.
Proof. exact select_conservative. Qed.

Theorem C17_short_bzip2_orig_refuted :
  select check_orig [66; 90; 104; 57] = CRaw /\ select check_fixed [66; 90; 104; 57] = CBz2 /\
  select check_orig [66; 90; 104; 57; 49] = CRaw /\ select check_orig [66; 90; 104] = CRaw.
Proof. exact select_orig_short_bzip2. Qed.

Example C17_select_nonvacuous :
  select check_fixed [31; 139; 8; 0] = CGz /\ select check_fixed [62; 97; 10] = CRaw /\ select check_fixed [253; 55; 122; 88; 90] = CRaw /\
  sel_mismatches [mks [31; 139; 8] false; mks [62; 97] true; mks [66; 90; 104; 57] true] = [2%nat].
Proof. vm_compute. repeat split; reflexivity. Qed.

(* --- ExpandListOfFiles: which files a command reads (file arguments; directory arguments searched for the accepted names) *)
(* no file is read twice *)
Theorem C17_expand_no_duplicate : forall args, NoDup (expand args).
Proof. exact expand_NoDup. Qed.

(* nothing is read but file arguments and files with an accepted name below a directory argument *)
Theorem C17_expand_sound :
  forall args q, In q (expand args) ->
    In (AFile q) args \/ exists fs, In (ADir fs) args /\ In q fs /\ accepted q = true.
Proof. exact expand_sound. Qed.

(* [core] every file with an accepted name below a directory argument is read, wherever the directory stands in the list *)
Theorem C17_expand_complete_directories :
  forall args fs q, In (ADir fs) args -> In q fs -> accepted q = true -> In q (expand args).
Proof. exact expand_complete_dir. Qed.

(* [core] every file argument is read, whatever precedes it (the filter on extensions concerns the content of directory arguments
   only, since the repair of ExpandListOfFiles made under C03; C03_expand_v0_refuted holds the behaviour before it) *)
Theorem C17_expand_complete_files :
  forall args q, In (AFile q) args -> In q (expand args).
Proof. exact expand_complete_file. Qed.

Theorem C17_expand_order_independent_content :
  expand [AFile dtxt; ADir [dfa]] = [dtxt; dfa] /\ expand [ADir [dfa]; AFile dtxt] = [dfa; dtxt].
Proof. exact expand_order_independent_content. Qed.

Example C17_expand_nonvacuous :
  accepted dfa = true /\ accepted dtxt = false /\
  exp_mismatches [mke [ADir [dfa; dtxt]; AFile dfa] [dfa]; mke [AFile dtxt] [dtxt]; mke [ADir [dfa]] []; mke [ADir [dfa]; AFile dtxt] [dfa; dtxt]] = [2%nat].
Proof. vm_compute. repeat split; reflexivity. Qed.

Print Assumptions C17_fault_is_fatal.
Print Assumptions C17_clean_input_is_complete.
Print Assumptions C17_fasta_splitter_cuts_inside.
Print Assumptions C17_fault_is_fatal_production.
Print Assumptions C17_clean_input_is_complete_production.
Print Assumptions C17_repair_conservative.
Print Assumptions C17_fault_is_fatal_orig_refuted.
Print Assumptions C17_chunker_orig_refuted.
Print Assumptions C17_first_read_error_orig_refuted.
Print Assumptions C17_witnesses_repaired.
Print Assumptions C17_xz_tracker_schedule_independent.
Print Assumptions C17_xz_tracker_schedule_independent_any_window.
Print Assumptions C17_xz_guard_rejects_incomplete.
Print Assumptions C17_xz_guard_transparent.
Print Assumptions C17_xz_unguarded_refuted.
Print Assumptions C17_no_content_only_if_clean_and_empty.
Print Assumptions C17_xz_no_content_only_if_complete.
Print Assumptions C17_readfull_schedule_independent.
Print Assumptions C17_sniffer_refines_model.
Print Assumptions C17_sniffer_conserves_stream.
Print Assumptions C17_drain_any_schedule.
Print Assumptions C17_sniff_pipeline_conserves.
Print Assumptions C17_fault_is_fatal_any_schedule.
Print Assumptions C17_reporter_is_read_wrapper.
Print Assumptions C17_short_input_is_fatal_any_schedule.
Print Assumptions C17_reported_pipeline_conserves.
Print Assumptions C17_short_input_unreported_refuted.
Print Assumptions C17_command_never_diverges.
Print Assumptions C17_multi_fault_is_fatal.
Print Assumptions C17_multi_clean_is_complete.
Print Assumptions C17_multi_ok_only_if_all_clean.
Print Assumptions C17_codec_selected_by_magic.
Print Assumptions C17_plain_only_without_magic.
Print Assumptions C17_magic_repair_conservative.
Print Assumptions C17_short_bzip2_orig_refuted.
Print Assumptions C17_expand_no_duplicate.
Print Assumptions C17_expand_sound.
Print Assumptions C17_expand_complete_directories.
Print Assumptions C17_expand_complete_files.
Print Assumptions C17_expand_order_independent_content.
