(* C17 — truncated or corrupt compressed input is reported, never silently accepted: obligations.
   Codec contract (assumption, validated by the harness on every run, see TRUSTED): a damaged
   container is decoded into a stream whose `fin` is not REof. *)
From Coq Require Import List NArith ZArith Bool.
Import ListNotations.
From OBI.C17 Require Import Model Proofs.
Open Scope N_scope.

(* [core] repaired read path, every buffer size B and extension-read size >= 1 (B-1 in the code, B after the C01 repair), every sniffer size (or none), every splitter that
   cuts inside the buffer, every detector: a stream that ends with anything but a clean EOF is fatal *)
Theorem C17_fault_is_fatal :
  forall (split : list N -> option nat) (B ext : N) (detect : list N -> bool) (sn : option N) (s : stream),
    (forall b e, split b = Some e -> (0 < e <= length b)%nat) -> 1 <= ext ->
    fin s <> REof -> command_gen split B ext detect sn s = ExitFatal.
Proof. intros split B ext detect sn s Hs HE Hf. exact (command_fault_is_fatal split B ext Hs HE detect sn s Hf). Qed.

(* [core] ... and a stream that ends cleanly (empty, or of a recognised format) exits 0 after delivering every
   byte of the data (up to the line ends stripped at chunk boundaries) *)
Theorem C17_clean_input_is_complete :
  forall (split : list N -> option nat) (B ext : N) (detect : list N -> bool) (sn : option N) (s : stream),
    (forall b e, split b = Some e -> (0 < e <= length b)%nat) -> 1 <= ext ->
    fin s = REof -> (data s = [] \/ forall n, sn = Some n -> detect (sniffed n s) = true) ->
    exists ch, command_gen split B ext detect sn s = ExitOk ch /\ sig (concat ch) = sig (data s).
Proof. intros split B ext detect sn s Hs HE Hf Hd. exact (command_clean_is_complete split B ext Hs HE detect sn s Hf Hd). Qed.

(* the transcribed EndOfLastFastaEntry satisfies the splitter hypothesis *)
Theorem C17_fasta_splitter_cuts_inside :
  forall b e, fasta_split b = Some e -> (0 < e <= length b)%nat.
Proof. exact fasta_split_ok. Qed.

(* production instance (1 MiB sniffer, 1 MiB chunks, EndOfLastFastaEntry, any extension-read size >= 1:
   fileChunkSize-1 in the code, fileChunkSize after the C01 repair), no hypothesis left *)
Theorem C17_fault_is_fatal_production :
  forall ext s, 1 <= ext -> fin s <> REof -> command_outcome_with ext s = ExitFatal.
Proof.
  intros ext s He Hf. unfold command_outcome_with.
  apply (command_fault_is_fatal fasta_split CHUNK ext fasta_split_ok); [exact He | exact Hf].
Qed.

Theorem C17_clean_input_is_complete_production :
  forall ext s, 1 <= ext -> fin s = REof -> (data s = [] \/ fasta_detect (sniffed SNIFF s) = true) ->
    exists ch, command_outcome_with ext s = ExitOk ch /\ sig (concat ch) = sig (data s).
Proof.
  intros ext s He Hf Hd. unfold command_outcome_with.
  apply (command_clean_is_complete fasta_split CHUNK ext fasta_split_ok); [exact He | exact Hf |].
  destruct Hd as [Hd|Hd]; [left; exact Hd | right; intros n Hn; inversion Hn; subst; exact Hd].
Qed.

(* the repair is invisible on streams that end cleanly *)
Theorem C17_repair_conservative :
  forall split B ext detect sn s, fin s = REof ->
    command_gen_orig split B ext detect sn s = command_gen split B ext detect sn s.
Proof. exact repair_conservative. Qed.

(* The unrepaired error handling violates the property (the finding; the same inputs fail on the real
   unrepaired code): *)
(* 1. a gzip stream cut inside its second record: the decompressor's io.ErrUnexpectedEOF is taken for
      io.ReadFull's short read by the sniffer, the command exits 0 with the first record and a half *)
Definition trunc_witness : stream :=
  mkstream [62;97;10;97;99;103;116;10;62;98;10;97;99] RUnexpectedEof.     (* ">a\nacgt\n>b\nac" *)

Theorem C17_fault_is_fatal_orig_refuted :
  exists s, fin s = RUnexpectedEof /\
    command_outcome_orig s = ExitOk [[62;97;10;97;99;103;116]; [62;98;10;97;99]].
Proof. exists trunc_witness. split; [reflexivity | vm_compute; reflexivity]. Qed.

(* 2. same through ReadSeqFileChunk alone, with a small buffer (no sniffer in between) *)
Theorem C17_chunker_orig_refuted :
  exists s B ext, fin s = RUnexpectedEof /\ 1 <= ext /\
    command_gen_orig fasta_split B ext fasta_detect None s = ExitOk [[62;97;10;97;99;103;116]; [62;98;10;97;99]].
Proof. exists trunc_witness, 4, 3. split; [reflexivity | split; [discriminate | vm_compute; reflexivity]]. Qed.

(* 3. a read error (any kind) before the first byte is reported as an empty file *)
Theorem C17_first_read_error_orig_refuted :
  exists s, fin s = ROther /\ command_outcome_orig s = ExitOk [].
Proof. exists (mkstream [] ROther). split; [reflexivity | vm_compute; reflexivity]. Qed.

(* ... and the repaired handling is fatal on these very witnesses *)
Theorem C17_witnesses_repaired :
  command_outcome trunc_witness = ExitFatal /\
  command_gen fasta_split 4 3 fasta_detect None trunc_witness = ExitFatal /\
  command_outcome (mkstream [] ROther) = ExitFatal.
Proof. vm_compute. repeat split; reflexivity. Qed.

(* hypotheses are satisfiable / the ok branch is reachable: a clean two-record stream is delivered entirely *)
Example C17_clean_input_nonvacuous :
  let s := mkstream [62;97;10;97;99;103;116;10;62;98;10;97;99;10] REof in
  fin s = REof /\ fasta_detect (sniffed SNIFF s) = true /\
  command_outcome s = ExitOk [[62;97;10;97;99;103;116]; [62;98;10;97;99]] /\
  command_gen fasta_split 3 2 fasta_detect (Some 5) s = ExitOk [[62;97;10;97;99;103;116]; [62;98;10;97;99]].
Proof. vm_compute. repeat split; reflexivity. Qed.

Print Assumptions C17_fault_is_fatal.
Print Assumptions C17_clean_input_is_complete.
Print Assumptions C17_fasta_splitter_cuts_inside.
Print Assumptions C17_fault_is_fatal_production.
Print Assumptions C17_clean_input_is_complete_production.
Print Assumptions C17_repair_conservative.
Print Assumptions C17_fault_is_fatal_orig_refuted.
Print Assumptions C17_chunker_orig_refuted.
Print Assumptions C17_first_read_error_orig_refuted.
Print Assumptions C17_witnesses_repaired.
