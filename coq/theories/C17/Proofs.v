(* C17 — lemmas over the model of the read path. *)
From Coq Require Import List NArith ZArith Bool Lia.
Import ListNotations.
From OBI.C17 Require Import Model.
Open Scope N_scope.

(* ---------------------------------------------------------------- take / readfull *)
Lemma take_spec : forall l n a b r, take n l = (a, b, r) ->
  l = a ++ b /\ N.of_nat (length a) + r = n /\ (r <> 0 -> b = []).
Proof.
  induction l as [|x t IH]; intros n a b r H; cbn [take] in H.
  - inversion H; subst. cbn. repeat split; auto.
  - destruct (n =? 0) eqn:En.
    + inversion H; subst. apply N.eqb_eq in En. subst. cbn. repeat split; auto. intros; congruence.
    + destruct (take (N.pred n) t) as [[a' b'] r'] eqn:Et. inversion H; subst.
      apply IH in Et. destruct Et as (E1 & E2 & E3). apply N.eqb_neq in En.
      repeat split.
      * cbn. f_equal. exact E1.
      * cbn [length]. rewrite Nat2N.inj_succ. lia.
      * exact E3.
Qed.

Lemma end_error_not_nil : forall f b, end_error f b <> ENil.
Proof. intros [] []; cbn; discriminate. Qed.

Lemma readfull_nil : forall n s a rest, readfull n s = (a, rest, ENil) ->
  rdata s = a ++ rdata rest /\ N.of_nat (length a) = n /\ rfin_ rest = rfin_ s.
Proof.
  intros n s a rest H. unfold readfull in H.
  destruct (take n (rdata s)) as [[a' b'] r'] eqn:Et.
  destruct (r' =? 0) eqn:Er.
  - inversion H; subst. apply take_spec in Et. destruct Et as (E1 & E2 & _).
    apply N.eqb_eq in Er. cbn. repeat split; auto. lia.
  - inversion H as [[Ha Hr He]]. exfalso. eapply end_error_not_nil. exact He.
Qed.

Lemma readfull_err : forall n s a rest e, readfull n s = (a, rest, e) -> e <> ENil ->
  rdata s = a /\ rdata rest = [] /\ rfin_ rest = rfin_ s /\
  e = end_error (rfin_ s) match a with [] => true | _ => false end.
Proof.
  intros n s a rest e H Hne. unfold readfull in H.
  destruct (take n (rdata s)) as [[a' b'] r'] eqn:Et.
  destruct (r' =? 0) eqn:Er.
  - inversion H; subst. congruence.
  - inversion H; subst. apply take_spec in Et. destruct Et as (E1 & _ & E3).
    apply N.eqb_neq in Er. specialize (E3 Er). subst b'. rewrite app_nil_r in E1. cbn. auto.
Qed.

(* ---------------------------------------------------------------- sig *)
Lemma sig_app : forall a b, sig (a ++ b) = sig a ++ sig b.
Proof. intros. unfold sig. apply filter_app. Qed.

Lemma sig_strip_nl : forall l, sig (strip_nl l) = sig l.
Proof.
  induction l as [|x t IH]; [reflexivity|].
  cbn [strip_nl]. destruct (strip_nl t) as [|y t'] eqn:Es.
  - cbn in IH. unfold sig in *. cbn [filter]. rewrite <- IH.
    destruct (is_nl x) eqn:Ex; cbn; rewrite ?Ex; reflexivity.
  - unfold sig in *. cbn [filter] in *. rewrite IH. reflexivity.
Qed.

Lemma sig_concat_emit : forall acc c, sig (concat (emit acc c)) = sig (concat acc) ++ sig c.
Proof.
  intros acc [|x t]; cbn [emit].
  - cbn. now rewrite app_nil_r.
  - rewrite concat_app, sig_app. cbn [concat]. now rewrite app_nil_r.
Qed.

Lemma sig_firstn_skipn : forall e (l : list N), sig (firstn e l) ++ sig (skipn e l) = sig l.
Proof. intros. rewrite <- sig_app, firstn_skipn. reflexivity. Qed.

(* ---------------------------------------------------------------- the chunker *)
Section ChunkerProofs.
  Variable split : list N -> option nat.
  Variable B ext : N.
  Hypothesis split_ok : forall b e, split b = Some e -> (0 < e <= length b)%nat.
  Hypothesis ext_ge_1 : 1 <= ext.

  Definition faulty (f : ferr) : Prop := f = FTruncated \/ f = FOther.

  Lemma chunk_loop_fatal : forall fuel buff s acc,
    faulty (rfin_ s) -> (2 * length (rdata s) + length buff < fuel)%nat ->
    chunk_loop split ext fuel buff s acc = ExitFatal.
  Proof.
    induction fuel as [|fuel IH]; intros buff s acc Hf Hm; [lia|].
    cbn [chunk_loop]. destruct (split buff) as [e|] eqn:Es.
    - apply split_ok in Es. destruct buff as [|x t]; [cbn in Es; lia|].
      apply IH; auto. rewrite skipn_length. lia.
    - destruct (readfull ext s) as [[a rest] er] eqn:Er.
      destruct er.
      + apply readfull_nil in Er. destruct Er as (E1 & E2 & E3).
        apply IH; [rewrite E3; exact Hf|].
        rewrite E1 in Hm. rewrite app_length in *. lia.
      + apply readfull_err in Er; [|discriminate]. destruct Er as (_ & _ & _ & Ee).
        destruct Hf as [Hf|Hf]; rewrite Hf in Ee; cbn in Ee; discriminate.
      + apply readfull_err in Er; [|discriminate]. destruct Er as (_ & _ & _ & Ee).
        destruct Hf as [Hf|Hf]; rewrite Hf in Ee; cbn in Ee; discriminate.
      + destruct (buff ++ a); reflexivity.
      + destruct (buff ++ a); reflexivity.
  Qed.

  Lemma chunker_fatal : forall s, faulty (rfin_ s) -> chunker split B ext s = ExitFatal.
  Proof.
    intros s Hf. unfold chunker.
    destruct (readfull B s) as [[a rest] e] eqn:Er. destruct e.
    - apply readfull_nil in Er. destruct Er as (E1 & E2 & E3).
      apply chunk_loop_fatal; [rewrite E3; exact Hf|].
      rewrite E1. rewrite app_length. lia.
    - apply readfull_err in Er; [|discriminate]. destruct Er as (_ & _ & _ & Ee).
      destruct Hf as [Hf|Hf]; rewrite Hf in Ee; cbn in Ee; discriminate.
    - apply readfull_err in Er; [|discriminate]. destruct Er as (_ & _ & _ & Ee).
      destruct Hf as [Hf|Hf]; rewrite Hf in Ee; cbn in Ee; discriminate.
    - reflexivity.
    - reflexivity.
  Qed.

  Lemma chunk_loop_clean : forall fuel buff s acc,
    rfin_ s = FEof -> (2 * length (rdata s) + length buff < fuel)%nat ->
    exists ch, chunk_loop split ext fuel buff s acc = ExitOk ch /\
               sig (concat ch) = sig (concat acc) ++ sig buff ++ sig (rdata s).
  Proof.
    induction fuel as [|fuel IH]; intros buff s acc Hf Hm; [lia|].
    cbn [chunk_loop]. destruct (split buff) as [e|] eqn:Es.
    - apply split_ok in Es. destruct buff as [|x t]; [cbn in Es; lia|].
      destruct (IH (skipn e (x :: t)) s (emit acc (strip_nl (firstn e (x :: t)))) Hf) as (ch & H1 & H2).
      { rewrite skipn_length. lia. }
      exists ch. split; [exact H1|].
      rewrite H2, sig_concat_emit, sig_strip_nl, <- app_assoc.
      rewrite (app_assoc (sig (firstn e (x :: t)))), sig_firstn_skipn. reflexivity.
    - destruct (readfull ext s) as [[a rest] er] eqn:Er.
      assert (Hfin : forall er', er' = EEof \/ er' = EUnexpectedEof -> rdata s = a ->
                exists ch,
                  match buff ++ a with
                  | [] => finish er' [] acc
                  | _ :: _ => finish er' (skipn match split (buff ++ a) with Some e => e | None => length (buff ++ a) end (buff ++ a))
                                (emit acc (strip_nl (firstn match split (buff ++ a) with Some e => e | None => length (buff ++ a) end (buff ++ a))))
                  end = ExitOk ch /\ sig (concat ch) = sig (concat acc) ++ sig buff ++ sig (rdata s)).
      { intros er' Her Ha. rewrite Ha.
        rewrite <- (sig_app buff a).
        remember (buff ++ a) as b1 eqn:Eb.
        remember (match split b1 with Some e => e | None => length b1 end) as e eqn:Ee.
        clear Eb Ee. destruct b1 as [|y l].
        - exists (emit acc []). split; [destruct Her; subst; reflexivity|].
          rewrite sig_concat_emit. reflexivity.
        - exists (emit (emit acc (strip_nl (firstn e (y :: l)))) (skipn e (y :: l))).
          split; [destruct Her; subst; reflexivity|].
          rewrite !sig_concat_emit, sig_strip_nl, <- app_assoc, sig_firstn_skipn. reflexivity. }
      destruct er.
      + apply readfull_nil in Er. destruct Er as (E1 & E2 & E3).
        destruct (IH (buff ++ a) rest acc) as (ch & H1 & H2).
        { rewrite E3; exact Hf. }
        { rewrite E1 in Hm. rewrite app_length in *. lia. }
        exists ch. split; [exact H1|]. rewrite H2, E1, !sig_app, <- app_assoc. reflexivity.
      + apply readfull_err in Er; [|discriminate]. destruct Er as (Ea & _). apply Hfin; auto.
      + apply readfull_err in Er; [|discriminate]. destruct Er as (Ea & _). apply Hfin; auto.
      + apply readfull_err in Er; [|discriminate]. destruct Er as (_ & _ & _ & Ee).
        rewrite Hf in Ee. destruct a; discriminate.
      + apply readfull_err in Er; [|discriminate]. destruct Er as (_ & _ & _ & Ee).
        rewrite Hf in Ee. destruct a; discriminate.
  Qed.

  Lemma chunker_clean : forall s, rfin_ s = FEof ->
    exists ch, chunker split B ext s = ExitOk ch /\ sig (concat ch) = sig (rdata s).
  Proof.
    intros s Hf. unfold chunker.
    destruct (readfull B s) as [[a rest] e] eqn:Er. destruct e.
    - apply readfull_nil in Er. destruct Er as (E1 & E2 & E3).
      destruct (chunk_loop_clean (2 * length (rdata s) + 1) a rest []) as (ch & H1 & H2).
      { rewrite E3; exact Hf. }
      { rewrite E1, app_length. lia. }
      exists ch. split; [exact H1|]. rewrite H2, E1, sig_app. reflexivity.
    - apply readfull_err in Er; [|discriminate]. destruct Er as (Ea & _).
      exists (emit [] a). split; [reflexivity|]. rewrite sig_concat_emit, Ea. reflexivity.
    - apply readfull_err in Er; [|discriminate]. destruct Er as (Ea & Eb & E3 & _).
      destruct (chunk_loop_clean (2 * length (rdata s) + 1) a rest []) as (ch & H1 & H2).
      { rewrite E3; exact Hf. }
      { rewrite Eb, Ea. cbn. lia. }
      exists ch. split; [exact H1|]. rewrite H2, Eb, Ea. cbn. now rewrite app_nil_r.
    - apply readfull_err in Er; [|discriminate]. destruct Er as (_ & _ & _ & Ee).
      rewrite Hf in Ee. destruct a; discriminate.
    - apply readfull_err in Er; [|discriminate]. destruct Er as (_ & _ & _ & Ee).
      rewrite Hf in Ee. destruct a; discriminate.
  Qed.

  (* ------------------------------------------------------------ the command *)
  Variable detect : list N -> bool.

  Lemma wrap_faulty : forall s, fin s <> REof -> faulty (rfin_ (wrap s)).
  Proof. intros [d []] H; cbn in *; [congruence | left | right]; reflexivity. Qed.

  Lemma command_fault_is_fatal : forall sn s, fin s <> REof ->
    command_gen split B ext detect sn s = ExitFatal.
  Proof.
    intros sn s Hs. pose proof (wrap_faulty s Hs) as Hf.
    unfold command_gen, pipeline. unfold open_fixed.
    destruct (rdata (wrap s)) as [|x t] eqn:Ed.
    - destruct Hf as [Hf|Hf]; rewrite Hf; reflexivity.
    - destruct sn as [n|]; [|apply chunker_fatal; exact Hf].
      unfold sniff. destruct (readfull n (wrap s)) as [[a rest] e] eqn:Er. destruct e; try reflexivity.
      + apply readfull_nil in Er. destruct Er as (E1 & E2 & E3).
        destruct (detect a); [|reflexivity]. apply chunker_fatal. cbn. rewrite E3. exact Hf.
      + apply readfull_err in Er; [|discriminate]. destruct Er as (_ & _ & _ & Ee).
        destruct Hf as [Hf|Hf]; rewrite Hf in Ee; cbn in Ee; discriminate.
  Qed.

  Lemma command_clean_is_complete : forall sn s, fin s = REof ->
    (data s = [] \/ forall n, sn = Some n -> detect (sniffed n s) = true) ->
    exists ch, command_gen split B ext detect sn s = ExitOk ch /\ sig (concat ch) = sig (data s).
  Proof.
    intros sn s Hs Hd.
    assert (Hf : rfin_ (wrap s) = FEof) by (destruct s as [d f]; cbn in *; subst; reflexivity).
    unfold command_gen, pipeline, open_fixed.
    assert (Hw : rdata (wrap s) = data s) by reflexivity.
    destruct (rdata (wrap s)) as [|x t] eqn:Ed.
    - rewrite Hf. exists []. split; [reflexivity|]. rewrite <- Hw. reflexivity.
    - destruct Hd as [Hd|Hd]; [congruence|].
      destruct sn as [n|].
      + specialize (Hd n eq_refl). unfold sniffed in Hd.
        rewrite <- Hw in Hd. rewrite <- Hw.
        unfold sniff, readfull. rewrite Ed.
        destruct (take n (x :: t)) as [[a b] r] eqn:Et. cbn [fst] in Hd.
        pose proof (take_spec _ _ _ _ _ Et) as (E1 & E2 & E3).
        destruct (r =? 0) eqn:Er0.
        * rewrite Hd. cbn [rdata rfin_]. rewrite Hf.
          destruct (chunker_clean (mkr (a ++ b) FEof) eq_refl) as (ch & H1 & H2).
          exists ch. split; [exact H1|]. rewrite H2. cbn. rewrite <- E1. reflexivity.
        * apply N.eqb_neq in Er0. specialize (E3 Er0). subst b. rewrite app_nil_r in E1. subst a.
          rewrite Hf. cbn [end_error]. rewrite Hd.
          destruct (chunker_clean (mkr (x :: t) FEof) eq_refl) as (ch & H1 & H2).
          exists ch. split; [exact H1|]. rewrite H2. reflexivity.
      + destruct (chunker_clean (wrap s) Hf) as (ch & H1 & H2).
        exists ch. split; [exact H1|]. rewrite H2, Ed, <- Hw. reflexivity.
  Qed.
End ChunkerProofs.

(* the repair changes nothing on streams that end cleanly *)
Lemma repair_conservative : forall split B ext detect sn s, fin s = REof ->
  command_gen_orig split B ext detect sn s = command_gen split B ext detect sn s.
Proof.
  intros split B ext detect sn [d f] H. cbn in H. subst f.
  unfold command_gen_orig, command_gen, pipeline, open_orig, open_fixed, raw, wrap. cbn.
  destruct d; reflexivity.
Qed.

(* ---------------------------------------------------------------- EndOfLastFastaEntry cuts inside the buffer *)
Lemma fasta_scan_inv : forall (U : Z) rl i st last i' st' last',
  fasta_scan rl i st last = (i', st', last') ->
  i = (Z.of_nat (length rl) - 1)%Z -> (i <= U)%Z ->
  (st = 1 -> last = (i + 1)%Z /\ (last <= U)%Z) ->
  (st = 2 -> (1 <= last <= U)%Z) ->
  st' = 2 -> (1 <= last' <= U)%Z.
Proof.
  intros U. induction rl as [|c t IH]; intros i st last i' st' last' H Hi HU H1 H2 Hs; cbn [fasta_scan] in H.
  - inversion H; subst. auto.
  - cbn [length] in Hi. rewrite Nat2Z.inj_succ in Hi.
    destruct (st <? 2) eqn:Est.
    + apply N.ltb_lt in Est.
      destruct ((c =? 62) && (st =? 0)) eqn:EA.
      * eapply IH; [exact H| lia | lia | intros _; lia | intros; lia | exact Hs].
      * destruct ((st =? 1) && is_nl c) eqn:EB.
        -- apply andb_true_iff in EB. destruct EB as [E1 _]. apply N.eqb_eq in E1.
           destruct (H1 E1) as [L1 L2].
           eapply IH; [exact H| lia | lia | intros; lia | intros _; lia | exact Hs].
        -- eapply IH; [exact H| lia | lia | intros; lia | intros; lia | exact Hs].
    + inversion H; subst. auto.
Qed.

Lemma fasta_split_ok : forall b e, fasta_split b = Some e -> (0 < e <= length b)%nat.
Proof.
  intros b e H. unfold fasta_split in H.
  destruct (fasta_scan (rev b) (Z.of_nat (length b) - 1) 0 0%Z) as [[i st] last] eqn:Es.
  destruct ((i =? 0)%Z || negb (st =? 2)) eqn:Ec; [discriminate|].
  apply orb_false_iff in Ec. destruct Ec as [_ Ec]. apply negb_false_iff in Ec. apply N.eqb_eq in Ec.
  inversion H; subst e.
  assert (Hl : (1 <= last <= Z.of_nat (length b) - 1)%Z).
  { eapply (fasta_scan_inv (Z.of_nat (length b) - 1)%Z); [exact Es | rewrite rev_length; reflexivity | lia | intros; discriminate | intros; discriminate | exact Ec]. }
  lia.
Qed.
