(* C17 — lemmas over the model of the read path. *)
From Coq Require Import List NArith ZArith Bool Lia.
Import ListNotations.
From OBI.C17 Require Import Model.
Open Scope N_scope.

(* ---------------------------------------------------------------- take / readfull *)
Lemma take_spec : forall l n a b r, take n l = (a, b, r) ->
  l = a ++ b /\ N.of_nat (length a) + r = n /\ (r <> 0 -> b = []).
Proof.
  induction l as [|x t IH]; intros n a b r H; cbn [take] in H.
  - inversion H; subst. cbn. repeat split; auto.
  - destruct (n =? 0) eqn:En.
    + inversion H; subst. apply N.eqb_eq in En. subst. cbn. repeat split; auto. intros; congruence.
    + destruct (take (N.pred n) t) as [[a' b'] r'] eqn:Et. inversion H; subst.
      apply IH in Et. destruct Et as (E1 & E2 & E3). apply N.eqb_neq in En.
      repeat split.
      * cbn. f_equal. exact E1.
      * cbn [length]. rewrite Nat2N.inj_succ. lia.
      * exact E3.
Qed.

Lemma end_error_not_nil : forall f b, end_error f b <> ENil.
Proof. intros [] []; cbn; discriminate. Qed.

Lemma readfull_nil : forall n s a rest, readfull n s = (a, rest, ENil) ->
  rdata s = a ++ rdata rest /\ N.of_nat (length a) = n /\ rfin_ rest = rfin_ s.
Proof.
  intros n s a rest H. unfold readfull in H.
  destruct (take n (rdata s)) as [[a' b'] r'] eqn:Et.
  destruct (r' =? 0) eqn:Er.
  - inversion H; subst. apply take_spec in Et. destruct Et as (E1 & E2 & _).
    apply N.eqb_eq in Er. cbn. repeat split; auto. lia.
  - inversion H as [[Ha Hr He]]. exfalso. eapply end_error_not_nil. exact He.
Qed.

Lemma readfull_err : forall n s a rest e, readfull n s = (a, rest, e) -> e <> ENil ->
  rdata s = a /\ rdata rest = [] /\ rfin_ rest = rfin_ s /\
  e = end_error (rfin_ s) match a with [] => true | _ => false end.
Proof.
  intros n s a rest e H Hne. unfold readfull in H.
  destruct (take n (rdata s)) as [[a' b'] r'] eqn:Et.
  destruct (r' =? 0) eqn:Er.
  - inversion H; subst. congruence.
  - inversion H; subst. apply take_spec in Et. destruct Et as (E1 & _ & E3).
    apply N.eqb_neq in Er. specialize (E3 Er). subst b'. rewrite app_nil_r in E1. cbn. auto.
Qed.

(* ---------------------------------------------------------------- sig *)
Lemma sig_app : forall a b, sig (a ++ b) = sig a ++ sig b.
Proof. intros. unfold sig. apply filter_app. Qed.

Lemma sig_strip_nl : forall l, sig (strip_nl l) = sig l.
Proof.
  induction l as [|x t IH]; [reflexivity|].
  cbn [strip_nl]. destruct (strip_nl t) as [|y t'] eqn:Es.
  - cbn in IH. unfold sig in *. cbn [filter]. rewrite <- IH.
    destruct (is_nl x) eqn:Ex; cbn; rewrite ?Ex; reflexivity.
  - unfold sig in *. cbn [filter] in *. rewrite IH. reflexivity.
Qed.

Lemma sig_concat_emit : forall acc c, sig (concat (emit acc c)) = sig (concat acc) ++ sig c.
Proof.
  intros acc [|x t]; cbn [emit].
  - cbn. now rewrite app_nil_r.
  - rewrite concat_app, sig_app. cbn [concat]. now rewrite app_nil_r.
Qed.

Lemma sig_firstn_skipn : forall e (l : list N), sig (firstn e l) ++ sig (skipn e l) = sig l.
Proof. intros. rewrite <- sig_app, firstn_skipn. reflexivity. Qed.

(* ---------------------------------------------------------------- the chunker *)
Section ChunkerProofs.
  Variable split : list N -> option nat.
  Variable B ext : N.
  Hypothesis split_ok : forall b e, split b = Some e -> (0 < e <= length b)%nat.
  Hypothesis ext_ge_1 : 1 <= ext.

  Definition faulty (f : ferr) : Prop := f = FTruncated \/ f = FOther.

  Lemma chunk_loop_fatal : forall fuel buff s acc,
    faulty (rfin_ s) -> (2 * length (rdata s) + length buff < fuel)%nat ->
    chunk_loop split ext fuel buff s acc = ExitFatal.
  Proof.
    induction fuel as [|fuel IH]; intros buff s acc Hf Hm; [lia|].
    cbn [chunk_loop]. destruct (split buff) as [e|] eqn:Es.
    - apply split_ok in Es. destruct buff as [|x t]; [cbn in Es; lia|].
      apply IH; auto. rewrite skipn_length. lia.
    - destruct (readfull ext s) as [[a rest] er] eqn:Er.
      destruct er.
      + apply readfull_nil in Er. destruct Er as (E1 & E2 & E3).
        apply IH; [rewrite E3; exact Hf|].
        rewrite E1 in Hm. rewrite app_length in *. lia.
      + apply readfull_err in Er; [|discriminate]. destruct Er as (_ & _ & _ & Ee).
        destruct Hf as [Hf|Hf]; rewrite Hf in Ee; cbn in Ee; discriminate.
      + apply readfull_err in Er; [|discriminate]. destruct Er as (_ & _ & _ & Ee).
        destruct Hf as [Hf|Hf]; rewrite Hf in Ee; cbn in Ee; discriminate.
      + destruct (buff ++ a); reflexivity.
      + destruct (buff ++ a); reflexivity.
  Qed.

  Lemma chunker_fatal : forall s, faulty (rfin_ s) -> chunker split B ext s = ExitFatal.
  Proof.
    intros s Hf. unfold chunker.
    destruct (readfull B s) as [[a rest] e] eqn:Er. destruct e.
    - apply readfull_nil in Er. destruct Er as (E1 & E2 & E3).
      apply chunk_loop_fatal; [rewrite E3; exact Hf|].
      rewrite E1. rewrite app_length. lia.
    - apply readfull_err in Er; [|discriminate]. destruct Er as (_ & _ & _ & Ee).
      destruct Hf as [Hf|Hf]; rewrite Hf in Ee; cbn in Ee; discriminate.
    - apply readfull_err in Er; [|discriminate]. destruct Er as (_ & _ & _ & Ee).
      destruct Hf as [Hf|Hf]; rewrite Hf in Ee; cbn in Ee; discriminate.
    - reflexivity.
    - reflexivity.
  Qed.

  Lemma chunk_loop_clean : forall fuel buff s acc,
    rfin_ s = FEof -> (2 * length (rdata s) + length buff < fuel)%nat ->
    exists ch, chunk_loop split ext fuel buff s acc = ExitOk ch /\
               sig (concat ch) = sig (concat acc) ++ sig buff ++ sig (rdata s).
  Proof.
    induction fuel as [|fuel IH]; intros buff s acc Hf Hm; [lia|].
    cbn [chunk_loop]. destruct (split buff) as [e|] eqn:Es.
    - apply split_ok in Es. destruct buff as [|x t]; [cbn in Es; lia|].
      destruct (IH (skipn e (x :: t)) s (emit acc (strip_nl (firstn e (x :: t)))) Hf) as (ch & H1 & H2).
      { rewrite skipn_length. lia. }
      exists ch. split; [exact H1|].
      rewrite H2, sig_concat_emit, sig_strip_nl, <- app_assoc.
      rewrite (app_assoc (sig (firstn e (x :: t)))), sig_firstn_skipn. reflexivity.
    - destruct (readfull ext s) as [[a rest] er] eqn:Er.
      assert (Hfin : forall er', er' = EEof \/ er' = EUnexpectedEof -> rdata s = a ->
                exists ch,
                  match buff ++ a with
                  | [] => finish er' [] acc
                  | _ :: _ => finish er' (skipn match split (buff ++ a) with Some e => e | None => length (buff ++ a) end (buff ++ a))
                                (emit acc (strip_nl (firstn match split (buff ++ a) with Some e => e | None => length (buff ++ a) end (buff ++ a))))
                  end = ExitOk ch /\ sig (concat ch) = sig (concat acc) ++ sig buff ++ sig (rdata s)).
      { intros er' Her Ha. rewrite Ha.
        rewrite <- (sig_app buff a).
        remember (buff ++ a) as b1 eqn:Eb.
        remember (match split b1 with Some e => e | None => length b1 end) as e eqn:Ee.
        clear Eb Ee. destruct b1 as [|y l].
        - exists (emit acc []). split; [destruct Her; subst; reflexivity|].
          rewrite sig_concat_emit. reflexivity.
        - exists (emit (emit acc (strip_nl (firstn e (y :: l)))) (skipn e (y :: l))).
          split; [destruct Her; subst; reflexivity|].
          rewrite !sig_concat_emit, sig_strip_nl, <- app_assoc, sig_firstn_skipn. reflexivity. }
      destruct er.
      + apply readfull_nil in Er. destruct Er as (E1 & E2 & E3).
        destruct (IH (buff ++ a) rest acc) as (ch & H1 & H2).
        { rewrite E3; exact Hf. }
        { rewrite E1 in Hm. rewrite app_length in *. lia. }
        exists ch. split; [exact H1|]. rewrite H2, E1, !sig_app, <- app_assoc. reflexivity.
      + apply readfull_err in Er; [|discriminate]. destruct Er as (Ea & _). apply Hfin; auto.
      + apply readfull_err in Er; [|discriminate]. destruct Er as (Ea & _). apply Hfin; auto.
      + apply readfull_err in Er; [|discriminate]. destruct Er as (_ & _ & _ & Ee).
        rewrite Hf in Ee. destruct a; discriminate.
      + apply readfull_err in Er; [|discriminate]. destruct Er as (_ & _ & _ & Ee).
        rewrite Hf in Ee. destruct a; discriminate.
  Qed.

  Lemma chunker_clean : forall s, rfin_ s = FEof ->
    exists ch, chunker split B ext s = ExitOk ch /\ sig (concat ch) = sig (rdata s).
  Proof.
    intros s Hf. unfold chunker.
    destruct (readfull B s) as [[a rest] e] eqn:Er. destruct e.
    - apply readfull_nil in Er. destruct Er as (E1 & E2 & E3).
      destruct (chunk_loop_clean (2 * length (rdata s) + 1) a rest []) as (ch & H1 & H2).
      { rewrite E3; exact Hf. }
      { rewrite E1, app_length. lia. }
      exists ch. split; [exact H1|]. rewrite H2, E1, sig_app. reflexivity.
    - apply readfull_err in Er; [|discriminate]. destruct Er as (Ea & _).
      exists (emit [] a). split; [reflexivity|]. rewrite sig_concat_emit, Ea. reflexivity.
    - apply readfull_err in Er; [|discriminate]. destruct Er as (Ea & Eb & E3 & _).
      destruct (chunk_loop_clean (2 * length (rdata s) + 1) a rest []) as (ch & H1 & H2).
      { rewrite E3; exact Hf. }
      { rewrite Eb, Ea. cbn. lia. }
      exists ch. split; [exact H1|]. rewrite H2, Eb, Ea. cbn. now rewrite app_nil_r.
    - apply readfull_err in Er; [|discriminate]. destruct Er as (_ & _ & _ & Ee).
      rewrite Hf in Ee. destruct a; discriminate.
    - apply readfull_err in Er; [|discriminate]. destruct Er as (_ & _ & _ & Ee).
      rewrite Hf in Ee. destruct a; discriminate.
  Qed.

  (* ------------------------------------------------------------ the command *)
  Variable detect : list N -> bool.

  Lemma wrap_faulty : forall s, fin s <> REof -> faulty (rfin_ (wrap s)).
  Proof. intros [d []] H; cbn in *; [congruence | left | right]; reflexivity. Qed.

  Lemma command_fault_is_fatal : forall sn s, fin s <> REof ->
    command_gen split B ext detect sn s = ExitFatal.
  Proof.
    intros sn s Hs. pose proof (wrap_faulty s Hs) as Hf.
    unfold command_gen, pipeline. unfold open_fixed.
    destruct (rdata (wrap s)) as [|x t] eqn:Ed.
    - destruct Hf as [Hf|Hf]; rewrite Hf; reflexivity.
    - destruct sn as [n|]; [|apply chunker_fatal; exact Hf].
      unfold sniff. destruct (readfull n (wrap s)) as [[a rest] e] eqn:Er. destruct e; try reflexivity.
      + apply readfull_nil in Er. destruct Er as (E1 & E2 & E3).
        destruct (detect a); [|reflexivity]. apply chunker_fatal. cbn. rewrite E3. exact Hf.
      + apply readfull_err in Er; [|discriminate]. destruct Er as (_ & _ & _ & Ee).
        destruct Hf as [Hf|Hf]; rewrite Hf in Ee; cbn in Ee; discriminate.
  Qed.

  Lemma command_clean_is_complete : forall sn s, fin s = REof ->
    (data s = [] \/ forall n, sn = Some n -> detect (sniffed n s) = true) ->
    exists ch, command_gen split B ext detect sn s = ExitOk ch /\ sig (concat ch) = sig (data s).
  Proof.
    intros sn s Hs Hd.
    assert (Hf : rfin_ (wrap s) = FEof) by (destruct s as [d f]; cbn in *; subst; reflexivity).
    unfold command_gen, pipeline, open_fixed.
    assert (Hw : rdata (wrap s) = data s) by reflexivity.
    destruct (rdata (wrap s)) as [|x t] eqn:Ed.
    - rewrite Hf. exists []. split; [reflexivity|]. rewrite <- Hw. reflexivity.
    - destruct Hd as [Hd|Hd]; [congruence|].
      destruct sn as [n|].
      + specialize (Hd n eq_refl). unfold sniffed in Hd.
        rewrite <- Hw in Hd. rewrite <- Hw.
        unfold sniff, readfull. rewrite Ed.
        destruct (take n (x :: t)) as [[a b] r] eqn:Et. cbn [fst] in Hd.
        pose proof (take_spec _ _ _ _ _ Et) as (E1 & E2 & E3).
        destruct (r =? 0) eqn:Er0.
        * rewrite Hd. cbn [rdata rfin_]. rewrite Hf.
          destruct (chunker_clean (mkr (a ++ b) FEof) eq_refl) as (ch & H1 & H2).
          exists ch. split; [exact H1|]. rewrite H2. cbn. rewrite <- E1. reflexivity.
        * apply N.eqb_neq in Er0. specialize (E3 Er0). subst b. rewrite app_nil_r in E1. subst a.
          rewrite Hf. cbn [end_error]. rewrite Hd.
          destruct (chunker_clean (mkr (x :: t) FEof) eq_refl) as (ch & H1 & H2).
          exists ch. split; [exact H1|]. rewrite H2. reflexivity.
      + destruct (chunker_clean (wrap s) Hf) as (ch & H1 & H2).
        exists ch. split; [exact H1|]. rewrite H2, Ed, <- Hw. reflexivity.
  Qed.
End ChunkerProofs.

(* the repair changes nothing on streams that end cleanly *)
Lemma repair_conservative : forall split B ext detect sn s, fin s = REof ->
  command_gen_orig split B ext detect sn s = command_gen split B ext detect sn s.
Proof.
  intros split B ext detect sn [d f] H. cbn in H. subst f.
  unfold command_gen_orig, command_gen, pipeline, open_orig, open_fixed, raw, wrap. cbn.
  destruct d; reflexivity.
Qed.

(* ---------------------------------------------------------------- EndOfLastFastaEntry cuts inside the buffer *)
Lemma fasta_scan_inv : forall (U : Z) rl i st last i' st' last',
  fasta_scan rl i st last = (i', st', last') ->
  i = (Z.of_nat (length rl) - 1)%Z -> (i <= U)%Z ->
  (st = 1 -> last = (i + 1)%Z /\ (last <= U)%Z) ->
  (st = 2 -> (1 <= last <= U)%Z) ->
  st' = 2 -> (1 <= last' <= U)%Z.
Proof.
  intros U. induction rl as [|c t IH]; intros i st last i' st' last' H Hi HU H1 H2 Hs; cbn [fasta_scan] in H.
  - inversion H; subst. auto.
  - cbn [length] in Hi. rewrite Nat2Z.inj_succ in Hi.
    destruct (st <? 2) eqn:Est.
    + apply N.ltb_lt in Est.
      destruct ((c =? 62) && (st =? 0)) eqn:EA.
      * eapply IH; [exact H| lia | lia | intros _; lia | intros; lia | exact Hs].
      * destruct ((st =? 1) && is_nl c) eqn:EB.
        -- apply andb_true_iff in EB. destruct EB as [E1 _]. apply N.eqb_eq in E1.
           destruct (H1 E1) as [L1 L2].
           eapply IH; [exact H| lia | lia | intros; lia | intros _; lia | exact Hs].
        -- eapply IH; [exact H| lia | lia | intros; lia | intros; lia | exact Hs].
    + inversion H; subst. auto.
Qed.

Lemma fasta_split_ok : forall b e, fasta_split b = Some e -> (0 < e <= length b)%nat.
Proof.
  intros b e H. unfold fasta_split in H.
  destruct (fasta_scan (rev b) (Z.of_nat (length b) - 1) 0 0%Z) as [[i st] last] eqn:Es.
  destruct ((i =? 0)%Z || negb (st =? 2)) eqn:Ec; [discriminate|].
  apply orb_false_iff in Ec. destruct Ec as [_ Ec]. apply negb_false_iff in Ec. apply N.eqb_eq in Ec.
  inversion H; subst e.
  assert (Hl : (1 <= last <= Z.of_nat (length b) - 1)%Z).
  { eapply (fasta_scan_inv (Z.of_nat (length b) - 1)%Z); [exact Es | rewrite rev_length; reflexivity | lia | intros; discriminate | intros; discriminate | exact Ec]. }
  lia.
Qed.

(* ================================================================ round 2 ================================================================ *)
(* ------------------------------------------------ proofs *)
Lemma lastn_all : forall {A} n (l : list A), (length l <= n)%nat -> lastn n l = l.
Proof. intros A n l H. unfold lastn. replace (length l - n)%nat with O by lia. reflexivity. Qed.

Lemma lastn_app_ge : forall {A} n (a b : list A), (n <= length b)%nat -> lastn n (a ++ b) = lastn n b.
Proof.
  intros A n a b H. unfold lastn. rewrite app_length.
  replace (length a + length b - n)%nat with (length a + (length b - n))%nat by lia.
  rewrite skipn_app. rewrite skipn_all2 by lia. cbn.
  replace (length a + (length b - n) - length a)%nat with (length b - n)%nat by lia. reflexivity.
Qed.

Lemma lastn_length : forall {A} n (l : list A), length (lastn n l) = Nat.min n (length l).
Proof. intros. unfold lastn. rewrite skipn_length. lia. Qed.

Lemma lastn_lastn_app : forall {A} n (a b : list A), lastn n (lastn n a ++ b) = lastn n (a ++ b).
Proof.
  intros A n a b. destruct (Nat.le_gt_cases n (length b)) as [H|H].
  - rewrite !lastn_app_ge by exact H. reflexivity.
  - destruct (Nat.le_gt_cases (length a) n) as [Ha|Ha].
    + rewrite (lastn_all n a) by exact Ha. reflexivity.
    + unfold lastn at 2. 
      assert (E : a = firstn (length a - n) a ++ skipn (length a - n) a) by (symmetry; apply firstn_skipn).
      rewrite E at 3. rewrite <- app_assoc.
      set (s := skipn (length a - n) a).
      assert (Hs : length s = n) by (unfold s; rewrite skipn_length; lia).
      symmetry. apply lastn_app_ge. rewrite app_length. lia.
Qed.

Lemma repeat_split : forall (x : N) a b, repeat x (a + b) = repeat x a ++ repeat x b.
Proof. intros. apply repeat_app. Qed.

Lemma lastn_zeros_cap : forall W (a : list N) z c,
  lastn W (a ++ repeat 0 z ++ [c]) = lastn W (a ++ repeat 0 (Nat.min z W) ++ [c]).
Proof.
  intros W a z c. destruct (Nat.le_gt_cases z W) as [H|H].
  - rewrite Nat.min_l by exact H. reflexivity.
  - rewrite Nat.min_r by lia.
    rewrite (lastn_app_ge W a (repeat 0 z ++ [c])) by (rewrite app_length, repeat_length; cbn; lia).
    rewrite (lastn_app_ge W a (repeat 0 W ++ [c])) by (rewrite app_length, repeat_length; cbn; lia).
    replace z with ((z - W) + W)%nat at 1 by lia. rewrite repeat_split, <- app_assoc.
    apply lastn_app_ge. rewrite app_length, repeat_length. cbn. lia.
Qed.

Lemma tz_snoc : forall l c, tz (l ++ [c]) = if c =? 0 then S (tz l) else O.
Proof.
  intros l c. unfold tz. rewrite rev_app_distr. cbn [rev app tz_rev].
  destruct c; reflexivity.
Qed.

Lemma tz_le : forall l, (tz l <= length l)%nat.
Proof.
  intros l. unfold tz. rewrite <- (rev_length l). generalize (rev l) as r.
  induction r as [|x t IH]; cbn; [lia|]. destruct x; cbn; lia.
Qed.

Lemma body_tz : forall l, l = body l ++ repeat 0 (tz l).
Proof.
  intros l. unfold body.
  rewrite <- (firstn_skipn (length l - tz l) l) at 1. f_equal.
  (* the last tz l elements are zeros *)
  pose proof (tz_le l) as Hle.
  assert (G : forall r : list N, skipn (length r - tz_rev r) (rev r) = repeat 0 (tz_rev r)).
  { induction r as [|x t IH]; [reflexivity|].
    cbn [tz_rev rev length]. destruct x as [|p].
    - assert (Ht : (tz_rev t <= length t)%nat).
      { clear. induction t as [|y u IHu]; cbn; [lia|]. destruct y; cbn; lia. }
      replace (S (length t) - S (tz_rev t))%nat with (length t - tz_rev t)%nat by lia.
      rewrite skipn_app, IH. rewrite rev_length.
      replace (length t - tz_rev t - length t)%nat with O by lia. cbn [skipn].
      change [0] with (repeat 0 1). rewrite <- repeat_app. f_equal. lia.
    - replace (S (length t) - 0)%nat with (length (rev t ++ [N.pos p])) by (rewrite app_length, rev_length; cbn; lia).
      rewrite skipn_all. reflexivity. }
  unfold tz. specialize (G (rev l)). rewrite rev_involutive, rev_length in G. exact G.
Qed.

Lemma body_snoc : forall l c, body (l ++ [c]) = if c =? 0 then body l else l ++ [c].
Proof.
  intros l c. unfold body. rewrite tz_snoc, app_length. cbn [length].
  destruct (c =? 0) eqn:E.
  - replace (length l + 1 - S (tz l))%nat with (length l - tz l)%nat by lia.
    rewrite firstn_app. pose proof (tz_le l).
    replace (length l - tz l - length l)%nat with O by lia. cbn. apply app_nil_r.
  - replace (length l + 1 - 0)%nat with (length (l ++ [c])) by (rewrite app_length; cbn; lia).
    apply firstn_all.
Qed.

Definition xz_inv (W : nat) (l : list N) (st : xzend) : Prop :=
  x_last st = lastn W (body l) /\ x_zeros st = tz l.

Lemma xz_byte_inv : forall W l st c, xz_inv W l st -> xz_inv W (l ++ [c]) (xz_byte W st c).
Proof.
  intros W l st c [H1 H2]. unfold xz_inv, xz_byte. rewrite body_snoc, tz_snoc.
  destruct (c =? 0) eqn:E; cbn [x_last x_zeros].
  - split; [exact H1 | now rewrite H2].
  - split; [|reflexivity].
    rewrite H1, H2, lastn_lastn_app, <- lastn_zeros_cap.
    assert (El : l ++ [c] = body l ++ repeat 0 (tz l) ++ [c]) by (rewrite app_assoc, <- body_tz; reflexivity).
    rewrite El. reflexivity.
Qed.

Lemma xz_bytes_inv : forall W ch l st, xz_inv W l st -> xz_inv W (l ++ ch) (fold_left (xz_byte W) ch st).
Proof.
  intros W. induction ch as [|c t IH]; intros l st H; cbn [fold_left].
  - now rewrite app_nil_r.
  - replace (l ++ c :: t) with ((l ++ [c]) ++ t) by (rewrite <- app_assoc; reflexivity).
    apply IH. apply xz_byte_inv. exact H.
Qed.

Lemma xz_chunks_inv : forall W chunks l st, xz_inv W l st -> xz_inv W (l ++ concat chunks) (fold_left (xz_chunk W) chunks st).
Proof.
  intros W. induction chunks as [|ch t IH]; intros l st H; cbn [fold_left concat].
  - now rewrite app_nil_r.
  - rewrite app_assoc. apply IH. apply xz_bytes_inv. exact H.
Qed.

(* for every read schedule the tracker holds the 12 bytes before the trailing zeros of everything read, and their number *)
Lemma xz_track_spec : forall W chunks,
  x_last (xz_track_w W chunks) = lastn W (body (concat chunks)) /\ x_zeros (xz_track_w W chunks) = tz (concat chunks).
Proof.
  intros W chunks. unfold xz_track_w.
  apply (xz_chunks_inv W chunks [] (mkx [] 0)). split; reflexivity.
Qed.

Lemma xz_track_complete_w : forall W chunks, xz_complete_st (xz_track_w W chunks) = xz_complete_w W (concat chunks).
Proof.
  intros W chunks. destruct (xz_track_spec W chunks) as [H1 H2].
  unfold xz_complete_st, xz_complete_w. now rewrite H1, H2.
Qed.

Lemma xz_track_complete : forall chunks, xz_complete_st (xz_track chunks) = xz_complete (concat chunks).
Proof. intros. apply xz_track_complete_w. Qed.

Lemma xz_guard_not_eof : forall raw lib, xz_complete raw = false -> xz_guard raw lib <> REof.
Proof. intros raw [] H; cbn; rewrite ?H; discriminate. Qed.

Lemma xz_guard_transparent : forall raw lib, xz_complete raw = true -> xz_guard raw lib = lib.
Proof. intros raw [] H; cbn; rewrite ?H; reflexivity. Qed.


(* ---------------------------------------------------------------- proofs *)
Lemma firstn_nonnil : forall {A} k (l : list A), l <> [] -> firstn (S k) l <> [].
Proof. intros A k [|x t] H; [congruence | cbn; discriminate]. Qed.

Lemma fs_eq : forall k (l y : list N), l ++ y = firstn (S k) l ++ (skipn (S k) l ++ y).
Proof. intros. now rewrite app_assoc, firstn_skipn. Qed.

Lemma read_den : forall r k x e r', wf r -> read k r = (x, e, r') ->
  wf r' /\
  match e with
  | None => x <> [] /\ (length x <= S k)%nat /\ den r = (x ++ fst (den r'), snd (den r'))
  | Some f => (length x <= S k)%nat /\ den r = (x, f) /\ den r' = ([], f)
  end.
Proof.
  induction r as [l | d sch f eager | a IHa b IHb | bs buf pend u IHu]; intros k x e r' Hwf H.
  - (* RBytes *)
    destruct l as [|y t]; cbn [read] in H; injection H as Hx He Hr; subst x e r'.
    + cbn. repeat split; auto; lia.
    + split; [exact I|]. split; [cbn; discriminate|]. split; [apply (firstn_le_length (S k) (y :: t))|].
      cbn [den fst snd]. f_equal. symmetry. apply (firstn_skipn (S k) (y :: t)).
  - (* RSrc *)
    destruct d as [|y t]; cbn [read] in H.
    + inversion H; subst. cbn. repeat split; auto; lia.
    + set (m := Nat.min (S k) match sch with [] => S k | s :: _ => S s end) in *.
      assert (Hm : (1 <= m <= S k)%nat) by (unfold m; destruct sch; lia).
      assert (Hx : firstn m (y :: t) <> []) by (destruct m; [lia | cbn; discriminate]).
      assert (Hl : (length (firstn m (y :: t)) <= S k)%nat) by (rewrite firstn_length; lia).
      destruct (skipn m (y :: t)) as [|z w] eqn:Es.
      * assert (Ed : firstn m (y :: t) = y :: t) by (rewrite <- (firstn_skipn m (y :: t)) at 2; rewrite Es, app_nil_r; reflexivity).
        destruct eager; inversion H; subst; clear H; (split; [exact I|]); rewrite Ed in *.
        -- cbn [den]. repeat split; auto.
        -- cbn [den fst snd]. rewrite app_nil_r. repeat split; auto; discriminate.
      * inversion H; subst; clear H. split; [exact I|]. split; [exact Hx|]. split; [exact Hl|].
        cbn [den fst snd]. rewrite <- Es, firstn_skipn. reflexivity.
  - (* RMulti *)
    destruct Hwf as [Wa Wb]. cbn [read] in H.
    destruct (read k a) as [[xa ea] a'] eqn:Ea.
    destruct (IHa _ _ _ _ Wa Ea) as [Wa' Da].
    destruct ea as [fa|].
    + destruct Da as (La & Da & Da').
      destruct fa.
      * (* EOF of a *)
        destruct xa as [|y t].
        -- destruct (IHb _ _ _ _ Wb H) as [Wb' Db]. split; [exact Wb'|].
           cbn [den]. rewrite Da. destruct (den b) as [yb gb] eqn:Eb. cbn [app]. exact Db.
        -- injection H as Hx He Hr; subst x e r'. split; [exact Wb|]. split; [discriminate|]. split; [exact La|].
           cbn [den]. rewrite Da. destruct (den b) as [yb gb]. reflexivity.
      * injection H as Hx He Hr; subst x e r'. split; [split; assumption|]. split; [exact La|].
        cbn [den]. rewrite Da, Da'. auto.
      * injection H as Hx He Hr; subst x e r'. split; [split; assumption|]. split; [exact La|].
        cbn [den]. rewrite Da, Da'. auto.
      * injection H as Hx He Hr; subst x e r'. split; [split; assumption|]. split; [exact La|].
        cbn [den]. rewrite Da, Da'. auto.
    + destruct Da as (Nx & La & Da). injection H as Hx He Hr; subst x e r'. split; [split; assumption|].
      split; [exact Nx|]. split; [exact La|].
      cbn [den]. rewrite Da. destruct (den a') as [ya fa'] eqn:Ea'. cbn [fst snd].
      destruct fa'; try reflexivity.
      destruct (den b) as [yb gb]. cbn [fst snd]. now rewrite app_assoc.
  - (* RBuf *)
    destruct Hwf as [Wu Wp]. cbn [read] in H.
    destruct buf as [|y t].
    + destruct pend as [f|].
      * injection H as Hx He Hr; subst x e r'. split; [split; [exact Wu | exact I]|].
        cbn [den length]. rewrite Wp. split; [lia|]. auto.
      * destruct (bs <=? S k)%nat.
        -- destruct (read k u) as [[xu eu] u'] eqn:Eu. injection H as Hx He Hr; subst x e r'.
           destruct (IHu _ _ _ _ Wu Eu) as [Wu' Du]. split; [split; [exact Wu' | exact I]|].
           destruct eu as [f|].
           ++ destruct Du as (Lu & Du & Du'). split; [exact Lu|]. cbn [den]. rewrite Du, Du'. auto.
           ++ destruct Du as (Nx & Lu & Du). split; [exact Nx|]. split; [exact Lu|].
              cbn [den]. rewrite Du. destruct (den u') as [yu gu]. reflexivity.
        -- destruct (read (Nat.pred bs) u) as [[xu eu] u'] eqn:Eu.
           destruct (IHu _ _ _ _ Wu Eu) as [Wu' Du].
           destruct xu as [|z w].
           ++ injection H as Hx He Hr; subst x e r'. split; [split; [exact Wu' | exact I]|].
              destruct eu as [f|].
              ** destruct Du as (_ & Du & Du'). cbn [den length]. rewrite Du, Du'. split; [lia|]. auto.
              ** destruct Du as (Nx & _). congruence.
           ++ injection H as Hx He Hr; subst x e r'.
              assert (Lf : (length (firstn (S k) (z :: w)) <= S k)%nat) by apply firstn_le_length.
              destruct eu as [f|].
              ** destruct Du as (_ & Du & Du'). split; [split; [exact Wu' | exact Du']|].
                 split; [cbn; discriminate|]. split; [exact Lf|].
                 cbn [den fst snd]. rewrite Du. f_equal. symmetry. apply (firstn_skipn (S k) (z :: w)).
              ** destruct Du as (_ & _ & Du). split; [split; [exact Wu' | exact I]|].
                 split; [cbn; discriminate|]. split; [exact Lf|].
                 cbn [den]. rewrite Du. destruct (den u') as [yu gu]. cbn [fst snd].
                 rewrite (fs_eq k (z :: w) yu). reflexivity.
    + injection H as Hx He Hr; subst x e r'. split; [split; assumption|]. split; [cbn; discriminate|].
      split; [apply (firstn_le_length (S k) (y :: t))|].
      cbn [den]. destruct pend as [f|].
      * cbn [fst snd]. f_equal. symmetry. apply (firstn_skipn (S k) (y :: t)).
      * destruct (den u) as [yu gu]. cbn [fst snd]. rewrite (fs_eq k (y :: t) yu). reflexivity.
Qed.

Lemma den_eta : forall r, den r = (fst (den r), snd (den r)).
Proof. intros r. destruct (den r); reflexivity. Qed.

Lemma readfull_s_spec : forall fuel k acc r a r' e, wf r -> (k <= fuel)%nat ->
  readfull_s fuel k acc r = (a, r', e) ->
  wf r' /\ exists x, a = acc ++ x /\
    ((e = ENil /\ length x = k /\ den r = (x ++ fst (den r'), snd (den r')))
     \/ (e <> ENil /\ (length x < k)%nat /\ fst (den r) = x /\ e = end_error (snd (den r)) (is_nil (acc ++ x)))).
Proof.
  induction fuel as [|fu IH]; intros k acc r a r' e Hwf Hk H.
  - assert (k = O) by lia. subst k. cbn [readfull_s] in H. injection H as Ha Hr He; subst a r' e.
    split; [exact Hwf|]. exists []. split; [now rewrite app_nil_r|]. left. split; [reflexivity|]. split; [reflexivity|].
    cbn [app]. apply den_eta.
  - destruct k as [|k'].
    + cbn [readfull_s] in H. injection H as Ha Hr He; subst a r' e.
      split; [exact Hwf|]. exists []. split; [now rewrite app_nil_r|]. left. split; [reflexivity|]. split; [reflexivity|].
      cbn [app]. apply den_eta.
    + cbn [readfull_s] in H. destruct (read k' r) as [[x0 e0] r0] eqn:Er.
      destruct (read_den _ _ _ _ _ Hwf Er) as [W0 D0].
      destruct e0 as [f|].
      * destruct D0 as (L0 & D0 & D0').
        destruct (S k' <=? length x0)%nat eqn:Ec.
        -- apply Nat.leb_le in Ec. injection H as Ha Hr He; subst a r' e.
           split; [exact W0|]. exists x0. split; [reflexivity|]. left. split; [reflexivity|]. split; [lia|].
           rewrite D0, D0'. cbn [fst snd]. now rewrite app_nil_r.
        -- apply Nat.leb_gt in Ec. injection H as Ha Hr He; subst a r' e.
           split; [exact W0|]. exists x0. split; [reflexivity|]. right.
           split; [apply end_error_not_nil|]. split; [exact Ec|]. rewrite D0. cbn [fst snd]. auto.
      * destruct D0 as (N0 & L0 & D0).
        assert (Lx : (1 <= length x0)%nat) by (destruct x0; [congruence | cbn; lia]).
        apply IH in H; [|exact W0|lia].
        destruct H as [W' (x1 & Ea & Hc)]. split; [exact W'|].
        exists (x0 ++ x1). split; [rewrite Ea, app_assoc; reflexivity|].
        destruct Hc as [(He & Hl & Hd) | (He & Hl & Hd & Hee)].
        -- left. split; [exact He|]. split; [rewrite app_length; lia|].
           rewrite D0, Hd. cbn [fst snd]. now rewrite app_assoc.
        -- right. split; [exact He|]. split; [rewrite app_length; lia|].
           rewrite D0. cbn [fst snd]. split; [now rewrite Hd|]. rewrite Hee, app_assoc. reflexivity.
Qed.

Lemma take_exact : forall (x y : list N), take (N.of_nat (length x)) (x ++ y) = (x, y, 0).
Proof.
  induction x as [|c t IH]; intros y.
  - cbn [length app]. change (N.of_nat 0) with 0. destruct y; reflexivity.
  - cbn [length app take]. rewrite Nat2N.inj_succ.
    destruct (N.succ (N.of_nat (length t)) =? 0) eqn:E; [apply N.eqb_eq in E; lia|].
    rewrite N.pred_succ, IH. reflexivity.
Qed.

Lemma take_short : forall (x : list N) k, (length x < k)%nat ->
  exists m, take (N.of_nat k) x = (x, [], m) /\ m <> 0.
Proof.
  induction x as [|c t IH]; intros k Hk.
  - exists (N.of_nat k). cbn. split; [reflexivity | lia].
  - cbn [length] in Hk. destruct k as [|k']; [lia|].
    destruct (IH k') as (m & E & Hm); [lia|].
    exists m. cbn [take]. rewrite Nat2N.inj_succ.
    destruct (N.succ (N.of_nat k') =? 0) eqn:E0; [apply N.eqb_eq in E0; lia|].
    rewrite N.pred_succ, E. split; [reflexivity | exact Hm].
Qed.

(* io.ReadFull gives the same bytes and the same error for every read schedule, every buffering layer and every way the
   final error is delivered (alone or together with the last bytes): it is the `readfull` of the abstract model on the
   byte stream the reader stands for *)
Lemma readfull_schedule_independent : forall k r a r' e, wf r ->
  readfull_s k k [] r = (a, r', e) ->
  wf r' /\ fst (fst (readfull (N.of_nat k) (den_stream r))) = a /\ snd (readfull (N.of_nat k) (den_stream r)) = e /\
  (e = ENil -> snd (fst (readfull (N.of_nat k) (den_stream r))) = den_stream r').
Proof.
  intros k r a r' e Hwf H.
  destruct (readfull_s_spec k k [] r a r' e Hwf (le_n k) H) as [W (x & Ea & Hc)].
  cbn [app] in Ea. subst a. split; [exact W|].
  unfold readfull, den_stream. cbn [rdata rfin_].
  destruct Hc as [(He & Hl & Hd) | (He & Hl & Hd & Hee)].
  - rewrite Hd. cbn [fst snd]. rewrite <- Hl, take_exact. cbn. subst e. repeat split; reflexivity.
  - rewrite Hd. destruct (take_short x k Hl) as (m & Et & Hm). rewrite Et.
    destruct (m =? 0) eqn:E0; [apply N.eqb_eq in E0; congruence|].
    cbn [fst snd]. split; [reflexivity|]. split; [|congruence].
    rewrite Hee. cbn [app]. destruct x; reflexivity.
Qed.

(* the sniffer at the level of readers is the sniffer of the abstract model *)
Lemma sniff_s_refines : forall sn r, wf r ->
  match sniff_s sn r, sniff (N.of_nat sn) (den_stream r) with
  | Some (seen, r1), Some (a, s1) => seen = a ++ repeat 0 (sn - length a) /\ den_stream r1 = s1 /\ wf r1
  | None, None => True
  | _, _ => False
  end.
Proof.
  intros sn r Hwf. unfold sniff_s, sniff.
  destruct (readfull_s sn sn [] r) as [[a r'] e] eqn:Er.
  destruct (readfull_schedule_independent sn r a r' e Hwf Er) as (W & Ha & He & Hr).
  destruct (readfull (N.of_nat sn) (den_stream r)) as [[a2 rest] e2]. cbn [fst snd] in *. subst a2 e2.
  destruct e; auto.
  - specialize (Hr eq_refl). subst rest. split; [reflexivity|]. split; [|cbn; auto].
    unfold den_stream. cbn [den fst snd rdata rfin_]. destruct (den r') as [y g]. reflexivity.
  - split; [reflexivity|]. split; [reflexivity | exact I].
Qed.

(* no byte is lost or duplicated between sniffing and parsing: whatever the read schedule of the source, the reader handed to the
   parser stands for exactly the stream of the source (same bytes, same end), and the detector has seen its first sn bytes *)
Lemma sniffer_conserves_stream : forall sn r seen r1, wf r -> snd (den r) <> FUnexpected ->
  sniff_s sn r = Some (seen, r1) ->
  wf r1 /\ den r1 = den r /\ seen = firstn sn (fst (den r)) ++ repeat 0 (sn - length (firstn sn (fst (den r)))).
Proof.
  intros sn r seen r1 Hwf Hf H. unfold sniff_s in H.
  destruct (readfull_s sn sn [] r) as [[a r'] e] eqn:Er.
  destruct (readfull_s_spec sn sn [] r a r' e Hwf (le_n sn) Er) as [W (x & Ea & Hc)].
  cbn [app] in Ea. subst a.
  destruct Hc as [(He & Hl & Hd) | (He & Hl & Hd & Hee)].
  - subst e. injection H as Hs Hr; subst seen r1. split; [cbn; auto|]. split.
    + cbn [den]. rewrite Hd. destruct (den r') as [y g]. reflexivity.
    + rewrite Hd. cbn [fst].
      assert (E : firstn sn (x ++ fst (den r')) = x) by (rewrite <- Hl, firstn_app, Nat.sub_diag, firstn_all; cbn [firstn]; apply app_nil_r).
      rewrite E. reflexivity.
  - rewrite Hee in H. cbn [app] in H.
    destruct (snd (den r)) eqn:Ef; try congruence.
    + destruct x as [|c t]; cbn in H; [discriminate|].
      injection H as Hs Hr; subst seen r1. split; [exact I|]. split.
      * cbn [den]. rewrite (den_eta r), Hd, Ef. reflexivity.
      * rewrite Hd. rewrite firstn_all2 by lia. reflexivity.
    + destruct x; cbn in H; discriminate.
    + destruct x; cbn in H; discriminate.
Qed.

Lemma drain_den : forall fuel ks r, wf r -> (length (fst (den r)) < fuel)%nat ->
  drain fuel ks r = (fst (den r), Some (snd (den r))).
Proof.
  induction fuel as [|fu IH]; intros ks r Hwf Hl; [lia|].
  cbn [drain]. destruct (read (hd O ks) r) as [[x e] r'] eqn:Er.
  destruct (read_den _ _ _ _ _ Hwf Er) as [W D].
  destruct e as [f|].
  - destruct D as (_ & D & _). rewrite D. reflexivity.
  - destruct D as (Nx & _ & D). rewrite D in *. cbn [fst snd] in *.
    rewrite IH; [reflexivity | exact W |].
    rewrite app_length in Hl. destruct x; [congruence | cbn in Hl; lia].
Qed.

(* end to end: source -> bufio (xopen.Buf) -> OBIMimeTypeGuesser -> bufio (readSequencesFromReader) -> any consumer *)
Lemma sniff_pipeline_conserves : forall d sch f eager bs1 bs2 sn seen r1 ks fuel,
  f <> FUnexpected ->
  sniff_s sn (RBuf bs1 [] None (RSrc d sch f eager)) = Some (seen, r1) ->
  (length d < fuel)%nat ->
  drain fuel ks (RBuf bs2 [] None r1) = (d, Some f).
Proof.
  intros d sch f eager bs1 bs2 sn seen r1 ks fuel Hf H Hl.
  assert (W0 : wf (RBuf bs1 [] None (RSrc d sch f eager))) by (cbn; auto).
  destruct (sniffer_conserves_stream sn _ seen r1 W0 Hf H) as (W1 & D1 & _).
  cbn [den app fst snd] in D1.
  assert (Wb : wf (RBuf bs2 [] None r1)) by (cbn; auto).
  rewrite (drain_den fuel ks _ Wb); cbn [den]; rewrite D1; cbn [fst snd app]; [reflexivity | exact Hl].
Qed.

(* ================================================================ round 3 ================================================================ *)
Lemma report_err_not_unexpected : forall f, report_err f <> FUnexpected.
Proof. intros []; discriminate. Qed.

Lemma report_err_eof : forall f, report_err f = FEof <-> f = FEof.
Proof. intros []; split; intro H; try discriminate; reflexivity. Qed.

(* the function-level wrapper is the Go wrapper: every Read of the wrapped source is the Read of the source, error renamed *)
Lemma read_report_src : forall k d sch f eager,
  read k (RSrc d sch (report_err f) eager) =
  let '(x, e, r') := read k (RSrc d sch f eager) in (x, report_opt e, report_src r').
Proof.
  intros k d sch f eager. destruct d as [|c d]; [reflexivity|].
  cbn [read]. destruct (skipn _ (c :: d)); destruct eager; reflexivity.
Qed.

Section MultiProofs.
  Variable split : list N -> option nat.
  Variable B ext : N.
  Hypothesis split_ok : forall b e, split b = Some e -> (0 < e <= length b)%nat.
  Hypothesis ext_ok : 1 <= ext.
  Variable detect : list N -> bool.

  (* the command on one input never hangs: it is fatal or successful *)
  Lemma command_total : forall sn s,
    command_gen split B ext detect sn s = ExitFatal \/ exists ch, command_gen split B ext detect sn s = ExitOk ch.
  Proof.
    intros sn s. destruct (fin s) eqn:Ef.
    2,3: left; apply (command_fault_is_fatal split B ext split_ok ext_ok detect); rewrite Ef; discriminate.
    destruct (data s) as [|x t] eqn:Ed.
    { right. destruct (command_clean_is_complete split B ext split_ok ext_ok detect sn s Ef (or_introl Ed)) as (ch & H & _). eauto. }
    destruct sn as [n|].
    2:{ right. destruct (command_clean_is_complete split B ext split_ok ext_ok detect None s Ef) as (ch & H & _); [right; discriminate | eauto]. }
    destruct (detect (sniffed n s)) eqn:Edet.
    { right. destruct (command_clean_is_complete split B ext split_ok ext_ok detect (Some n) s Ef) as (ch & H & _); [|eauto].
      right. intros m Hm. inversion Hm. subst. exact Edet. }
    left. unfold command_gen, pipeline, open_fixed, wrap. cbn [rdata rfin_]. rewrite Ed, Ef.
    unfold sniff, readfull. cbn [rdata rfin_].
    unfold sniffed in Edet. rewrite Ed in Edet.
    destruct (take n (x :: t)) as [[a b] r] eqn:Et. cbn [fst] in Edet.
    destruct (r =? 0).
    - rewrite Edet. reflexivity.
    - cbn [end_error]. destruct a; [reflexivity|]. rewrite Edet. reflexivity.
  Qed.

  Lemma multi_fault_is_fatal : forall sn l, Exists (fun s => fin s <> REof) l ->
    multi_command split B ext detect sn l = ExitFatal.
  Proof.
    intros sn l. unfold multi_command. induction l as [|s t IH]; intro H.
    - inversion H.
    - cbn [map seq_outcomes].
      destruct (command_total sn s) as [Hf|(ch & Hk)].
      + rewrite Hf. reflexivity.
      + rewrite Hk. inversion H as [? ? Hs|? ? Ht]; subst.
        * rewrite (command_fault_is_fatal split B ext split_ok ext_ok detect sn s Hs) in Hk. discriminate.
        * rewrite (IH Ht). reflexivity.
  Qed.

  Lemma sig_concat_app : forall a b : list (list N), sig (concat (a ++ b)) = sig (concat a) ++ sig (concat b).
  Proof. intros a b. rewrite concat_app. unfold sig. apply filter_app. Qed.

  Lemma multi_clean_is_complete : forall sn l,
    Forall (fun s => fin s = REof /\ (data s = [] \/ forall n, sn = Some n -> detect (sniffed n s) = true)) l ->
    exists ch, multi_command split B ext detect sn l = ExitOk ch /\ sig (concat ch) = concat (map (fun s => sig (data s)) l).
  Proof.
    intros sn l. unfold multi_command. induction l as [|s t IH]; intro H.
    - exists []. split; reflexivity.
    - inversion H as [|? ? [Hs Hd] Ht]; subst. destruct (IH Ht) as (ch' & H1 & H2).
      destruct (command_clean_is_complete split B ext split_ok ext_ok detect sn s Hs Hd) as (ch & H3 & H4).
      cbn [map seq_outcomes]. rewrite H3, H1. exists (ch ++ ch'). split; [reflexivity|].
      rewrite sig_concat_app, H4, H2. reflexivity.
  Qed.

  (* exit status 0 <-> every input ends cleanly (and is of a known format) *)
  Lemma multi_ok_only_if_all_clean : forall sn l ch,
    multi_command split B ext detect sn l = ExitOk ch -> Forall (fun s => fin s = REof) l.
  Proof.
    intros sn l ch H. apply Forall_forall. intros s Hin.
    destruct (fin s) eqn:Ef; [reflexivity| |].
    all: rewrite multi_fault_is_fatal in H; [discriminate|]; apply Exists_exists; exists s; split; [exact Hin|]; rewrite Ef; discriminate.
  Qed.
End MultiProofs.



Lemma multi_fault_is_fatal_gen :
  forall (split : list N -> option nat) (B ext : N) (detect : list N -> bool) (sn : option N) (l : list stream),
    (forall b e, split b = Some e -> (0 < e <= length b)%nat) -> 1 <= ext ->
    Exists (fun s => fin s <> REof) l -> multi_command split B ext detect sn l = ExitFatal.
Proof. intros split B ext detect sn l Hs HE. exact (multi_fault_is_fatal split B ext Hs HE detect sn l). Qed.

Lemma short_input_is_fatal_any_schedule :
  forall (split : list N -> option nat) (B ext : N) (detect : list N -> bool) (sn : option N) d sch f eager bs,
    (forall b e, split b = Some e -> (0 < e <= length b)%nat) -> 1 <= ext -> f <> FEof ->
    pipeline split B ext detect open_fixed sn (den_stream (RBuf bs [] None (RSrc d sch (report_err f) eager))) = ExitFatal.
Proof.
  intros split B ext detect sn d sch f eager bs Hs HE Hf.
  assert (E : exists s, den_stream (RBuf bs [] None (RSrc d sch (report_err f) eager)) = wrap s /\ fin s <> REof).
  { unfold den_stream. cbn. destruct f; try congruence.
    - exists (mkstream d RUnexpectedEof). split; [reflexivity | discriminate].
    - exists (mkstream d RUnexpectedEof). split; [reflexivity | discriminate].
    - exists (mkstream d ROther). split; [reflexivity | discriminate]. }
  destruct E as (s & Es & Hne). rewrite Es.
  exact (command_fault_is_fatal split B ext Hs HE detect sn s Hne).
Qed.

Lemma reported_pipeline_conserves :
  forall d sch f eager bs1 bs2 sn seen r1 ks fuel,
    sniff_s sn (RBuf bs1 [] None (RSrc d sch (report_err f) eager)) = Some (seen, r1) -> (length d < fuel)%nat ->
    drain fuel ks (RBuf bs2 [] None r1) = (d, Some (report_err f)).
Proof.
  intros d sch f eager bs1 bs2 sn seen r1 ks fuel H Hl.
  exact (sniff_pipeline_conserves d sch (report_err f) eager bs1 bs2 sn seen r1 ks fuel (report_err_not_unexpected f) H Hl).
Qed.

Definition short_witness : list N := [62;97;10;97;99;103;116;10;62;98;10;97;99].
Lemma short_input_unreported_refuted :
  pipeline fasta_split CHUNK EXT fasta_detect open_fixed (Some SNIFF) (den_stream (RBuf 4 [] None (RSrc short_witness [] FUnexpected false)))
    = ExitOk [[62;97;10;97;99;103;116]; [62;98;10;97;99]] /\
  pipeline fasta_split CHUNK EXT fasta_detect open_fixed (Some SNIFF) (den_stream (RBuf 4 [] None (RSrc short_witness [] (report_err FUnexpected) false)))
    = ExitFatal.
Proof. vm_compute. split; reflexivity. Qed.

(* ---------------------------------------------------------------- round 3: the magic numbers *)
Lemma prefixb_app : forall m r, prefixb m (m ++ r) = true.
Proof. induction m as [|x m IH]; intro r; [reflexivity|]. cbn. rewrite N.eqb_refl. apply IH. Qed.

Lemma prefixb_spec : forall m l, prefixb m l = true <-> exists r, l = m ++ r.
Proof.
  induction m as [|x m IH]; intro l.
  - split; [intros _; exists l; reflexivity | reflexivity].
  - destruct l as [|y l]; cbn.
    + split; [discriminate | intros (r & H); discriminate].
    + rewrite andb_true_iff, N.eqb_eq, IH. split.
      * intros (-> & r & ->). exists r. reflexivity.
      * intros (r & H). inversion H. split; [reflexivity | exists r; reflexivity].
  Qed.

(* [the repair] a stream which begins with the complete magic number of a format is handed to that decompressor, whatever its length *)
Lemma select_fixed_magic : forall c r, c <> CRaw -> select check_fixed (magic c ++ r) = c.
Proof. intros [] r H; try congruence; reflexivity. Qed.

Lemma select_fixed_raw : forall l,
  select check_fixed l = CRaw <-> (forall c, c <> CRaw -> prefixb (magic c) l = false).
Proof.
  intro l. unfold select, check_fixed. split.
  - intros H c Hc.
    destruct (prefixb (magic CGz) l) eqn:E1; [discriminate|].
    destruct (prefixb (magic CZst) l) eqn:E2; [discriminate|].
    destruct (prefixb (magic CXz) l) eqn:E3; [discriminate|].
    destruct (prefixb (magic CBz2) l) eqn:E4; [discriminate|].
    destruct c; congruence.
  - intro H. rewrite (H CGz), (H CZst), (H CXz), (H CBz2) by discriminate. reflexivity.
Qed.

(* the repair changes nothing for streams of six bytes or more *)
Lemma select_conservative : forall l, (6 <= length l)%nat -> select check_orig l = select check_fixed l.
Proof.
  intros l H. unfold select, check_orig, check_fixed.
  assert (E : forall c, (length l <? length (magic c))%nat = false).
  { intro c. apply Nat.ltb_ge. destruct c; cbn; lia. }
  rewrite !E. reflexivity.
Qed.

(* the original chain gives up at the first magic number longer than the stream *)
Lemma select_orig_short_bzip2 :
  select check_orig [66; 90; 104; 57] = CRaw /\ select check_fixed [66; 90; 104; 57] = CBz2 /\
  select check_orig [66; 90; 104; 57; 49] = CRaw /\ select check_orig [66; 90; 104] = CRaw.
Proof. vm_compute. repeat split; reflexivity. Qed.

(* ---------------------------------------------------------------- round 3: the list of input files *)
Lemma list_eqb_eq : forall a b, list_eqb a b = true <-> a = b.
Proof.
  induction a as [|x a IH]; destruct b as [|y b]; cbn; try (split; [discriminate | discriminate]); try (split; reflexivity).
  rewrite andb_true_iff, N.eqb_eq, IH. split.
  - intros [H1 H2]. subst. reflexivity.
  - intro H. inversion H. auto.
Qed.

Lemma pmem_In : forall p l, pmem p l = true <-> In p l.
Proof.
  induction l as [|q t IH]; cbn; [split; [discriminate | tauto]|].
  rewrite orb_true_iff, list_eqb_eq, IH. split; intros [H|H]; auto.
Qed.

Lemma oadd_In : forall acc p q, In q (oadd acc p) <-> In q acc \/ q = p.
Proof.
  intros acc p q. unfold oadd. destruct (pmem p acc) eqn:E.
  - apply pmem_In in E. split; [auto | intros [H| ->]; auto].
  - rewrite in_app_iff. cbn. split.
    + intros [H|[H|[]]]; auto.
    + intros [H|H]; auto.
Qed.

Lemma oadd_NoDup : forall acc p, NoDup acc -> NoDup (oadd acc p).
Proof.
  intros acc p H. unfold oadd. destruct (pmem p acc) eqn:E; [exact H|].
  assert (Hn : ~ In p acc) by (intro Hi; apply pmem_In in Hi; congruence).
  clear E. induction H as [|x l Hx Hl IH]; cbn.
  - constructor; [tauto | constructor].
  - constructor.
    + rewrite in_app_iff. cbn. intros [Hi|[->|[]]]; [auto | apply Hn; left; reflexivity].
    + apply IH. intro Hi. apply Hn. right. exact Hi.
Qed.

Lemma fold_oadd_if_In : forall fs acc q,
  In q (fold_left oadd_if fs acc) <-> In q acc \/ (In q fs /\ accepted q = true).
Proof.
  induction fs as [|p fs IH]; intros acc q; cbn [fold_left].
  - cbn. tauto.
  - rewrite IH. assert (E : In q (oadd_if acc p) <-> In q acc \/ (q = p /\ accepted q = true)).
    { unfold oadd_if. destruct (accepted p) eqn:Ep.
      - rewrite oadd_In. split; [intros [H|H]; [auto | subst; auto] | intros [H|[H _]]; auto].
      - split; [auto | intros [H|[H1 H2]]; [auto | subst; congruence]]. }
    rewrite E. cbn [In]. split.
    + intros [[H|[H1 H2]]|[H1 H2]]; auto.
    + intros [H|[[H1|H1] H2]]; auto.
Qed.

Lemma fold_oadd_if_NoDup : forall fs acc, NoDup acc -> NoDup (fold_left oadd_if fs acc).
Proof.
  induction fs as [|p fs IH]; intros acc H; cbn [fold_left]; [exact H|].
  apply IH. unfold oadd_if. destruct (accepted p); [apply oadd_NoDup|]; exact H.
Qed.

Lemma expand_from_NoDup : forall args chk acc, NoDup acc -> NoDup (expand_from chk acc args).
Proof.
  induction args as [|[p|fs] t IH]; intros chk acc H; cbn [expand_from]; [exact H| |].
  - apply IH. destruct (negb chk || accepted p); [apply oadd_NoDup|]; exact H.
  - apply IH. apply fold_oadd_if_NoDup. exact H.
Qed.

Lemma expand_from_mono : forall args chk acc q, In q acc -> In q (expand_from chk acc args).
Proof.
  induction args as [|[p|fs] t IH]; intros chk acc q H; cbn [expand_from]; [exact H| |].
  - apply IH. destruct (negb chk || accepted p); [apply oadd_In; auto | exact H].
  - apply IH. apply fold_oadd_if_In. auto.
Qed.

Lemma expand_from_sound : forall args chk acc q, In q (expand_from chk acc args) ->
  In q acc \/ In (AFile q) args \/ exists fs, In (ADir fs) args /\ In q fs /\ accepted q = true.
Proof.
  induction args as [|[p|fs] t IH]; intros chk acc q H; cbn [expand_from] in H; [auto| |].
  - apply IH in H. destruct H as [H|[H|(fs & H1 & H2)]].
    + destruct (negb chk || accepted p); [apply oadd_In in H; destruct H as [H| ->]; [auto | right; left; left; reflexivity] | auto].
    + right; left; right; exact H.
    + right; right. exists fs. split; [right; exact H1 | exact H2].
  - apply IH in H. destruct H as [H|[H|(fs' & H1 & H2)]].
    + apply fold_oadd_if_In in H. destruct H as [H|[H1 H2]]; [auto|].
      right; right. exists fs. split; [left; reflexivity | split; assumption].
    + right; left; right; exact H.
    + right; right. exists fs'. split; [right; exact H1 | exact H2].
Qed.

Lemma expand_from_complete_dir : forall args chk acc fs q,
  In (ADir fs) args -> In q fs -> accepted q = true -> In q (expand_from chk acc args).
Proof.
  induction args as [|[p|fs'] t IH]; intros chk acc fs q Hd Hq Ha; cbn [expand_from]; [destruct Hd| |].
  - destruct Hd as [Hd|Hd]; [discriminate|]. eapply IH; eassumption.
  - destruct Hd as [Hd|Hd].
    + inversion Hd; subst. apply expand_from_mono. apply fold_oadd_if_In. auto.
    + eapply IH; eassumption.
Qed.

(* a file argument is always read by the command (chk = false at its call); in a directory walk, when its name passes the filter *)
Lemma expand_from_complete_file : forall args chk acc q,
  In (AFile q) args -> chk = false \/ accepted q = true -> In q (expand_from chk acc args).
Proof.
  induction args as [|[p|fs] t IH]; intros chk acc q Hf Hc; cbn [expand_from]; [destruct Hf| |].
  - destruct Hf as [Hf|Hf].
    + inversion Hf; subst. apply expand_from_mono.
      destruct Hc as [->|Ha]; [cbn; apply oadd_In; auto | rewrite Ha, orb_true_r; apply oadd_In; auto].
    + apply IH; assumption.
  - destruct Hf as [Hf|Hf]; [discriminate|]. apply IH; assumption.
Qed.

Lemma expand_NoDup : forall args, NoDup (expand args).
Proof. intro args. apply expand_from_NoDup. constructor. Qed.

Lemma expand_sound : forall args q, In q (expand args) ->
  In (AFile q) args \/ exists fs, In (ADir fs) args /\ In q fs /\ accepted q = true.
Proof. intros args q H. apply expand_from_sound in H. destruct H as [[]|H]; exact H. Qed.

Lemma expand_complete_dir : forall args fs q, In (ADir fs) args -> In q fs -> accepted q = true -> In q (expand args).
Proof. intros. eapply expand_from_complete_dir; eassumption. Qed.

Lemma expand_complete_file : forall args q, In (AFile q) args -> In q (expand args).
Proof. intros args q H. apply expand_from_complete_file; auto. Qed.

(* the order of the arguments decides the order of the list, not its content: a file named after a directory is read too *)
Definition dtxt : list N := [114;46;116;120;116].        (* r.txt *)
Definition dfa : list N := [100;47;120;46;102;97;115;116;97].   (* d/x.fasta *)
Lemma expand_order_independent_content :
  expand [AFile dtxt; ADir [dfa]] = [dtxt; dfa] /\ expand [ADir [dfa]; AFile dtxt] = [dfa; dtxt].
Proof. vm_compute. split; reflexivity. Qed.
