(* C17 — truncated or corrupt compressed input is reported, never silently accepted.

   Executable model of the read path of pkg/obiformats (definitions only):
     xopen.Buf              codec wrapper + first-rune test            [wrap / raw, open_fixed / open_orig]
     io.ReadFull            per the Go documentation                   [readfull]
     OBIMimeTypeGuesser     ReadFull of the sniff buffer               [sniff]
     ReadSeqFileChunk       the two nested loops, flattened            [chunk_loop, chunker]
     ReadSequencesFromFile / command exit status                       [pipeline, command_outcome]
     xzStreamEnd / xzTruncationReporter (round 2)                      [xz_byte, xz_track, footer_ok, index_ok, xz_guard]
     readers with a read schedule: source, bytes.Reader, io.MultiReader, bufio.Reader; io.ReadFull as a loop of Read
     calls; OBIMimeTypeGuesser on readers (detection on the whole zero padded buffer, MultiReader replay)  [reader, read,
     den, readfull_s, sniff_s, drain] (round 2)
   Both the original (defective) error handling ( *_orig ) and the repaired one are kept.
   Bytes are N. The record splitter and the format detector are parameters (the concrete
   EndOfLastFastaEntry is transcribed below: fasta_split). *)
From Coq Require Import List NArith ZArith Bool.
Import ListNotations.
Open Scope N_scope.

(* ---------------------------------------------------------------- streams *)
(* how the stream handed over by the decompressor (or the plain file) ends *)
Inductive rfin := REof | RUnexpectedEof | ROther.
Record stream := mkstream { data : list N; fin : rfin }.

(* the stream as seen by the readers behind xopen.Buf: FTruncated is ErrTruncatedInput *)
Inductive ferr := FEof | FUnexpected | FTruncated | FOther.
Record rstream := mkr { rdata : list N; rfin_ : ferr }.

(* original code: the decompressor is handed over as it is *)
Definition raw (s : stream) : rstream :=
  mkr (data s) match fin s with REof => FEof | RUnexpectedEof => FUnexpected | ROther => FOther end.
(* repaired code: truncationReporter turns the decompressor's io.ErrUnexpectedEOF into ErrTruncatedInput *)
Definition wrap (s : stream) : rstream :=
  mkr (data s) match fin s with REof => FEof | RUnexpectedEof => FTruncated | ROther => FOther end.

(* ---------------------------------------------------------------- io.ReadFull *)
Inductive rerr := ENil | EEof | EUnexpectedEof | ETruncated | EOther.

(* take n l = (the first min(n,|l|) elements, the others, how many of the n are missing) *)
Fixpoint take (n : N) (l : list N) : list N * list N * N :=
  match l with
  | [] => ([], [], n)
  | x :: t => if n =? 0 then ([], l, 0)
              else let '(a, b, r) := take (N.pred n) t in (x :: a, b, r)
  end.

(* error reported by a Read that finds the stream exhausted *)
Definition end_error (f : ferr) (nothing_read : bool) : rerr :=
  match f with
  | FEof => if nothing_read then EEof else EUnexpectedEof   (* ReadFull's own conversion *)
  | FUnexpected => EUnexpectedEof                             (* underlying error, as it is *)
  | FTruncated => ETruncated
  | FOther => EOther
  end.

Definition readfull (n : N) (s : rstream) : list N * rstream * rerr :=
  let '(a, b, missing) := take n (rdata s) in
  if missing =? 0 then (a, mkr b (rfin_ s), ENil)
  else (a, mkr b (rfin_ s), end_error (rfin_ s) match a with [] => true | _ => false end).

(* ---------------------------------------------------------------- xopen.Buf: first rune *)
Inductive opened := Opened | NoContent | OpenError.

(* original: every error of the first ReadRune is ErrNoContent *)
Definition open_orig (s : rstream) : opened :=
  match rdata s with [] => NoContent | _ => Opened end.
(* repaired: only a clean EOF is ErrNoContent *)
Definition open_fixed (s : rstream) : opened :=
  match rdata s with
  | [] => match rfin_ s with FEof => NoContent | _ => OpenError end
  | _ => Opened
  end.

(* ---------------------------------------------------------------- OBIMimeTypeGuesser *)
(* n, err := io.ReadFull(stream, buf); err other than nil / io.ErrUnexpectedEOF is returned (fatal);
   err == nil: the reader is MultiReader(buf[:n], stream); otherwise only buf[:n] (ends with a clean EOF) *)
Definition sniff (sn : N) (s : rstream) : option (list N * rstream) :=
  let '(a, rest, e) := readfull sn s in
  match e with
  | ENil => Some (a, mkr (a ++ rdata rest) (rfin_ rest))
  | EUnexpectedEof => Some (a, mkr a FEof)
  | _ => None
  end.

(* ---------------------------------------------------------------- ReadSeqFileChunk *)
Inductive outcome :=
| ExitOk (chunks : list (list N))     (* exit status 0, these chunks were delivered to the parsers *)
| ExitFatal                           (* log.Fatalf / os.Exit(1) *)
| Diverges.                           (* fuel exhausted / impossible state: never a normal result *)

Definition is_nl (c : N) : bool := (c =? 10) || (c =? 13).

(* for len(buff) > 0 && (buff[len(buff)-1] == '\n' || == '\r') { buff = buff[:len(buff)-1] } *)
Fixpoint strip_nl (l : list N) : list N :=
  match l with
  | [] => []
  | x :: t => match strip_nl t with
              | [] => if is_nl x then [] else [x]
              | t' => x :: t'
              end
  end.

(* if len(buff) > 0 { chunk_channel <- ... } *)
Definition emit (acc : list (list N)) (c : list N) : list (list N) :=
  match c with [] => acc | _ => acc ++ [c] end.

(* after the loop: fatal unless EOF / ErrUnexpectedEOF; then the rest of the buffer is the last chunk *)
Definition finish (e : rerr) (buff : list N) (acc : list (list N)) : outcome :=
  match e with
  | EEof | EUnexpectedEof => ExitOk (emit acc buff)
  | ETruncated | EOther => ExitFatal
  | ENil => Diverges
  end.

Section Chunker.
  Variable split : list N -> option nat.     (* LastSeqRecord: None is -1 *)
  Variable B : N.                            (* len(buff) = fileChunkSize *)
  Variable ext : N.                          (* size of an extension read: fileChunkSize-1 (fileChunkSize after the C01 repair) *)

  (* One turn of `for err == nil { for end = splitter(buff); err == nil && end < 0; ... }`, flattened:
     the state is (buff, what is left of the stream); err == nil in every state. *)
  Fixpoint chunk_loop (fuel : nat) (buff : list N) (s : rstream) (acc : list (list N)) : outcome :=
    match fuel with
    | O => Diverges
    | S f =>
      match split buff with
      | Some e =>
          (* no read; the part before the last record is sent, the rest is kept *)
          match buff with
          | [] => chunk_loop f buff s acc
          | _ => chunk_loop f (skipn e buff) s (emit acc (strip_nl (firstn e buff)))
          end
      | None =>
          (* extension read *)
          let '(a, rest, er) := readfull ext s in
          let buff1 := buff ++ a in
          match er with
          | ENil => chunk_loop f buff1 rest acc
          | _ =>
              let e := match split buff1 with Some e => e | None => length buff1 end in
              match buff1 with
              | [] => finish er [] acc
              | _ => finish er (skipn e buff1) (emit acc (strip_nl (firstn e buff1)))
              end
          end
      end
    end.

  Definition chunker (s : rstream) : outcome :=
    let '(a, rest, e) := readfull B s in
    (* if err == io.ErrUnexpectedEOF { err = nil } *)
    let e' := match e with EUnexpectedEof => ENil | _ => e end in
    match e' with
    | ENil => chunk_loop (2 * length (rdata s) + 1) a rest []
    | _ => finish e' a []
    end.

  (* ------------------------------------------------------------ the command *)
  Variable detect : list N -> bool.          (* the sniffed bytes are FASTA / FASTQ *)

  (* sn = None: ReadSeqFileChunk directly behind Buf (harness route `chunk`) *)
  Definition pipeline (open : rstream -> opened) (sn : option N) (s : rstream) : outcome :=
    match open s with
    | NoContent => ExitOk []                  (* ReadEmptyFile *)
    | OpenError => ExitFatal                  (* log.Fatalf("open file error") *)
    | Opened =>
        match sn with
        | None => chunker s
        | Some n =>
            match sniff n s with
            | None => ExitFatal               (* OpenSequenceDataErrorMessage -> os.Exit(1) *)
            | Some (a, s') => if detect a then chunker s' else ExitFatal   (* format not implemented *)
            end
        end
    end.

  Definition command_gen (sn : option N) (s : stream) : outcome := pipeline open_fixed sn (wrap s).
  Definition command_gen_orig (sn : option N) (s : stream) : outcome := pipeline open_orig sn (raw s).
End Chunker.

(* what the sniffer hands to the detector *)
Definition sniffed (sn : N) (s : stream) : list N := fst (fst (take sn (data s))).

(* bytes that matter: everything but the line ends the chunker may strip *)
Definition sig (l : list N) : list N := filter (fun c => negb (is_nl c)) l.

(* ---------------------------------------------------------------- EndOfLastFastaEntry *)
(* for i = imax-1; i >= 0 && state < 2; i-- { ... } on the reversed buffer; returns (i, state, last) *)
Fixpoint fasta_scan (rl : list N) (i : Z) (state : N) (last : Z) : Z * N * Z :=
  match rl with
  | [] => (i, state, last)
  | c :: t =>
      if state <? 2 then
        if (c =? 62) && (state =? 0) then fasta_scan t (i - 1)%Z 1 i
        else if (state =? 1) && is_nl c then fasta_scan t (i - 1)%Z 2 last
        else fasta_scan t (i - 1)%Z 0 last
      else (i, state, last)
  end.

Definition fasta_split (b : list N) : option nat :=
  let '(i, st, last) := fasta_scan (rev b) (Z.of_nat (length b) - 1)%Z 0 0%Z in
  if (i =? 0)%Z || negb (st =? 2) then None else Some (Z.to_nat last).

(* ---------------------------------------------------------------- production instance *)
Definition SNIFF : N := 1048576.      (* buf := make([]byte, 1024*1024) in OBIMimeTypeGuesser *)
Definition CHUNK : N := 1048576.      (* buff := make([]byte, 1024*1024) in ReadFasta / ReadFastq *)
Definition EXT : N := CHUNK - 1.      (* extbuff := buff[l:(l + fileChunkSize - 1)]; the theorems hold for every size >= 1 *)

Definition fasta_detect (l : list N) : bool :=     (* ^>[^ ] *)
  match l with 62 :: c :: _ => negb (c =? 32) | _ => false end.

Definition command_outcome_with (ext : N) (s : stream) : outcome := command_gen fasta_split CHUNK ext fasta_detect (Some SNIFF) s.
Definition command_outcome (s : stream) : outcome := command_outcome_with EXT s.
Definition command_outcome_orig (s : stream) : outcome := command_gen_orig fasta_split CHUNK EXT fasta_detect (Some SNIFF) s.

(* ---------------------------------------------------------------- correspondence *)
Inductive obs :=
| OFatal
| OOkAll                      (* exit 0, every record of the decoded data was delivered *)
| OOkPartial                  (* exit 0, something is missing *)
| OOkBytes (n sum : N)        (* chunk route: count and sum of the delivered bytes other than line ends *)
| ODiverges.

Record case := mkc {
  c_data : list N;            (* bytes decoded before the fault (probe route) *)
  c_fin : rfin;               (* how the decoded stream ends *)
  c_hdr : bool;               (* the decompressor could be created (container header readable) *)
  c_sn : option N;            (* sniffer buffer (None: chunk route) *)
  c_B : N;                    (* chunk buffer *)
  c_ext : N;                  (* extension read *)
  c_recog : bool;             (* the format detector accepts the sniffed bytes *)
  c_obs : obs }.

Fixpoint list_eqb (a b : list N) : bool :=
  match a, b with
  | [], [] => true
  | x :: a', y :: b' => (x =? y) && list_eqb a' b'
  | _, _ => false
  end.

Definition obs_eqb (a b : obs) : bool :=
  match a, b with
  | OFatal, OFatal | OOkAll, OOkAll | OOkPartial, OOkPartial | ODiverges, ODiverges => true
  | OOkBytes n s, OOkBytes n' s' => (n =? n') && (s =? s')
  | _, _ => false
  end.

Definition model_obs (c : case) : obs :=
  if negb (c_hdr c) then OFatal else
  match command_gen fasta_split (c_B c) (c_ext c) (fun _ => c_recog c) (c_sn c) (mkstream (c_data c) (c_fin c)) with
  | ExitFatal => OFatal
  | Diverges => ODiverges
  | ExitOk chunks =>
      let d := sig (concat chunks) in
      match c_obs c with
      | OOkBytes _ _ => OOkBytes (N.of_nat (length d)) (fold_left N.add d 0)
      | _ => if list_eqb d (sig (c_data c)) then OOkAll else OOkPartial
      end
  end.

Fixpoint mismatches_from (i : nat) (l : list case) : list nat :=
  match l with
  | [] => []
  | c :: t => if obs_eqb (model_obs c) (c_obs c) then mismatches_from (S i) t else i :: mismatches_from (S i) t
  end.

Definition mismatches (l : list case) : list nat := mismatches_from 0 l.

(* ================================================================ round 2 ================================================================ *)
(* ---------------------------------------------------------------- xzStreamEnd / xzTruncationReporter *)
Definition lastn {A} (n : nat) (l : list A) : list A := skipn (length l - n) l.

(* state of xzStreamEnd: the (at most 12) last bytes which precede the trailing run of zero bytes, and the length of that run *)
Record xzend := mkx { x_last : list N; x_zeros : nat }.

Definition xz_byte (W : nat) (st : xzend) (c : N) : xzend :=
  if c =? 0 then mkx (x_last st) (S (x_zeros st))
  else mkx (lastn W (x_last st ++ repeat 0 (Nat.min (x_zeros st) W) ++ [c])) 0.

(* one Read call hands over one chunk *)
Definition xz_chunk (W : nat) (st : xzend) (ch : list N) : xzend := fold_left (xz_byte W) ch st.
Definition xz_track_w (W : nat) (chunks : list (list N)) : xzend := fold_left (xz_chunk W) chunks (mkx [] 0).

(* CRC-32 (IEEE), bit by bit *)
Fixpoint crc_bits (k : nat) (c : N) : N :=
  match k with
  | O => c
  | S k' => crc_bits k' (if N.testbit c 0 then N.lxor (N.shiftr c 1) 3988292384 else N.shiftr c 1)
  end.
Definition crc_byte (c b : N) : N := crc_bits 8 (N.lxor c b).
Definition crc32 (l : list N) : N := N.lxor (fold_left crc_byte l 4294967295) 4294967295.

(* stream footer: CRC32 of the next 6 bytes (little endian) | backward size (4) | stream flags (2) | 'Y' 'Z' *)
Definition footer_ok (f : list N) : bool :=
  match f with
  | [c0; c1; c2; c3; b0; b1; b2; b3; f0; f1; m0; m1] =>
      (m0 =? 89) && (m1 =? 90) && (crc32 [b0; b1; b2; b3; f0; f1] =? c0 + 256 * (c1 + 256 * (c2 + 256 * c3)))
  | _ => false
  end.

Definition le32 (l : list N) : N :=
  match l with [c0; c1; c2; c3] => c0 + 256 * (c1 + 256 * (c2 + 256 * c3)) | _ => 0 end.

(* the index the footer points to (backward size), when it lies inside the window: indicator 0x00 ... CRC32 *)
Definition index_ok (t : list N) : bool :=
  match lastn 12 t with
  | [_; _; _; _; b0; b1; b2; b3; _; _; _; _] =>
      let sizeN := (le32 [b0; b1; b2; b3] + 1) * 4 in
      if 12 + sizeN <=? N.of_nat (length t) then
        let size := N.to_nat sizeN in
        let idx := firstn size (lastn (12 + size) t) in
        match idx with
        | 0 :: _ => crc32 (firstn (size - 4) idx) =? le32 (skipn (size - 4) idx)
        | _ => false
        end
      else true
  | _ => false
  end.

(* verdict from the window (the last W bytes before the trailing zeros) and the number of trailing zeros *)
Definition complete_of (t : list N) (zeros : nat) : bool :=
  if footer_ok (lastn 12 t) then (if index_ok t then (Nat.modulo zeros 4 =? 0)%nat else false) else false.

Definition xz_complete_st (st : xzend) : bool := complete_of (x_last st) (x_zeros st).
Definition XZW : nat := N.to_nat 65536.       (* xzTailWindow *)
Definition xz_track := xz_track_w XZW.

(* specification: the bytes before the trailing zeros, the number of trailing zeros *)
Fixpoint tz_rev (rl : list N) : nat := match rl with 0 :: t => S (tz_rev t) | _ => O end.
Definition tz (l : list N) : nat := tz_rev (rev l).
Definition body (l : list N) : list N := firstn (length l - tz l) l.
Definition xz_complete_w (W : nat) (raw : list N) : bool := complete_of (lastn W (body raw)) (tz raw).
Definition xz_complete := xz_complete_w XZW.

(* xzTruncationReporter: the library's io.EOF is accepted only at a complete stream *)
Definition xz_guard (raw : list N) (lib : rfin) : rfin :=
  match lib with
  | REof => if xz_complete raw then REof else RUnexpectedEof
  | f => f
  end.

(* the 12 bytes stream header of an xz file produced by `xz`, nothing after it *)
Definition xz_header_only : list N := [253;55;122;88;90;0;0;4;230;214;180;70].
(* the complete container of the empty text *)
Definition xz_empty_container : list N :=
  [253;55;122;88;90;0;0;4;230;214;180;70;0;0;0;0;28;223;68;33;31;182;243;125;1;0;0;0;0;4;89;90].


(* ---------------------------------------------------------------- readers with a read schedule *)
Inductive reader :=
| RBytes (l : list N)                                           (* bytes.NewReader(buf[:n]) *)
| RSrc (d : list N) (sch : list nat) (f : ferr) (eager : bool)  (* file / decompressor: d then f; the i-th Read hands over at most
                                                                   S (nth i sch) bytes; eager: f comes together with the last bytes *)
| RMulti (a b : reader)                                         (* io.MultiReader(a, b) *)
| RBuf (bs : nat) (buf : list N) (pend : option ferr) (u : reader).   (* bufio.Reader of size bs: unread bytes, pending b.err *)

(* Read(p) with len(p) = S k: bytes, error (None = nil), the reader afterwards *)
Fixpoint read (k : nat) (r : reader) : list N * option ferr * reader :=
  match r with
  | RBytes [] => ([], Some FEof, r)
  | RBytes l => (firstn (S k) l, None, RBytes (skipn (S k) l))
  | RSrc [] _ f _ => ([], Some f, r)
  | RSrc d sch f eager =>
      let m := Nat.min (S k) (match sch with [] => S k | s :: _ => S s end) in
      match skipn m d with
      | [] => (firstn m d, if eager then Some f else None, RSrc [] (tl sch) f eager)
      | d' => (firstn m d, None, RSrc d' (tl sch) f eager)
      end
  | RMulti a b =>
      let '(x, e, a') := read k a in
      match e with
      | Some FEof => match x with [] => read k b | _ => (x, None, b) end
      | _ => (x, e, RMulti a' b)
      end
  | RBuf bs buf pend u =>
      match buf with
      | _ :: _ => (firstn (S k) buf, None, RBuf bs (skipn (S k) buf) pend u)
      | [] =>
          match pend with
          | Some f => ([], Some f, RBuf bs [] None u)
          | None =>
              if (bs <=? S k)%nat then let '(x, e, u') := read k u in (x, e, RBuf bs [] None u')
              else let '(x, e, u') := read (Nat.pred bs) u in
                   match x with
                   | [] => ([], e, RBuf bs [] None u')
                   | _ => (firstn (S k) x, None, RBuf bs (skipn (S k) x) e u')
                   end
          end
      end
  end.

(* the byte stream a reader stands for: all its bytes, how it ends *)
Fixpoint den (r : reader) : list N * ferr :=
  match r with
  | RBytes l => (l, FEof)
  | RSrc d _ f _ => (d, f)
  | RMulti a b => let '(x, f) := den a in
                  match f with FEof => let '(y, g) := den b in (x ++ y, g) | _ => (x, f) end
  | RBuf _ buf pend u => match pend with
                         | Some f => (buf, f)
                         | None => let '(y, g) := den u in (buf ++ y, g)
                         end
  end.
Definition den_stream (r : reader) : rstream := mkr (fst (den r)) (snd (den r)).

(* a pending error of a bufio.Reader is the error of its exhausted source *)
Fixpoint wf (r : reader) : Prop :=
  match r with
  | RBytes _ | RSrc _ _ _ _ => True
  | RMulti a b => wf a /\ wf b
  | RBuf _ _ pend u => wf u /\ match pend with Some f => den u = ([], f) | None => True end
  end.

(* io.ReadFull(r, buf) with len(buf) = k, n bytes already read into acc *)
Definition is_nil {A} (l : list A) : bool := match l with [] => true | _ => false end.
Fixpoint readfull_s (fuel k : nat) (acc : list N) (r : reader) : list N * reader * rerr :=
  match k with
  | O => (acc, r, ENil)
  | S k' =>
      match fuel with
      | O => (acc, r, EOther)
      | S fu =>
          let '(x, e, r') := read k' r in
          match e with
          | None => readfull_s fu (k - length x) (acc ++ x) r'
          | Some f => if (k <=? length x)%nat then (acc ++ x, r', ENil)
                      else (acc ++ x, r', end_error f (is_nil (acc ++ x)))
          end
      end
  end.

(* OBIMimeTypeGuesser: the detector sees the whole buffer (mimetype.Detect(buf), zero padded), the parser reads
   MultiReader(bytes.NewReader(buf[:n]), stream) when the buffer was filled, bytes.NewReader(buf[:n]) otherwise *)
Definition sniff_s (sn : nat) (r : reader) : option (list N * reader) :=
  let '(a, r', e) := readfull_s sn sn [] r in
  let seen := a ++ repeat 0 (sn - length a) in
  match e with
  | ENil => Some (seen, RMulti (RBytes a) r')
  | EUnexpectedEof => Some (seen, RBytes a)
  | _ => None
  end.

(* a consumer which reads with any request sizes until the first error *)
Fixpoint drain (fuel : nat) (ks : list nat) (r : reader) : list N * option ferr :=
  match fuel with
  | O => ([], None)
  | S fu =>
      let '(x, e, r') := read (hd O ks) r in
      match e with
      | Some f => (x, Some f)
      | None => let '(y, g) := drain fu (tl ks) r' in (x ++ y, g)
      end
  end.


(* ---------------------------------------------------------------- correspondence: the xz end-of-stream guard *)
(* raw: the bytes of the (damaged) container; lib_open / lib_fin: what the xz library alone does with them (harness route
   xzlib); obs_eof: through xopen.Buf the stream ends with a clean EOF (an empty file counts as such) *)
Record xzcase := mkxz { z_raw : list N; z_open : bool; z_lib : rfin; z_eof : bool }.

Definition xz_model_eof (c : xzcase) : bool :=
  z_open c && match xz_guard (z_raw c) (z_lib c) with REof => true | _ => false end.

Fixpoint xz_mismatches_from (i : nat) (l : list xzcase) : list nat :=
  match l with
  | [] => []
  | c :: t => if Bool.eqb (xz_model_eof c) (z_eof c) then xz_mismatches_from (S i) t else i :: xz_mismatches_from (S i) t
  end.
Definition xz_mismatches (l : list xzcase) : list nat := xz_mismatches_from 0 l.

(* ================================================================ round 3 ================================================================ *)
(* ---------------------------------------------------------------- error reporters as readers; several inputs *)
(* shortInputReporter (raw input) / truncationReporter (decompressors): the error of the wrapped reader is renamed *)
Definition report_err (f : ferr) : ferr := match f with FUnexpected => FTruncated | x => x end.
Definition report_opt (e : option ferr) : option ferr := match e with Some f => Some (report_err f) | None => None end.
Definition report_src (r : reader) : reader :=
  match r with RSrc d sch f eager => RSrc d sch (report_err f) eager | x => x end.

(* original tree: a plain input is handed over as it is (no reporter around the raw reader) *)
Definition plain_unreported (s : stream) : rstream := raw s.

(* several inputs read one after the other (ReadSequencesBatchFromFiles with one reader: the inputs in order; --paired-with: both
   readers are opened, then consumed): the first input which does not end with status 0 decides (log.Fatalf / log.Panicf / os.Exit) *)
Fixpoint seq_outcomes (l : list outcome) : outcome :=
  match l with
  | [] => ExitOk []
  | ExitOk a :: t => match seq_outcomes t with ExitOk b => ExitOk (a ++ b) | x => x end
  | x :: _ => x
  end.

Section Multi.
  Variable split : list N -> option nat.
  Variable B ext : N.
  Variable detect : list N -> bool.
  Definition multi_command (sn : option N) (l : list stream) : outcome :=
    seq_outcomes (map (command_gen split B ext detect sn) l).
End Multi.

(* ---------------------------------------------------------------- correspondence: commands given several inputs *)
(* m_files: what the probe route decodes from every input, in reading order (c_obs unused); m_obs: verdict of the command *)
Record mcase := mkm { m_files : list case; m_obs : obs }.

Definition file_outcome (c : case) : outcome :=
  if negb (c_hdr c) then ExitFatal
  else command_gen fasta_split (c_B c) (c_ext c) (fun _ => c_recog c) (c_sn c) (mkstream (c_data c) (c_fin c)).

Definition multi_model_obs (m : mcase) : obs :=
  match seq_outcomes (map file_outcome (m_files m)) with
  | ExitFatal => OFatal
  | Diverges => ODiverges
  | ExitOk chunks =>
      if list_eqb (sig (concat chunks)) (sig (concat (map c_data (m_files m)))) then OOkAll else OOkPartial
  end.

Fixpoint multi_mismatches_from (i : nat) (l : list mcase) : list nat :=
  match l with
  | [] => []
  | c :: t => if obs_eqb (multi_model_obs c) (m_obs c) then multi_mismatches_from (S i) t else i :: multi_mismatches_from (S i) t
  end.
Definition multi_mismatches (l : list mcase) : list nat := multi_mismatches_from 0 l.

(* ---------------------------------------------------------------- xopen.Buf: which decompressor, from the magic number *)
Inductive codec := CGz | CZst | CXz | CBz2 | CRaw.

Definition magic (c : codec) : list N :=
  match c with
  | CGz => [31; 139] | CZst => [40; 181; 47; 253] | CXz => [253; 55; 122; 88; 90; 0] | CBz2 => [66; 90; 104] | CRaw => []
  end.

Fixpoint prefixb (m l : list N) : bool :=
  match m, l with
  | [], _ => true
  | x :: m', y :: l' => (x =? y) && prefixb m' l'
  | _ :: _, [] => false
  end.

(* CheckBytes(b, magic): None = the error of Peek (the stream is shorter than the magic) *)
Definition check_orig (m l : list N) : option bool :=
  if (length l <? length m)%nat then None else Some (prefixb m l).
(* repaired: a stream shorter than the magic does not begin with it, and that is no error *)
Definition check_fixed (m l : list N) : option bool := Some (prefixb m l).

(* the if / else-if chain of Buf: IsGzip, IsZst, IsXz, IsBzip2; an error ends the search (plain data) *)
Definition select (check : list N -> list N -> option bool) (l : list N) : codec :=
  match check (magic CGz) l with
  | None => CRaw | Some true => CGz
  | Some false =>
    match check (magic CZst) l with
    | None => CRaw | Some true => CZst
    | Some false =>
      match check (magic CXz) l with
      | None => CRaw | Some true => CXz
      | Some false =>
        match check (magic CBz2) l with
        | None => CRaw | Some true => CBz2
        | Some false => CRaw
        end
      end
    end
  end.

Definition codec_eqb (a b : codec) : bool :=
  match a, b with CGz, CGz | CZst, CZst | CXz, CXz | CBz2, CBz2 | CRaw, CRaw => true | _, _ => false end.

(* correspondence: the first bytes of the input; through xopen.Buf the bytes came out as they went in (plain data) *)
Record selcase := mks { s_head : list N; s_plain : bool }.
Fixpoint sel_mismatches_from (i : nat) (l : list selcase) : list nat :=
  match l with
  | [] => []
  | c :: t => if Bool.eqb (codec_eqb (select check_fixed (s_head c)) CRaw) (s_plain c) then sel_mismatches_from (S i) t
              else i :: sel_mismatches_from (S i) t
  end.
Definition sel_mismatches (l : list selcase) : list nat := sel_mismatches_from 0 l.

(* ---------------------------------------------------------------- ExpandListOfFiles: which files a command reads *)
(* paths are byte strings; the extension filter of a directory search *)
Definition has_suffix (suf p : list N) : bool := prefixb (rev suf) (rev p).
Definition SUFFIXES : list (list N) :=
  [ [102;97;115;116;97]; [102;97;115;116;97;46;103;122]; [102;97;115;116;113]; [102;97;115;116;113;46;103;122];
    [115;101;113]; [115;101;113;46;103;122]; [103;98]; [103;98;46;103;122]; [100;97;116]; [100;97;116;46;103;122];
    [101;99;111;112;99;114]; [101;99;111;112;99;114;46;103;122] ].    (* fasta fasta.gz fastq fastq.gz seq seq.gz gb gb.gz dat dat.gz ecopcr ecopcr.gz *)
Definition accepted (p : list N) : bool := existsb (fun s => has_suffix s p) SUFFIXES.

(* an argument: a regular file, or a directory given by the regular files below it (any depth) in the order filepath.Walk meets them *)
Inductive arg := AFile (p : list N) | ADir (files : list (list N)).

Fixpoint pmem (p : list N) (l : list (list N)) : bool :=
  match l with [] => false | q :: t => list_eqb p q || pmem p t end.
(* orderedset.Add *)
Definition oadd (acc : list (list N)) (p : list N) : list (list N) := if pmem p acc then acc else acc ++ [p].
Definition oadd_if (acc : list (list N)) (p : list N) : list (list N) := if accepted p then oadd acc p else acc.

(* chk is the parameter check_ext: false at the call of the command. The check asked for by a directory argument concerns the
   content of that directory only (the loop works on a copy of the parameter since the repair "ExpandListOfFiles keeps the files
   named after a directory argument"; before it the first directory argument set it for the arguments which followed). *)
Fixpoint expand_from (chk : bool) (acc : list (list N)) (args : list arg) : list (list N) :=
  match args with
  | [] => acc
  | AFile p :: t => expand_from chk (if negb chk || accepted p then oadd acc p else acc) t
  | ADir fs :: t => expand_from chk (fold_left oadd_if fs acc) t
  end.
Definition expand (args : list arg) : list (list N) := expand_from false [] args.

(* correspondence: the arguments (directories listed by the test generator), the list the real function returns *)
Record expcase := mke { e_args : list arg; e_out : list (list N) }.
Fixpoint lists_eqb (a b : list (list N)) : bool :=
  match a, b with
  | [], [] => true
  | x :: a', y :: b' => list_eqb x y && lists_eqb a' b'
  | _, _ => false
  end.
Fixpoint exp_mismatches_from (i : nat) (l : list expcase) : list nat :=
  match l with
  | [] => []
  | c :: t => if lists_eqb (expand (e_args c)) (e_out c) then exp_mismatches_from (S i) t else i :: exp_mismatches_from (S i) t
  end.
Definition exp_mismatches (l : list expcase) : list nat := exp_mismatches_from 0 l.

