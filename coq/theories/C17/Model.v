(* C17 — truncated or corrupt compressed input is reported, never silently accepted.

   Executable model of the read path of pkg/obiformats (definitions only):
     xopen.Buf              codec wrapper + first-rune test            [wrap / raw, open_fixed / open_orig]
     io.ReadFull            per the Go documentation                   [readfull]
     OBIMimeTypeGuesser     ReadFull of the sniff buffer               [sniff]
     ReadSeqFileChunk       the two nested loops, flattened            [chunk_loop, chunker]
     ReadSequencesFromFile / command exit status                       [pipeline, command_outcome]
   Both the original (defective) error handling ( *_orig ) and the repaired one are kept.
   Bytes are N. The record splitter and the format detector are parameters (the concrete
   EndOfLastFastaEntry is transcribed below: fasta_split). *)
From Coq Require Import List NArith ZArith Bool.
Import ListNotations.
Open Scope N_scope.

(* ---------------------------------------------------------------- streams *)
(* how the stream handed over by the decompressor (or the plain file) ends *)
Inductive rfin := REof | RUnexpectedEof | ROther.
Record stream := mkstream { data : list N; fin : rfin }.

(* the stream as seen by the readers behind xopen.Buf: FTruncated is ErrTruncatedInput *)
Inductive ferr := FEof | FUnexpected | FTruncated | FOther.
Record rstream := mkr { rdata : list N; rfin_ : ferr }.

(* original code: the decompressor is handed over as it is *)
Definition raw (s : stream) : rstream :=
  mkr (data s) match fin s with REof => FEof | RUnexpectedEof => FUnexpected | ROther => FOther end.
(* repaired code: truncationReporter turns the decompressor's io.ErrUnexpectedEOF into ErrTruncatedInput *)
Definition wrap (s : stream) : rstream :=
  mkr (data s) match fin s with REof => FEof | RUnexpectedEof => FTruncated | ROther => FOther end.

(* ---------------------------------------------------------------- io.ReadFull *)
Inductive rerr := ENil | EEof | EUnexpectedEof | ETruncated | EOther.

(* take n l = (the first min(n,|l|) elements, the others, how many of the n are missing) *)
Fixpoint take (n : N) (l : list N) : list N * list N * N :=
  match l with
  | [] => ([], [], n)
  | x :: t => if n =? 0 then ([], l, 0)
              else let '(a, b, r) := take (N.pred n) t in (x :: a, b, r)
  end.

(* error reported by a Read that finds the stream exhausted *)
Definition end_error (f : ferr) (nothing_read : bool) : rerr :=
  match f with
  | FEof => if nothing_read then EEof else EUnexpectedEof   (* ReadFull's own conversion *)
  | FUnexpected => EUnexpectedEof                             (* underlying error, as it is *)
  | FTruncated => ETruncated
  | FOther => EOther
  end.

Definition readfull (n : N) (s : rstream) : list N * rstream * rerr :=
  let '(a, b, missing) := take n (rdata s) in
  if missing =? 0 then (a, mkr b (rfin_ s), ENil)
  else (a, mkr b (rfin_ s), end_error (rfin_ s) match a with [] => true | _ => false end).

(* ---------------------------------------------------------------- xopen.Buf: first rune *)
Inductive opened := Opened | NoContent | OpenError.

(* original: every error of the first ReadRune is ErrNoContent *)
Definition open_orig (s : rstream) : opened :=
  match rdata s with [] => NoContent | _ => Opened end.
(* repaired: only a clean EOF is ErrNoContent *)
Definition open_fixed (s : rstream) : opened :=
  match rdata s with
  | [] => match rfin_ s with FEof => NoContent | _ => OpenError end
  | _ => Opened
  end.

(* ---------------------------------------------------------------- OBIMimeTypeGuesser *)
(* n, err := io.ReadFull(stream, buf); err other than nil / io.ErrUnexpectedEOF is returned (fatal);
   err == nil: the reader is MultiReader(buf[:n], stream); otherwise only buf[:n] (ends with a clean EOF) *)
Definition sniff (sn : N) (s : rstream) : option (list N * rstream) :=
  let '(a, rest, e) := readfull sn s in
  match e with
  | ENil => Some (a, mkr (a ++ rdata rest) (rfin_ rest))
  | EUnexpectedEof => Some (a, mkr a FEof)
  | _ => None
  end.

(* ---------------------------------------------------------------- ReadSeqFileChunk *)
Inductive outcome :=
| ExitOk (chunks : list (list N))     (* exit status 0, these chunks were delivered to the parsers *)
| ExitFatal                           (* log.Fatalf / os.Exit(1) *)
| Diverges.                           (* fuel exhausted / impossible state: never a normal result *)

Definition is_nl (c : N) : bool := (c =? 10) || (c =? 13).

(* for len(buff) > 0 && (buff[len(buff)-1] == '\n' || == '\r') { buff = buff[:len(buff)-1] } *)
Fixpoint strip_nl (l : list N) : list N :=
  match l with
  | [] => []
  | x :: t => match strip_nl t with
              | [] => if is_nl x then [] else [x]
              | t' => x :: t'
              end
  end.

(* if len(buff) > 0 { chunk_channel <- ... } *)
Definition emit (acc : list (list N)) (c : list N) : list (list N) :=
  match c with [] => acc | _ => acc ++ [c] end.

(* after the loop: fatal unless EOF / ErrUnexpectedEOF; then the rest of the buffer is the last chunk *)
Definition finish (e : rerr) (buff : list N) (acc : list (list N)) : outcome :=
  match e with
  | EEof | EUnexpectedEof => ExitOk (emit acc buff)
  | ETruncated | EOther => ExitFatal
  | ENil => Diverges
  end.

Section Chunker.
  Variable split : list N -> option nat.     (* LastSeqRecord: None is -1 *)
  Variable B : N.                            (* len(buff) = fileChunkSize *)
  Variable ext : N.                          (* size of an extension read: fileChunkSize-1 (fileChunkSize after the C01 repair) *)

  (* One turn of `for err == nil { for end = splitter(buff); err == nil && end < 0; ... }`, flattened:
     the state is (buff, what is left of the stream); err == nil in every state. *)
  Fixpoint chunk_loop (fuel : nat) (buff : list N) (s : rstream) (acc : list (list N)) : outcome :=
    match fuel with
    | O => Diverges
    | S f =>
      match split buff with
      | Some e =>
          (* no read; the part before the last record is sent, the rest is kept *)
          match buff with
          | [] => chunk_loop f buff s acc
          | _ => chunk_loop f (skipn e buff) s (emit acc (strip_nl (firstn e buff)))
          end
      | None =>
          (* extension read *)
          let '(a, rest, er) := readfull ext s in
          let buff1 := buff ++ a in
          match er with
          | ENil => chunk_loop f buff1 rest acc
          | _ =>
              let e := match split buff1 with Some e => e | None => length buff1 end in
              match buff1 with
              | [] => finish er [] acc
              | _ => finish er (skipn e buff1) (emit acc (strip_nl (firstn e buff1)))
              end
          end
      end
    end.

  Definition chunker (s : rstream) : outcome :=
    let '(a, rest, e) := readfull B s in
    (* if err == io.ErrUnexpectedEOF { err = nil } *)
    let e' := match e with EUnexpectedEof => ENil | _ => e end in
    match e' with
    | ENil => chunk_loop (2 * length (rdata s) + 1) a rest []
    | _ => finish e' a []
    end.

  (* ------------------------------------------------------------ the command *)
  Variable detect : list N -> bool.          (* the sniffed bytes are FASTA / FASTQ *)

  (* sn = None: ReadSeqFileChunk directly behind Buf (harness route `chunk`) *)
  Definition pipeline (open : rstream -> opened) (sn : option N) (s : rstream) : outcome :=
    match open s with
    | NoContent => ExitOk []                  (* ReadEmptyFile *)
    | OpenError => ExitFatal                  (* log.Fatalf("open file error") *)
    | Opened =>
        match sn with
        | None => chunker s
        | Some n =>
            match sniff n s with
            | None => ExitFatal               (* OpenSequenceDataErrorMessage -> os.Exit(1) *)
            | Some (a, s') => if detect a then chunker s' else ExitFatal   (* format not implemented *)
            end
        end
    end.

  Definition command_gen (sn : option N) (s : stream) : outcome := pipeline open_fixed sn (wrap s).
  Definition command_gen_orig (sn : option N) (s : stream) : outcome := pipeline open_orig sn (raw s).
End Chunker.

(* what the sniffer hands to the detector *)
Definition sniffed (sn : N) (s : stream) : list N := fst (fst (take sn (data s))).

(* bytes that matter: everything but the line ends the chunker may strip *)
Definition sig (l : list N) : list N := filter (fun c => negb (is_nl c)) l.

(* ---------------------------------------------------------------- EndOfLastFastaEntry *)
(* for i = imax-1; i >= 0 && state < 2; i-- { ... } on the reversed buffer; returns (i, state, last) *)
Fixpoint fasta_scan (rl : list N) (i : Z) (state : N) (last : Z) : Z * N * Z :=
  match rl with
  | [] => (i, state, last)
  | c :: t =>
      if state <? 2 then
        if (c =? 62) && (state =? 0) then fasta_scan t (i - 1)%Z 1 i
        else if (state =? 1) && is_nl c then fasta_scan t (i - 1)%Z 2 last
        else fasta_scan t (i - 1)%Z 0 last
      else (i, state, last)
  end.

Definition fasta_split (b : list N) : option nat :=
  let '(i, st, last) := fasta_scan (rev b) (Z.of_nat (length b) - 1)%Z 0 0%Z in
  if (i =? 0)%Z || negb (st =? 2) then None else Some (Z.to_nat last).

(* ---------------------------------------------------------------- production instance *)
Definition SNIFF : N := 1048576.      (* buf := make([]byte, 1024*1024) in OBIMimeTypeGuesser *)
Definition CHUNK : N := 1048576.      (* buff := make([]byte, 1024*1024) in ReadFasta / ReadFastq *)
Definition EXT : N := CHUNK - 1.      (* extbuff := buff[l:(l + fileChunkSize - 1)]; the theorems hold for every size >= 1 *)

Definition fasta_detect (l : list N) : bool :=     (* ^>[^ ] *)
  match l with 62 :: c :: _ => negb (c =? 32) | _ => false end.

Definition command_outcome_with (ext : N) (s : stream) : outcome := command_gen fasta_split CHUNK ext fasta_detect (Some SNIFF) s.
Definition command_outcome (s : stream) : outcome := command_outcome_with EXT s.
Definition command_outcome_orig (s : stream) : outcome := command_gen_orig fasta_split CHUNK EXT fasta_detect (Some SNIFF) s.

(* ---------------------------------------------------------------- correspondence *)
Inductive obs :=
| OFatal
| OOkAll                      (* exit 0, every record of the decoded data was delivered *)
| OOkPartial                  (* exit 0, something is missing *)
| OOkBytes (n sum : N)        (* chunk route: count and sum of the delivered bytes other than line ends *)
| ODiverges.

Record case := mkc {
  c_data : list N;            (* bytes decoded before the fault (probe route) *)
  c_fin : rfin;               (* how the decoded stream ends *)
  c_hdr : bool;               (* the decompressor could be created (container header readable) *)
  c_sn : option N;            (* sniffer buffer (None: chunk route) *)
  c_B : N;                    (* chunk buffer *)
  c_ext : N;                  (* extension read *)
  c_recog : bool;             (* the format detector accepts the sniffed bytes *)
  c_obs : obs }.

Fixpoint list_eqb (a b : list N) : bool :=
  match a, b with
  | [], [] => true
  | x :: a', y :: b' => (x =? y) && list_eqb a' b'
  | _, _ => false
  end.

Definition obs_eqb (a b : obs) : bool :=
  match a, b with
  | OFatal, OFatal | OOkAll, OOkAll | OOkPartial, OOkPartial | ODiverges, ODiverges => true
  | OOkBytes n s, OOkBytes n' s' => (n =? n') && (s =? s')
  | _, _ => false
  end.

Definition model_obs (c : case) : obs :=
  if negb (c_hdr c) then OFatal else
  match command_gen fasta_split (c_B c) (c_ext c) (fun _ => c_recog c) (c_sn c) (mkstream (c_data c) (c_fin c)) with
  | ExitFatal => OFatal
  | Diverges => ODiverges
  | ExitOk chunks =>
      let d := sig (concat chunks) in
      match c_obs c with
      | OOkBytes _ _ => OOkBytes (N.of_nat (length d)) (fold_left N.add d 0)
      | _ => if list_eqb d (sig (c_data c)) then OOkAll else OOkPartial
      end
  end.

Fixpoint mismatches_from (i : nat) (l : list case) : list nat :=
  match l with
  | [] => []
  | c :: t => if obs_eqb (model_obs c) (c_obs c) then mismatches_from (S i) t else i :: mismatches_from (S i) t
  end.

Definition mismatches (l : list case) : list nat := mismatches_from 0 l.
