(** C18, round 3 — definitions only.

    (1) Streams the writer does NOT own (OptionDontCloseFile: WriteJSONToStdout / WriteCSVToStdout, and
        CompressStream(out, _, false) in general): Wfile.Close still flushes bufio and closes the
        compressor — that is the final write of the result — but leaves the stream open.  This is one more
        lower layer of Layer.v: same writes, a Close that does nothing ([own_close false]).
    (2) A history of calls on ONE Wfile (Write / WriteString any number of times, then Close), every call
        returning its own result — the API of pkg/obiutils/gzipfile.go as any caller may use it
        (OpenWritingFile / CompressStream; WriteSeqFileChunk with toBeClosed = false leaves the Close to
        its caller).
    (3) The order of the last steps of the writer goroutine: the Close error is reported (log.Fatalf)
        BEFORE or AFTER completion is signalled (UnregisterPipe / close(done) / waitWriter.Done): after
        the signal the main goroutine may return from main with status 0 at any moment. *)
From Coq Require Import List Arith NArith Bool.
From OBI.Common Require Import Reseq.
From OBI.C18 Require Import Model Layer.
Import ListNotations.

(** ---- (1) owned or not *)
Definition own_close (own : bool) (s : sdev) : sdev * bool := if own then sdev_close s else (s, false).

(* compressed and not owned: gf.Close() only *)
Section GzKeep.
Variable G : Type.
Variable gclose : G -> fdev -> G * fdev * bool.
Definition z_close_keep (z : zdev G) : zdev G * bool :=
  let '(g, f, fed) := z in
  let '(g', f1, e1) := gclose g f in ((g', f1, fed), e1).
End GzKeep.

(** ---- (2) a history of calls on one Wfile, over any lower layer *)
Section Session.
Variable D : Type.
Variable lwrite : D -> list N -> D * nat * bool.
Variable lclose : D -> D * bool.
Variable bsz : nat.
Variable fuel : nat.
Fixpoint wf_calls (b : bw) (d : D) (ps : list (list N)) : bw * D * list res :=
  match ps with
  | [] => (b, d, [])
  | p :: r => let '(b1, d1, x) := g_write D lwrite bsz fuel b d p in
              let '(b2, d2, xs) := wf_calls b1 d1 r in (b2, d2, x :: xs)
  end.
(* (final lower layer, result of every Write, did Close return an error) *)
Definition wf_session (d0 : D) (ps : list (list N)) : D * list res * bool :=
  let '(b, d, xs) := wf_calls (mkbw [] false) d0 ps in
  let '(_, d', e) := g_close D lwrite lclose b d in (d', xs, e).
End Session.

Definition is_ok (r : res) : bool := match r with Ok => true | _ => false end.
(* what a caller that checks every result sees: was a failure reported at all *)
Definition reported (xs : list res) (e : bool) : bool := negb (forallb is_ok xs) || e.

(** ---- (3) the end of the writer goroutine as a sequence of events *)
Inductive event := EvFatal | EvSignal.
Inductive order := CheckThenSignal | SignalThenCheck.
(* [close_err]: the error of Wfile.Close as the goroutine sees it; [running]: no log.Fatalf so far *)
Definition tail_events (o : order) (running close_err : bool) : list event :=
  if negb running then [EvFatal]
  else match o, close_err with
       | _, false => [EvSignal]
       | CheckThenSignal, true => [EvFatal]            (* the process exits inside log.Fatalf: nothing follows *)
       | SignalThenCheck, true => [EvSignal; EvFatal]
       end.
(* main may leave with status 0 as soon as completion has been signalled, unless the process has already died *)
Definition may_exit_ok (evs : list event) : bool :=
  match evs with
  | [] => false
  | EvSignal :: _ => true
  | EvFatal :: _ => false
  end.
(* the sequence writer with its events: the loop and the Close as in Layer.v, Close error NOT turned into an exit by
   g_do_close (chk = false) but handed to [tail_events] *)
Section Events.
Variable D : Type.
Variable lwrite : D -> list N -> D * nat * bool.
Variable lclose : D -> D * bool.
Variable bsz : nat.
Variable fuel : nat.
Definition fastx_loop (k1 k2 : bool) (arr : list (nat * chunk)) (d0 : D) : gws D :=
  wrun (fun _ s ch => g_do_write D lwrite bsz fuel k1 s ch) (fun _ s ch => g_do_write D lwrite bsz fuel k2 s ch) arr (g_start D d0).
Definition fastx_events (o : order) (k1 k2 : bool) (arr : list (nat * chunk)) (d0 : D) : list event * D :=
  let s := fastx_loop k1 k2 arr d0 in
  match go D s with
  | ExitOk => let '(_, d', e) := g_close D lwrite lclose (gb D s) (gd D s) in (tail_events o true e, d')
  | _ => ([EvFatal], gd D s)
  end.
End Events.

(* the same for any writer: [s] is the state of the writer goroutine when it reaches Close *)
Section EndEvents.
Variable D : Type.
Variable lwrite : D -> list N -> D * nat * bool.
Variable lclose : D -> D * bool.
Definition end_events (o : order) (s : gws D) : list event * D :=
  match go D s with
  | ExitOk => let '(_, d', e) := g_close D lwrite lclose (gb D s) (gd D s) in (tail_events o true e, d')
  | _ => ([EvFatal], gd D s)
  end.
End EndEvents.
Definition json_before_close bsz fuel k arr d0 : gws sdev :=
  g_do_write sdev sdev_write bsz fuel k
    (fst (wrun (g_jemit sdev sdev_write bsz fuel k) (g_jemit sdev sdev_write bsz fuel k) arr
               (g_do_write sdev sdev_write bsz fuel k (g_start sdev d0) json_open, false))) json_close.
Definition csv_before_close bsz fuel k arr d0 : gws sdev :=
  wrun (fun _ s ch => g_do_write sdev sdev_write bsz fuel k s ch) (fun _ s ch => g_do_write sdev sdev_write bsz fuel k s ch) arr (g_start sdev d0).

(** ---- correspondence *)
(* writers on a stream that is owned or not; device shapes as in Layer.v *)
Record ucase := mkuc { uown : bool; ucs : scase }.
Definition urun (u : ucase) : gws sdev :=
  let c := ucs u in
  let d0 := mksdev (mkdev (sfail c) (scloseok c) [] 0) (scut c) (szero c) 0 in
  let fl := 16 in
  let cl := own_close (uown u) in
  match sk c with
  | KFasta | KFastq => g_fastx sdev sdev_write cl go_bufsize fl true true (arrivals (schunks c) (sarrival c)) d0
  | KJson => g_json sdev sdev_write cl go_bufsize fl true (arrivals (schunks c) (sarrival c)) d0
  | KCsv => g_csv sdev sdev_write cl go_bufsize fl true (arrivals (csv_chunks (sheader c) (schunks c)) (sarrival c)) d0
  end.
Fixpoint umismatches_from (i : nat) (l : list ucase) : list nat :=
  match l with
  | [] => []
  | u :: l' => let rest := umismatches_from (S i) l' in if sagrees (urun u) (ucs u) then rest else i :: rest
  end.
Definition umismatches := umismatches_from 0.

(* a history of calls on one Wfile: observed = was a failure reported; if not: bytes in the device, Close count *)
Record wcase := mkwc { wown : bool; wops : list chunk; wfail : option nat; wcloseok : bool; wcut : option nat; wzero : bool;
                       wreported : bool; wgot : list N; wcloses : nat }.
Definition wrun_session (c : wcase) : sdev * list res * bool :=
  wf_session sdev sdev_write (own_close (wown c)) go_bufsize 16
             (mksdev (mkdev (wfail c) (wcloseok c) [] 0) (wcut c) (wzero c) 0) (wops c).
Definition wagrees (c : wcase) : bool :=
  let '(d, xs, e) := wrun_session c in
  if reported xs e then wreported c
  else negb (wreported c) && nlist_eqb (got (sd d)) (wgot c) && Nat.eqb (closes (sd d)) (wcloses c).
Fixpoint wmismatches_from (i : nat) (l : list wcase) : list nat :=
  match l with
  | [] => []
  | c :: l' => let rest := wmismatches_from (S i) l' in if wagrees c then rest else i :: rest
  end.
Definition wmismatches := wmismatches_from 0.
