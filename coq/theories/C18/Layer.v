(** C18 — the output path over an ABSTRACT lower layer, and three lower layers.

    Model.v fixes the layer below bufio to the concrete device (accepts k bytes, then fails).  Here the
    same transcription of bufio.Writer / Wfile / the writer loops is made over any lower layer
    [lwrite] / [lclose] (Section variables), so that the theorems of LayerProofs.v hold for
      - the plain device of Model.v,
      - a device with other error shapes ([sdev]: a short write WITHOUT error, an error on a zero-length write),
      - the compression layer of -Z ([zdev]): an abstract transducer (state [G], operations [gwrite] /
        [gclose], any behaviour) between bufio and the device.
    The loop of bufio.Writer.Write is run with an arbitrary [fuel] (a lower layer that keeps
    returning short writes without error makes it iterate; OutOfFuel stands for "never returns").
    Definitions only. *)
From Coq Require Import List Arith NArith Bool.
From OBI.Common Require Import Reseq.
From OBI.C18 Require Import Model.
Import ListNotations.

Section Lower.
Variable D : Type.
Variable lwrite : D -> list N -> D * nat * bool.   (* (state, n, err != nil) *)
Variable lclose : D -> D * bool.
Variable bsz : nat.
Variable fuel : nat.

Definition g_flush (b : bw) (d : D) : bw * D * bool :=
  if berr b then (b, d, true)
  else match bbuf b with
       | [] => (b, d, false)
       | _ :: _ =>
         let '(d', n, e) := lwrite d (bbuf b) in
         if e || (n <? length (bbuf b)) then (mkbw (skipn n (bbuf b)) true, d', true)   (* io.ErrShortWrite *)
         else (mkbw [] false, d', false)
       end.

Fixpoint g_write (fl : nat) (b : bw) (d : D) (p : list N) : bw * D * res :=
  if (bsz - length (bbuf b) <? length p) && negb (berr b) then
    match fl with
    | O => (b, d, Fuel)
    | S f =>
      match bbuf b with
      | [] => let '(d', n, e) := lwrite d p in g_write f (mkbw [] e) d' (skipn n p)
      | _ :: _ =>
        let n := bsz - length (bbuf b) in
        let '(b', d', _) := g_flush (mkbw (bbuf b ++ firstn n p) false) d in
        g_write f b' d' (skipn n p)
      end
    end
  else if berr b then (b, d, Err)
  else (mkbw (bbuf b ++ p) false, d, Ok).

(* Wfile.Close of the repaired code: the error of Flush is returned *)
Definition g_close (b : bw) (d : D) : bw * D * bool :=
  let '(b', d', ef) := g_flush b d in
  let '(d'', ec) := lclose d' in
  (b', d'', ef || ec).

Record gws := mkgws { gb : bw; gd : D; go : outcome }.
Definition g_do_write (chk : bool) (s : gws) (p : list N) : gws :=
  match go s with
  | ExitOk =>
    let '(b', d', r) := g_write fuel (gb s) (gd s) p in
    mkgws b' d' (match r with Ok => ExitOk | Err => if chk then ExitFatal else ExitOk | Fuel => OutOfFuel end)
  | _ => s
  end.
Definition g_do_close (chk : bool) (s : gws) : gws :=
  match go s with
  | ExitOk => let '(b', d', e) := g_close (gb s) (gd s) in mkgws b' d' (if e && chk then ExitFatal else ExitOk)
  | _ => s
  end.
Definition g_start (d0 : D) : gws := mkgws (mkbw [] false) d0 ExitOk.

(* the writers; [k1] / [k2]: is the error of Write looked at on the in-order path / for a drained chunk *)
Definition g_fastx (k1 k2 : bool) (arr : list (nat * chunk)) (d0 : D) : gws :=
  g_do_close true (wrun (fun _ s ch => g_do_write k1 s ch) (fun _ s ch => g_do_write k2 s ch) arr (g_start d0)).
Definition g_jemit (chk : bool) (_ : nat) (s : gws * bool) (ch : chunk) : gws * bool :=
  let '(w, wrote) := s in
  if is_nil ch then (w, wrote) else (g_do_write chk (if wrote then g_do_write chk w json_sep else w) ch, true).
Definition g_json (k : bool) (arr : list (nat * chunk)) (d0 : D) : gws :=
  g_do_close true (g_do_write k (fst (wrun (g_jemit k) (g_jemit k) arr (g_do_write k (g_start d0) json_open, false))) json_close).
Definition g_csv (k : bool) (arr : list (nat * chunk)) (d0 : D) : gws :=
  g_do_close true (wrun (fun _ s ch => g_do_write k s ch) (fun _ s ch => g_do_write k s ch) arr (g_start d0)).
End Lower.

(** ---- lower layer 1: the device of Model.v *)
Definition plain_write (d : dev) (p : list N) : dev * nat * bool := dev_write d p.
Definition plain_close (d : dev) : dev * bool := dev_close d.

(** ---- lower layer 2: a device with other error shapes *)
Record sdev := mksdev {
  sd : dev;
  cut : option nat;     (* the first write that crosses this absolute offset stops there and reports NO error (once) *)
  zero_err : bool;      (* a zero-length write returns an error *)
  zero_seen : nat       (* zero-length writes received *)
}.
Definition sdev_write (s : sdev) (p : list N) : sdev * nat * bool :=
  match p with
  | [] => (mksdev (sd s) (cut s) (zero_err s) (S (zero_seen s)), 0, zero_err s)
  | _ :: _ =>
    let have := length (got (sd s)) in
    match cut s with
    | Some k =>
      if (have <? k) && (k <? have + length p)
      then let '(d', n, e) := dev_write (sd s) (firstn (k - have) p) in (mksdev d' None (zero_err s) (zero_seen s), n, e)
      else let '(d', n, e) := dev_write (sd s) p in (mksdev d' (cut s) (zero_err s) (zero_seen s), n, e)
    | None => let '(d', n, e) := dev_write (sd s) p in (mksdev d' None (zero_err s) (zero_seen s), n, e)
    end
  end.
Definition sdev_close (s : sdev) : sdev * bool :=
  let '(d', e) := dev_close (sd s) in (mksdev d' (cut s) (zero_err s) (zero_seen s), e).

(** ---- lower layer 3: compression.  The device remembers whether one of its writes failed. *)
Record fdev := mkfdev { fd : dev; ffailed : bool }.
Definition fdev_write (f : fdev) (p : list N) : fdev * nat * bool :=
  let '(d', n, e) := dev_write (fd f) p in (mkfdev d' (ffailed f || e), n, e).
Definition fdev_writes (f : fdev) (ps : list (list N)) : fdev := fold_left (fun f p => fst (fst (fdev_write f p))) ps f.

Section Gz.
Variable G : Type.                                             (* the state of the compressor: anything *)
Variable gwrite : G -> fdev -> list N -> G * fdev * nat * bool.  (* any behaviour *)
Variable gclose : G -> fdev -> G * fdev * bool.
(* compressor, device, ghost: the bytes the compressor accepted *)
Definition zdev := (G * fdev * list N)%type.
Definition z_write (z : zdev) (p : list N) : zdev * nat * bool :=
  let '(g, f, fed) := z in
  let '(g', f', n, e) := gwrite g f p in ((g', f', fed ++ firstn n p), n, e).
(* Wfile.Close: gf.Close() then out.Close(); the first error is returned *)
Definition z_close (z : zdev) : zdev * bool :=
  let '(g, f, fed) := z in
  let '(g', f1, e1) := gclose g f in
  let '(d2, e2) := dev_close (fd f1) in
  ((g', mkfdev d2 (ffailed f1), fed), e1 || e2).
End Gz.

(** ---- correspondence: the shaped device against the real writers (sink with the same shapes) *)
Record scase := mksc { sk : wkind; sheader : chunk; schunks : list chunk; sarrival : list nat;
                       sfail : option nat; scloseok : bool; scut : option nat; szero : bool;
                       sfatal : bool; sgot : list N; scloses : nat; szeros : nat }.
Definition srun (c : scase) : gws sdev :=
  let d0 := mksdev (mkdev (sfail c) (scloseok c) [] 0) (scut c) (szero c) 0 in
  let fl := 16 in
  match sk c with
  | KFasta | KFastq => g_fastx sdev sdev_write sdev_close go_bufsize fl true true (arrivals (schunks c) (sarrival c)) d0
  | KJson => g_json sdev sdev_write sdev_close go_bufsize fl true (arrivals (schunks c) (sarrival c)) d0
  | KCsv => g_csv sdev sdev_write sdev_close go_bufsize fl true (arrivals (csv_chunks (sheader c) (schunks c)) (sarrival c)) d0
  end.
Definition sagrees (s : gws sdev) (c : scase) : bool :=
  match go sdev s with
  | ExitOk => negb (sfatal c) && nlist_eqb (got (sd (gd sdev s))) (sgot c) && Nat.eqb (closes (sd (gd sdev s))) (scloses c)
              && Nat.eqb (zero_seen (gd sdev s)) (szeros c)
  | ExitFatal => sfatal c
  | OutOfFuel => false
  end.
Fixpoint smismatches_from (i : nat) (l : list scase) : list nat :=
  match l with
  | [] => []
  | c :: l' => let rest := smismatches_from (S i) l' in if sagrees (srun c) c then rest else i :: rest
  end.
Definition smismatches := smismatches_from 0.
