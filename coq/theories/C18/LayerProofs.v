(** C18 — proofs over the abstract lower layer (Layer.v). *)
From Coq Require Import List Arith NArith Bool Lia Permutation.
From OBI.Common Require Import Reseq.
From OBI.C18 Require Import Model Proofs Layer.
Import ListNotations.

(** ---- the re-sequencing loop with DIFFERENT actions on its two paths: any invariant indexed by the
    list of chunks emitted so far, established by both actions, holds at the end for the whole list *)
Section LoopInv.
Variable S : Type.
Variables e1 e2 : nat -> S -> chunk -> S.
Variable I : list chunk -> S -> Prop.
Hypothesis I1 : forall k out s c, I out s -> I (out ++ [c]) (e1 k s c).
Hypothesis I2 : forall k out s c, I out s -> I (out ++ [c]) (e2 k s c).
Variable s0 : S.
Hypothesis I0 : I [] s0.

Definition RI (s : st chunk) (w : wst S) : Prop :=
  wnext w = next s /\ wpend w = pend s /\ I (out s) (wacc w).
Lemma drain_simI fl : forall s w, RI s w -> RI (drain fl s) (wdrain e2 fl w).
Proof.
  induction fl as [|f IH]; intros s w HR; [exact HR|].
  destruct HR as (Hn & Hp & Ha). simpl. rewrite Hn, Hp.
  destruct (lookup (next s) (pend s)) as [a|] eqn:L.
  - apply IH. unfold RI; simpl. repeat split; try reflexivity. now apply I2.
  - unfold RI; auto.
Qed.
Lemma step_simI s w oa : RI s w -> RI (step s oa) (wstep e1 e2 w oa).
Proof.
  intros HR. pose proof HR as (Hn & Hp & Ha). destruct oa as [o a]. unfold step, wstep. rewrite Hn, Hp.
  destruct (Nat.eqb o (next s)).
  - apply drain_simI. unfold RI; simpl. repeat split; try reflexivity. now apply I1.
  - unfold RI; simpl. auto.
Qed.
Lemma run_simI arr : forall s w, RI s w -> RI (fold_left step arr s) (fold_left (wstep e1 e2) arr w).
Proof. induction arr as [|x arr IH]; intros s w HR; [exact HR|]. simpl. apply IH. now apply step_simI. Qed.
Theorem wrun_invariant (l : list chunk) (arr : list (nat * chunk)) :
  Permutation arr (numbered l) -> I l (wrun e1 e2 arr s0).
Proof.
  intros P. destruct (reseq_any_permutation chunk l arr P) as (Ho & _ & _).
  assert (R0 : RI init (mkw 0 [] s0)) by (unfold RI; simpl; auto).
  pose proof (run_simI arr _ _ R0) as (_ & _ & Ha).
  unfold wrun. unfold run in Ho. now rewrite Ho in Ha.
Qed.
End LoopInv.

Section Lower.
Variable D : Type.
Variable lwrite : D -> list N -> D * nat * bool.
Variable lclose : D -> D * bool.
Variable bsz : nat.
Variable fuel : nat.
(* what is assumed of the lower layer: a ghost [lgot] (the bytes it has accepted) that an error-free
   write extends by the n bytes it reports (n may be smaller than the length: short write), a
   counter of Close, and any invariant [J] preserved by error-free writes *)
Variable lgot : D -> list N.
Variable lclosed : D -> nat.
Variable J : D -> Prop.
Hypothesis LW : forall d p d' n e, lwrite d p = (d', n, e) ->
  lclosed d' = lclosed d /\ (e = false -> lgot d' = lgot d ++ firstn n p /\ (J d -> J d')).

Notation g_flush := (g_flush D lwrite).
Notation g_write := (g_write D lwrite bsz).
Notation g_close := (g_close D lwrite lclose).
Notation g_do_write := (g_do_write D lwrite bsz fuel).
Notation g_do_close := (g_do_close D lwrite lclose).

Lemma firstn_ge_all (A : Type) n (l : list A) : ~ (n < length l) -> firstn n l = l /\ skipn n l = [].
Proof. intros H. split; [apply firstn_all2; lia|apply skipn_all2; lia]. Qed.

Lemma g_flush_spec b d b' d' e : g_flush b d = (b', d', e) ->
  lclosed d' = lclosed d /\ berr b' = (berr b || e) /\ (berr b = true -> e = true) /\
  (e = false -> bbuf b' = [] /\ lgot d' = lgot d ++ bbuf b /\ (J d -> J d')).
Proof.
  unfold Layer.g_flush. destruct (berr b) eqn:E.
  - intros H; injection H as <- <- <-. rewrite E. repeat split; auto; discriminate.
  - destruct (bbuf b) as [|x r] eqn:B.
    + intros H; injection H as <- <- <-. rewrite E. repeat split; auto; try discriminate. now rewrite app_nil_r.
    + destruct (lwrite d (x :: r)) as [[d1 n] e1] eqn:W.
      destruct (LW _ _ _ _ _ W) as (C1 & C3).
      destruct (e1 || (n <? length (x :: r))) eqn:X; intros H; injection H as <- <- <-; cbn [berr bbuf];
        repeat split; auto; try discriminate.
      all: apply orb_false_iff in X; destruct X as [-> X]; apply Nat.ltb_ge in X;
        destruct (C3 eq_refl) as [G JJ]; try exact JJ.
      rewrite G. f_equal. apply firstn_all2. exact X.
Qed.

Lemma g_write_sticky fl b d p : berr b = true -> g_write fl b d p = (b, d, Err).
Proof. intros E. destruct fl; simpl; rewrite E, andb_false_r; reflexivity. Qed.

Lemma g_write_spec fl : forall b d p b' d' r, berr b = false -> g_write fl b d p = (b', d', r) ->
  lclosed d' = lclosed d /\
  (r = Ok -> berr b' = false /\ lgot d' ++ bbuf b' = lgot d ++ bbuf b ++ p /\ (J d -> J d')) /\
  (r = Err -> berr b' = true).
Proof.
  induction fl as [|f IH]; intros b d p b' d' r E; simpl; rewrite E; simpl.
  - destruct (bsz - length (bbuf b) <? length p); simpl; intros H; injection H as <- <- <-;
      repeat split; auto; discriminate.
  - destruct (bsz - length (bbuf b) <? length p) eqn:T; simpl.
    2:{ intros H; injection H as <- <- <-; repeat split; auto; discriminate. }
    destruct (bbuf b) as [|x rr] eqn:B.
    + destruct (lwrite d p) as [[d1 n] e1] eqn:W.
      destruct (LW _ _ _ _ _ W) as (C1 & C3). destruct e1.
      * rewrite g_write_sticky by reflexivity. intros H; injection H as <- <- <-.
        repeat split; auto; discriminate.
      * destruct (C3 eq_refl) as [G JJ]. intros H.
        destruct (IH (mkbw [] false) _ _ _ _ _ eq_refl H) as (I1 & I3 & I4).
        split; [congruence|]. split; [|exact I4].
        intros Hr. destruct (I3 Hr) as (X1 & X & XJ). split; [exact X1|]. split; [|auto].
        rewrite X, G. simpl. rewrite <- app_assoc. now rewrite firstn_skipn.
    + destruct (g_flush (mkbw ((x :: rr) ++ firstn (bsz - length (x :: rr)) p) false) d) as [[b1 d1] e1] eqn:F.
      destruct (g_flush_spec _ _ _ _ _ F) as (C1 & C3 & _ & C5). simpl in C3.
      destruct e1.
      * rewrite g_write_sticky by exact C3. intros H; injection H as <- <- <-.
        repeat split; auto; discriminate.
      * destruct (C5 eq_refl) as (B1 & G & JJ). simpl in G. intros H.
        destruct (IH _ _ _ _ _ _ C3 H) as (I1 & I3 & I4).
        split; [congruence|]. split; [|exact I4].
        intros Hr. destruct (I3 Hr) as (X1 & X & XJ). split; [exact X1|]. split; [|auto]. rewrite X, B1, G. simpl.
        rewrite <- !app_assoc. simpl. rewrite <- app_assoc. now rewrite firstn_skipn.
Qed.

(** ---- the process: while it runs, the lower layer is not closed, and unless an error is pending in
    bufio every byte written so far is below or in the buffer and [J] holds *)
Definition GInv (s : gws D) (w : list N) : Prop :=
  go D s = ExitOk -> lclosed (gd D s) = 0 /\ (berr (gb D s) = false -> lgot (gd D s) ++ bbuf (gb D s) = w /\ J (gd D s)).

Lemma g_do_write_running chk s p : go D (g_do_write chk s p) = ExitOk -> go D s = ExitOk.
Proof. unfold Layer.g_do_write. destruct (go D s) eqn:E; auto; intros; congruence. Qed.

Lemma g_do_write_inv chk s w p : GInv s w -> GInv (g_do_write chk s p) (w ++ p).
Proof.
  intros HI. unfold GInv. intros Hrun. pose proof (g_do_write_running _ _ _ Hrun) as Hs.
  destruct (HI Hs) as [Hc Hb]. revert Hrun. unfold Layer.g_do_write. rewrite Hs.
  destruct (g_write fuel (gb D s) (gd D s) p) as [[b' d'] r] eqn:W. simpl.
  destruct (berr (gb D s)) eqn:E.
  - rewrite g_write_sticky in W by exact E. injection W as <- <- <-. intros _. split; [exact Hc|].
    intros X; congruence.
  - destruct (g_write_spec _ _ _ _ _ _ _ E W) as (C1 & C3 & C4). intros Hr.
    split; [congruence|]. intros E'. destruct r.
    + destruct (C3 eq_refl) as (_ & X & XJ). destruct (Hb eq_refl) as [Hw HJ]. split; [|auto].
      rewrite X, app_assoc, Hw. reflexivity.
    + rewrite (C4 eq_refl) in E'. discriminate.
    + discriminate.
Qed.

(* exit ok after Close: the flush was complete, [J] held just before the layer was closed, and that
   Close reported no error *)
Definition closed_ok (s : gws D) (w : list N) : Prop :=
  exists d1, lgot d1 = w /\ lclosed d1 = 0 /\ J d1 /\ lclose d1 = (gd D s, false).

Lemma g_do_close_spec s w : GInv s w -> go D (g_do_close true s) = ExitOk -> closed_ok (g_do_close true s) w.
Proof.
  intros HI. unfold Layer.g_do_close. destruct (go D s) eqn:Hs; try (intros; congruence).
  destruct (HI Hs) as [Hc Hb]. unfold Layer.g_close.
  destruct (g_flush (gb D s) (gd D s)) as [[b1 d1] ef] eqn:F.
  destruct (g_flush_spec _ _ _ _ _ F) as (C1 & C3 & C4 & C5).
  destruct (lclose d1) as [d2 ec] eqn:LC. simpl.
  destruct ef; simpl; [discriminate|]. destruct ec; simpl; [discriminate|]. intros _.
  destruct (C5 eq_refl) as (_ & G & JJ).
  assert (E : berr (gb D s) = false) by (destruct (berr (gb D s)); [now specialize (C4 eq_refl)|reflexivity]).
  destruct (Hb E) as [Hw HJ]. exists d1. rewrite G, Hw. repeat split; auto. congruence.
Qed.

Lemma g_start_inv d0 : lgot d0 = [] -> lclosed d0 = 0 -> J d0 -> GInv (g_start D d0) [].
Proof. intros G C HJ. unfold GInv, g_start; simpl. intros _. split; [exact C|]. intros _. now rewrite G. Qed.

Variable d0 : D.
Hypothesis d0_got : lgot d0 = [].
Hypothesis d0_open : lclosed d0 = 0.
Hypothesis d0_J : J d0.

(** FASTA / FASTQ — whatever errors of Write the loop looks at ([k1], [k2] arbitrary): the error of
    bufio is sticky and Wfile.Close returns the error of Flush *)
Theorem g_fastx_spec k1 k2 l arr : Permutation arr (numbered l) ->
  go D (g_fastx D lwrite lclose bsz fuel k1 k2 arr d0) = ExitOk ->
  closed_ok (g_fastx D lwrite lclose bsz fuel k1 k2 arr d0) (concat l).
Proof.
  intros P. unfold g_fastx. apply g_do_close_spec.
  apply (wrun_invariant (gws D) _ _ (fun out s => GInv s (concat out))); auto.
  - intros k out s c HI. rewrite concat_app. simpl. rewrite app_nil_r. now apply g_do_write_inv.
  - intros k out s c HI. rewrite concat_app. simpl. rewrite app_nil_r. now apply g_do_write_inv.
  - now apply g_start_inv.
Qed.

Theorem g_csv_spec k header rows arr : Permutation arr (numbered (csv_chunks header rows)) ->
  go D (g_csv D lwrite lclose bsz fuel k arr d0) = ExitOk ->
  closed_ok (g_csv D lwrite lclose bsz fuel k arr d0) (concat (csv_chunks header rows)).
Proof.
  intros P. unfold g_csv. apply g_do_close_spec.
  apply (wrun_invariant (gws D) _ _ (fun out s => GInv s (concat out))); auto.
  - intros i out s c HI. rewrite concat_app. simpl. rewrite app_nil_r. now apply g_do_write_inv.
  - intros i out s c HI. rewrite concat_app. simpl. rewrite app_nil_r. now apply g_do_write_inv.
  - now apply g_start_inv.
Qed.

(* JSON: the accumulator carries the flag "something written"; text so far =
   open ++ join (non-empty chunks so far) *)
Definition jtext (out : list chunk) : list N := json_open ++ join json_sep (filter nonempty out).
Definition JI (out : list chunk) (s : gws D * bool) : Prop :=
  GInv (fst s) (jtext out) /\ snd s = negb (is_nil (filter nonempty out)).

Lemma join_snoc xs c : xs <> [] -> join json_sep (xs ++ [c]) = join json_sep xs ++ json_sep ++ c.
Proof.
  destruct xs as [|x r]; [congruence|intros _]. simpl. rewrite map_app, concat_app. simpl.
  rewrite app_nil_r, <- !app_assoc. reflexivity.
Qed.

Lemma g_jemit_inv k i out s c : JI out s -> JI (out ++ [c]) (g_jemit D lwrite bsz fuel k i s c).
Proof.
  destruct s as [w wrote]. intros [HI Hw]. simpl in HI, Hw. unfold g_jemit, JI, jtext.
  rewrite filter_app. destruct c as [|x c]; simpl.
  - rewrite app_nil_r. split; assumption.
  - split.
    + destruct (filter nonempty out) as [|y ys] eqn:F.
      * simpl in Hw. subst wrote. simpl. unfold jtext in HI. rewrite F in HI. simpl in HI.
        pose proof (g_do_write_inv k w _ (x :: c) HI) as X. simpl in X. rewrite app_nil_r. exact X.
      * simpl in Hw. subst wrote. rewrite join_snoc by discriminate.
        unfold jtext in HI. rewrite F in HI.
        pose proof (g_do_write_inv k _ _ (x :: c) (g_do_write_inv k w _ json_sep HI)) as X.
        rewrite <- !app_assoc in X. rewrite <- ?app_assoc. exact X.
    + destruct (filter nonempty out); reflexivity.
Qed.

Theorem g_json_spec k l arr : Permutation arr (numbered l) ->
  go D (g_json D lwrite lclose bsz fuel k arr d0) = ExitOk ->
  closed_ok (g_json D lwrite lclose bsz fuel k arr d0) (json_expected l).
Proof.
  intros P. unfold g_json. apply g_do_close_spec.
  unfold json_expected. rewrite app_assoc. apply g_do_write_inv.
  assert (X : JI l (wrun (g_jemit D lwrite bsz fuel k) (g_jemit D lwrite bsz fuel k) arr
                     (g_do_write k (g_start D d0) json_open, false))).
  { apply (wrun_invariant (gws D * bool) _ _ JI); auto.
    - intros; now apply g_jemit_inv. - intros; now apply g_jemit_inv.
    - split; [|reflexivity]. simpl. unfold jtext. simpl.
      apply (g_do_write_inv k _ [] json_open). now apply g_start_inv. }
  exact (proj1 X).
Qed.
End Lower.

(** ================= instantiations *)

(** ---- FASTA / FASTQ on the device of Model.v: it is enough that Wfile.Close returns the error of Flush
    and that Close is checked; which Write errors the loop looks at does not matter *)
Lemma fastx_robust bsz c l arr d0 : flush_chk c = true -> Permutation arr (numbered l) -> fresh d0 ->
  wo (fastx_writer bsz c arr d0) = ExitOk -> delivered (fastx_writer bsz c arr d0) (concat l) d0.
Proof.
  intros Hf P Hfr. unfold fastx_writer. rewrite Hf. intros H.
  refine (do_close_spec (close_ok d0) true _ (concat l) _ eq_refl H).
  apply (wrun_invariant ws _ _ (fun out s => Inv (close_ok d0) s (concat out))).
  - intros k out s ch HI. rewrite concat_app. simpl. rewrite app_nil_r. now apply do_write_inv.
  - intros k out s ch HI. rewrite concat_app. simpl. rewrite app_nil_r. now apply do_write_inv.
  - now apply start_inv.
  - exact P.
Qed.
Lemma csv_robust bsz c header rows arr d0 : jc_close_chk c = true -> flush_chk c = true ->
  Permutation arr (numbered (csv_chunks header rows)) -> fresh d0 ->
  wo (csv_writer bsz c arr d0) = ExitOk -> delivered (csv_writer bsz c arr d0) (concat (csv_chunks header rows)) d0.
Proof. intros A B P F H. exact (csv_fixed_spec bsz (close_ok d0) c header rows arr d0 A B P F eq_refl H). Qed.

(** ---- other device shapes *)
Lemma dev_write_frame d p d' n e : dev_write d p = (d', n, e) -> closes d' = closes d /\ close_ok d' = close_ok d.
Proof. intros H. destruct (dev_write_spec _ _ _ _ _ H) as (A & B & _). auto. Qed.

Lemma sdev_write_spec s p s' n e : sdev_write s p = (s', n, e) ->
  closes (sd s') = closes (sd s) /\ (e = false -> got (sd s') = got (sd s) ++ firstn n p /\ (True -> True)).
Proof.
  unfold sdev_write. destruct p as [|x p].
  - intros H; injection H as <- <- <-. simpl. split; [reflexivity|]. intros _. now rewrite app_nil_r.
  - assert (P : forall q d' n' e', dev_write (sd s) q = (d', n', e') -> length q <= length (x :: p) -> firstn (length q) (x :: p) = q ->
                closes d' = closes (sd s) /\ (e' = false -> got d' = got (sd s) ++ firstn n' (x :: p) /\ (True -> True))).
    { intros q d' n' e' W L Q. destruct (dev_write_spec _ _ _ _ _ W) as (A & _ & C). split; [exact A|].
      intros E. destruct (C E) as [-> G]. rewrite G, Q. auto. }
    destruct (cut s) as [k|].
    + destruct ((length (got (sd s)) <? k) && (k <? length (got (sd s)) + length (x :: p))) eqn:T.
      * destruct (dev_write (sd s) (firstn (k - length (got (sd s))) (x :: p))) as [[d' n'] e'] eqn:W.
        intros H; injection H as <- <- <-. cbn [sd].
        apply andb_true_iff in T. destruct T as [T1 T2]. apply Nat.ltb_lt in T1, T2.
        apply (P _ _ _ _ W).
        -- rewrite firstn_length. lia.
        -- rewrite firstn_length. f_equal. lia.
      * destruct (dev_write (sd s) (x :: p)) as [[d' n'] e'] eqn:W. intros H; injection H as <- <- <-. cbn [sd].
        apply (P _ _ _ _ W); [lia|apply firstn_all].
    + destruct (dev_write (sd s) (x :: p)) as [[d' n'] e'] eqn:W. intros H; injection H as <- <- <-. cbn [sd].
      apply (P _ _ _ _ W); [lia|apply firstn_all].
Qed.

Definition sdelivered (s : gws sdev) (w : list N) : Prop :=
  got (sd (gd sdev s)) = w /\ closes (sd (gd sdev s)) = 1 /\ close_ok (sd (gd sdev s)) = true.
Lemma sdev_closed_ok s w :
  closed_ok sdev sdev_close (fun s => got (sd s)) (fun s => closes (sd s)) (fun _ => True) s w -> sdelivered s w.
Proof.
  intros (d1 & G & C & _ & L). unfold sdev_close, dev_close in L. injection L as L E.
  unfold sdelivered. rewrite <- L. cbn [sd got closes close_ok]. rewrite G, C.
  repeat split; auto. now destruct (close_ok (sd d1)).
Qed.
Definition sfresh (s : sdev) : Prop := got (sd s) = [] /\ closes (sd s) = 0.

Lemma sdev_fastx bsz fuel k1 k2 l arr d0 : Permutation arr (numbered l) -> sfresh d0 ->
  go sdev (g_fastx sdev sdev_write sdev_close bsz fuel k1 k2 arr d0) = ExitOk ->
  sdelivered (g_fastx sdev sdev_write sdev_close bsz fuel k1 k2 arr d0) (concat l).
Proof.
  intros P [G C] H. apply sdev_closed_ok.
  exact (g_fastx_spec sdev sdev_write sdev_close bsz fuel _ _ (fun _ => True) sdev_write_spec d0 G C I k1 k2 l arr P H).
Qed.
Lemma sdev_json bsz fuel k l arr d0 : Permutation arr (numbered l) -> sfresh d0 ->
  go sdev (g_json sdev sdev_write sdev_close bsz fuel k arr d0) = ExitOk ->
  sdelivered (g_json sdev sdev_write sdev_close bsz fuel k arr d0) (json_expected l).
Proof.
  intros P [G C] H. apply sdev_closed_ok.
  exact (g_json_spec sdev sdev_write sdev_close bsz fuel _ _ (fun _ => True) sdev_write_spec d0 G C I k l arr P H).
Qed.
Lemma sdev_csv bsz fuel k header rows arr d0 : Permutation arr (numbered (csv_chunks header rows)) -> sfresh d0 ->
  go sdev (g_csv sdev sdev_write sdev_close bsz fuel k arr d0) = ExitOk ->
  sdelivered (g_csv sdev sdev_write sdev_close bsz fuel k arr d0) (concat (csv_chunks header rows)).
Proof.
  intros P [G C] H. apply sdev_closed_ok.
  exact (g_csv_spec sdev sdev_write sdev_close bsz fuel _ _ (fun _ => True) sdev_write_spec d0 G C I k header rows arr P H).
Qed.

(** ---- compressed outputs (-Z): bufio -> compressor -> device *)
Lemma fdev_writes_frame ps : forall f, closes (fd (fdev_writes f ps)) = closes (fd f) /\ close_ok (fd (fdev_writes f ps)) = close_ok (fd f).
Proof.
  induction ps as [|p ps IH]; intros f; [split; reflexivity|].
  unfold fdev_writes in *. simpl. destruct (IH (fst (fst (fdev_write f p)))) as [A B]. rewrite A, B.
  unfold fdev_write. destruct (dev_write (fd f) p) as [[d' n] e] eqn:W. simpl. exact (dev_write_frame _ _ _ _ _ W).
Qed.

Section Gz.
Variable G : Type.
Variable gwrite : G -> fdev -> list N -> G * fdev * nat * bool.
Variable gclose : G -> fdev -> G * fdev * bool.
(* THE LAW of the compression layer: it acts on the device only by writing to it, and an error of the
   device is returned by a later Write or by Close.  [owes g]: an error of the device has been seen
   and not yet returned (ghost; any boolean function of the compressor state). *)
Variable owes : G -> bool.
Definition zJ (z : zdev G) : Prop := let '(g, f, _) := z in ffailed f = true -> owes g = true.
Hypothesis GW : forall g f p g' f' n e, gwrite g f p = (g', f', n, e) ->
  (exists ps, f' = fdev_writes f ps) /\ (e = false -> zJ (g, f, []) -> zJ (g', f', [])).
Hypothesis GC : forall g f g' f' e, gclose g f = (g', f', e) ->
  (exists ps, f' = fdev_writes f ps) /\ (e = false -> zJ (g, f, []) -> ffailed f' = false).

Definition zgot (z : zdev G) : list N := snd z.
Definition zclosed (z : zdev G) : nat := closes (fd (snd (fst z))).

Lemma z_write_spec z p z' n e : z_write G gwrite z p = (z', n, e) ->
  zclosed z' = zclosed z /\ (e = false -> zgot z' = zgot z ++ firstn n p /\ (zJ z -> zJ z')).
Proof.
  destruct z as [[g f] fed]. unfold z_write. destruct (gwrite g f p) as [[[g' f'] n'] e'] eqn:W.
  intros H; injection H as <- <- <-. destruct (GW _ _ _ _ _ _ _ W) as [(ps & ->) L].
  unfold zclosed, zgot. cbn [fst snd]. split; [apply fdev_writes_frame|].
  intros E. split; [reflexivity|]. exact (L E).
Qed.

(* exit ok: the compressor was given every expected byte and was closed without error, no write to
   the device ever failed, the device was closed once and that Close succeeded *)
Definition zdelivered (s : gws (zdev G)) (w : list N) : Prop :=
  let '(_, f, fed) := gd _ s in
  fed = w /\ ffailed f = false /\ closes (fd f) = 1 /\ close_ok (fd f) = true.

Lemma z_closed_ok s w : closed_ok (zdev G) (z_close G gclose) zgot zclosed zJ s w -> zdelivered s w.
Proof.
  intros (d1 & Gt & C & HJ & L). destruct d1 as [[g1 f1] fed1]. unfold z_close in L.
  destruct (gclose g1 f1) as [[g2 f2] e1] eqn:GCl. unfold dev_close in L. injection L as L E.
  apply orb_false_iff in E. destruct E as [-> E2].
  destruct (GC _ _ _ _ _ GCl) as [(ps & Hps) F]. unfold zdelivered. rewrite <- L.
  unfold zgot, zclosed in *. cbn [fst snd] in *. cbn [fd ffailed closes close_ok].
  split; [exact Gt|]. split; [apply (F eq_refl); exact HJ|].
  destruct (fdev_writes_frame ps f1) as [A B]. rewrite Hps, A, C. split; [reflexivity|].
  rewrite Hps in E2. now destruct (close_ok (fd (fdev_writes f1 ps))).
Qed.

Definition zfresh (z : zdev G) : Prop := let '(g, f, fed) := z in fed = [] /\ closes (fd f) = 0 /\ ffailed f = false.
Lemma zfresh_J z : zfresh z -> zgot z = [] /\ zclosed z = 0 /\ zJ z.
Proof. destruct z as [[g f] fed]. intros (A & B & C). unfold zgot, zclosed, zJ. cbn [fst snd]. repeat split; auto. congruence. Qed.

Lemma gz_fastx bsz fuel k1 k2 l arr z0 : Permutation arr (numbered l) -> zfresh z0 ->
  go _ (g_fastx (zdev G) (z_write G gwrite) (z_close G gclose) bsz fuel k1 k2 arr z0) = ExitOk ->
  zdelivered (g_fastx (zdev G) (z_write G gwrite) (z_close G gclose) bsz fuel k1 k2 arr z0) (concat l).
Proof.
  intros P F H. destruct (zfresh_J z0 F) as (A & B & C). apply z_closed_ok.
  exact (g_fastx_spec _ _ _ bsz fuel zgot zclosed zJ z_write_spec z0 A B C k1 k2 l arr P H).
Qed.
Lemma gz_json bsz fuel k l arr z0 : Permutation arr (numbered l) -> zfresh z0 ->
  go _ (g_json (zdev G) (z_write G gwrite) (z_close G gclose) bsz fuel k arr z0) = ExitOk ->
  zdelivered (g_json (zdev G) (z_write G gwrite) (z_close G gclose) bsz fuel k arr z0) (json_expected l).
Proof.
  intros P F H. destruct (zfresh_J z0 F) as (A & B & C). apply z_closed_ok.
  exact (g_json_spec _ _ _ bsz fuel zgot zclosed zJ z_write_spec z0 A B C k l arr P H).
Qed.
Lemma gz_csv bsz fuel k header rows arr z0 : Permutation arr (numbered (csv_chunks header rows)) -> zfresh z0 ->
  go _ (g_csv (zdev G) (z_write G gwrite) (z_close G gclose) bsz fuel k arr z0) = ExitOk ->
  zdelivered (g_csv (zdev G) (z_write G gwrite) (z_close G gclose) bsz fuel k arr z0) (concat (csv_chunks header rows)).
Proof.
  intros P F H. destruct (zfresh_J z0 F) as (A & B & C). apply z_closed_ok.
  exact (g_csv_spec _ _ _ bsz fuel zgot zclosed zJ z_write_spec z0 A B C k header rows arr P H).
Qed.
End Gz.

(** the law is satisfiable: a store-and-forward "compressor" that passes the bytes on, remembers a
    failed write of the device and returns the error only from Close *)
Definition lazy_gwrite (g : bool) (f : fdev) (p : list N) : bool * fdev * nat * bool :=
  let '(f', n, e) := fdev_write f p in (g || e, f', length p, false).
Definition lazy_gclose (g : bool) (f : fdev) : bool * fdev * bool := (g, f, g).
Lemma lazy_GW g f p g' f' n e : lazy_gwrite g f p = (g', f', n, e) ->
  (exists ps, f' = fdev_writes f ps) /\ (e = false -> zJ bool (fun g => g) (g, f, []) -> zJ bool (fun g => g) (g', f', [])).
Proof.
  unfold lazy_gwrite, fdev_write. destruct (dev_write (fd f) p) as [[d' n'] e'] eqn:W.
  intros H; injection H as <- <- <- <-. split.
  - exists [p]. unfold fdev_writes, fdev_write. simpl. rewrite W. reflexivity.
  - intros _. unfold zJ. cbn [ffailed]. intros HJ HF. apply orb_true_iff in HF. destruct HF as [HF| ->].
    + rewrite (HJ HF). reflexivity.
    + apply orb_true_r.
Qed.
Lemma lazy_GC g f g' f' e : lazy_gclose g f = (g', f', e) ->
  (exists ps, f' = fdev_writes f ps) /\ (e = false -> zJ bool (fun g => g) (g, f, []) -> ffailed f' = false).
Proof.
  unfold lazy_gclose. intros H; injection H as <- <- <-. split; [exists []; reflexivity|].
  intros -> HJ. unfold zJ in HJ. destruct (ffailed f); [now specialize (HJ eq_refl)|reflexivity].
Qed.
