(** C18, round 3 — proofs over Own.v: streams that are not owned, histories of calls on one Wfile,
    order of "report the Close error" and "signal completion". *)
From Coq Require Import List Arith NArith Bool Permutation Lia.
From OBI.Common Require Import Reseq.
From OBI.C18 Require Import Model Proofs Layer LayerProofs Own.
Import ListNotations.

(** ---- (1) the stream is owned or not: same writes, Close of the device only when owned *)
Definition odelivered (own : bool) (s : gws sdev) (w : list N) : Prop :=
  got (sd (gd sdev s)) = w /\
  (if own then closes (sd (gd sdev s)) = 1 /\ close_ok (sd (gd sdev s)) = true else closes (sd (gd sdev s)) = 0).

Lemma own_closed_ok own s w :
  closed_ok sdev (own_close own) (fun s => got (sd s)) (fun s => closes (sd s)) (fun _ => True) s w -> odelivered own s w.
Proof.
  destruct own.
  - intros H. destruct (sdev_closed_ok s w H) as (A & B & C). split; auto.
  - intros (d1 & G & C & _ & L). unfold own_close in L. injection L as L. unfold odelivered. rewrite <- L. auto.
Qed.

Lemma own_fastx own bsz fuel k1 k2 l arr d0 : Permutation arr (numbered l) -> sfresh d0 ->
  go sdev (g_fastx sdev sdev_write (own_close own) bsz fuel k1 k2 arr d0) = ExitOk ->
  odelivered own (g_fastx sdev sdev_write (own_close own) bsz fuel k1 k2 arr d0) (concat l).
Proof.
  intros P [G C] H. apply own_closed_ok.
  exact (g_fastx_spec sdev sdev_write (own_close own) bsz fuel _ _ (fun _ => True) sdev_write_spec d0 G C I k1 k2 l arr P H).
Qed.
Lemma own_json own bsz fuel k l arr d0 : Permutation arr (numbered l) -> sfresh d0 ->
  go sdev (g_json sdev sdev_write (own_close own) bsz fuel k arr d0) = ExitOk ->
  odelivered own (g_json sdev sdev_write (own_close own) bsz fuel k arr d0) (json_expected l).
Proof.
  intros P [G C] H. apply own_closed_ok.
  exact (g_json_spec sdev sdev_write (own_close own) bsz fuel _ _ (fun _ => True) sdev_write_spec d0 G C I k l arr P H).
Qed.
Lemma own_csv own bsz fuel k header rows arr d0 : Permutation arr (numbered (csv_chunks header rows)) -> sfresh d0 ->
  go sdev (g_csv sdev sdev_write (own_close own) bsz fuel k arr d0) = ExitOk ->
  odelivered own (g_csv sdev sdev_write (own_close own) bsz fuel k arr d0) (concat (csv_chunks header rows)).
Proof.
  intros P [G C] H. apply own_closed_ok.
  exact (g_csv_spec sdev sdev_write (own_close own) bsz fuel _ _ (fun _ => True) sdev_write_spec d0 G C I k header rows arr P H).
Qed.

(* a device that accepts k bytes, not owned: a result longer than k cannot end with a successful exit *)
Lemma unowned_fault_offset_json bsz fuel kk l arr d0 k : Permutation arr (numbered l) -> sfresh d0 ->
  budget (sd d0) = Some k -> k < length (json_expected l) ->
  go sdev (g_json sdev sdev_write (own_close false) bsz fuel kk arr d0) <> ExitOk.
Proof.
  intros P F B L H. destruct (own_json false bsz fuel kk l arr d0 P F H) as [G _].
  (* got grows only within the budget *)
  assert (X : forall s, length (got (sd s)) <= length (got (sd s))) by (intros; lia). clear X.
  (* invariant: length got <= initial length + initial budget — from the generic theorem with J := that bound *)
  pose (J := fun s : sdev => match budget (sd s) with Some r => length (got (sd s)) + r <= k | None => False end).
  assert (LW : forall d p d' n e, sdev_write d p = (d', n, e) ->
               closes (sd d') = closes (sd d) /\ (e = false -> got (sd d') = got (sd d) ++ firstn n p /\ (J d -> J d'))).
  { intros d p d' n e W. destruct (sdev_write_spec _ _ _ _ _ W) as [A Bq]. split; [exact A|]. intros E.
    destruct (Bq E) as [Gq _]. split; [exact Gq|]. unfold J.
    revert W. unfold sdev_write. destruct p as [|x p].
    - intros W; injection W as <- <- <-. cbn [sd]. auto.
    - assert (Q : forall q dd nn ee, dev_write (sd d) q = (dd, nn, ee) ->
                  match budget (sd d) with Some r => length (got (sd d)) + r <= k | None => False end ->
                  match budget dd with Some r => length (got dd) + r <= k | None => False end).
      { intros q dd nn ee. unfold dev_write. destruct (budget (sd d)) as [r|]; [|intros _ []].
        destruct (length q <=? r) eqn:T; intros W; injection W as <- <- <-; cbn [budget got]; rewrite app_length.
        - apply Nat.leb_le in T. lia.
        - apply Nat.leb_gt in T. rewrite firstn_length. lia. }
      destruct (cut d) as [c|].
      + destruct ((length (got (sd d)) <? c) && (c <? length (got (sd d)) + length (x :: p))).
        * destruct (dev_write (sd d) (firstn (c - length (got (sd d))) (x :: p))) as [[dd nn] ee] eqn:W.
          intros H'; injection H' as <- <- <-. cbn [sd]. exact (Q _ _ _ _ W).
        * destruct (dev_write (sd d) (x :: p)) as [[dd nn] ee] eqn:W.
          intros H'; injection H' as <- <- <-. cbn [sd]. exact (Q _ _ _ _ W).
      + destruct (dev_write (sd d) (x :: p)) as [[dd nn] ee] eqn:W.
        intros H'; injection H' as <- <- <-. cbn [sd]. exact (Q _ _ _ _ W). }
  destruct F as [G0 C0].
  assert (J0 : J d0) by (unfold J; rewrite B, G0; simpl; lia).
  destruct (g_json_spec sdev sdev_write (own_close false) bsz fuel _ _ J LW d0 G0 C0 J0 kk l arr P H) as (d1 & G1 & _ & J1 & _).
  unfold J in J1. destruct (budget (sd d1)); [|exact J1]. rewrite G1 in J1. lia.
Qed.

(** ---- compressed and not owned: Close = close of the compressor only *)
Section GzKeep.
Variable G : Type.
Variable gwrite : G -> fdev -> list N -> G * fdev * nat * bool.
Variable gclose : G -> fdev -> G * fdev * bool.
Variable owes : G -> bool.
Hypothesis GW : forall g f p g' f' n e, gwrite g f p = (g', f', n, e) ->
  (exists ps, f' = fdev_writes f ps) /\ (e = false -> zJ G owes (g, f, []) -> zJ G owes (g', f', [])).
Hypothesis GC : forall g f g' f' e, gclose g f = (g', f', e) ->
  (exists ps, f' = fdev_writes f ps) /\ (e = false -> zJ G owes (g, f, []) -> ffailed f' = false).

(* exit ok: the compressor was given every expected byte and closed without error, no write to the device ever
   failed, and the device is still open *)
Definition zdelivered_keep (s : gws (zdev G)) (w : list N) : Prop :=
  let '(_, f, fed) := gd _ s in fed = w /\ ffailed f = false /\ closes (fd f) = 0.

Lemma z_keep_closed_ok s w :
  closed_ok (zdev G) (z_close_keep G gclose) (zgot G) (zclosed G) (zJ G owes) s w -> zdelivered_keep s w.
Proof.
  intros (d1 & Gt & C & HJ & L). destruct d1 as [[g1 f1] fed1]. unfold z_close_keep in L.
  destruct (gclose g1 f1) as [[g2 f2] e1] eqn:GCl. injection L as L E. subst e1.
  destruct (GC _ _ _ _ _ GCl) as [(ps & Hps) F]. unfold zdelivered_keep. rewrite <- L.
  unfold zgot, zclosed in *. cbn [fst snd] in *.
  split; [exact Gt|]. split; [apply (F eq_refl); exact HJ|].
  destruct (fdev_writes_frame ps f1) as [A B]. rewrite Hps, A. exact C.
Qed.

Lemma gz_keep_fastx bsz fuel k1 k2 l arr z0 : Permutation arr (numbered l) -> zfresh G z0 ->
  go _ (g_fastx (zdev G) (z_write G gwrite) (z_close_keep G gclose) bsz fuel k1 k2 arr z0) = ExitOk ->
  zdelivered_keep (g_fastx (zdev G) (z_write G gwrite) (z_close_keep G gclose) bsz fuel k1 k2 arr z0) (concat l).
Proof.
  intros P F H. destruct (zfresh_J G owes z0 F) as (A & B & C). apply z_keep_closed_ok.
  exact (g_fastx_spec _ _ _ bsz fuel (zgot G) (zclosed G) (zJ G owes) (z_write_spec G gwrite owes GW) z0 A B C k1 k2 l arr P H).
Qed.
Lemma gz_keep_json bsz fuel k l arr z0 : Permutation arr (numbered l) -> zfresh G z0 ->
  go _ (g_json (zdev G) (z_write G gwrite) (z_close_keep G gclose) bsz fuel k arr z0) = ExitOk ->
  zdelivered_keep (g_json (zdev G) (z_write G gwrite) (z_close_keep G gclose) bsz fuel k arr z0) (json_expected l).
Proof.
  intros P F H. destruct (zfresh_J G owes z0 F) as (A & B & C). apply z_keep_closed_ok.
  exact (g_json_spec _ _ _ bsz fuel (zgot G) (zclosed G) (zJ G owes) (z_write_spec G gwrite owes GW) z0 A B C k l arr P H).
Qed.
Lemma gz_keep_csv bsz fuel k header rows arr z0 : Permutation arr (numbered (csv_chunks header rows)) -> zfresh G z0 ->
  go _ (g_csv (zdev G) (z_write G gwrite) (z_close_keep G gclose) bsz fuel k arr z0) = ExitOk ->
  zdelivered_keep (g_csv (zdev G) (z_write G gwrite) (z_close_keep G gclose) bsz fuel k arr z0) (concat (csv_chunks header rows)).
Proof.
  intros P F H. destruct (zfresh_J G owes z0 F) as (A & B & C). apply z_keep_closed_ok.
  exact (g_csv_spec _ _ _ bsz fuel (zgot G) (zclosed G) (zJ G owes) (z_write_spec G gwrite owes GW) z0 A B C k header rows arr P H).
Qed.
End GzKeep.

(** ---- (2) a history of calls on one Wfile *)
Section Session.
Variable D : Type.
Variable lwrite : D -> list N -> D * nat * bool.
Variable lclose : D -> D * bool.
Variable bsz : nat.
Variable fuel : nat.
Variable lgot : D -> list N.
Variable lclosed : D -> nat.
Hypothesis LW : forall d p d' n e, lwrite d p = (d', n, e) ->
  lclosed d' = lclosed d /\ (e = false -> lgot d' = lgot d ++ firstn n p /\ (True -> True)).

Notation calls := (wf_calls D lwrite bsz fuel).

(* once a call has returned an error every later call returns an error and the buffer keeps its error *)
Lemma calls_sticky ps : forall b d, berr b = true -> calls b d ps = (b, d, map (fun _ => Err) ps).
Proof.
  induction ps as [|p ps IH]; intros b d E; simpl; [reflexivity|].
  rewrite (g_write_sticky D lwrite bsz fuel b d p E). rewrite (IH b d E). reflexivity.
Qed.

(* the calls as long as none fails; what the final buffer state says *)
Lemma calls_spec ps : forall b d b' d' xs, berr b = false -> calls b d ps = (b', d', xs) ->
  lclosed d' = lclosed d /\
  (berr b' = false -> ~ In Fuel xs -> Forall (fun x => x = Ok) xs /\ lgot d' ++ bbuf b' = lgot d ++ bbuf b ++ concat ps) /\
  (forall xs1 xs2, xs = xs1 ++ Err :: xs2 -> berr b' = true /\ Forall (fun x => x = Err) xs2).
Proof.
  induction ps as [|p ps IH]; intros b d b' d' xs E; simpl.
  - intros H; injection H as <- <- <-. split; [reflexivity|]. split.
    + intros _ _. split; [constructor|]. now rewrite app_nil_r.
    + intros xs1 xs2 H. destruct xs1; discriminate.
  - destruct (g_write D lwrite bsz fuel b d p) as [[b1 d1] x] eqn:W.
    destruct (calls b1 d1 ps) as [[b2 d2] xs'] eqn:CL. intros H; injection H as <- <- <-.
    destruct (g_write_spec D lwrite bsz lgot lclosed (fun _ => True) LW fuel _ _ _ _ _ _ E W) as (C1 & C2 & C3).
    destruct (berr b1) eqn:E1.
    + (* the call failed (or ran out of fuel with the error set) *)
      rewrite calls_sticky in CL by exact E1. injection CL as <- <- <-.
      split; [exact C1|]. split; [intros X; congruence|].
      intros xs1 xs2 H. split; [exact E1|].
      destruct xs1 as [|y xs1]; simpl in H; injection H as _ H.
      * subst xs2. clear. induction ps; simpl; constructor; auto.
      * assert (X : Forall (fun x => x = Err) (map (fun _ : list N => Err) ps)) by (clear; induction ps; simpl; constructor; auto).
        rewrite H in X. apply Forall_app in X. destruct X as [_ X]. now inversion X.
    + destruct (IH _ _ _ _ _ E1 CL) as (I1 & I2 & I3).
      split; [congruence|]. split.
      * intros E2 NF. destruct x.
        -- destruct (C2 eq_refl) as (_ & X & _). destruct (I2 E2) as [F1 F2]; [intros Q; apply NF; now right|].
           split; [constructor; auto|]. rewrite F2. rewrite app_assoc, X. simpl. now rewrite <- !app_assoc.
        -- discriminate (C3 eq_refl).
        -- exfalso. apply NF. now left.
      * intros xs1 xs2 H. destruct xs1 as [|y xs1]; simpl in H; injection H as Hx H.
        -- subst x. discriminate (C3 eq_refl).
        -- exact (I3 _ _ H).
Qed.

Variable d0 : D.
Hypothesis d0_got : lgot d0 = [].

(* Close returned no error and no call failed to return => every call returned Ok, every byte is below, and the lower
   layer was closed (or left open) by that very Close *)
Theorem wf_session_ok ps d' xs : wf_session D lwrite lclose bsz fuel d0 ps = (d', xs, false) -> ~ In Fuel xs ->
  Forall (fun x => x = Ok) xs /\ exists d1, lgot d1 = concat ps /\ lclosed d1 = lclosed d0 /\ lclose d1 = (d', false).
Proof.
  unfold wf_session. destruct (calls (mkbw [] false) d0 ps) as [[b d] ys] eqn:CL.
  unfold g_close. destruct (g_flush D lwrite b d) as [[b1 d1] ef] eqn:F. destruct (lclose d1) as [d2 ec] eqn:LC.
  intros H NF; injection H as <- <- H. apply orb_false_iff in H. destruct H as [-> ->].
  destruct (g_flush_spec D lwrite lgot lclosed (fun _ => True) LW _ _ _ _ _ F) as (C1 & C2 & C3 & C4).
  assert (E : berr b = false) by (destruct (berr b); [now specialize (C3 eq_refl)|reflexivity]).
  destruct (calls_spec ps (mkbw [] false) d0 _ _ _ eq_refl CL) as (K1 & K2 & _). destruct (K2 E NF) as [F1 F2].
  destruct (C4 eq_refl) as (_ & G1 & _). split; [exact F1|]. exists d1. rewrite G1, F2, d0_got. simpl.
  repeat split; congruence.
Qed.

(* a call returned an error => every later call returns an error and so does Close *)
Theorem wf_session_sticky ps d' xs e xs1 xs2 : wf_session D lwrite lclose bsz fuel d0 ps = (d', xs, e) -> xs = xs1 ++ Err :: xs2 ->
  Forall (fun x => x = Err) xs2 /\ e = true.
Proof.
  unfold wf_session. destruct (calls (mkbw [] false) d0 ps) as [[b d] ys] eqn:CL.
  unfold g_close. destruct (g_flush D lwrite b d) as [[b1 d1] ef] eqn:F. destruct (lclose d1) as [d2 ec] eqn:LC.
  intros H X; injection H as <- <- <-.
  destruct (calls_spec ps (mkbw [] false) d0 _ _ _ eq_refl CL) as (_ & _ & K3). destruct (K3 _ _ X) as [E F2].
  split; [exact F2|].
  destruct (g_flush_spec D lwrite lgot lclosed (fun _ => True) LW _ _ _ _ _ F) as (_ & _ & C3 & _). now rewrite (C3 E).
Qed.
End Session.

(* on the device of Layer.v, owned or not *)
Lemma sdev_LW : forall d p d' n e, sdev_write d p = (d', n, e) ->
  closes (sd d') = closes (sd d) /\ (e = false -> got (sd d') = got (sd d) ++ firstn n p /\ (True -> True)).
Proof. exact sdev_write_spec. Qed.

Lemma wfile_session_delivered own bsz fuel d0 ps d' xs : sfresh d0 ->
  wf_session sdev sdev_write (own_close own) bsz fuel d0 ps = (d', xs, false) -> ~ In Fuel xs ->
  Forall (fun x => x = Ok) xs /\ got (sd d') = concat ps /\
  (if own then closes (sd d') = 1 /\ close_ok (sd d') = true else closes (sd d') = 0).
Proof.
  intros [G C] H NF.
  destruct (wf_session_ok sdev sdev_write (own_close own) bsz fuel _ _ sdev_LW d0 G ps d' xs H NF) as (F & d1 & G1 & C1 & L).
  split; [exact F|]. rewrite C in C1. destruct own; unfold own_close in L.
  - unfold sdev_close, dev_close in L. injection L as L E. rewrite <- L. cbn [sd got closes close_ok].
    rewrite G1, C1. repeat split; auto. now destruct (close_ok (sd d1)).
  - injection L as L. rewrite <- L. auto.
Qed.

Lemma wfile_error_sticky own bsz fuel d0 ps d' xs e xs1 xs2 :
  wf_session sdev sdev_write (own_close own) bsz fuel d0 ps = (d', xs, e) -> xs = xs1 ++ Err :: xs2 ->
  Forall (fun x => x = Err) xs2 /\ e = true.
Proof. exact (wf_session_sticky sdev sdev_write (own_close own) bsz fuel _ _ sdev_LW d0 ps d' xs e xs1 xs2). Qed.

(* what the correspondence compares: nothing reported => delivered *)
Lemma wfile_not_reported own bsz fuel d0 ps d' xs e : sfresh d0 ->
  wf_session sdev sdev_write (own_close own) bsz fuel d0 ps = (d', xs, e) -> reported xs e = false ->
  got (sd d') = concat ps /\ (if own then closes (sd d') = 1 /\ close_ok (sd d') = true else closes (sd d') = 0).
Proof.
  intros F H R. unfold reported in R. apply orb_false_iff in R. destruct R as [R ->].
  apply negb_false_iff in R. rewrite forallb_forall in R.
  assert (NF : ~ In Fuel xs) by (intros X; specialize (R _ X); discriminate).
  destruct (wfile_session_delivered own bsz fuel d0 ps d' xs F H NF) as (_ & A & B). auto.
Qed.

(** ---- (3) the Close error is reported before completion is signalled *)
Lemma fastx_events_exit D lwrite lclose bsz fuel o k1 k2 arr d0 :
  may_exit_ok (fst (fastx_events D lwrite lclose bsz fuel o k1 k2 arr d0)) = true ->
  o = CheckThenSignal ->
  go D (g_fastx D lwrite lclose bsz fuel k1 k2 arr d0) = ExitOk /\
  gd D (g_fastx D lwrite lclose bsz fuel k1 k2 arr d0) = snd (fastx_events D lwrite lclose bsz fuel o k1 k2 arr d0).
Proof.
  intros H ->. revert H. unfold fastx_events, g_fastx, fastx_loop, g_do_close.
  set (s := wrun _ _ arr (g_start D d0)).
  destruct (go D s); [|simpl; discriminate|simpl; discriminate].
  destruct (g_close D lwrite lclose (gb D s) (gd D s)) as [[b' d'] e]. destruct e; simpl; [discriminate|]. auto.
Qed.

Lemma signal_after_check own bsz fuel k1 k2 l arr d0 : Permutation arr (numbered l) -> sfresh d0 ->
  let r := fastx_events sdev sdev_write (own_close own) bsz fuel CheckThenSignal k1 k2 arr d0 in
  may_exit_ok (fst r) = true ->
  got (sd (snd r)) = concat l /\ (if own then closes (sd (snd r)) = 1 /\ close_ok (sd (snd r)) = true else closes (sd (snd r)) = 0).
Proof.
  intros P F r H. destruct (fastx_events_exit _ _ _ _ _ _ _ _ _ _ H eq_refl) as [A B].
  pose proof (own_fastx own bsz fuel k1 k2 l arr d0 P F A) as X. unfold odelivered in X. fold r in B. rewrite B in X. exact X.
Qed.

(* signalled first: a 1-chunk result on a device that is full exits with status 0 when main wins the race *)
Lemma signal_before_check_refuted :
  exists l d0, sfresh d0 /\
    let r := fastx_events sdev sdev_write (own_close true) go_bufsize 16 SignalThenCheck true true (numbered l) d0 in
    may_exit_ok (fst r) = true /\ got (sd (snd r)) <> concat l /\ In EvFatal (fst r).
Proof.
  exists [[62; 97; 10]%N], (mksdev (mkdev (Some 0) true [] 0) None false 0). split; [split; reflexivity|].
  vm_compute. split; [reflexivity|]. split; [discriminate|]. right. now left.
Qed.

(** ---- the same order for the JSON and CSV writers (waitWriter.Done after the check of Close) *)
Section EndEvents.
Variable D : Type.
Variable lwrite : D -> list N -> D * nat * bool.
Variable lclose : D -> D * bool.
Lemma end_events_exit s : may_exit_ok (fst (end_events D lwrite lclose CheckThenSignal s)) = true ->
  go D (g_do_close D lwrite lclose true s) = ExitOk /\ gd D (g_do_close D lwrite lclose true s) = snd (end_events D lwrite lclose CheckThenSignal s).
Proof.
  unfold end_events, g_do_close. destruct (go D s); [|simpl; discriminate|simpl; discriminate].
  destruct (g_close D lwrite lclose (gb D s) (gd D s)) as [[b' d'] e]. destruct e; simpl; [discriminate|]. auto.
Qed.
End EndEvents.

Lemma json_signal_after_check own bsz fuel k l arr d0 : Permutation arr (numbered l) -> sfresh d0 ->
  let r := end_events sdev sdev_write (own_close own) CheckThenSignal (json_before_close bsz fuel k arr d0) in
  may_exit_ok (fst r) = true ->
  got (sd (snd r)) = json_expected l /\ (if own then closes (sd (snd r)) = 1 /\ close_ok (sd (snd r)) = true else closes (sd (snd r)) = 0).
Proof.
  intros P F r H. destruct (end_events_exit _ _ _ _ H) as [A B].
  pose proof (own_json own bsz fuel k l arr d0 P F A) as X. unfold odelivered in X.
  unfold g_json in X. fold (json_before_close bsz fuel k arr d0) in X. fold r in B. rewrite B in X. exact X.
Qed.
Lemma csv_signal_after_check own bsz fuel k header rows arr d0 : Permutation arr (numbered (csv_chunks header rows)) -> sfresh d0 ->
  let r := end_events sdev sdev_write (own_close own) CheckThenSignal (csv_before_close bsz fuel k arr d0) in
  may_exit_ok (fst r) = true ->
  got (sd (snd r)) = concat (csv_chunks header rows) /\ (if own then closes (sd (snd r)) = 1 /\ close_ok (sd (snd r)) = true else closes (sd (snd r)) = 0).
Proof.
  intros P F r H. destruct (end_events_exit _ _ _ _ H) as [A B].
  pose proof (own_csv own bsz fuel k header rows arr d0 P F A) as X. unfold odelivered in X.
  unfold g_csv in X. fold (csv_before_close bsz fuel k arr d0) in X. fold r in B. rewrite B in X. exact X.
Qed.
(* JSON on the standard output (not owned), signal first: two bytes of room for a 5-byte empty array *)
Lemma json_signal_before_check_refuted :
  exists d0, sfresh d0 /\
    let r := end_events sdev sdev_write (own_close false) SignalThenCheck (json_before_close go_bufsize 16 true [] d0) in
    may_exit_ok (fst r) = true /\ got (sd (snd r)) <> json_expected [] /\ In EvFatal (fst r).
Proof.
  exists (mksdev (mkdev (Some 2) true [] 0) None false 0). split; [split; reflexivity|].
  vm_compute. split; [reflexivity|]. split; [discriminate|]. right. now left.
Qed.
