(** C18 — property theorems (statements only; every proof is [exact] of a lemma of Proofs.v).
    Output write failures are reported, never followed by a successful exit: for every chunk list,
    every arrival permutation, every bufio buffer size and EVERY device (any fault offset [budget],
    failing Close or not): if the process exits successfully then every expected byte is in the device,
    the device was closed exactly once and that Close succeeded.  [fixed] = the repaired code. *)
From Coq Require Import List Arith NArith Bool Permutation.
From OBI.Common Require Import Reseq.
From OBI.C18 Require Import Model Proofs Layer LayerProofs Own OwnProofs.
Import ListNotations.

Theorem C18_fault_is_fatal_fastx : forall bsz l arr d0, Permutation arr (numbered l) -> fresh d0 ->
  wo (fastx_writer bsz fixed arr d0) = ExitOk ->
  got (wd (fastx_writer bsz fixed arr d0)) = concat l /\ closes (wd (fastx_writer bsz fixed arr d0)) = 1 /\ close_ok d0 = true.
Proof. exact fastx_fault_is_fatal. Qed.

Theorem C18_fault_is_fatal_json : forall bsz l arr d0, Permutation arr (numbered l) -> fresh d0 ->
  wo (json_writer bsz fixed arr d0) = ExitOk ->
  got (wd (json_writer bsz fixed arr d0)) = json_expected l /\ closes (wd (json_writer bsz fixed arr d0)) = 1 /\ close_ok d0 = true.
Proof. exact json_fault_is_fatal. Qed.

Theorem C18_fault_is_fatal_csv : forall bsz header rows arr d0,
  Permutation arr (numbered (csv_chunks header rows)) -> fresh d0 ->
  wo (csv_writer bsz fixed arr d0) = ExitOk ->
  got (wd (csv_writer bsz fixed arr d0)) = concat (csv_chunks header rows) /\
  closes (wd (csv_writer bsz fixed arr d0)) = 1 /\ close_ok d0 = true.
Proof. exact csv_fault_is_fatal. Qed.

(** explicit form: the device accepts k bytes and the result is longer => fatal exit (the model's
    OutOfFuel outcome never happens: the two iterations of bufio's Write loop always suffice) *)
Theorem C18_fault_offset_is_fatal_fastx : forall bsz l arr d0 k, Permutation arr (numbered l) -> fresh d0 ->
  budget d0 = Some k -> k < length (concat l) -> wo (fastx_writer bsz fixed arr d0) = ExitFatal.
Proof. exact fastx_fault_offset. Qed.
Theorem C18_fault_offset_is_fatal_json : forall bsz l arr d0 k, Permutation arr (numbered l) -> fresh d0 ->
  budget d0 = Some k -> k < length (json_expected l) -> wo (json_writer bsz fixed arr d0) = ExitFatal.
Proof. exact json_fault_offset. Qed.
Theorem C18_fault_offset_is_fatal_csv : forall bsz header rows arr d0 k,
  Permutation arr (numbered (csv_chunks header rows)) -> fresh d0 ->
  budget d0 = Some k -> k < length (concat (csv_chunks header rows)) -> wo (csv_writer bsz fixed arr d0) = ExitFatal.
Proof. exact csv_fault_offset. Qed.
(** a failing Close => fatal exit *)
Theorem C18_close_failure_is_fatal_fastx : forall bsz l arr d0, Permutation arr (numbered l) -> fresh d0 ->
  close_ok d0 = false -> wo (fastx_writer bsz fixed arr d0) = ExitFatal.
Proof. exact fastx_close_failure. Qed.
Theorem C18_close_failure_is_fatal_json : forall bsz l arr d0, Permutation arr (numbered l) -> fresh d0 ->
  close_ok d0 = false -> wo (json_writer bsz fixed arr d0) = ExitFatal.
Proof. exact json_close_failure. Qed.
Theorem C18_close_failure_is_fatal_csv : forall bsz header rows arr d0,
  Permutation arr (numbered (csv_chunks header rows)) -> fresh d0 ->
  close_ok d0 = false -> wo (csv_writer bsz fixed arr d0) = ExitFatal.
Proof. exact csv_close_failure. Qed.
(** the fuel of the transcribed bufio loop is never exhausted, whatever the configuration and arrival *)
Theorem C18_never_out_of_fuel : forall bsz c arr d0,
  wo (fastx_writer bsz c arr d0) <> OutOfFuel /\ wo (json_writer bsz c arr d0) <> OutOfFuel /\ wo (csv_writer bsz c arr d0) <> OutOfFuel.
Proof. exact (fun bsz c arr d0 => conj (fastx_fueled bsz c arr d0) (conj (json_fueled bsz c arr d0) (csv_fueled bsz c arr d0))). Qed.

(** JSON: it is enough that Close is checked and that Wfile.Close returns the error of Flush — the error
    of bufio.Writer is sticky, so unchecked Writes cannot hide a fault *)
Theorem C18_json_robust : forall bsz c l arr d0, jc_close_chk c = true -> flush_chk c = true ->
  Permutation arr (numbered l) -> fresh d0 ->
  wo (json_writer bsz c arr d0) = ExitOk ->
  got (wd (json_writer bsz c arr d0)) = json_expected l /\ closes (wd (json_writer bsz c arr d0)) = 1 /\ close_ok d0 = true.
Proof. exact json_robust. Qed.

(** bufio.Writer.Write (transcribed): Ok => nothing lost and no error pending; Err => the error stays *)
Theorem C18_bufio_write : forall bsz fuel b d p b' d' r, berr b = false -> bw_write bsz fuel b d p = (b', d', r) ->
  closes d' = closes d /\ close_ok d' = close_ok d /\
  (r = Ok -> berr b' = false /\ got d' ++ bbuf b' = got d ++ bbuf b ++ p) /\
  (r = Err -> berr b' = true).
Proof. exact bw_write_spec. Qed.
Theorem C18_bufio_error_sticky : forall bsz fuel b d p, berr b = true -> bw_write bsz fuel b d p = (b, d, Err).
Proof. exact bw_write_sticky. Qed.

(** the unchanged code ([orig]) violates the statement — one witness per mechanism; each fails on the
    real unchanged code as well (corpus of tools/props/c18.py, buffer size 4096):
    a result smaller than the buffer on a full device (Wfile.Close drops the Flush error) *)
Theorem C18_orig_refuted_small_output :
  exists l d0, fresh d0 /\ wo (fastx_writer go_bufsize orig (numbered l) d0) = ExitOk /\
               got (wd (fastx_writer go_bufsize orig (numbered l) d0)) <> concat l.
Proof. exact orig_refuted_small_output. Qed.
(** ... still so when everything else is repaired *)
Theorem C18_flush_error_dropped_refuted :
  exists l d0, fresh d0 /\ wo (fastx_writer go_bufsize (mkcfg true true true false) (numbered l) d0) = ExitOk /\
               got (wd (fastx_writer go_bufsize (mkcfg true true true false) (numbered l) d0)) <> concat l.
Proof. exact flush_fix_needed. Qed.
(** the fault hits while a chunk drained from the re-sequencing buffer is written (two chunks of 4200
    bytes, arrival 1,0, device full after 6000 bytes): exit ok with 6000 of 8400 bytes *)
Theorem C18_orig_refuted_drained_chunk :
  let l := [big 65; big 67] in let arr := [(1, big 67); (0, big 65)] in
  let d0 := mkdev (Some (N.to_nat 6000)) true [] 0 in
  Permutation arr (numbered l) /\ wo (fastx_writer go_bufsize orig arr d0) = ExitOk /\
  length (got (wd (fastx_writer go_bufsize orig arr d0))) = N.to_nat 6000 /\ length (concat l) = N.to_nat 8400.
Proof. exact orig_refuted_drained_chunk. Qed.
(** WriteJSON / WriteCSV never look at an error *)
Theorem C18_orig_refuted_json :
  exists l d0, fresh d0 /\ wo (json_writer go_bufsize orig (numbered l) d0) = ExitOk /\
               got (wd (json_writer go_bufsize orig (numbered l) d0)) <> json_expected l.
Proof. exact orig_refuted_json. Qed.
Theorem C18_orig_refuted_csv_close :
  exists l d0, fresh d0 /\ close_ok d0 = false /\ wo (csv_writer go_bufsize orig (numbered l) d0) = ExitOk.
Proof. exact orig_refuted_csv_close. Qed.

(** ================= round 2 *)

(** FASTA / FASTQ: as for JSON, it is enough that Wfile.Close returns the error of Flush (and that Close is
    checked, which WriteSeqFileChunk always did): whichever Write errors the loop looks at (drain_chk
    arbitrary), a successful exit means every byte delivered — bufio's error is sticky *)
Theorem C18_fastx_robust : forall bsz c l arr d0, flush_chk c = true -> Permutation arr (numbered l) -> fresh d0 ->
  wo (fastx_writer bsz c arr d0) = ExitOk ->
  got (wd (fastx_writer bsz c arr d0)) = concat l /\ closes (wd (fastx_writer bsz c arr d0)) = 1 /\ close_ok d0 = true.
Proof. exact fastx_robust. Qed.
Theorem C18_csv_robust : forall bsz c header rows arr d0, jc_close_chk c = true -> flush_chk c = true ->
  Permutation arr (numbered (csv_chunks header rows)) -> fresh d0 ->
  wo (csv_writer bsz c arr d0) = ExitOk ->
  got (wd (csv_writer bsz c arr d0)) = concat (csv_chunks header rows) /\ closes (wd (csv_writer bsz c arr d0)) = 1 /\ close_ok d0 = true.
Proof. exact csv_robust. Qed.

(** COMPRESSED outputs (-Z): writer loop -> bufio -> compressor -> device.  The compressor is ANY state
    machine [G, gwrite, gclose] that (i) acts on the device only by writing to it and (ii) obeys the
    single law "an error of the device is returned by a later Write or by Close" ([owes]: ghost flag
    "an error has been seen and not yet returned"; hypotheses GW / GC).  Then, for every chunk list,
    arrival permutation, buffer size, loop fuel, choice of checked Write errors and EVERY device:
    exit ok => the compressor was given exactly the expected bytes and was closed without error, NO
    write to the device failed (all it emitted is in the device), the device was closed once and that
    Close succeeded.  (That the emitted bytes decode to the input is the codec's business.) *)
Definition gz_law (G : Type) (gwrite : G -> fdev -> list N -> G * fdev * nat * bool)
                  (gclose : G -> fdev -> G * fdev * bool) (owes : G -> bool) : Prop :=
  (forall g f p g' f' n e, gwrite g f p = (g', f', n, e) ->
     (exists ps, f' = fdev_writes f ps) /\ (e = false -> zJ G owes (g, f, []) -> zJ G owes (g', f', []))) /\
  (forall g f g' f' e, gclose g f = (g', f', e) ->
     (exists ps, f' = fdev_writes f ps) /\ (e = false -> zJ G owes (g, f, []) -> ffailed f' = false)).

Theorem C18_fault_is_fatal_fastx_gz : forall G gwrite gclose owes, gz_law G gwrite gclose owes ->
  forall bsz fuel k1 k2 l arr z0, Permutation arr (numbered l) -> zfresh G z0 ->
  go _ (g_fastx (zdev G) (z_write G gwrite) (z_close G gclose) bsz fuel k1 k2 arr z0) = ExitOk ->
  zdelivered G (g_fastx (zdev G) (z_write G gwrite) (z_close G gclose) bsz fuel k1 k2 arr z0) (concat l).
Proof. exact (fun G gw gc ow L => gz_fastx G gw gc ow (proj1 L) (proj2 L)). Qed.
Theorem C18_fault_is_fatal_json_gz : forall G gwrite gclose owes, gz_law G gwrite gclose owes ->
  forall bsz fuel k l arr z0, Permutation arr (numbered l) -> zfresh G z0 ->
  go _ (g_json (zdev G) (z_write G gwrite) (z_close G gclose) bsz fuel k arr z0) = ExitOk ->
  zdelivered G (g_json (zdev G) (z_write G gwrite) (z_close G gclose) bsz fuel k arr z0) (json_expected l).
Proof. exact (fun G gw gc ow L => gz_json G gw gc ow (proj1 L) (proj2 L)). Qed.
Theorem C18_fault_is_fatal_csv_gz : forall G gwrite gclose owes, gz_law G gwrite gclose owes ->
  forall bsz fuel k header rows arr z0, Permutation arr (numbered (csv_chunks header rows)) -> zfresh G z0 ->
  go _ (g_csv (zdev G) (z_write G gwrite) (z_close G gclose) bsz fuel k arr z0) = ExitOk ->
  zdelivered G (g_csv (zdev G) (z_write G gwrite) (z_close G gclose) bsz fuel k arr z0) (concat (csv_chunks header rows)).
Proof. exact (fun G gw gc ow L => gz_csv G gw gc ow (proj1 L) (proj2 L)). Qed.
(** the law is satisfiable (a store-and-forward layer that returns a device error only from Close) *)
Theorem C18_gz_law_satisfiable : gz_law bool lazy_gwrite lazy_gclose (fun g => g).
Proof. exact (conj lazy_GW lazy_GC). Qed.

(** OTHER DEVICE ERROR SHAPES ([sdev]): a write that stops short WITHOUT reporting an error (once, at any
    absolute offset), an error on zero-length writes, on top of the budget / failing Close: same
    conclusion for every shape, buffer size and loop fuel (OutOfFuel = the loop of bufio.Writer.Write never
    returns: not a successful exit) *)
Theorem C18_fault_is_fatal_fastx_shapes : forall bsz fuel k1 k2 l arr d0, Permutation arr (numbered l) -> sfresh d0 ->
  go sdev (g_fastx sdev sdev_write sdev_close bsz fuel k1 k2 arr d0) = ExitOk ->
  sdelivered (g_fastx sdev sdev_write sdev_close bsz fuel k1 k2 arr d0) (concat l).
Proof. exact sdev_fastx. Qed.
Theorem C18_fault_is_fatal_json_shapes : forall bsz fuel k l arr d0, Permutation arr (numbered l) -> sfresh d0 ->
  go sdev (g_json sdev sdev_write sdev_close bsz fuel k arr d0) = ExitOk ->
  sdelivered (g_json sdev sdev_write sdev_close bsz fuel k arr d0) (json_expected l).
Proof. exact sdev_json. Qed.
Theorem C18_fault_is_fatal_csv_shapes : forall bsz fuel k header rows arr d0,
  Permutation arr (numbered (csv_chunks header rows)) -> sfresh d0 ->
  go sdev (g_csv sdev sdev_write sdev_close bsz fuel k arr d0) = ExitOk ->
  sdelivered (g_csv sdev sdev_write sdev_close bsz fuel k arr d0) (concat (csv_chunks header rows)).
Proof. exact sdev_csv. Qed.

(** what the shapes do (4096-byte buffer): a short write without error while bufio FLUSHES is turned
    into io.ErrShortWrite, hence a fatal exit; the same short write on the DIRECT path (chunk larger than
    the empty buffer) is simply retried: exit ok with every byte; zero-length writes never reach the
    device, so a device failing them changes nothing; the lazy compressor on a device that fails after 3
    bytes exits fatally, on a healthy device successfully *)
Example C18_round2_nonvacuous :
  let run l d := g_fastx sdev sdev_write sdev_close go_bufsize 16 true true (numbered l) d in
  let dv cut zero := mksdev (mkdev None true [] 0) cut zero 0 in
  go _ (run [[49; 10]%N; big 65] (dv (Some 1) false)) = ExitFatal /\
  go _ (run [big 65] (dv (Some 100) false)) = ExitOk /\ length (got (sd (gd _ (run [big 65] (dv (Some 100) false))))) = N.to_nat 4200 /\
  go _ (run [[49; 10]%N; []; [50]%N] (dv None true)) = ExitOk /\ zero_seen (gd _ (run [[49; 10]%N; []; [50]%N] (dv None true))) = 0 /\
  let zrun k := g_fastx (zdev bool) (z_write bool lazy_gwrite) (z_close bool lazy_gclose) go_bufsize 4 true true
                  (numbered [[49; 10]%N; [50; 51; 10]%N]) (false, mkfdev (mkdev k true [] 0) false, []) in
  go _ (zrun (Some 3)) = ExitFatal /\ go _ (zrun None) = ExitOk /\ zfresh bool (false, mkfdev (mkdev None true [] 0) false, []).
Proof. vm_compute. repeat split; reflexivity. Qed.

(** hypotheses are satisfiable and the conclusion is not vacuous: a healthy device gives ExitOk with all
    bytes; a device failing after 4 bytes gives ExitFatal (non-identity arrival, 4096-byte buffer) *)
Example C18_nonvacuous :
  let l := [[49; 10]%N; []; [50; 51; 10]%N] in
  let arr := [(2, [50; 51; 10]%N); (0, [49; 10]%N); (1, [])] in
  Permutation arr (numbered l) /\
  wo (fastx_writer go_bufsize fixed arr (mkdev None true [] 0)) = ExitOk /\
  got (wd (fastx_writer go_bufsize fixed arr (mkdev None true [] 0))) = [49; 10; 50; 51; 10]%N /\
  wo (fastx_writer go_bufsize fixed arr (mkdev (Some 4) true [] 0)) = ExitFatal /\
  wo (json_writer go_bufsize fixed arr (mkdev None false [] 0)) = ExitFatal.
Proof.
  cbv zeta. split; [|vm_compute; auto].
  change (numbered [[49; 10]%N; []; [50; 51; 10]%N]) with [(0, [49; 10]%N); (1, @nil N); (2, [50; 51; 10]%N)].
  apply Permutation_sym. eapply perm_trans; [apply perm_skip; apply perm_swap|]. eapply perm_trans; [apply perm_swap|].
  apply perm_skip. apply Permutation_refl.
Qed.

(** ================= round 3 *)

(** STREAMS THE WRITER DOES NOT OWN (OptionDontCloseFile: JSON / CSV on the standard output; [own = false]):
    Wfile.Close is still the final flush, its error is still fatal, and the stream is left open.  For every
    writer, owner flag, device shape, buffer size, loop fuel and arrival: exit ok => every expected byte is in
    the device; owned: closed once and that Close succeeded; not owned: never closed. *)
Theorem C18_fault_is_fatal_fastx_any_owner : forall own bsz fuel k1 k2 l arr d0, Permutation arr (numbered l) -> sfresh d0 ->
  go sdev (g_fastx sdev sdev_write (own_close own) bsz fuel k1 k2 arr d0) = ExitOk ->
  odelivered own (g_fastx sdev sdev_write (own_close own) bsz fuel k1 k2 arr d0) (concat l).
Proof. exact own_fastx. Qed.
Theorem C18_fault_is_fatal_json_any_owner : forall own bsz fuel k l arr d0, Permutation arr (numbered l) -> sfresh d0 ->
  go sdev (g_json sdev sdev_write (own_close own) bsz fuel k arr d0) = ExitOk ->
  odelivered own (g_json sdev sdev_write (own_close own) bsz fuel k arr d0) (json_expected l).
Proof. exact own_json. Qed.
Theorem C18_fault_is_fatal_csv_any_owner : forall own bsz fuel k header rows arr d0,
  Permutation arr (numbered (csv_chunks header rows)) -> sfresh d0 ->
  go sdev (g_csv sdev sdev_write (own_close own) bsz fuel k arr d0) = ExitOk ->
  odelivered own (g_csv sdev sdev_write (own_close own) bsz fuel k arr d0) (concat (csv_chunks header rows)).
Proof. exact own_csv. Qed.
(** explicit: JSON on a standard output that accepts k bytes, the array being longer: no successful exit *)
Theorem C18_unowned_fault_offset_json : forall bsz fuel kk l arr d0 k, Permutation arr (numbered l) -> sfresh d0 ->
  budget (sd d0) = Some k -> k < length (json_expected l) ->
  go sdev (g_json sdev sdev_write (own_close false) bsz fuel kk arr d0) <> ExitOk.
Proof. exact unowned_fault_offset_json. Qed.

(** compressed AND not owned (-Z on the standard output): Close = close of the compressor only; under the same
    single law: exit ok => the compressor got every expected byte and closed without error, no device write
    failed, the device is still open *)
Theorem C18_fault_is_fatal_fastx_gz_unowned : forall G gwrite gclose owes, gz_law G gwrite gclose owes ->
  forall bsz fuel k1 k2 l arr z0, Permutation arr (numbered l) -> zfresh G z0 ->
  go _ (g_fastx (zdev G) (z_write G gwrite) (z_close_keep G gclose) bsz fuel k1 k2 arr z0) = ExitOk ->
  zdelivered_keep G (g_fastx (zdev G) (z_write G gwrite) (z_close_keep G gclose) bsz fuel k1 k2 arr z0) (concat l).
Proof. exact (fun G gw gc ow L => gz_keep_fastx G gw gc ow (proj1 L) (proj2 L)). Qed.
Theorem C18_fault_is_fatal_json_gz_unowned : forall G gwrite gclose owes, gz_law G gwrite gclose owes ->
  forall bsz fuel k l arr z0, Permutation arr (numbered l) -> zfresh G z0 ->
  go _ (g_json (zdev G) (z_write G gwrite) (z_close_keep G gclose) bsz fuel k arr z0) = ExitOk ->
  zdelivered_keep G (g_json (zdev G) (z_write G gwrite) (z_close_keep G gclose) bsz fuel k arr z0) (json_expected l).
Proof. exact (fun G gw gc ow L => gz_keep_json G gw gc ow (proj1 L) (proj2 L)). Qed.
Theorem C18_fault_is_fatal_csv_gz_unowned : forall G gwrite gclose owes, gz_law G gwrite gclose owes ->
  forall bsz fuel k header rows arr z0, Permutation arr (numbered (csv_chunks header rows)) -> zfresh G z0 ->
  go _ (g_csv (zdev G) (z_write G gwrite) (z_close_keep G gclose) bsz fuel k arr z0) = ExitOk ->
  zdelivered_keep G (g_csv (zdev G) (z_write G gwrite) (z_close_keep G gclose) bsz fuel k arr z0) (concat (csv_chunks header rows)).
Proof. exact (fun G gw gc ow L => gz_keep_csv G gw gc ow (proj1 L) (proj2 L)). Qed.

(** A HISTORY OF CALLS ON ONE Wfile (Write / WriteString any number of times, then Close; OpenWritingFile,
    CompressStream, a WriteSeqFileChunk whose caller closes): if Close returns no error (and every call returned)
    then EVERY call returned Ok, every byte is in the device, which was closed once successfully (owned) or left
    open (not owned) *)
Theorem C18_wfile_session : forall own bsz fuel d0 ps d' xs, sfresh d0 ->
  wf_session sdev sdev_write (own_close own) bsz fuel d0 ps = (d', xs, false) -> ~ In Fuel xs ->
  Forall (fun x => x = Ok) xs /\ got (sd d') = concat ps /\
  (if own then closes (sd d') = 1 /\ close_ok (sd d') = true else closes (sd d') = 0).
Proof. exact wfile_session_delivered. Qed.
(** ... and once a call has returned an error, every later call returns an error and so does Close: after the
    first failure nothing the caller does (or forgets to check) can turn the run into a success *)
Theorem C18_wfile_error_sticky : forall own bsz fuel d0 ps d' xs e xs1 xs2,
  wf_session sdev sdev_write (own_close own) bsz fuel d0 ps = (d', xs, e) -> xs = xs1 ++ Err :: xs2 ->
  Forall (fun x => x = Err) xs2 /\ e = true.
Proof. exact wfile_error_sticky. Qed.
(** the same over ANY lower layer obeying the write law of LayerProofs (compressor included) *)
Theorem C18_wfile_session_any_layer : forall (D : Type) (lwrite : D -> list N -> D * nat * bool) (lclose : D -> D * bool) bsz fuel
    (lgot : D -> list N) (lclosed : D -> nat),
  (forall d p d' n e, lwrite d p = (d', n, e) -> lclosed d' = lclosed d /\ (e = false -> lgot d' = lgot d ++ firstn n p /\ (True -> True))) ->
  forall d0, lgot d0 = [] -> forall ps d' xs, wf_session D lwrite lclose bsz fuel d0 ps = (d', xs, false) -> ~ In Fuel xs ->
  Forall (fun x => x = Ok) xs /\ exists d1, lgot d1 = concat ps /\ lclosed d1 = lclosed d0 /\ lclose d1 = (d', false).
Proof. exact wf_session_ok. Qed.

(** THE END OF THE WRITER GOROUTINE: the error of Close is reported (log.Fatalf) BEFORE completion is signalled.
    After the signal main may return with status 0 at any moment ([may_exit_ok]); with the order of the code a
    possible successful exit implies a complete output ... *)
Theorem C18_signal_after_check : forall own bsz fuel k1 k2 l arr d0, Permutation arr (numbered l) -> sfresh d0 ->
  let r := fastx_events sdev sdev_write (own_close own) bsz fuel CheckThenSignal k1 k2 arr d0 in
  may_exit_ok (fst r) = true ->
  got (sd (snd r)) = concat l /\ (if own then closes (sd (snd r)) = 1 /\ close_ok (sd (snd r)) = true else closes (sd (snd r)) = 0).
Proof. exact signal_after_check. Qed.
(** ... with the opposite order (completion signalled, then the error looked at) it does not: one record on a full
    device; the goroutine does reach log.Fatalf, too late *)
Theorem C18_signal_before_check_refuted :
  exists l d0, sfresh d0 /\
    let r := fastx_events sdev sdev_write (own_close true) go_bufsize 16 SignalThenCheck true true (numbered l) d0 in
    may_exit_ok (fst r) = true /\ got (sd (snd r)) <> concat l /\ In EvFatal (fst r).
Proof. exact signal_before_check_refuted. Qed.

(** the same for the JSON and CSV writers (their completion signal is waitWriter.Done / UnregisterPipe) *)
Theorem C18_signal_after_check_json : forall own bsz fuel k l arr d0, Permutation arr (numbered l) -> sfresh d0 ->
  let r := end_events sdev sdev_write (own_close own) CheckThenSignal (json_before_close bsz fuel k arr d0) in
  may_exit_ok (fst r) = true ->
  got (sd (snd r)) = json_expected l /\ (if own then closes (sd (snd r)) = 1 /\ close_ok (sd (snd r)) = true else closes (sd (snd r)) = 0).
Proof. exact json_signal_after_check. Qed.
Theorem C18_signal_after_check_csv : forall own bsz fuel k header rows arr d0,
  Permutation arr (numbered (csv_chunks header rows)) -> sfresh d0 ->
  let r := end_events sdev sdev_write (own_close own) CheckThenSignal (csv_before_close bsz fuel k arr d0) in
  may_exit_ok (fst r) = true ->
  got (sd (snd r)) = concat (csv_chunks header rows) /\ (if own then closes (sd (snd r)) = 1 /\ close_ok (sd (snd r)) = true else closes (sd (snd r)) = 0).
Proof. exact csv_signal_after_check. Qed.
(** JSON on a standard output with room for 2 of the 5 bytes of the empty array, completion signalled first *)
Theorem C18_signal_before_check_json_refuted :
  exists d0, sfresh d0 /\
    let r := end_events sdev sdev_write (own_close false) SignalThenCheck (json_before_close go_bufsize 16 true [] d0) in
    may_exit_ok (fst r) = true /\ got (sd (snd r)) <> json_expected [] /\ In EvFatal (fst r).
Proof. exact json_signal_before_check_refuted. Qed.

(** hypotheses are met and conclusions not vacuous (4096-byte buffer): JSON on a healthy standard output exits ok,
    complete and NOT closed; on one that accepts 5 bytes, fatally; a history Write 2 / Write 3 / Write 1 on a device
    accepting 0 bytes: the calls return Ok (buffered) and Close the error; with a 4-byte buffer the second call
    already fails and the third and Close fail too; the lazy compressor, not owned: fatal on a failing device, ok and
    open on a healthy one *)
Example C18_round3_nonvacuous :
  let l := [[123; 125]%N; []; [123; 49; 125]%N] in
  let dv k := mksdev (mkdev k true [] 0) None false 0 in
  let jrun k := g_json sdev sdev_write (own_close false) go_bufsize 16 true (numbered l) (dv k) in
  go _ (jrun None) = ExitOk /\ got (sd (gd _ (jrun None))) = json_expected l /\ closes (sd (gd _ (jrun None))) = 0 /\
  go _ (jrun (Some 5)) = ExitFatal /\
  snd (wf_session sdev sdev_write (own_close true) go_bufsize 16 (dv (Some 0)) [[1; 2]; [3; 4; 5]; [6]]%N) = true /\
  snd (fst (wf_session sdev sdev_write (own_close true) go_bufsize 16 (dv (Some 0)) [[1; 2]; [3; 4; 5]; [6]]%N)) = [Ok; Ok; Ok] /\
  snd (fst (wf_session sdev sdev_write (own_close true) 4 16 (dv (Some 0)) [[1; 2]; [3; 4; 5]; [6]]%N)) = [Ok; Err; Err] /\
  wf_session sdev sdev_write (own_close false) 4 16 (dv None) [[1; 2]; [3; 4; 5]; [6]]%N = (mksdev (mkdev None true [1; 2; 3; 4; 5; 6]%N 0) None false 0, [Ok; Ok; Ok], false) /\
  let zrun k := g_json (zdev bool) (z_write bool lazy_gwrite) (z_close_keep bool lazy_gclose) go_bufsize 4 true
                  (numbered l) (false, mkfdev (mkdev k true [] 0) false, []) in
  go _ (zrun (Some 3)) = ExitFatal /\ go _ (zrun None) = ExitOk /\ closes (fd (snd (fst (gd _ (zrun None))))) = 0.
Proof. vm_compute. repeat split; reflexivity. Qed.

Print Assumptions C18_fault_is_fatal_fastx.
Print Assumptions C18_fault_is_fatal_json.
Print Assumptions C18_fault_is_fatal_csv.
Print Assumptions C18_fault_offset_is_fatal_fastx.
Print Assumptions C18_fault_offset_is_fatal_json.
Print Assumptions C18_fault_offset_is_fatal_csv.
Print Assumptions C18_close_failure_is_fatal_fastx.
Print Assumptions C18_close_failure_is_fatal_json.
Print Assumptions C18_close_failure_is_fatal_csv.
Print Assumptions C18_never_out_of_fuel.
Print Assumptions C18_json_robust.
Print Assumptions C18_bufio_write.
Print Assumptions C18_bufio_error_sticky.
Print Assumptions C18_orig_refuted_small_output.
Print Assumptions C18_flush_error_dropped_refuted.
Print Assumptions C18_orig_refuted_drained_chunk.
Print Assumptions C18_orig_refuted_json.
Print Assumptions C18_orig_refuted_csv_close.
Print Assumptions C18_fastx_robust.
Print Assumptions C18_csv_robust.
Print Assumptions C18_fault_is_fatal_fastx_gz.
Print Assumptions C18_fault_is_fatal_json_gz.
Print Assumptions C18_fault_is_fatal_csv_gz.
Print Assumptions C18_gz_law_satisfiable.
Print Assumptions C18_fault_is_fatal_fastx_shapes.
Print Assumptions C18_fault_is_fatal_json_shapes.
Print Assumptions C18_fault_is_fatal_csv_shapes.
Print Assumptions C18_fault_is_fatal_fastx_any_owner.
Print Assumptions C18_fault_is_fatal_json_any_owner.
Print Assumptions C18_fault_is_fatal_csv_any_owner.
Print Assumptions C18_unowned_fault_offset_json.
Print Assumptions C18_fault_is_fatal_fastx_gz_unowned.
Print Assumptions C18_fault_is_fatal_json_gz_unowned.
Print Assumptions C18_fault_is_fatal_csv_gz_unowned.
Print Assumptions C18_wfile_session.
Print Assumptions C18_wfile_error_sticky.
Print Assumptions C18_wfile_session_any_layer.
Print Assumptions C18_signal_after_check.
Print Assumptions C18_signal_before_check_refuted.
Print Assumptions C18_signal_after_check_json.
Print Assumptions C18_signal_after_check_csv.
Print Assumptions C18_signal_before_check_json_refuted.
