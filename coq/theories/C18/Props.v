(** C18 — property theorems (statements only; every proof is [exact] of a lemma of Proofs.v).
    Output write failures are reported, never followed by a successful exit: for every chunk list,
    every arrival permutation, every bufio buffer size and EVERY device (any fault offset [budget],
    failing Close or not): if the process exits successfully then every expected byte is in the device,
    the device was closed exactly once and that Close succeeded.  [fixed] = the repaired code. *)
From Coq Require Import List Arith NArith Bool Permutation.
From OBI.Common Require Import Reseq.
From OBI.C18 Require Import Model Proofs.
Import ListNotations.

Theorem C18_fault_is_fatal_fastx : forall bsz l arr d0, Permutation arr (numbered l) -> fresh d0 ->
  wo (fastx_writer bsz fixed arr d0) = ExitOk ->
  got (wd (fastx_writer bsz fixed arr d0)) = concat l /\ closes (wd (fastx_writer bsz fixed arr d0)) = 1 /\ close_ok d0 = true.
Proof. exact fastx_fault_is_fatal. Qed.

Theorem C18_fault_is_fatal_json : forall bsz l arr d0, Permutation arr (numbered l) -> fresh d0 ->
  wo (json_writer bsz fixed arr d0) = ExitOk ->
  got (wd (json_writer bsz fixed arr d0)) = json_expected l /\ closes (wd (json_writer bsz fixed arr d0)) = 1 /\ close_ok d0 = true.
Proof. exact json_fault_is_fatal. Qed.

Theorem C18_fault_is_fatal_csv : forall bsz header rows arr d0,
  Permutation arr (numbered (csv_chunks header rows)) -> fresh d0 ->
  wo (csv_writer bsz fixed arr d0) = ExitOk ->
  got (wd (csv_writer bsz fixed arr d0)) = concat (csv_chunks header rows) /\
  closes (wd (csv_writer bsz fixed arr d0)) = 1 /\ close_ok d0 = true.
Proof. exact csv_fault_is_fatal. Qed.

(** explicit form: the device accepts k bytes and the result is longer => fatal exit (the model's
    OutOfFuel outcome never happens: the two iterations of bufio's Write loop always suffice) *)
Theorem C18_fault_offset_is_fatal_fastx : forall bsz l arr d0 k, Permutation arr (numbered l) -> fresh d0 ->
  budget d0 = Some k -> k < length (concat l) -> wo (fastx_writer bsz fixed arr d0) = ExitFatal.
Proof. exact fastx_fault_offset. Qed.
Theorem C18_fault_offset_is_fatal_json : forall bsz l arr d0 k, Permutation arr (numbered l) -> fresh d0 ->
  budget d0 = Some k -> k < length (json_expected l) -> wo (json_writer bsz fixed arr d0) = ExitFatal.
Proof. exact json_fault_offset. Qed.
Theorem C18_fault_offset_is_fatal_csv : forall bsz header rows arr d0 k,
  Permutation arr (numbered (csv_chunks header rows)) -> fresh d0 ->
  budget d0 = Some k -> k < length (concat (csv_chunks header rows)) -> wo (csv_writer bsz fixed arr d0) = ExitFatal.
Proof. exact csv_fault_offset. Qed.
(** a failing Close => fatal exit *)
Theorem C18_close_failure_is_fatal_fastx : forall bsz l arr d0, Permutation arr (numbered l) -> fresh d0 ->
  close_ok d0 = false -> wo (fastx_writer bsz fixed arr d0) = ExitFatal.
Proof. exact fastx_close_failure. Qed.
Theorem C18_close_failure_is_fatal_json : forall bsz l arr d0, Permutation arr (numbered l) -> fresh d0 ->
  close_ok d0 = false -> wo (json_writer bsz fixed arr d0) = ExitFatal.
Proof. exact json_close_failure. Qed.
Theorem C18_close_failure_is_fatal_csv : forall bsz header rows arr d0,
  Permutation arr (numbered (csv_chunks header rows)) -> fresh d0 ->
  close_ok d0 = false -> wo (csv_writer bsz fixed arr d0) = ExitFatal.
Proof. exact csv_close_failure. Qed.
(** the fuel of the transcribed bufio loop is never exhausted, whatever the configuration and arrival *)
Theorem C18_never_out_of_fuel : forall bsz c arr d0,
  wo (fastx_writer bsz c arr d0) <> OutOfFuel /\ wo (json_writer bsz c arr d0) <> OutOfFuel /\ wo (csv_writer bsz c arr d0) <> OutOfFuel.
Proof. exact (fun bsz c arr d0 => conj (fastx_fueled bsz c arr d0) (conj (json_fueled bsz c arr d0) (csv_fueled bsz c arr d0))). Qed.

(** JSON: it is enough that Close is checked and that Wfile.Close returns the error of Flush — the error
    of bufio.Writer is sticky, so unchecked Writes cannot hide a fault *)
Theorem C18_json_robust : forall bsz c l arr d0, jc_close_chk c = true -> flush_chk c = true ->
  Permutation arr (numbered l) -> fresh d0 ->
  wo (json_writer bsz c arr d0) = ExitOk ->
  got (wd (json_writer bsz c arr d0)) = json_expected l /\ closes (wd (json_writer bsz c arr d0)) = 1 /\ close_ok d0 = true.
Proof. exact json_robust. Qed.

(** bufio.Writer.Write (transcribed): Ok => nothing lost and no error pending; Err => the error stays *)
Theorem C18_bufio_write : forall bsz fuel b d p b' d' r, berr b = false -> bw_write bsz fuel b d p = (b', d', r) ->
  closes d' = closes d /\ close_ok d' = close_ok d /\
  (r = Ok -> berr b' = false /\ got d' ++ bbuf b' = got d ++ bbuf b ++ p) /\
  (r = Err -> berr b' = true).
Proof. exact bw_write_spec. Qed.
Theorem C18_bufio_error_sticky : forall bsz fuel b d p, berr b = true -> bw_write bsz fuel b d p = (b, d, Err).
Proof. exact bw_write_sticky. Qed.

(** the unchanged code ([orig]) violates the statement — one witness per mechanism; each fails on the
    real unchanged code as well (corpus of tools/props/c18.py, buffer size 4096):
    a result smaller than the buffer on a full device (Wfile.Close drops the Flush error) *)
Theorem C18_orig_refuted_small_output :
  exists l d0, fresh d0 /\ wo (fastx_writer go_bufsize orig (numbered l) d0) = ExitOk /\
               got (wd (fastx_writer go_bufsize orig (numbered l) d0)) <> concat l.
Proof. exact orig_refuted_small_output. Qed.
(** ... still so when everything else is repaired *)
Theorem C18_flush_error_dropped_refuted :
  exists l d0, fresh d0 /\ wo (fastx_writer go_bufsize (mkcfg true true true false) (numbered l) d0) = ExitOk /\
               got (wd (fastx_writer go_bufsize (mkcfg true true true false) (numbered l) d0)) <> concat l.
Proof. exact flush_fix_needed. Qed.
(** the fault hits while a chunk drained from the re-sequencing buffer is written (two chunks of 4200
    bytes, arrival 1,0, device full after 6000 bytes): exit ok with 6000 of 8400 bytes *)
Theorem C18_orig_refuted_drained_chunk :
  let l := [big 65; big 67] in let arr := [(1, big 67); (0, big 65)] in
  let d0 := mkdev (Some (N.to_nat 6000)) true [] 0 in
  Permutation arr (numbered l) /\ wo (fastx_writer go_bufsize orig arr d0) = ExitOk /\
  length (got (wd (fastx_writer go_bufsize orig arr d0))) = N.to_nat 6000 /\ length (concat l) = N.to_nat 8400.
Proof. exact orig_refuted_drained_chunk. Qed.
(** WriteJSON / WriteCSV never look at an error *)
Theorem C18_orig_refuted_json :
  exists l d0, fresh d0 /\ wo (json_writer go_bufsize orig (numbered l) d0) = ExitOk /\
               got (wd (json_writer go_bufsize orig (numbered l) d0)) <> json_expected l.
Proof. exact orig_refuted_json. Qed.
Theorem C18_orig_refuted_csv_close :
  exists l d0, fresh d0 /\ close_ok d0 = false /\ wo (csv_writer go_bufsize orig (numbered l) d0) = ExitOk.
Proof. exact orig_refuted_csv_close. Qed.

(** hypotheses are satisfiable and the conclusion is not vacuous: a healthy device gives ExitOk with all
    bytes; a device failing after 4 bytes gives ExitFatal (non-identity arrival, 4096-byte buffer) *)
Example C18_nonvacuous :
  let l := [[49; 10]%N; []; [50; 51; 10]%N] in
  let arr := [(2, [50; 51; 10]%N); (0, [49; 10]%N); (1, [])] in
  Permutation arr (numbered l) /\
  wo (fastx_writer go_bufsize fixed arr (mkdev None true [] 0)) = ExitOk /\
  got (wd (fastx_writer go_bufsize fixed arr (mkdev None true [] 0))) = [49; 10; 50; 51; 10]%N /\
  wo (fastx_writer go_bufsize fixed arr (mkdev (Some 4) true [] 0)) = ExitFatal /\
  wo (json_writer go_bufsize fixed arr (mkdev None false [] 0)) = ExitFatal.
Proof.
  cbv zeta. split; [|vm_compute; auto].
  change (numbered [[49; 10]%N; []; [50; 51; 10]%N]) with [(0, [49; 10]%N); (1, @nil N); (2, [50; 51; 10]%N)].
  apply Permutation_sym. eapply perm_trans; [apply perm_skip; apply perm_swap|]. eapply perm_trans; [apply perm_swap|].
  apply perm_skip. apply Permutation_refl.
Qed.

Print Assumptions C18_fault_is_fatal_fastx.
Print Assumptions C18_fault_is_fatal_json.
Print Assumptions C18_fault_is_fatal_csv.
Print Assumptions C18_fault_offset_is_fatal_fastx.
Print Assumptions C18_fault_offset_is_fatal_json.
Print Assumptions C18_fault_offset_is_fatal_csv.
Print Assumptions C18_close_failure_is_fatal_fastx.
Print Assumptions C18_close_failure_is_fatal_json.
Print Assumptions C18_close_failure_is_fatal_csv.
Print Assumptions C18_never_out_of_fuel.
Print Assumptions C18_json_robust.
Print Assumptions C18_bufio_write.
Print Assumptions C18_bufio_error_sticky.
Print Assumptions C18_orig_refuted_small_output.
Print Assumptions C18_flush_error_dropped_refuted.
Print Assumptions C18_orig_refuted_drained_chunk.
Print Assumptions C18_orig_refuted_json.
Print Assumptions C18_orig_refuted_csv_close.
