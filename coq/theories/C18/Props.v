(** C18 — property theorems (statements only; every proof is [exact] of a lemma of Proofs.v).
    Output write failures are reported, never followed by a successful exit: for every chunk list,
    every arrival permutation, every bufio buffer size and EVERY device (any fault offset [budget],
    failing Close or not): if the process exits successfully then every expected byte is in the device,
    the device was closed exactly once and that Close succeeded.  [fixed] = the repaired code. *)
From Coq Require Import List Arith NArith Bool Permutation.
From OBI.Common Require Import Reseq.
From OBI.C18 Require Import Model Proofs Layer LayerProofs.
Import ListNotations.

Theorem C18_fault_is_fatal_fastx : forall bsz l arr d0, Permutation arr (numbered l) -> fresh d0 ->
  wo (fastx_writer bsz fixed arr d0) = ExitOk ->
  got (wd (fastx_writer bsz fixed arr d0)) = concat l /\ closes (wd (fastx_writer bsz fixed arr d0)) = 1 /\ close_ok d0 = true.
Proof. exact fastx_fault_is_fatal. Qed.

Theorem C18_fault_is_fatal_json : forall bsz l arr d0, Permutation arr (numbered l) -> fresh d0 ->
  wo (json_writer bsz fixed arr d0) = ExitOk ->
  got (wd (json_writer bsz fixed arr d0)) = json_expected l /\ closes (wd (json_writer bsz fixed arr d0)) = 1 /\ close_ok d0 = true.
Proof. exact json_fault_is_fatal. Qed.

Theorem C18_fault_is_fatal_csv : forall bsz header rows arr d0,
  Permutation arr (numbered (csv_chunks header rows)) -> fresh d0 ->
  wo (csv_writer bsz fixed arr d0) = ExitOk ->
  got (wd (csv_writer bsz fixed arr d0)) = concat (csv_chunks header rows) /\
  closes (wd (csv_writer bsz fixed arr d0)) = 1 /\ close_ok d0 = true.
Proof. exact csv_fault_is_fatal. Qed.

(** explicit form: the device accepts k bytes and the result is longer => fatal exit (the model's
    OutOfFuel outcome never happens: the two iterations of bufio's Write loop always suffice) *)
Theorem C18_fault_offset_is_fatal_fastx : forall bsz l arr d0 k, Permutation arr (numbered l) -> fresh d0 ->
  budget d0 = Some k -> k < length (concat l) -> wo (fastx_writer bsz fixed arr d0) = ExitFatal.
Proof. exact fastx_fault_offset. Qed.
Theorem C18_fault_offset_is_fatal_json : forall bsz l arr d0 k, Permutation arr (numbered l) -> fresh d0 ->
  budget d0 = Some k -> k < length (json_expected l) -> wo (json_writer bsz fixed arr d0) = ExitFatal.
Proof. exact json_fault_offset. Qed.
Theorem C18_fault_offset_is_fatal_csv : forall bsz header rows arr d0 k,
  Permutation arr (numbered (csv_chunks header rows)) -> fresh d0 ->
  budget d0 = Some k -> k < length (concat (csv_chunks header rows)) -> wo (csv_writer bsz fixed arr d0) = ExitFatal.
Proof. exact csv_fault_offset. Qed.
(** a failing Close => fatal exit *)
Theorem C18_close_failure_is_fatal_fastx : forall bsz l arr d0, Permutation arr (numbered l) -> fresh d0 ->
  close_ok d0 = false -> wo (fastx_writer bsz fixed arr d0) = ExitFatal.
Proof. exact fastx_close_failure. Qed.
Theorem C18_close_failure_is_fatal_json : forall bsz l arr d0, Permutation arr (numbered l) -> fresh d0 ->
  close_ok d0 = false -> wo (json_writer bsz fixed arr d0) = ExitFatal.
Proof. exact json_close_failure. Qed.
Theorem C18_close_failure_is_fatal_csv : forall bsz header rows arr d0,
  Permutation arr (numbered (csv_chunks header rows)) -> fresh d0 ->
  close_ok d0 = false -> wo (csv_writer bsz fixed arr d0) = ExitFatal.
Proof. exact csv_close_failure. Qed.
(** the fuel of the transcribed bufio loop is never exhausted, whatever the configuration and arrival *)
Theorem C18_never_out_of_fuel : forall bsz c arr d0,
  wo (fastx_writer bsz c arr d0) <> OutOfFuel /\ wo (json_writer bsz c arr d0) <> OutOfFuel /\ wo (csv_writer bsz c arr d0) <> OutOfFuel.
Proof. exact (fun bsz c arr d0 => conj (fastx_fueled bsz c arr d0) (conj (json_fueled bsz c arr d0) (csv_fueled bsz c arr d0))). Qed.

(** JSON: it is enough that Close is checked and that Wfile.Close returns the error of Flush — the error
    of bufio.Writer is sticky, so unchecked Writes cannot hide a fault *)
Theorem C18_json_robust : forall bsz c l arr d0, jc_close_chk c = true -> flush_chk c = true ->
  Permutation arr (numbered l) -> fresh d0 ->
  wo (json_writer bsz c arr d0) = ExitOk ->
  got (wd (json_writer bsz c arr d0)) = json_expected l /\ closes (wd (json_writer bsz c arr d0)) = 1 /\ close_ok d0 = true.
Proof. exact json_robust. Qed.

(** bufio.Writer.Write (transcribed): Ok => nothing lost and no error pending; Err => the error stays *)
Theorem C18_bufio_write : forall bsz fuel b d p b' d' r, berr b = false -> bw_write bsz fuel b d p = (b', d', r) ->
  closes d' = closes d /\ close_ok d' = close_ok d /\
  (r = Ok -> berr b' = false /\ got d' ++ bbuf b' = got d ++ bbuf b ++ p) /\
  (r = Err -> berr b' = true).
Proof. exact bw_write_spec. Qed.
Theorem C18_bufio_error_sticky : forall bsz fuel b d p, berr b = true -> bw_write bsz fuel b d p = (b, d, Err).
Proof. exact bw_write_sticky. Qed.

(** the unchanged code ([orig]) violates the statement — one witness per mechanism; each fails on the
    real unchanged code as well (corpus of tools/props/c18.py, buffer size 4096):
    a result smaller than the buffer on a full device (Wfile.Close drops the Flush error) *)
Theorem C18_orig_refuted_small_output :
  exists l d0, fresh d0 /\ wo (fastx_writer go_bufsize orig (numbered l) d0) = ExitOk /\
               got (wd (fastx_writer go_bufsize orig (numbered l) d0)) <> concat l.
Proof. exact orig_refuted_small_output. Qed.
(** ... still so when everything else is repaired *)
Theorem C18_flush_error_dropped_refuted :
  exists l d0, fresh d0 /\ wo (fastx_writer go_bufsize (mkcfg true true true false) (numbered l) d0) = ExitOk /\
               got (wd (fastx_writer go_bufsize (mkcfg true true true false) (numbered l) d0)) <> concat l.
Proof. exact flush_fix_needed. Qed.
(** the fault hits while a chunk drained from the re-sequencing buffer is written (two chunks of 4200
    bytes, arrival 1,0, device full after 6000 bytes): exit ok with 6000 of 8400 bytes *)
Theorem C18_orig_refuted_drained_chunk :
  let l := [big 65; big 67] in let arr := [(1, big 67); (0, big 65)] in
  let d0 := mkdev (Some (N.to_nat 6000)) true [] 0 in
  Permutation arr (numbered l) /\ wo (fastx_writer go_bufsize orig arr d0) = ExitOk /\
  length (got (wd (fastx_writer go_bufsize orig arr d0))) = N.to_nat 6000 /\ length (concat l) = N.to_nat 8400.
Proof. exact orig_refuted_drained_chunk. Qed.
(** WriteJSON / WriteCSV never look at an error *)
Theorem C18_orig_refuted_json :
  exists l d0, fresh d0 /\ wo (json_writer go_bufsize orig (numbered l) d0) = ExitOk /\
               got (wd (json_writer go_bufsize orig (numbered l) d0)) <> json_expected l.
Proof. exact orig_refuted_json. Qed.
Theorem C18_orig_refuted_csv_close :
  exists l d0, fresh d0 /\ close_ok d0 = false /\ wo (csv_writer go_bufsize orig (numbered l) d0) = ExitOk.
Proof. exact orig_refuted_csv_close. Qed.

(** ================= round 2 *)

(** FASTA / FASTQ: as for JSON, it is enough that Wfile.Close returns the error of Flush (and that Close is
    checked, which WriteSeqFileChunk always did): whichever Write errors the loop looks at (drain_chk
    arbitrary), a successful exit means every byte delivered — bufio's error is sticky *)
Theorem C18_fastx_robust : forall bsz c l arr d0, flush_chk c = true -> Permutation arr (numbered l) -> fresh d0 ->
  wo (fastx_writer bsz c arr d0) = ExitOk ->
  got (wd (fastx_writer bsz c arr d0)) = concat l /\ closes (wd (fastx_writer bsz c arr d0)) = 1 /\ close_ok d0 = true.
Proof. exact fastx_robust. Qed.
Theorem C18_csv_robust : forall bsz c header rows arr d0, jc_close_chk c = true -> flush_chk c = true ->
  Permutation arr (numbered (csv_chunks header rows)) -> fresh d0 ->
  wo (csv_writer bsz c arr d0) = ExitOk ->
  got (wd (csv_writer bsz c arr d0)) = concat (csv_chunks header rows) /\ closes (wd (csv_writer bsz c arr d0)) = 1 /\ close_ok d0 = true.
Proof. exact csv_robust. Qed.

(** COMPRESSED outputs (-Z): writer loop -> bufio -> compressor -> device.  The compressor is ANY state
    machine [G, gwrite, gclose] that (i) acts on the device only by writing to it and (ii) obeys the
    single law "an error of the device is returned by a later Write or by Close" ([owes]: ghost flag
    "an error has been seen and not yet returned"; hypotheses GW / GC).  Then, for every chunk list,
    arrival permutation, buffer size, loop fuel, choice of checked Write errors and EVERY device:
    exit ok => the compressor was given exactly the expected bytes and was closed without error, NO
    write to the device failed (all it emitted is in the device), the device was closed once and that
    Close succeeded.  (That the emitted bytes decode to the input is the codec's business.) *)
Definition gz_law (G : Type) (gwrite : G -> fdev -> list N -> G * fdev * nat * bool)
                  (gclose : G -> fdev -> G * fdev * bool) (owes : G -> bool) : Prop :=
  (forall g f p g' f' n e, gwrite g f p = (g', f', n, e) ->
     (exists ps, f' = fdev_writes f ps) /\ (e = false -> zJ G owes (g, f, []) -> zJ G owes (g', f', []))) /\
  (forall g f g' f' e, gclose g f = (g', f', e) ->
     (exists ps, f' = fdev_writes f ps) /\ (e = false -> zJ G owes (g, f, []) -> ffailed f' = false)).

Theorem C18_fault_is_fatal_fastx_gz : forall G gwrite gclose owes, gz_law G gwrite gclose owes ->
  forall bsz fuel k1 k2 l arr z0, Permutation arr (numbered l) -> zfresh G z0 ->
  go _ (g_fastx (zdev G) (z_write G gwrite) (z_close G gclose) bsz fuel k1 k2 arr z0) = ExitOk ->
  zdelivered G (g_fastx (zdev G) (z_write G gwrite) (z_close G gclose) bsz fuel k1 k2 arr z0) (concat l).
Proof. exact (fun G gw gc ow L => gz_fastx G gw gc ow (proj1 L) (proj2 L)). Qed.
Theorem C18_fault_is_fatal_json_gz : forall G gwrite gclose owes, gz_law G gwrite gclose owes ->
  forall bsz fuel k l arr z0, Permutation arr (numbered l) -> zfresh G z0 ->
  go _ (g_json (zdev G) (z_write G gwrite) (z_close G gclose) bsz fuel k arr z0) = ExitOk ->
  zdelivered G (g_json (zdev G) (z_write G gwrite) (z_close G gclose) bsz fuel k arr z0) (json_expected l).
Proof. exact (fun G gw gc ow L => gz_json G gw gc ow (proj1 L) (proj2 L)). Qed.
Theorem C18_fault_is_fatal_csv_gz : forall G gwrite gclose owes, gz_law G gwrite gclose owes ->
  forall bsz fuel k header rows arr z0, Permutation arr (numbered (csv_chunks header rows)) -> zfresh G z0 ->
  go _ (g_csv (zdev G) (z_write G gwrite) (z_close G gclose) bsz fuel k arr z0) = ExitOk ->
  zdelivered G (g_csv (zdev G) (z_write G gwrite) (z_close G gclose) bsz fuel k arr z0) (concat (csv_chunks header rows)).
Proof. exact (fun G gw gc ow L => gz_csv G gw gc ow (proj1 L) (proj2 L)). Qed.
(** the law is satisfiable (a store-and-forward layer that returns a device error only from Close) *)
Theorem C18_gz_law_satisfiable : gz_law bool lazy_gwrite lazy_gclose (fun g => g).
Proof. exact (conj lazy_GW lazy_GC). Qed.

(** OTHER DEVICE ERROR SHAPES ([sdev]): a write that stops short WITHOUT reporting an error (once, at any
    absolute offset), an error on zero-length writes, on top of the budget / failing Close: same
    conclusion for every shape, buffer size and loop fuel (OutOfFuel = the loop of bufio.Writer.Write never
    returns: not a successful exit) *)
Theorem C18_fault_is_fatal_fastx_shapes : forall bsz fuel k1 k2 l arr d0, Permutation arr (numbered l) -> sfresh d0 ->
  go sdev (g_fastx sdev sdev_write sdev_close bsz fuel k1 k2 arr d0) = ExitOk ->
  sdelivered (g_fastx sdev sdev_write sdev_close bsz fuel k1 k2 arr d0) (concat l).
Proof. exact sdev_fastx. Qed.
Theorem C18_fault_is_fatal_json_shapes : forall bsz fuel k l arr d0, Permutation arr (numbered l) -> sfresh d0 ->
  go sdev (g_json sdev sdev_write sdev_close bsz fuel k arr d0) = ExitOk ->
  sdelivered (g_json sdev sdev_write sdev_close bsz fuel k arr d0) (json_expected l).
Proof. exact sdev_json. Qed.
Theorem C18_fault_is_fatal_csv_shapes : forall bsz fuel k header rows arr d0,
  Permutation arr (numbered (csv_chunks header rows)) -> sfresh d0 ->
  go sdev (g_csv sdev sdev_write sdev_close bsz fuel k arr d0) = ExitOk ->
  sdelivered (g_csv sdev sdev_write sdev_close bsz fuel k arr d0) (concat (csv_chunks header rows)).
Proof. exact sdev_csv. Qed.

(** what the shapes do (4096-byte buffer): a short write without error while bufio FLUSHES is turned
    into io.ErrShortWrite, hence a fatal exit; the same short write on the DIRECT path (chunk larger than
    the empty buffer) is simply retried: exit ok with every byte; zero-length writes never reach the
    device, so a device failing them changes nothing; the lazy compressor on a device that fails after 3
    bytes exits fatally, on a healthy device successfully *)
Example C18_round2_nonvacuous :
  let run l d := g_fastx sdev sdev_write sdev_close go_bufsize 16 true true (numbered l) d in
  let dv cut zero := mksdev (mkdev None true [] 0) cut zero 0 in
  go _ (run [[49; 10]%N; big 65] (dv (Some 1) false)) = ExitFatal /\
  go _ (run [big 65] (dv (Some 100) false)) = ExitOk /\ length (got (sd (gd _ (run [big 65] (dv (Some 100) false))))) = N.to_nat 4200 /\
  go _ (run [[49; 10]%N; []; [50]%N] (dv None true)) = ExitOk /\ zero_seen (gd _ (run [[49; 10]%N; []; [50]%N] (dv None true))) = 0 /\
  let zrun k := g_fastx (zdev bool) (z_write bool lazy_gwrite) (z_close bool lazy_gclose) go_bufsize 4 true true
                  (numbered [[49; 10]%N; [50; 51; 10]%N]) (false, mkfdev (mkdev k true [] 0) false, []) in
  go _ (zrun (Some 3)) = ExitFatal /\ go _ (zrun None) = ExitOk /\ zfresh bool (false, mkfdev (mkdev None true [] 0) false, []).
Proof. vm_compute. repeat split; reflexivity. Qed.

(** hypotheses are satisfiable and the conclusion is not vacuous: a healthy device gives ExitOk with all
    bytes; a device failing after 4 bytes gives ExitFatal (non-identity arrival, 4096-byte buffer) *)
Example C18_nonvacuous :
  let l := [[49; 10]%N; []; [50; 51; 10]%N] in
  let arr := [(2, [50; 51; 10]%N); (0, [49; 10]%N); (1, [])] in
  Permutation arr (numbered l) /\
  wo (fastx_writer go_bufsize fixed arr (mkdev None true [] 0)) = ExitOk /\
  got (wd (fastx_writer go_bufsize fixed arr (mkdev None true [] 0))) = [49; 10; 50; 51; 10]%N /\
  wo (fastx_writer go_bufsize fixed arr (mkdev (Some 4) true [] 0)) = ExitFatal /\
  wo (json_writer go_bufsize fixed arr (mkdev None false [] 0)) = ExitFatal.
Proof.
  cbv zeta. split; [|vm_compute; auto].
  change (numbered [[49; 10]%N; []; [50; 51; 10]%N]) with [(0, [49; 10]%N); (1, @nil N); (2, [50; 51; 10]%N)].
  apply Permutation_sym. eapply perm_trans; [apply perm_skip; apply perm_swap|]. eapply perm_trans; [apply perm_swap|].
  apply perm_skip. apply Permutation_refl.
Qed.

Print Assumptions C18_fault_is_fatal_fastx.
Print Assumptions C18_fault_is_fatal_json.
Print Assumptions C18_fault_is_fatal_csv.
Print Assumptions C18_fault_offset_is_fatal_fastx.
Print Assumptions C18_fault_offset_is_fatal_json.
Print Assumptions C18_fault_offset_is_fatal_csv.
Print Assumptions C18_close_failure_is_fatal_fastx.
Print Assumptions C18_close_failure_is_fatal_json.
Print Assumptions C18_close_failure_is_fatal_csv.
Print Assumptions C18_never_out_of_fuel.
Print Assumptions C18_json_robust.
Print Assumptions C18_bufio_write.
Print Assumptions C18_bufio_error_sticky.
Print Assumptions C18_orig_refuted_small_output.
Print Assumptions C18_flush_error_dropped_refuted.
Print Assumptions C18_orig_refuted_drained_chunk.
Print Assumptions C18_orig_refuted_json.
Print Assumptions C18_orig_refuted_csv_close.
Print Assumptions C18_fastx_robust.
Print Assumptions C18_csv_robust.
Print Assumptions C18_fault_is_fatal_fastx_gz.
Print Assumptions C18_fault_is_fatal_json_gz.
Print Assumptions C18_fault_is_fatal_csv_gz.
Print Assumptions C18_gz_law_satisfiable.
Print Assumptions C18_fault_is_fatal_fastx_shapes.
Print Assumptions C18_fault_is_fatal_json_shapes.
Print Assumptions C18_fault_is_fatal_csv_shapes.
