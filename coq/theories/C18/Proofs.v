(** C18 — proofs. *)
From Coq Require Import List Arith NArith Bool Lia Permutation.
From OBI.Common Require Import Reseq.
From OBI.C18 Require Import Model.
Import ListNotations.

(** ---- the loop = resequencer + fold (as in C04) *)
Section Sim.
Variable S : Type.
Variable e : nat -> S -> chunk -> S.
Lemma foldi_snoc l : forall k acc a, foldi e k (l ++ [a]) acc = e (k + length l) (foldi e k l acc) a.
Proof.
  induction l as [|c l IH]; intros k acc a; simpl.
  - now rewrite Nat.add_0_r.
  - rewrite IH. f_equal. lia.
Qed.
Variable s0 : S.
Definition R (s : st chunk) (w : wst S) : Prop :=
  wnext w = next s /\ wpend w = pend s /\ length (out s) = next s /\ wacc w = foldi e 0 (out s) s0.
Lemma drain_sim fuel : forall s w, R s w -> R (drain fuel s) (wdrain e fuel w).
Proof.
  induction fuel as [|f IH]; intros s w HR; [exact HR|].
  destruct HR as (Hn & Hp & Hl & Ha). simpl. rewrite Hn, Hp.
  destruct (lookup (next s) (pend s)) as [a|] eqn:L.
  - apply IH. unfold R; simpl. repeat split; try reflexivity.
    + rewrite app_length; simpl; lia.
    + rewrite foldi_snoc, <- Ha. simpl. now rewrite Hl.
  - unfold R; auto.
Qed.
Lemma step_sim s w oa : R s w -> R (step s oa) (wstep e e w oa).
Proof.
  intros HR. pose proof HR as (Hn & Hp & Hl & Ha). destruct oa as [o a]. unfold step, wstep. rewrite Hn, Hp.
  destruct (Nat.eqb o (next s)).
  - apply drain_sim. unfold R; simpl. repeat split; try reflexivity.
    + rewrite app_length; simpl; lia.
    + rewrite foldi_snoc, <- Ha. simpl. now rewrite Hl.
  - unfold R; simpl. auto.
Qed.
Lemma run_sim arr : forall s w, R s w -> R (fold_left step arr s) (fold_left (wstep e e) arr w).
Proof. induction arr as [|x arr IH]; intros s w HR; [exact HR|]. simpl. apply IH. now apply step_sim. Qed.
Theorem wrun_any_permutation (l : list chunk) (arr : list (nat * chunk)) :
  Permutation arr (numbered l) -> wrun e e arr s0 = foldi e 0 l s0.
Proof.
  intros P. destruct (reseq_any_permutation chunk l arr P) as (Ho & _ & _).
  assert (R0 : R init (mkw 0 [] s0)) by (unfold R; simpl; auto).
  pose proof (run_sim arr _ _ R0) as (_ & _ & _ & Ha).
  unfold wrun. rewrite Ha. unfold run in Ho. now rewrite Ho.
Qed.
End Sim.

(** ---- device *)
Lemma dev_write_spec d p d' n e : dev_write d p = (d', n, e) ->
  closes d' = closes d /\ close_ok d' = close_ok d /\ (e = false -> n = length p /\ got d' = got d ++ p).
Proof.
  unfold dev_write. destruct (budget d) as [r|].
  - destruct (length p <=? r); intros H; injection H as <- <- <-; simpl; repeat split; auto; discriminate.
  - intros H; injection H as <- <- <-; simpl; auto.
Qed.

Section Buf.
Variable bsz : nat.

(** ---- bufio *)
Lemma bw_flush_spec b d b' d' e : bw_flush b d = (b', d', e) ->
  closes d' = closes d /\ close_ok d' = close_ok d /\ berr b' = (berr b || e) /\ (berr b = true -> e = true) /\
  (e = false -> bbuf b' = [] /\ got d' = got d ++ bbuf b).
Proof.
  unfold bw_flush. destruct (berr b) eqn:E.
  - intros H; injection H as <- <- <-. rewrite E. repeat split; auto; discriminate.
  - destruct (bbuf b) as [|x r] eqn:B.
    + intros H; injection H as <- <- <-. rewrite E. repeat split; auto; try discriminate. now rewrite app_nil_r.
    + destruct (dev_write d (x :: r)) as [[d1 n] e1] eqn:W.
      destruct (dev_write_spec _ _ _ _ _ W) as (C1 & C2 & C3).
      destruct (e1 || (n <? length (x :: r))) eqn:X; intros H; injection H as <- <- <-; simpl;
        repeat split; auto; try discriminate.
      apply orb_false_iff in X. destruct X as [-> _]. now destruct (C3 eq_refl).
Qed.

Lemma bw_write_sticky fuel b d p : berr b = true -> bw_write bsz fuel b d p = (b, d, Err).
Proof. intros E. destruct fuel; simpl; rewrite E, andb_false_r; reflexivity. Qed.

(* whatever Write returns: the device is not closed; Ok => everything is buffered or delivered and no
   error is pending; Err => the error is pending (sticky) *)
Lemma bw_write_spec fuel : forall b d p b' d' r, berr b = false -> bw_write bsz fuel b d p = (b', d', r) ->
  closes d' = closes d /\ close_ok d' = close_ok d /\
  (r = Ok -> berr b' = false /\ got d' ++ bbuf b' = got d ++ bbuf b ++ p) /\
  (r = Err -> berr b' = true).
Proof.
  induction fuel as [|f IH]; intros b d p b' d' r E; simpl; rewrite E; simpl.
  - destruct (bsz - length (bbuf b) <? length p); simpl; intros H; injection H as <- <- <-;
      repeat split; auto; discriminate.
  - destruct (bsz - length (bbuf b) <? length p) eqn:T; simpl.
    2:{ intros H; injection H as <- <- <-; repeat split; auto; discriminate. }
    destruct (bbuf b) as [|x rr] eqn:B.
    + destruct (dev_write d p) as [[d1 n] e1] eqn:W.
      destruct (dev_write_spec _ _ _ _ _ W) as (C1 & C2 & C3). destruct e1.
      * rewrite bw_write_sticky by reflexivity. intros H; injection H as <- <- <-.
        repeat split; auto; discriminate.
      * destruct (C3 eq_refl) as [-> G]. rewrite skipn_all. intros H.
        destruct (IH (mkbw [] false) _ _ _ _ _ eq_refl H) as (I1 & I2 & I3 & I4).
        split; [congruence|]. split; [congruence|]. split; [|exact I4].
        intros Hr. destruct (I3 Hr) as [X1 X]. split; [exact X1|]. rewrite X, G. simpl. now rewrite app_nil_r.
    + destruct (bw_flush (mkbw ((x :: rr) ++ firstn (bsz - length (x :: rr)) p) false) d) as [[b1 d1] e1] eqn:F.
      destruct (bw_flush_spec _ _ _ _ _ F) as (C1 & C2 & C3 & _ & C5). simpl in C3.
      destruct e1.
      * rewrite bw_write_sticky by exact C3. intros H; injection H as <- <- <-.
        repeat split; auto; discriminate.
      * destruct (C5 eq_refl) as [B1 G]. simpl in G. intros H.
        destruct (IH _ _ _ _ _ _ C3 H) as (I1 & I2 & I3 & I4).
        split; [congruence|]. split; [congruence|]. split; [|exact I4].
        intros Hr. destruct (I3 Hr) as [X1 X]. split; [exact X1|]. rewrite X, B1, G. simpl.
        rewrite <- !app_assoc. simpl. rewrite <- app_assoc. now rewrite firstn_skipn.
Qed.

(** ---- the process: invariant "if still running: not closed, and unless an error is pending every
    byte written so far is in the device or in the buffer" *)
Variable cok : bool.   (* whether Close of the device will succeed *)
Definition Inv (s : ws) (w : list N) : Prop :=
  wo s = ExitOk -> (closes (wd s) = 0 /\ close_ok (wd s) = cok) /\ (berr (wb s) = false -> got (wd s) ++ bbuf (wb s) = w).

Lemma do_write_running chk s p : wo (do_write bsz chk s p) = ExitOk -> wo s = ExitOk.
Proof. unfold do_write. destruct (wo s) eqn:E; auto; intros; congruence. Qed.

Lemma do_write_inv chk s w p : Inv s w -> Inv (do_write bsz chk s p) (w ++ p).
Proof.
  intros HI. unfold Inv. intros Hrun. pose proof (do_write_running _ _ _ Hrun) as Hs.
  destruct (HI Hs) as [[Hc Hk] Hb]. revert Hrun. unfold do_write. rewrite Hs. unfold wfile_write.
  destruct (bw_write bsz write_fuel (wb s) (wd s) p) as [[b' d'] r] eqn:W. simpl.
  destruct (berr (wb s)) eqn:E.
  - rewrite bw_write_sticky in W by exact E. injection W as <- <- <-. intros _. split; [exact (conj Hc Hk)|].
    intros X; congruence.
  - destruct (bw_write_spec _ _ _ _ _ _ _ E W) as (C1 & C2 & C3 & C4). intros Hr.
    split; [split; congruence|]. intros E'. destruct r.
    + destruct (C3 eq_refl) as [_ X]. rewrite X, app_assoc, (Hb eq_refl). reflexivity.
    + rewrite (C4 eq_refl) in E'. discriminate.
    + discriminate.
Qed.

Lemma do_close_spec chk s w : Inv s w -> chk = true -> wo (do_close true chk s) = ExitOk ->
  got (wd (do_close true chk s)) = w /\ closes (wd (do_close true chk s)) = 1 /\ cok = true.
Proof.
  intros HI -> . unfold do_close. destruct (wo s) eqn:Hs; try (intros; congruence).
  destruct (HI Hs) as [[Hc Hk] Hb]. unfold wfile_close.
  destruct (bw_flush (wb s) (wd s)) as [[b1 d1] ef] eqn:F.
  destruct (bw_flush_spec _ _ _ _ _ F) as (C1 & C2 & C3 & C4 & C5). simpl.
  destruct ef; simpl; [discriminate|].
  destruct (close_ok d1) eqn:K; simpl; [|discriminate]. intros _.
  destruct (C5 eq_refl) as [_ G]. rewrite G. split; [|split; [lia|congruence]].
  apply Hb. destruct (berr (wb s)); [now specialize (C4 eq_refl)|reflexivity].
Qed.

Lemma start_inv d0 : fresh d0 -> close_ok d0 = cok -> Inv (start d0) [].
Proof. intros [G C] K. unfold Inv, start; simpl. intros _. split; [exact (conj C K)|]. intros _. now rewrite G. Qed.

(** ---- FASTA / FASTQ *)
Lemma foldi_write_inv (chk : nat -> bool) l : forall k s w, Inv s w ->
  Inv (foldi (fun i s ch => do_write bsz (chk i) s ch) k l s) (w ++ concat l).
Proof.
  induction l as [|c l IH]; intros k s w HI; simpl.
  - now rewrite app_nil_r.
  - rewrite app_assoc. apply IH. now apply do_write_inv.
Qed.

(* both paths checked: direct from the loop theorem *)
Lemma fastx_fixed_spec c l arr d0 : drain_chk c = true -> flush_chk c = true ->
  Permutation arr (numbered l) -> fresh d0 -> close_ok d0 = cok ->
  wo (fastx_writer bsz c arr d0) = ExitOk ->
  got (wd (fastx_writer bsz c arr d0)) = concat l /\ closes (wd (fastx_writer bsz c arr d0)) = 1 /\ cok = true.
Proof.
  intros Hd Hf P Hfr Hk. unfold fastx_writer. rewrite Hd, Hf.
  rewrite (wrun_any_permutation _ (fun _ s ch => do_write bsz true s ch) (start d0) l arr P).
  apply do_close_spec; [|reflexivity].
  apply (foldi_write_inv (fun _ => true) l 0 (start d0) []). now apply start_inv.
Qed.

(** ---- JSON *)
Definition seps (xs : list chunk) : list N := concat (map (fun y => json_sep ++ y) xs).
Lemma foldi_jemit_wrote chk l : forall k s w, Inv s w ->
  exists s', foldi (jemit bsz chk) k l (s, true) = (s', true) /\ Inv s' (w ++ seps (filter nonempty l)).
Proof.
  induction l as [|c l IH]; intros k s w HI; simpl.
  - exists s. split; [reflexivity|]. unfold seps; simpl. now rewrite app_nil_r.
  - destruct c as [|x c]; simpl; [apply IH; exact HI|].
    destruct (IH (S k) (do_write bsz chk (do_write bsz chk s json_sep) (x :: c)) ((w ++ json_sep) ++ x :: c)) as (s' & E & I).
    { apply do_write_inv. now apply do_write_inv. }
    exists s'. split; [exact E|]. unfold seps in *; simpl. rewrite <- !app_assoc in *. simpl in *. exact I.
Qed.
Lemma foldi_jemit_first chk l : forall k s w, Inv s w ->
  Inv (fst (foldi (jemit bsz chk) k l (s, false))) (w ++ join json_sep (filter nonempty l)).
Proof.
  induction l as [|c l IH]; intros k s w HI; simpl.
  - now rewrite app_nil_r.
  - destruct c as [|x c]; simpl; [apply IH; exact HI|].
    destruct (foldi_jemit_wrote chk l (S k) (do_write bsz chk s (x :: c)) (w ++ x :: c)) as (s' & E & I).
    { now apply do_write_inv. }
    rewrite E. simpl. unfold seps in I. rewrite <- !app_assoc in *. exact I.
Qed.

Lemma json_fixed_spec c l arr d0 : jc_close_chk c = true -> flush_chk c = true ->
  Permutation arr (numbered l) -> fresh d0 -> close_ok d0 = cok ->
  wo (json_writer bsz c arr d0) = ExitOk ->
  got (wd (json_writer bsz c arr d0)) = json_expected l /\ closes (wd (json_writer bsz c arr d0)) = 1 /\ cok = true.
Proof.
  intros Hc Hf P Hfr Hk. unfold json_writer. rewrite Hc, Hf.
  rewrite (wrun_any_permutation _ (jemit bsz (jc_write_chk c)) _ l arr P).
  apply do_close_spec; [|reflexivity].
  unfold json_expected. rewrite app_assoc. apply do_write_inv.
  apply foldi_jemit_first. apply (do_write_inv _ _ [] json_open). now apply start_inv.
Qed.

(** ---- CSV *)
Lemma csv_fixed_spec c header l arr d0 : jc_close_chk c = true -> flush_chk c = true ->
  Permutation arr (numbered (csv_chunks header l)) -> fresh d0 -> close_ok d0 = cok ->
  wo (csv_writer bsz c arr d0) = ExitOk ->
  got (wd (csv_writer bsz c arr d0)) = concat (csv_chunks header l) /\ closes (wd (csv_writer bsz c arr d0)) = 1 /\ cok = true.
Proof.
  intros Hc Hf P Hfr Hk. unfold csv_writer. rewrite Hc, Hf.
  rewrite (wrun_any_permutation _ (fun _ s ch => do_write bsz (jc_write_chk c) s ch) (start d0) _ arr P).
  apply do_close_spec; [|reflexivity].
  apply (foldi_write_inv (fun _ => jc_write_chk c) _ 0 (start d0) []). now apply start_inv.
Qed.
End Buf.

(** ---- final form: exit ok => every expected byte is in the device, it was closed once, and that Close succeeded *)
Definition delivered (s : ws) (expected : list N) (d0 : dev) : Prop :=
  got (wd s) = expected /\ closes (wd s) = 1 /\ close_ok d0 = true.

Lemma fastx_fault_is_fatal bsz l arr d0 : Permutation arr (numbered l) -> fresh d0 ->
  wo (fastx_writer bsz fixed arr d0) = ExitOk -> delivered (fastx_writer bsz fixed arr d0) (concat l) d0.
Proof. intros P F H. exact (fastx_fixed_spec bsz (close_ok d0) fixed l arr d0 eq_refl eq_refl P F eq_refl H). Qed.
Lemma json_fault_is_fatal bsz l arr d0 : Permutation arr (numbered l) -> fresh d0 ->
  wo (json_writer bsz fixed arr d0) = ExitOk -> delivered (json_writer bsz fixed arr d0) (json_expected l) d0.
Proof. intros P F H. exact (json_fixed_spec bsz (close_ok d0) fixed l arr d0 eq_refl eq_refl P F eq_refl H). Qed.
Lemma csv_fault_is_fatal bsz header rows arr d0 : Permutation arr (numbered (csv_chunks header rows)) -> fresh d0 ->
  wo (csv_writer bsz fixed arr d0) = ExitOk ->
  delivered (csv_writer bsz fixed arr d0) (concat (csv_chunks header rows)) d0.
Proof. intros P F H. exact (csv_fixed_spec bsz (close_ok d0) fixed header rows arr d0 eq_refl eq_refl P F eq_refl H). Qed.
(* JSON / CSV: checking Close (and Wfile returning the flush error) is enough, because the error of bufio is sticky *)
Lemma json_robust bsz c l arr d0 : jc_close_chk c = true -> flush_chk c = true ->
  Permutation arr (numbered l) -> fresh d0 ->
  wo (json_writer bsz c arr d0) = ExitOk -> delivered (json_writer bsz c arr d0) (json_expected l) d0.
Proof. intros A B P F H. exact (json_fixed_spec bsz (close_ok d0) c l arr d0 A B P F eq_refl H). Qed.

(** a fault at any offset k < length expected => fatal (contrapositive, stated on the device) *)
Lemma got_bounded_by_budget d p d' n e k : dev_write d p = (d', n, e) ->
  budget d = Some k -> exists k', budget d' = Some k' /\ length (got d') + k' <= length (got d) + k.
Proof.
  unfold dev_write. intros H B. rewrite B in H. destruct (length p <=? k) eqn:L; injection H as <- <- <-; simpl.
  - apply Nat.leb_le in L. eexists; split; [reflexivity|]. rewrite app_length. lia.
  - eexists; split; [reflexivity|]. rewrite app_length, firstn_length. lia.
Qed.

(** ---- the unchanged code (cfg = orig) violates the statement: three mechanisms *)
Definition big (x : N) : chunk := repeat x (N.to_nat 4200).
Lemma orig_refuted_small_output :
  exists l d0, fresh d0 /\ wo (fastx_writer go_bufsize orig (numbered l) d0) = ExitOk /\
               got (wd (fastx_writer go_bufsize orig (numbered l) d0)) <> concat l.
Proof.
  exists [[49; 50; 51]%N], (mkdev (Some 1) true [] 0). split; [split; reflexivity|]. split; vm_compute; [reflexivity|discriminate].
Qed.
Lemma flush_fix_needed :
  exists l d0, fresh d0 /\ wo (fastx_writer go_bufsize (mkcfg true true true false) (numbered l) d0) = ExitOk /\
               got (wd (fastx_writer go_bufsize (mkcfg true true true false) (numbered l) d0)) <> concat l.
Proof.
  exists [[49; 50; 51]%N], (mkdev (Some 1) true [] 0). split; [split; reflexivity|]. split; vm_compute; [reflexivity|discriminate].
Qed.
Lemma orig_refuted_drained_chunk :
  let l := [big 65; big 67] in let arr := [(1, big 67); (0, big 65)] in
  let d0 := mkdev (Some (N.to_nat 6000)) true [] 0 in
  Permutation arr (numbered l) /\ wo (fastx_writer go_bufsize orig arr d0) = ExitOk /\
  length (got (wd (fastx_writer go_bufsize orig arr d0))) = N.to_nat 6000 /\ length (concat l) = N.to_nat 8400.
Proof. cbv zeta. split; [apply perm_swap|]. vm_compute. auto. Qed.
Lemma orig_refuted_json :
  exists l d0, fresh d0 /\ wo (json_writer go_bufsize orig (numbered l) d0) = ExitOk /\
               got (wd (json_writer go_bufsize orig (numbered l) d0)) <> json_expected l.
Proof.
  exists [[49]%N; [50]%N], (mkdev (Some 3) true [] 0). split; [split; reflexivity|]. split; vm_compute; [reflexivity|discriminate].
Qed.
Lemma orig_refuted_csv_close :
  exists l d0, fresh d0 /\ close_ok d0 = false /\ wo (csv_writer go_bufsize orig (numbered l) d0) = ExitOk.
Proof. exists [[49; 10]%N], (mkdev None false [] 0). split; [split; reflexivity|]. split; reflexivity. Qed.

(** ================= fuel is always sufficient; explicit fault offsets; failing Close *)

(** ---- any property of the accumulator preserved by both emit actions is preserved by the loop,
    for every arrival history *)
Section Closure.
Variable S : Type.
Variables e1 e2 : nat -> S -> chunk -> S.
Variable P : S -> Prop.
Hypothesis P1 : forall k s c, P s -> P (e1 k s c).
Hypothesis P2 : forall k s c, P s -> P (e2 k s c).
Lemma wdrain_closed fuel : forall w, P (wacc w) -> P (wacc (wdrain e2 fuel w)).
Proof.
  induction fuel as [|f IH]; intros w H; simpl; [exact H|].
  destruct (lookup (wnext w) (wpend w)); [apply IH; simpl; now apply P2|exact H].
Qed.
Lemma wstep_closed w oa : P (wacc w) -> P (wacc (wstep e1 e2 w oa)).
Proof.
  intros H. destruct oa as [o a]. unfold wstep. destruct (Nat.eqb o (wnext w)); [|exact H].
  apply wdrain_closed. simpl. now apply P1.
Qed.
Lemma wrun_closed arr s0 : P s0 -> P (wrun e1 e2 arr s0).
Proof.
  intros H. unfold wrun. assert (G : forall w, P (wacc w) -> P (wacc (fold_left (wstep e1 e2) arr w))).
  { induction arr as [|x arr IH]; intros w Hw; simpl; [exact Hw|]. apply IH. now apply wstep_closed. }
  apply G. exact H.
Qed.
End Closure.

Section Buf.
Variable bsz : nat.

(** ---- the fuel of bufio's Write loop (2 iterations) is always enough *)
Lemma bw_write_empty_buffer_no_fuel fuel b d p b' d' r : bbuf b = [] ->
  bw_write bsz (S fuel) b d p = (b', d', r) -> r <> Fuel.
Proof.
  intros B. simpl. rewrite B.
  destruct ((bsz - length (@nil N) <? length p) && negb (berr b)) eqn:T.
  - destruct (dev_write d p) as [[d1 n] e] eqn:W. destruct (dev_write_spec _ _ _ _ _ W) as (_ & _ & C3).
    destruct e.
    + rewrite bw_write_sticky by reflexivity. intros H; injection H as <- <- <-. discriminate.
    + destruct (C3 eq_refl) as [-> _]. rewrite skipn_all.
      destruct fuel; simpl; intros H; injection H as <- <- <-; discriminate.
  - destruct (berr b); intros H; injection H as <- <- <-; discriminate.
Qed.

Lemma bw_write_S f b d p : bw_write bsz (S f) b d p =
  if (bsz - length (bbuf b) <? length p) && negb (berr b) then
    match bbuf b with
    | [] => let '(d', n, e) := dev_write d p in bw_write bsz f (mkbw [] e) d' (skipn n p)
    | _ :: _ =>
      let n := bsz - length (bbuf b) in
      let '(b', d', _) := bw_flush (mkbw (bbuf b ++ firstn n p) false) d in
      bw_write bsz f b' d' (skipn n p)
    end
  else if berr b then (b, d, Err)
  else (mkbw (bbuf b ++ p) false, d, Ok).
Proof. reflexivity. Qed.

Lemma bw_write_no_fuel b d p b' d' r : bw_write bsz write_fuel b d p = (b', d', r) -> r <> Fuel.
Proof.
  destruct (bbuf b) as [|x rr] eqn:B; [now apply bw_write_empty_buffer_no_fuel|].
  unfold write_fuel. rewrite bw_write_S. rewrite B. cbv zeta.
  destruct ((bsz - length (x :: rr) <? length p) && negb (berr b)) eqn:T.
  - destruct (bw_flush (mkbw ((x :: rr) ++ firstn (bsz - length (x :: rr)) p) false) d) as [[b1 d1] e1] eqn:F.
    destruct (bw_flush_spec _ _ _ _ _ F) as (_ & _ & C3 & _ & C5). simpl in C3. destruct e1.
    + rewrite bw_write_sticky by exact C3. intros H; injection H as <- <- <-. discriminate.
    + destruct (C5 eq_refl) as [B1 _]. now apply bw_write_empty_buffer_no_fuel.
  - destruct (berr b); intros H; injection H as <- <- <-; discriminate.
Qed.

Definition fueled (s : ws) : Prop := wo s <> OutOfFuel.
Lemma do_write_fueled chk s p : fueled s -> fueled (do_write bsz chk s p).
Proof.
  unfold fueled, do_write. intros H. destruct (wo s) eqn:E; try (rewrite E; exact H).
  unfold wfile_write. destruct (bw_write bsz write_fuel (wb s) (wd s) p) as [[b' d'] r] eqn:W. simpl.
  pose proof (bw_write_no_fuel _ _ _ _ _ _ W). destruct r; try congruence; destruct chk; discriminate.
Qed.
Lemma do_close_fueled f chk s : fueled s -> fueled (do_close f chk s).
Proof.
  unfold fueled, do_close. intros H. destruct (wo s) eqn:E; try (rewrite E; exact H).
  destruct (wfile_close f (wb s) (wd s)) as [[b' d'] e]. simpl. destruct (e && chk); discriminate.
Qed.

Lemma fastx_fueled c arr d0 : wo (fastx_writer bsz c arr d0) <> OutOfFuel.
Proof.
  unfold fastx_writer. apply do_close_fueled. apply wrun_closed.
  - intros; now apply do_write_fueled. - intros; now apply do_write_fueled. - unfold fueled, start; simpl; discriminate.
Qed.
Lemma csv_fueled c arr d0 : wo (csv_writer bsz c arr d0) <> OutOfFuel.
Proof.
  unfold csv_writer. apply do_close_fueled. apply wrun_closed.
  - intros; now apply do_write_fueled. - intros; now apply do_write_fueled. - unfold fueled, start; simpl; discriminate.
Qed.
Lemma jemit_fueled chk k s c : fueled (fst s) -> fueled (fst (jemit bsz chk k s c)).
Proof.
  destruct s as [w wrote]. simpl. intros H. destruct (is_nil c); simpl; [exact H|].
  apply do_write_fueled. destruct wrote; [now apply do_write_fueled|exact H].
Qed.
Lemma json_fueled c arr d0 : wo (json_writer bsz c arr d0) <> OutOfFuel.
Proof.
  unfold json_writer. apply do_close_fueled. apply do_write_fueled.
  apply (wrun_closed _ _ _ (fun s => fueled (fst s))).
  - intros; now apply jemit_fueled. - intros; now apply jemit_fueled.
  - simpl. apply do_write_fueled. unfold fueled, start; simpl; discriminate.
Qed.

(** ---- a device that accepts k bytes never holds more than k bytes *)
Variable k : nat.
Definition capped (d : dev) : Prop := exists r, budget d = Some r /\ length (got d) + r <= k.
Lemma dev_write_capped d p d' n e : dev_write d p = (d', n, e) -> capped d -> capped d'.
Proof.
  unfold dev_write. intros H (r & B & L). rewrite B in H.
  destruct (length p <=? r) eqn:T; injection H as <- <- <-; eexists; simpl; (split; [reflexivity|]).
  - apply Nat.leb_le in T. rewrite app_length. lia.
  - rewrite app_length, firstn_length. lia.
Qed.
Lemma bw_flush_capped b d b' d' e : bw_flush b d = (b', d', e) -> capped d -> capped d'.
Proof.
  unfold bw_flush. destruct (berr b); [intros H; injection H as <- <- <-; auto|].
  destruct (bbuf b) as [|x r]; [intros H; injection H as <- <- <-; auto|].
  destruct (dev_write d (x :: r)) as [[d1 n] e1] eqn:W. intros H C.
  pose proof (dev_write_capped _ _ _ _ _ W C). destruct (e1 || (n <? length (x :: r))); injection H as <- <- <-; assumption.
Qed.
Lemma bw_write_capped fuel : forall b d p b' d' r, bw_write bsz fuel b d p = (b', d', r) -> capped d -> capped d'.
Proof.
  induction fuel as [|f IH]; intros b d p b' d' r; simpl.
  - destruct ((bsz - length (bbuf b) <? length p) && negb (berr b)); [|destruct (berr b)];
      intros H; injection H as <- <- <-; auto.
  - destruct ((bsz - length (bbuf b) <? length p) && negb (berr b)).
    2:{ destruct (berr b); intros H; injection H as <- <- <-; auto. }
    destruct (bbuf b) as [|x rr].
    + destruct (dev_write d p) as [[d1 n] e] eqn:W. intros H C. eapply IH; [exact H|]. eapply dev_write_capped; eassumption.
    + destruct (bw_flush _ d) as [[b1 d1] e1] eqn:F. intros H C. eapply IH; [exact H|]. eapply bw_flush_capped; eassumption.
Qed.
Definition wcapped (s : ws) : Prop := capped (wd s).
Lemma do_write_capped chk s p : wcapped s -> wcapped (do_write bsz chk s p).
Proof.
  unfold wcapped, do_write. intros H. destruct (wo s); try exact H. unfold wfile_write.
  destruct (bw_write bsz write_fuel (wb s) (wd s) p) as [[b' d'] r] eqn:W. simpl. eapply bw_write_capped; eassumption.
Qed.
Lemma do_close_got_le f chk s : wcapped s -> length (got (wd (do_close f chk s))) <= k.
Proof.
  unfold wcapped, do_close. intros H.
  assert (G : forall d, capped d -> length (got d) <= k) by (intros d (r & _ & L); lia).
  destruct (wo s); try (apply G; exact H). unfold wfile_close.
  destruct (bw_flush (wb s) (wd s)) as [[b1 d1] ef] eqn:F. simpl.
  apply (G d1). eapply bw_flush_capped; eassumption.
Qed.
Lemma start_capped d0 : fresh d0 -> budget d0 = Some k -> wcapped (start d0).
Proof. intros [G _] B. unfold wcapped, capped, start; simpl. exists k. split; [exact B|]. rewrite G. simpl. lia. Qed.

Lemma fastx_got_le c arr d0 : fresh d0 -> budget d0 = Some k -> length (got (wd (fastx_writer bsz c arr d0))) <= k.
Proof.
  intros F B. unfold fastx_writer. apply do_close_got_le. apply wrun_closed.
  - intros; now apply do_write_capped. - intros; now apply do_write_capped. - now apply start_capped.
Qed.
Lemma csv_got_le c arr d0 : fresh d0 -> budget d0 = Some k -> length (got (wd (csv_writer bsz c arr d0))) <= k.
Proof.
  intros F B. unfold csv_writer. apply do_close_got_le. apply wrun_closed.
  - intros; now apply do_write_capped. - intros; now apply do_write_capped. - now apply start_capped.
Qed.
Lemma jemit_capped chk i s c : wcapped (fst s) -> wcapped (fst (jemit bsz chk i s c)).
Proof.
  destruct s as [w wrote]. simpl. intros H. destruct (is_nil c); simpl; [exact H|].
  apply do_write_capped. destruct wrote; [now apply do_write_capped|exact H].
Qed.
Lemma json_got_le c arr d0 : fresh d0 -> budget d0 = Some k -> length (got (wd (json_writer bsz c arr d0))) <= k.
Proof.
  intros F B. unfold json_writer. apply do_close_got_le. apply do_write_capped.
  apply (wrun_closed _ _ _ (fun s => wcapped (fst s))).
  - intros; now apply jemit_capped. - intros; now apply jemit_capped.
  - simpl. apply do_write_capped. now apply start_capped.
Qed.
End Buf.

(** ---- hence: a device failing after k bytes, k smaller than the result => fatal exit *)
Lemma fastx_fault_offset bsz l arr d0 k : Permutation arr (numbered l) -> fresh d0 ->
  budget d0 = Some k -> k < length (concat l) -> wo (fastx_writer bsz fixed arr d0) = ExitFatal.
Proof.
  intros P F B L. pose proof (fastx_got_le bsz k fixed arr d0 F B) as G.
  pose proof (fastx_fueled bsz fixed arr d0) as NF.
  destruct (wo (fastx_writer bsz fixed arr d0)) eqn:E; [|reflexivity|congruence].
  destruct (fastx_fault_is_fatal bsz l arr d0 P F E) as (X & _). rewrite X in G. lia.
Qed.
Lemma json_fault_offset bsz l arr d0 k : Permutation arr (numbered l) -> fresh d0 ->
  budget d0 = Some k -> k < length (json_expected l) -> wo (json_writer bsz fixed arr d0) = ExitFatal.
Proof.
  intros P F B L. pose proof (json_got_le bsz k fixed arr d0 F B) as G.
  pose proof (json_fueled bsz fixed arr d0) as NF.
  destruct (wo (json_writer bsz fixed arr d0)) eqn:E; [|reflexivity|congruence].
  destruct (json_fault_is_fatal bsz l arr d0 P F E) as (X & _). rewrite X in G. lia.
Qed.
Lemma csv_fault_offset bsz header rows arr d0 k : Permutation arr (numbered (csv_chunks header rows)) -> fresh d0 ->
  budget d0 = Some k -> k < length (concat (csv_chunks header rows)) -> wo (csv_writer bsz fixed arr d0) = ExitFatal.
Proof.
  intros P F B L. pose proof (csv_got_le bsz k fixed arr d0 F B) as G.
  pose proof (csv_fueled bsz fixed arr d0) as NF.
  destruct (wo (csv_writer bsz fixed arr d0)) eqn:E; [|reflexivity|congruence].
  destruct (csv_fault_is_fatal bsz header rows arr d0 P F E) as (X & _). rewrite X in G. lia.
Qed.
(* a failing Close => fatal exit *)
Lemma fastx_close_failure bsz l arr d0 : Permutation arr (numbered l) -> fresh d0 ->
  close_ok d0 = false -> wo (fastx_writer bsz fixed arr d0) = ExitFatal.
Proof.
  intros P F B. pose proof (fastx_fueled bsz fixed arr d0) as NF.
  destruct (wo (fastx_writer bsz fixed arr d0)) eqn:E; [|reflexivity|congruence].
  destruct (fastx_fault_is_fatal bsz l arr d0 P F E) as (_ & _ & X). congruence.
Qed.
Lemma json_close_failure bsz l arr d0 : Permutation arr (numbered l) -> fresh d0 ->
  close_ok d0 = false -> wo (json_writer bsz fixed arr d0) = ExitFatal.
Proof.
  intros P F B. pose proof (json_fueled bsz fixed arr d0) as NF.
  destruct (wo (json_writer bsz fixed arr d0)) eqn:E; [|reflexivity|congruence].
  destruct (json_fault_is_fatal bsz l arr d0 P F E) as (_ & _ & X). congruence.
Qed.
Lemma csv_close_failure bsz header rows arr d0 : Permutation arr (numbered (csv_chunks header rows)) -> fresh d0 ->
  close_ok d0 = false -> wo (csv_writer bsz fixed arr d0) = ExitFatal.
Proof.
  intros P F B. pose proof (csv_fueled bsz fixed arr d0) as NF.
  destruct (wo (csv_writer bsz fixed arr d0)) eqn:E; [|reflexivity|congruence].
  destruct (csv_fault_is_fatal bsz header rows arr d0 P F E) as (_ & _ & X). congruence.
Qed.
