(** C18 — executable model of the output path of the sequence writers under write / flush / close
    failures:   writer goroutine  ->  Wfile (bufio.Writer, 4096 bytes)  ->  device.

    * device: accepts [budget] more bytes (None: unlimited); a write that does not fit is short and
      returns an error, every later non-empty write fails; Close may fail.
    * bufio.Writer.Write / Flush transcribed from the Go standard library (sticky error).
    * Wfile.Write / Wfile.Close of pkg/obiutils/gzipfile.go (uncompressed stream).
    * the re-sequencing loop of WriteSeqFileChunk / WriteJSON / WriteCSV (same shape as in C04), the
      emit actions being writes whose error is checked (log.Fatalf => the process exits at once: the
      state is frozen) or discarded.
    [cfg] says which errors the code looks at; [orig] is the unchanged code, [fixed] the repaired one. *)
From Coq Require Import List Arith NArith Bool.
From OBI.Common Require Import Reseq.
Import ListNotations.

Definition chunk := list N.

(** ---- device *)
Record dev := mkdev { budget : option nat; close_ok : bool; got : list N; closes : nat }.

Definition dev_write (d : dev) (p : list N) : dev * nat * bool :=
  match budget d with
  | None => (mkdev None (close_ok d) (got d ++ p) (closes d), length p, false)
  | Some r =>
    if length p <=? r
    then (mkdev (Some (r - length p)) (close_ok d) (got d ++ p) (closes d), length p, false)
    else (mkdev (Some 0) (close_ok d) (got d ++ firstn r p) (closes d), r, true)
  end.
Definition dev_close (d : dev) : dev * bool :=
  (mkdev (budget d) (close_ok d) (got d) (S (closes d)), negb (close_ok d)).

(** ---- bufio.Writer *)
Record bw := mkbw { bbuf : list N; berr : bool }.   (* buffered bytes; b.err != nil *)
Inductive res := Ok | Err | Fuel.

Section Buf.
Variable bsz : nat.   (* len(b.buf); 4096 in the code *)

(* func (b *Writer) Flush() error *)
Definition bw_flush (b : bw) (d : dev) : bw * dev * bool :=
  if berr b then (b, d, true)
  else match bbuf b with
       | [] => (b, d, false)
       | _ :: _ =>
         let '(d', n, e) := dev_write d (bbuf b) in
         if e || (n <? length (bbuf b))                (* short write without error => ErrShortWrite *)
         then (mkbw (skipn n (bbuf b)) true, d', true)
         else (mkbw [] false, d', false)
       end.

(* func (b *Writer) Write(p []byte) (nn int, err error):
     for len(p) > b.Available() && b.err == nil {
        if b.Buffered() == 0 { n, b.err = b.wr.Write(p) } else { n = copy(b.buf[b.n:], p); b.n += n; b.Flush() }
        p = p[n:] }
     if b.err != nil { return nn, b.err }
     copy(b.buf[b.n:], p) ...                                                          *)
Fixpoint bw_write (fuel : nat) (b : bw) (d : dev) (p : list N) : bw * dev * res :=
  if (bsz - length (bbuf b) <? length p) && negb (berr b) then
    match fuel with
    | O => (b, d, Fuel)
    | S f =>
      match bbuf b with
      | [] => let '(d', n, e) := dev_write d p in bw_write f (mkbw [] e) d' (skipn n p)
      | _ :: _ =>
        let n := bsz - length (bbuf b) in
        let '(b', d', _) := bw_flush (mkbw (bbuf b ++ firstn n p) false) d in
        bw_write f b' d' (skipn n p)
      end
    end
  else if berr b then (b, d, Err)
  else (mkbw (bbuf b ++ p) false, d, Ok).
(* the loop runs at most twice (fill+flush, then one direct write) *)
Definition write_fuel : nat := 2.

(** ---- Wfile (pkg/obiutils/gzipfile.go), uncompressed, close = true *)
Definition wfile_write (b : bw) (d : dev) (p : list N) : bw * dev * res := bw_write write_fuel b d p.
(* Close: Flush, then Close of the device; [flush_chk] = the error of Flush is returned
   (the unchanged code drops it) *)
Definition wfile_close (flush_chk : bool) (b : bw) (d : dev) : bw * dev * bool :=
  let '(b', d', ef) := bw_flush b d in
  let '(d'', ec) := dev_close d' in
  (b', d'', (flush_chk && ef) || ec).

(** ---- the process *)
Inductive outcome := ExitOk | ExitFatal | OutOfFuel.
Record ws := mkws { wb : bw; wd : dev; wo : outcome }.   (* wo = ExitOk: still running *)

(* file.Write(p), error checked with log.Fatalf ([chk]) or discarded *)
Definition do_write (chk : bool) (s : ws) (p : list N) : ws :=
  match wo s with
  | ExitOk =>
    let '(b', d', r) := wfile_write (wb s) (wd s) p in
    mkws b' d' (match r with Ok => ExitOk | Err => if chk then ExitFatal else ExitOk | Fuel => OutOfFuel end)
  | _ => s
  end.
Definition do_close (flush_chk chk : bool) (s : ws) : ws :=
  match wo s with
  | ExitOk =>
    let '(b', d', e) := wfile_close flush_chk (wb s) (wd s) in
    mkws b' d' (if e && chk then ExitFatal else ExitOk)
  | _ => s
  end.

(** ---- the re-sequencing loop (as in C04) *)
Section Loop.
Variable S : Type.
Variables e1 e2 : nat -> S -> chunk -> S.
Record wst := mkw { wnext : nat; wpend : list (nat * chunk); wacc : S }.
Fixpoint wdrain (fuel : nat) (s : wst) : wst :=
  match fuel with
  | O => s
  | Datatypes.S f =>
    match lookup (wnext s) (wpend s) with
    | Some a => wdrain f (mkw (Datatypes.S (wnext s)) (remove (wnext s) (wpend s)) (e2 (wnext s) (wacc s) a))
    | None => s
    end
  end.
Definition wstep (s : wst) (oa : nat * chunk) : wst :=
  let '(o, a) := oa in
  if Nat.eqb o (wnext s)
  then wdrain (length (wpend s)) (mkw (Datatypes.S (wnext s)) (wpend s) (e1 (wnext s) (wacc s) a))
  else mkw (wnext s) ((o, a) :: wpend s) (wacc s).
Definition wrun (arr : list (nat * chunk)) (s0 : S) : S := wacc (fold_left wstep arr (mkw 0 [] s0)).
End Loop.

(** which errors the code looks at *)
Record cfg := mkcfg {
  drain_chk : bool;      (* WriteSeqFileChunk: Write of a chunk drained from the buffer *)
  jc_write_chk : bool;   (* WriteJSON / WriteCSV: every Write *)
  jc_close_chk : bool;   (* WriteJSON / WriteCSV: Close *)
  flush_chk : bool       (* Wfile.Close: error of Flush *)
}.
Definition orig : cfg := mkcfg false false false false.
Definition fixed : cfg := mkcfg true true true true.

Definition start (d0 : dev) : ws := mkws (mkbw [] false) d0 ExitOk.

(* WriteFasta / WriteFastq: WriteSeqFileChunk(Wfile, true) *)
Definition fastx_writer (c : cfg) (arr : list (nat * chunk)) (d0 : dev) : ws :=
  do_close (flush_chk c) true
    (wrun ws (fun _ s ch => do_write true s ch) (fun _ s ch => do_write (drain_chk c) s ch) arr (start d0)).

Definition json_open : list N := [91; 10]%N.
Definition json_sep : list N := [44; 10]%N.
Definition json_close : list N := [10; 93; 10]%N.
Definition is_nil {A} (l : list A) : bool := match l with [] => true | _ => false end.
Definition jemit (chk : bool) (_ : nat) (s : ws * bool) (ch : chunk) : ws * bool :=
  let '(w, wrote) := s in
  if is_nil ch then (w, wrote) else (do_write chk (if wrote then do_write chk w json_sep else w) ch, true).
Definition json_writer (c : cfg) (arr : list (nat * chunk)) (d0 : dev) : ws :=
  let k := jc_write_chk c in
  do_close (flush_chk c) (jc_close_chk c)
    (do_write k (fst (wrun (ws * bool) (jemit k) (jemit k) arr (do_write k (start d0) json_open, false))) json_close).

Definition csv_chunks (header : chunk) (rows : list chunk) : list chunk :=
  match rows with [] => [] | r :: rs => (header ++ r) :: rs end.
Definition csv_writer (c : cfg) (arr : list (nat * chunk)) (d0 : dev) : ws :=
  let k := jc_write_chk c in
  do_close (flush_chk c) (jc_close_chk c)
    (wrun ws (fun _ s ch => do_write k s ch) (fun _ s ch => do_write k s ch) arr (start d0)).
End Buf.

Arguments mkw {S}. Arguments wnext {S}. Arguments wpend {S}. Arguments wacc {S}.
Arguments wdrain {S}. Arguments wstep {S}. Arguments wrun {S}.

Definition go_bufsize : nat := 4096.   (* bufio.NewWriter: defaultBufSize *)

(** ---- specification side *)
Fixpoint foldi {S : Type} (e : nat -> S -> chunk -> S) (k : nat) (l : list chunk) (acc : S) : S :=
  match l with [] => acc | c :: l' => foldi e (Datatypes.S k) l' (e k acc c) end.
Definition join (sep : list N) (xs : list chunk) : list N :=
  match xs with [] => [] | x :: r => x ++ concat (map (fun y => sep ++ y) r) end.
Definition nonempty (c : chunk) : bool := negb (is_nil c).
Definition json_expected (l : list chunk) : list N := json_open ++ join json_sep (filter nonempty l) ++ json_close.
Definition fresh (d : dev) : Prop := got d = [] /\ closes d = 0.

(** ---- correspondence *)
(* compact rendering of long periodic byte runs in generated case files: the first n bytes of pat pat pat ... *)
Fixpoint cyc_aux (n : nat) (pat cur : list N) : list N :=
  match n with
  | O => []
  | S n' => match cur with
            | x :: r => x :: cyc_aux n' pat r
            | [] => match pat with [] => [] | x :: r => x :: cyc_aux n' pat r end
            end
  end.
Definition cyc (n : N) (pat : list N) : list N := cyc_aux (N.to_nat n) pat pat.
Inductive wkind := KFasta | KFastq | KJson | KCsv.
Record ccase := mkc { ck : wkind; cheader : chunk; cchunks : list chunk; carrival : list nat;
                      cfail : option nat; ccloseok : bool;
                      cfatal : bool; cgot : list N; ccloses : nat }.
Definition arrivals (l : list chunk) (order : list nat) : list (nat * chunk) := map (fun i => (i, nth i l [])) order.
Definition run_case (g : cfg) (c : ccase) : ws :=
  let d0 := mkdev (cfail c) (ccloseok c) [] 0 in
  match ck c with
  | KFasta | KFastq => fastx_writer go_bufsize g (arrivals (cchunks c) (carrival c)) d0
  | KJson => json_writer go_bufsize g (arrivals (cchunks c) (carrival c)) d0
  | KCsv => csv_writer go_bufsize g (arrivals (csv_chunks (cheader c) (cchunks c)) (carrival c)) d0
  end.
Fixpoint nlist_eqb (l l' : list N) : bool :=
  match l, l' with
  | [], [] => true | x :: l, y :: l' => N.eqb x y && nlist_eqb l l' | _, _ => false end.
(* observables of the property: the exit class; for a successful exit, what the device received and
   how often it was closed (the moment at which a fatal exit happens is not compared) *)
Definition agrees (s : ws) (c : ccase) : bool :=
  match wo s with
  | ExitOk => negb (cfatal c) && nlist_eqb (got (wd s)) (cgot c) && Nat.eqb (closes (wd s)) (ccloses c)
  | ExitFatal => cfatal c
  | OutOfFuel => false
  end.
Fixpoint mismatches_from (g : cfg) (i : nat) (l : list ccase) : list nat :=
  match l with
  | [] => []
  | c :: l' =>
    let rest := mismatches_from g (Datatypes.S i) l' in
    if agrees (run_case g c) c then rest else i :: rest
  end.
Definition mismatches := mismatches_from fixed 0.
Definition mismatches_orig := mismatches_from orig 0.
