(** C13 (round 2) — executable definitions added to Model.v: the distance > 1 pass with the kernel as a
    parameter, the whole data set (split by sample, annotateOBIClean).  Definitions only. *)
From Coq Require Import List NArith ZArith Bool Arith.
Import ListNotations.
From OBI.C13 Require Import Model.
Open Scope Z_scope.

(** * extendSimilarityGraph with the kernel obialign.FastLCSScore as a parameter:
      [kern step son father = (lcs, alilength)], (-1, -1) when the pair is outside the band *)
Fixpoint ext_row_from_k (kern : Z -> list N -> list N -> Z * Z) (step : Z) (son : node) (j : nat) (rest : list node) : list edge :=
  match rest with
  | [] => []
  | f :: t =>
      let tl := ext_row_from_k kern step son (S j) t in
      match d1or0 (n_seq son) (n_seq f) with
      | Far => let (lcs, lali) := kern step (n_seq son) (n_seq f) in
               let d := lali - lcs in
               if (0 <=? lcs) && (d <=? step) && (0 <? step) then mke j gap gap (-1) d :: tl else tl
      | _ => tl
      end
  end.

Fixpoint ext_rows_from_k kern (step : Z) (i : nat) (l : list node) (rows1 : list (list edge)) : list (list edge) :=
  match l, rows1 with
  | s :: t, r1 :: rt =>
      (match r1 with [] => ext_row_from_k kern step s (S i) t | _ :: _ => [] end) :: ext_rows_from_k kern step (S i) t rt
  | _, _ => []
  end.
Definition ext_rows_k kern (step : Z) (l : list node) (rows1 : list (list edge)) : list (list edge) :=
  ext_rows_from_k kern step 0 l rows1.

(* the kernel of the model: the plain dynamic program of Model.v *)
Definition model_kernel (step : Z) (a b : list N) : Z * Z :=
  let (l, m) := last (lcs_table a b) (0, 0) in
  (l, Z.of_nat (length a) + Z.of_nat (length b) - l - m).

(** * The whole data set: buildSamples (split by sample), per-sample graphs, and what CLIOBIClean / Mutation /
      annotateOBIClean write on every sequence (union over the samples in which it occurs) *)
Record dseq := mkd { d_id : Z; d_seq : list N; d_counts : list (Z * Z) }.   (* merged_sample: sample number -> count *)

Fixpoint lookupZ (k : Z) (l : list (Z * Z)) : option Z :=
  match l with
  | [] => None
  | (k', v) :: t => if k' =? k then Some v else lookupZ k t
  end.

(* buildSamples: sample s receives, in data set order, the sequences that have a count for s *)
Definition sample_nodes (ds : list dseq) (s : Z) : list node :=
  flat_map (fun d => match lookupZ s (d_counts d) with Some c => [mkn (d_id d) (d_seq d) c] | None => [] end) ds.

Definition find_node (id : Z) (g : list onode) : option onode := find (fun o => o_id o =? id) g.
Definition dummy_onode : onode := mko (-1) 0 0 0 SS [].

(* what is written on a sequence for one sample: obiclean_status[s], obiclean_weight[s], the keys added to obiclean_mutation *)
Record sannot := mksa { sa_sample : Z; sa_status : status; sa_weight : Z; sa_fathers : list Z }.

Definition annot_in_sample (ds : list dseq) (step p q : Z) (id s : Z) : option sannot :=
  match model_graph_d (sample_nodes ds s) step p q with
  | Some g => match find_node id g with
              | Some o => Some (mksa s (o_status o) (o_weight o) (map (fun e => o_id (nth (e_father e) g dummy_onode)) (o_edges o)))
              | None => None
              end
  | None => None
  end.

Definition annots (ds : list dseq) (step p q : Z) (d : dseq) : list sannot :=
  flat_map (fun sc => match annot_in_sample ds step p q (d_id d) (fst sc) with Some a => [a] | None => [] end) (d_counts d).

(* annotateOBIClean: counts the statuses of the obiclean_status map *)
Definition flags_of (l : list sannot) : flags := annotate (map sa_status l).
Definition mutation_keys (l : list sannot) : list Z := flat_map sa_fathers l.

(** correspondence at the level of the data set: observed annotations of every sequence, in data set order;
    per sample entries in the order of d_counts; the mutation keys as a set *)
Record oannot := mkoa { oa_entries : list (Z * status * Z); oa_keys : list Z; oa_flags : flags }.
Record dcase := mkdcase { dc_ds : list dseq; dc_step : Z; dc_p : Z; dc_q : Z; dc_obs : list oannot }.

Definition entry_eqb (a : sannot) (b : Z * status * Z) : bool :=
  let '(s, st, w) := b in (sa_sample a =? s) && status_eqb (sa_status a) st && (sa_weight a =? w).
Fixpoint entries_eqb (m : list sannot) (o : list (Z * status * Z)) : bool :=
  match m, o with
  | [], [] => true
  | a :: m', b :: o' => entry_eqb a b && entries_eqb m' o'
  | _, _ => false
  end.
Definition subsetZ (a b : list Z) : bool := forallb (fun x => existsb (Z.eqb x) b) a.

Definition dseq_ok (ds : list dseq) (step p q : Z) (d : dseq) (o : oannot) : bool :=
  let m := annots ds step p q d in
  entries_eqb m (oa_entries o) && subsetZ (mutation_keys m) (oa_keys o) && subsetZ (oa_keys o) (mutation_keys m)
  && flags_eqb (flags_of m) (oa_flags o).

Fixpoint all2 {A B} (f : A -> B -> bool) (a : list A) (b : list B) : bool :=
  match a, b with
  | [], [] => true
  | x :: a', y :: b' => f x y && all2 f a' b'
  | _, _ => false
  end.
Definition dcase_ok (c : dcase) : bool := all2 (dseq_ok (dc_ds c) (dc_step c) (dc_p c) (dc_q c)) (dc_ds c) (dc_obs c).
Fixpoint mismatches_ds_from (i : nat) (l : list dcase) : list nat :=
  match l with
  | [] => []
  | c :: t => if dcase_ok c then mismatches_ds_from (S i) t else i :: mismatches_ds_from (S i) t
  end.
Definition mismatches_ds (l : list dcase) : list nat := mismatches_ds_from 0 l.

(** * obiiter.Load: the batches arrive in any order, each carrying its order number *)
(*  the batches, each carrying its order number, are sorted (sort.SliceStable) by order
    number and concatenated *)
Section LoadModel.
Context {A : Type}.
Fixpoint insert_batch (x : Z * list A) (l : list (Z * list A)) : list (Z * list A) :=
  match l with
  | [] => [x]
  | y :: t => if fst x <=? fst y then x :: l else y :: insert_batch x t
  end.
Definition sort_batches (arr : list (Z * list A)) : list (Z * list A) := fold_right insert_batch [] arr.
Definition load (arr : list (Z * list A)) : list A := concat (map snd (sort_batches arr)).
End LoadModel.

Record lcase := mklcase { l_arr : list (Z * list Z); l_obs : list Z }.
Fixpoint listZ_eqb (a b : list Z) : bool :=
  match a, b with
  | [], [] => true
  | x :: a', y :: b' => (x =? y) && listZ_eqb a' b'
  | _, _ => false
  end.
Fixpoint mismatches_load_from (i : nat) (l : list lcase) : list nat :=
  match l with
  | [] => []
  | c :: t => if listZ_eqb (load (l_arr c)) (l_obs c) then mismatches_load_from (S i) t else i :: mismatches_load_from (S i) t
  end.
Definition mismatches_load (l : list lcase) : list nat := mismatches_load_from 0 l.
