(** C13 (round 2) — the data set level: split by sample, union of the annotations over the samples. *)
From Coq Require Import List NArith ZArith Bool Arith Lia Sorting.Sorted Sorting.Permutation.
Import ListNotations.
From OBI.C13 Require Import Model Proofs Model2.
Open Scope Z_scope.

Lemma zip_out_ids : forall l ws ss rows i, map o_id (zip_out l ws ss rows i) = map n_id l.
Proof. induction l as [|x l IH]; intros ws ss rows i; cbn [zip_out map o_id]; [reflexivity|]. f_equal. apply IH. Qed.
Lemma zip_out_counts : forall l ws ss rows i, map o_count (zip_out l ws ss rows i) = map n_count l.
Proof. induction l as [|x l IH]; intros ws ss rows i; cbn [zip_out map o_count]; [reflexivity|]. f_equal. apply IH. Qed.

Lemma finish2_ids : forall l w rows sns p q, map o_id (finish2 l w rows sns p q) = map n_id l.
Proof.
  intros. unfold finish2. destruct (p <? q); [destruct (filter_rows p q w 0 rows sns)|]; apply zip_out_ids.
Qed.

(* the nodes of the graph of a sample are the nodes of the sample, sorted by count *)
Lemma graph_ids : forall nodes step p q g, model_graph_d nodes step p q = Some g -> map o_id g = map n_id (sort_nodes nodes).
Proof.
  intros nodes step p q g. unfold model_graph_d, finish_graph, finish_graph2.
  destruct (1 <? step); destruct (reweight _ _ _); intros H; inversion H; apply finish2_ids.
Qed.

Lemma find_node_some : forall id g, In id (map o_id g) -> exists o, find_node id g = Some o /\ o_id o = id /\ In o g.
Proof.
  intros id g. unfold find_node. induction g as [|x g IH]; cbn [map In find]; [intros []|].
  intros H. destruct (Z.eqb_spec (o_id x) id) as [E|E].
  - exists x. auto.
  - destruct H as [H|H]; [congruence|]. destruct (IH H) as (o & A & B & C). exists o. auto.
Qed.

Lemma lookupZ_in : forall s c l, In (s, c) l -> exists c', lookupZ s l = Some c'.
Proof.
  intros s c l. induction l as [|[k v] l IH]; cbn [In lookupZ]; [intros []|].
  intros [H|H]; destruct (Z.eqb_spec k s); eauto; inversion H; congruence.
Qed.

Lemma in_sample_nodes : forall ds d s c, In d ds -> In (s, c) (d_counts d) -> In (d_id d) (map n_id (sample_nodes ds s)).
Proof.
  intros ds d s c Hd Hs. destruct (lookupZ_in s c _ Hs) as (c' & L).
  apply in_map_iff. exists (mkn (d_id d) (d_seq d) c'). split; [reflexivity|].
  unfold sample_nodes. apply in_flat_map. exists d. split; [exact Hd|]. rewrite L. left. reflexivity.
Qed.

(* every sequence receives one entry per sample of its merged_sample map *)
Lemma annot_in_sample_defined : forall ds step p q d s c, In d ds -> In (s, c) (d_counts d) ->
  exists a, annot_in_sample ds step p q (d_id d) s = Some a /\ sa_sample a = s.
Proof.
  intros ds step p q d s c Hd Hs. unfold annot_in_sample.
  destruct (model_graph_d (sample_nodes ds s) step p q) as [g|] eqn:G; [|exfalso; eapply model_graph_total; exact G].
  pose proof (graph_ids _ _ _ _ _ G) as Ids.
  assert (I : In (d_id d) (map o_id g)).
  { rewrite Ids. eapply Permutation_in; [apply Permutation_map, Permutation_sym, sort_perm|]. eapply in_sample_nodes; eassumption. }
  destruct (find_node_some _ _ I) as (o & F & _). rewrite F. eexists. split; reflexivity.
Qed.

Lemma flat_map_single_length : forall (A B : Type) (f : A -> list B) l,
  (forall x, In x l -> exists y, f x = [y]) -> length (flat_map f l) = length l.
Proof.
  induction l as [|x l IH]; intros H; cbn [flat_map length]; [reflexivity|].
  destruct (H x (or_introl eq_refl)) as (y & E). rewrite E. cbn. f_equal. apply IH. intros z Hz. apply H. right; exact Hz.
Qed.

Theorem annots_cover_every_sample : forall ds step p q d, In d ds ->
  length (annots ds step p q d) = length (d_counts d) /\
  map sa_sample (annots ds step p q d) = map fst (d_counts d).
Proof.
  intros ds step p q d Hd. unfold annots.
  assert (G : forall l, (forall sc, In sc l -> In sc (d_counts d)) ->
     length (flat_map (fun sc => match annot_in_sample ds step p q (d_id d) (fst sc) with Some a => [a] | None => [] end) l) = length l /\
     map sa_sample (flat_map (fun sc => match annot_in_sample ds step p q (d_id d) (fst sc) with Some a => [a] | None => [] end) l) = map fst l).
  { induction l as [|[s c] l IH]; intros H; cbn [flat_map map length fst]; [auto|].
    destruct (annot_in_sample_defined ds step p q d s c Hd (H _ (or_introl eq_refl))) as (a & E & Es).
    rewrite E. cbn [app length map]. destruct IH as [I1 I2]; [intros; apply H; right; assumption|].
    rewrite I1, I2, Es. auto. }
  apply G. auto.
Qed.

(* an entry of the sequence is the status / weight / fathers of ITS node (the node carrying its id) in the graph
   of that sample, and nothing else is written *)
Theorem annots_per_sample : forall ds step p q d a,
  In a (annots ds step p q d) <->
  exists c, In (sa_sample a, c) (d_counts d) /\ annot_in_sample ds step p q (d_id d) (sa_sample a) = Some a.
Proof.
  intros ds step p q d a. unfold annots. rewrite in_flat_map. split.
  - intros ([s c] & H1 & H2). cbn [fst] in H2.
    destruct (annot_in_sample ds step p q (d_id d) s) as [a'|] eqn:E; [|destruct H2].
    destruct H2 as [H2|[]]. subst a'.
    assert (Es : sa_sample a = s).
    { unfold annot_in_sample in E. destruct (model_graph_d _ _ _ _); [|discriminate]. destruct (find_node _ _); [|discriminate].
      inversion E. reflexivity. }
    rewrite Es. exists c. auto.
  - intros (c & H1 & H2). exists (sa_sample a, c). split; [exact H1|]. cbn [fst]. rewrite H2. left. reflexivity.
Qed.

(* obiclean_head / obiclean_headcount / internalcount / singletoncount / samplecount of a sequence of the data set *)
Theorem dataset_flags_exact : forall ds step p q d, In d ds ->
  let l := annots ds step p q d in
  (f_head (flags_of l) = true <-> exists a, In a l /\ (sa_status a = SH \/ sa_status a = SS)) /\
  f_samplecount (flags_of l) = Z.of_nat (length (d_counts d)) /\
  f_headcount (flags_of l) = count_status SH (map sa_status l) /\
  f_internalcount (flags_of l) = count_status SI (map sa_status l) /\
  f_singletoncount (flags_of l) = count_status SS (map sa_status l) /\
  f_headcount (flags_of l) + f_internalcount (flags_of l) + f_singletoncount (flags_of l) = Z.of_nat (length (d_counts d)).
Proof.
  intros ds step p q d Hd l. destruct (annots_cover_every_sample ds step p q d Hd) as [Len _]. fold l in Len.
  destruct (annotate_exact (map sa_status l)) as (A & B & C & D). rewrite map_length, Len in C, D. unfold flags_of.
  split; [|split; [exact C|split; [reflexivity|split; [reflexivity|split; [reflexivity|exact D]]]]].
  rewrite A. split.
  - intros [H|H]; apply in_map_iff in H; destruct H as (a & E & I); exists a; auto.
  - intros (a & I & [E|E]); [left|right]; rewrite <- E; apply in_map; exact I.
Qed.

(* obiclean_mutation: the union over the samples of the fathers of the sequence's node *)
Theorem mutation_keys_union : forall ds step p q d f,
  In f (mutation_keys (annots ds step p q d)) <-> exists a, In a (annots ds step p q d) /\ In f (sa_fathers a).
Proof. intros. unfold mutation_keys. apply in_flat_map. Qed.

(** with distinct ids, the entry of a sequence for a sample is read from ITS OWN node: the node of the count-sorted
    sample that carries its id, its sequence and its count in that sample *)
Lemma sample_nodes_ids_incl : forall ds s id, In id (map n_id (sample_nodes ds s)) -> In id (map d_id ds).
Proof.
  intros ds s id H. apply in_map_iff in H. destruct H as (x & E & I). unfold sample_nodes in I. apply in_flat_map in I.
  destruct I as (d & Id & Ix). destruct (lookupZ s (d_counts d)); [|destruct Ix]. destruct Ix as [Ix|[]]. subst x. cbn in E. subst id.
  apply in_map. exact Id.
Qed.
Lemma sample_nodes_nodup : forall ds s, NoDup (map d_id ds) -> NoDup (map n_id (sample_nodes ds s)).
Proof.
  induction ds as [|d ds IH]; intros s H; [constructor|].
  cbn [map] in H. inversion H as [|? ? Hn Hd]; subst.
  change (sample_nodes (d :: ds) s) with ((match lookupZ s (d_counts d) with Some c => [mkn (d_id d) (d_seq d) c] | None => [] end) ++ sample_nodes ds s).
  destruct (lookupZ s (d_counts d)); cbn [app map n_id]; [|apply IH; exact Hd].
  constructor; [|apply IH; exact Hd]. intros I. apply Hn. eapply sample_nodes_ids_incl. exact I.
Qed.
Lemma find_unique : forall g k o, NoDup (map o_id g) -> nth_error g k = Some o -> find_node (o_id o) g = Some o.
Proof.
  unfold find_node. induction g as [|x g IH]; intros k o H E; [destruct k; discriminate|].
  cbn [map] in H. inversion H as [|? ? Hn Hd]; subst. destruct k as [|k]; cbn in E.
  - inversion E; subst. cbn [find]. rewrite Z.eqb_refl. reflexivity.
  - cbn [find]. destruct (Z.eqb_spec (o_id x) (o_id o)) as [Q|Q].
    + exfalso. apply Hn. rewrite Q. apply in_map. eapply nth_error_In. exact E.
    + eapply IH; eassumption.
Qed.
Lemma graph_counts : forall nodes step p q g, model_graph_d nodes step p q = Some g -> map o_count g = map n_count (sort_nodes nodes).
Proof.
  intros nodes step p q g. unfold model_graph_d, finish_graph, finish_graph2.
  destruct (1 <? step); destruct (reweight _ _ _); intros H; inversion H; unfold finish2;
    (destruct (p <? q); [destruct (filter_rows _ _ _ _ _ _)|]); apply zip_out_counts.
Qed.
Lemma zip_out_status : forall l ws ss rows i o, In o (zip_out l ws ss rows i) -> o_status o = status_of (o_edges o) (o_sons o).
Proof.
  induction l as [|x l IH]; intros ws ss rows i o H; cbn [zip_out] in H; [destruct H|].
  destruct H as [H|H]; [subst o; reflexivity|eapply IH; exact H].
Qed.
Lemma graph_status : forall nodes step p q g o, model_graph_d nodes step p q = Some g -> In o g ->
  o_status o = status_of (o_edges o) (o_sons o).
Proof.
  intros nodes step p q g o. unfold model_graph_d, finish_graph, finish_graph2.
  destruct (1 <? step); destruct (reweight _ _ _); intros H; inversion H; unfold finish2;
    (destruct (p <? q); [destruct (filter_rows _ _ _ _ _ _)|]); apply zip_out_status.
Qed.

Theorem annot_reads_own_node : forall ds step p q d s c,
  NoDup (map d_id ds) -> In d ds -> lookupZ s (d_counts d) = Some c ->
  exists g k o, model_graph_d (sample_nodes ds s) step p q = Some g /\
    nth_error (sort_nodes (sample_nodes ds s)) k = Some (mkn (d_id d) (d_seq d) c) /\
    nth_error g k = Some o /\ o_id o = d_id d /\ o_count o = c /\
    o_status o = status_of (o_edges o) (o_sons o) /\
    annot_in_sample ds step p q (d_id d) s =
      Some (mksa s (o_status o) (o_weight o) (map (fun e => o_id (nth (e_father e) g dummy_onode)) (o_edges o))).
Proof.
  intros ds step p q d s c Hnd Hd Hl.
  destruct (model_graph_d (sample_nodes ds s) step p q) as [g|] eqn:G; [|exfalso; eapply model_graph_total; exact G].
  assert (I : In (mkn (d_id d) (d_seq d) c) (sort_nodes (sample_nodes ds s))).
  { eapply Permutation_in; [apply Permutation_sym, sort_perm|]. unfold sample_nodes. apply in_flat_map. exists d.
    split; [exact Hd|]. rewrite Hl. left. reflexivity. }
  apply In_nth_error in I. destruct I as (k & K).
  pose proof (graph_ids _ _ _ _ _ G) as Ids. pose proof (graph_counts _ _ _ _ _ G) as Cs.
  assert (E1 : nth_error (map o_id g) k = Some (d_id d)) by (rewrite Ids, nth_error_map, K; reflexivity).
  assert (E2 : nth_error (map o_count g) k = Some c) by (rewrite Cs, nth_error_map, K; reflexivity).
  rewrite nth_error_map in E1, E2. destruct (nth_error g k) as [o|] eqn:O; [|discriminate].
  cbn in E1, E2. injection E1 as Eid. injection E2 as Ec.
  assert (ND : NoDup (map o_id g)).
  { rewrite Ids. eapply Permutation_NoDup; [apply Permutation_map, Permutation_sym, sort_perm|]. apply sample_nodes_nodup. exact Hnd. }
  pose proof (find_unique g k o ND O) as F. rewrite Eid in F.
  exists g, k, o. split; [reflexivity|]. split; [exact K|]. split; [exact O|]. split; [exact Eid|]. split; [exact Ec|].
  split; [eapply graph_status; [exact G|eapply nth_error_In; exact O]|].
  unfold annot_in_sample. rewrite G, F. reflexivity.
Qed.

(** * obiiter.Load (after the round 2 fix): stable sort of the arrived batches by order number, concatenation *)
Section LoadProofs.
Context {A : Type}.
Definition le_key (a b : Z * list A) : Prop := fst a <= fst b.

Lemma insert_batch_perm : forall (x : Z * list A) l, Permutation (insert_batch x l) (x :: l).
Proof.
  intros x l. induction l as [|y t IH]; cbn [insert_batch]; [apply Permutation_refl|].
  destruct (fst x <=? fst y); [apply Permutation_refl|].
  eapply Permutation_trans; [apply perm_skip, IH|apply perm_swap].
Qed.
Lemma sort_batches_perm : forall arr : list (Z * list A), Permutation (sort_batches arr) arr.
Proof.
  induction arr as [|x l IH]; cbn; [constructor|].
  eapply Permutation_trans; [apply insert_batch_perm|apply perm_skip, IH].
Qed.
Lemma insert_batch_sorted : forall (x : Z * list A) l, StronglySorted le_key l -> StronglySorted le_key (insert_batch x l).
Proof.
  intros x l. induction l as [|y t IH]; intros S; cbn [insert_batch].
  - constructor; constructor.
  - inversion S as [|? ? St Fy]; subst. destruct (Z.leb_spec (fst x) (fst y)) as [H|H].
    + constructor; [exact S|]. constructor; [exact H|]. rewrite Forall_forall in *. intros z Hz. specialize (Fy z Hz). unfold le_key in *. lia.
    + constructor; [apply IH; exact St|]. rewrite Forall_forall in *. intros z Hz.
      eapply Permutation_in in Hz; [|apply insert_batch_perm]. destruct Hz as [Hz|Hz]; [subst z; unfold le_key; lia|apply Fy; exact Hz].
Qed.
Lemma sort_batches_sorted : forall arr : list (Z * list A), StronglySorted le_key (sort_batches arr).
Proof. induction arr as [|x l IH]; cbn; [constructor|apply insert_batch_sorted, IH]. Qed.

Lemma key_inj : forall (l : list (Z * list A)) x y, NoDup (map fst l) -> In x l -> In y l -> fst x = fst y -> x = y.
Proof.
  induction l as [|z l IH]; intros x y H Hx Hy E; [destruct Hx|].
  cbn [map] in H. inversion H as [|? ? Hn Hd]; subst. destruct Hx as [Hx|Hx]; destruct Hy as [Hy|Hy]; subst.
  - reflexivity.
  - exfalso. apply Hn. rewrite E. apply in_map. exact Hy.
  - exfalso. apply Hn. rewrite <- E. apply in_map. exact Hx.
  - apply IH; assumption.
Qed.

Lemma sorted_perm_eq : forall l l' : list (Z * list A),
  StronglySorted le_key l -> StronglySorted le_key l' -> NoDup (map fst l) -> Permutation l l' -> l = l'.
Proof.
  induction l as [|x l IH]; intros l' S S' ND P.
  - apply Permutation_nil in P. subst. reflexivity.
  - destruct l' as [|y l']; [apply Permutation_sym, Permutation_nil in P; discriminate|].
    inversion S as [|? ? St Fx]; subst. inversion S' as [|? ? St' Fy]; subst. rewrite Forall_forall in Fx, Fy.
    assert (Exy : x = y).
    { assert (Ix : In x (y :: l')) by (eapply Permutation_in; [exact P|left; reflexivity]).
      assert (Iy : In y (x :: l)) by (eapply Permutation_in; [apply Permutation_sym; exact P|left; reflexivity]).
      destruct Ix as [Ix|Ix]; [auto|]. destruct Iy as [Iy|Iy]; [auto|].
      apply (key_inj (x :: l) x y ND); [left; reflexivity|right; exact Iy|].
      specialize (Fx y Iy). specialize (Fy x Ix). unfold le_key in *. lia. }
    subst y. f_equal. apply IH; [exact St|exact St'|cbn in ND; inversion ND; assumption|].
    eapply Permutation_cons_inv. exact P.
Qed.

(* whatever the order in which the batches arrive, the loaded data set is the same (order numbers distinct) *)
Theorem load_arrival_independent : forall arr arr' : list (Z * list A),
  NoDup (map fst arr) -> Permutation arr arr' -> load arr = load arr'.
Proof.
  intros arr arr' ND P. unfold load. f_equal. f_equal.
  apply sorted_perm_eq; [apply sort_batches_sorted|apply sort_batches_sorted| |].
  - eapply Permutation_NoDup; [apply Permutation_map, Permutation_sym, sort_batches_perm|exact ND].
  - eapply Permutation_trans; [apply sort_batches_perm|]. eapply Permutation_trans; [exact P|apply Permutation_sym, sort_batches_perm].
Qed.
(* ... and it is the concatenation of the batches in increasing order number *)
Theorem load_sorted : forall arr : list (Z * list A),
  StronglySorted le_key (sort_batches arr) /\ Permutation (sort_batches arr) arr.
Proof. intros arr. split; [apply sort_batches_sorted|apply sort_batches_perm]. Qed.
End LoadProofs.
