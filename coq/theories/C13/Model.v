(** C13 — executable model of the obiclean graph (pkg/obitools/obiclean/graph.go, obiclean.go).
    Definitions only (no proofs).  Bytes are [N]; counts, weights, son counters, positions are [Z]
    (the son counter can become negative in the defective runs); node indices are [nat]. *)
From Coq Require Import List NArith ZArith Bool Arith.
Import ListNotations.
Open Scope Z_scope.

(** * The one-difference kernel: transcription of obialign.D1Or0
    The Go code scans the common prefix, then the common suffix; the three outcomes are
    -1 (more than one difference), 0 (identical), 1 (one difference at [pos] = length of the
    longest common prefix, with the two characters, '-' marking the missing one). *)
Definition gap : N := 45%N.   (* '-' *)

Inductive d1res := Far | Same | One (pos : Z) (a1 a2 : N).

Fixpoint seq_eqb (a b : list N) : bool :=
  match a, b with
  | [], [] => true
  | x :: a', y :: b' => N.eqb x y && seq_eqb a' b'
  | _, _ => false
  end.

Fixpoint d1or0_at (pos : Z) (s1 s2 : list N) : d1res :=
  match s1, s2 with
  | [], [] => Same
  | [], y :: t2 => match t2 with [] => One pos gap y | _ :: _ => Far end
  | x :: t1, [] => match t1 with [] => One pos x gap | _ :: _ => Far end
  | x :: t1, y :: t2 =>
      if N.eqb x y then d1or0_at (pos + 1) t1 t2
      else if seq_eqb t1 t2 then One pos x y
      else if seq_eqb t1 (y :: t2) then One pos x gap
      else if seq_eqb (x :: t1) t2 then One pos gap y
      else Far
  end.

Definition d1or0 (s1 s2 : list N) : d1res := d1or0_at 0 s1 s2.

(** * Nodes, edges *)
Record node := mkn { n_id : Z; n_seq : list N; n_count : Z }.
(* father = position in the sorted sample slice; from = father's character, to = son's *)
Record edge := mke { e_father : nat; e_from : N; e_to : N; e_pos : Z; e_dist : Z }.

(** sort.SliceStable by increasing count *)
Fixpoint insert_node (x : node) (l : list node) : list node :=
  match l with
  | [] => [x]
  | y :: t => if n_count x <=? n_count y then x :: l else y :: insert_node x t
  end.
Definition sort_nodes (l : list node) : list node := fold_right insert_node [] l.

(** linePairs of buildSamplePairs: the row of son [i] against the nodes after it *)
Fixpoint row_from (son : node) (j : nat) (rest : list node) : list edge :=
  match rest with
  | [] => []
  | f :: t =>
      let tl := row_from son (S j) t in
      if n_count son <? n_count f then
        match d1or0 (n_seq son) (n_seq f) with
        | One pos a1 a2 => mke j a2 a1 pos 1 :: tl
        | _ => tl
        end
      else tl
  end.

Fixpoint all_rows_from (i : nat) (l : list node) : list (list edge) :=
  match l with
  | [] => []
  | s :: t => row_from s (S i) t :: all_rows_from (S i) t
  end.
Definition all_rows (l : list node) : list (list edge) := all_rows_from 0 l.

Definition row_of (rows : list (list edge)) (i : nat) : list edge := nth i rows [].

(** number of edges of [l] pointing to father [j] *)
Definition cnt (j : nat) (l : list edge) : Z :=
  Z.of_nat (length (filter (fun e => Nat.eqb (e_father e) j) l)).
Definition son_counts (n : nat) (rows : list (list edge)) : list Z :=
  map (fun j => cnt j (concat rows)) (seq 0 n).

(** * Distance > 1: extendSimilarityGraph.
    The kernel obialign.FastLCSScore (banded Needleman-Wunsch, property C09) is modelled by what it is
    documented to compute: the score of the longest common subsequence and the length of the shortest
    alignment achieving it (a plain dynamic program: maximise the matches, then the mismatch columns);
    d = alignment length - lcs = mismatches + gaps.  Plain a/c/g/t symbols (no IUPAC ambiguity). *)
Definition pmax (a b : Z * Z) : Z * Z :=
  if (fst a <? fst b) || ((fst a =? fst b) && (snd a <? snd b)) then b else a.

Fixpoint lcs_row (x : N) (b : list N) (prev : list (Z * Z)) (diag left : Z * Z) : list (Z * Z) :=
  match b, prev with
  | y :: b', up :: prev' =>
      let m := if N.eqb x y then 1 else 0 in
      let c := pmax (pmax (fst diag + m, snd diag + (1 - m)) up) left in
      c :: lcs_row x b' prev' up c
  | _, _ => []
  end.

Definition lcs_table (a b : list N) : list (Z * Z) :=
  fold_left (fun prev x => (0, 0) :: lcs_row x b (tl prev) (hd (0, 0) prev) (0, 0))
            a (map (fun _ => (0, 0)) (gap :: b)).

(* number of mismatch and gap columns of the shortest alignment realising the LCS *)
Definition lcs_d (a b : list N) : Z :=
  let (l, m) := last (lcs_table a b) (0, 0) in
  Z.of_nat (length a) + Z.of_nat (length b) - 2 * l - m.

(* linePairs of extendSimilarityGraph: no abundance test; only pairs that D1Or0 declares further than
   one difference apart; the edge carries the distance, no position, no characters *)
Fixpoint ext_row_from (step : Z) (son : node) (j : nat) (rest : list node) : list edge :=
  match rest with
  | [] => []
  | f :: t =>
      let tl := ext_row_from step son (S j) t in
      match d1or0 (n_seq son) (n_seq f) with
      | Far => let d := lcs_d (n_seq son) (n_seq f) in
               if (d <=? step) && (0 <? step) then mke j gap gap (-1) d :: tl else tl
      | _ => tl
      end
  end.

(* only the rows left without edge by the first pass are dispatched *)
Fixpoint ext_rows_from (step : Z) (i : nat) (l : list node) (rows1 : list (list edge)) : list (list edge) :=
  match l, rows1 with
  | s :: t, r1 :: rt =>
      (match r1 with [] => ext_row_from step s (S i) t | _ :: _ => [] end) :: ext_rows_from step (S i) t rt
  | _, _ => []
  end.
Definition ext_rows (step : Z) (l : list node) (rows1 : list (list edge)) : list (list edge) :=
  ext_rows_from step 0 l rows1.
Definition ext_queue (rows1 : list (list edge)) : list nat :=
  filter (fun i => match row_of rows1 i with [] => true | _ :: _ => false end) (seq 0 (length rows1)).

(** * The worker pool of buildSamplePairs as a labelled transition system.
    Shared state: the channel of row indices [queue], the per-row edge slices [edges] (row i is
    written only by the worker that received i) and the per-node counters [sons] (written by any
    worker: [father.SonCount++]).  [inc_kind] selects how the increment is performed. *)
Inductive inc_kind := Atomic | ReadThenWrite.

Inductive wstate :=
| Idle
| Working (row : nat) (todo : list edge)
| Loaded (row : nat) (todo : list edge) (father : nat) (seen : Z).

Record pstate := mkp {
  queue : list nat;
  ws : nat -> wstate;
  edges : nat -> list edge;
  sons : nat -> Z }.

Definition upd {A} (f : nat -> A) (i : nat) (v : A) : nat -> A :=
  fun j => if Nat.eqb j i then v else f j.

(** one step of worker [w] (< [nw]); [None] = worker not enabled *)
Definition pstep (k : inc_kind) (rows : list (list edge)) (nw : nat) (w : nat) (s : pstate) : option pstate :=
  if Nat.ltb w nw then
    match ws s w with
    | Idle =>
        match queue s with
        | [] => None
        | i :: q => Some (mkp q (upd (ws s) w (Working i (row_of rows i))) (edges s) (sons s))
        end
    | Working i [] => Some (mkp (queue s) (upd (ws s) w Idle) (edges s) (sons s))
    | Working i (e :: todo) =>
        let ed := upd (edges s) i (edges s i ++ [e]) in
        match k with
        | Atomic =>
            Some (mkp (queue s) (upd (ws s) w (Working i todo)) ed
                      (upd (sons s) (e_father e) (sons s (e_father e) + 1)))
        | ReadThenWrite =>
            Some (mkp (queue s) (upd (ws s) w (Loaded i todo (e_father e) (sons s (e_father e)))) ed (sons s))
        end
    | Loaded i todo f v =>
        Some (mkp (queue s) (upd (ws s) w (Working i todo)) (edges s) (upd (sons s) f (v + 1)))
    end
  else None.

(* initial state: channel content [q0], no edge written by this pass yet, counters [s0] *)
Definition pinit_gen (q0 : list nat) (s0 : nat -> Z) : pstate :=
  mkp q0 (fun _ => Idle) (fun _ => []) s0.
(* buildSamplePairs: all the rows, counters at 0 *)
Definition pinit (n : nat) : pstate := pinit_gen (seq 0 n) (fun _ => 0).

(** a schedule is the list of workers chosen by the scheduler; every choice must be enabled *)
Fixpoint prun (k : inc_kind) (rows : list (list edge)) (nw : nat) (sched : list nat) (s : pstate) : option pstate :=
  match sched with
  | [] => Some s
  | w :: t => match pstep k rows nw w s with Some s' => prun k rows nw t s' | None => None end
  end.

Definition read_edges (n : nat) (s : pstate) : list (list edge) := map (edges s) (seq 0 n).
Definition read_sons (n : nat) (s : pstate) : list Z := map (sons s) (seq 0 n).

(** * reweightSequences *)
Definition zth (l : list Z) (i : nat) : Z := nth i l 0.
Fixpoint set_nth (l : list Z) (i : nat) (v : Z) : list Z :=
  match l, i with
  | [], _ => []
  | _ :: t, O => v :: t
  | x :: t, S i' => x :: set_nth t i' v
  end.

(* math.Round (x >= 0) of w*c/swf *)
Definition round_div (num den : Z) : Z := (2 * num + den) / (2 * den).

Record rw := mkrw { r_weight : list Z; r_added : list Z }.

Definition rfunc (counts : list Z) (rows : list (list edge)) (i : nat) (st : rw) : rw :=
  let added0 := set_nth (r_added st) i 0 in
  let es := row_of rows i in
  let swf := fold_left (fun a e => a + zth counts (e_father e)) es 0 in
  let wi := zth (r_weight st) i in
  fold_left (fun (st : rw) e =>
               let f := e_father e in
               mkrw (set_nth (r_weight st) f (zth (r_weight st) f + round_div (wi * zth counts f) swf))
                    (set_nth (r_added st) f (zth (r_added st) f + 1)))
            es (mkrw (r_weight st) added0).

Definition pass_leaves (counts sons : list Z) (rows : list (list edge)) (n : nat) (st : rw) : rw :=
  fold_left (fun st i => if zth sons i =? 0 then rfunc counts rows i st else st) (seq 0 n) st.

Definition pass_inner (counts sons : list Z) (rows : list (list edge)) (n : nat) (st : rw) : rw * bool :=
  fold_left (fun (p : rw * bool) i =>
               let (st, done) := p in
               if (0 <? zth sons i) && (zth sons i =? zth (r_added st) i)
               then (rfunc counts rows i st, true) else (st, done))
            (seq 0 n) (st, false).

Fixpoint passes (fuel : nat) (counts sons : list Z) (rows : list (list edge)) (n : nat) (st : rw) : option rw :=
  match fuel with
  | O => None
  | S fuel' =>
      let (st', done) := pass_inner counts sons rows n st in
      if done then passes fuel' counts sons rows n st' else Some st'
  end.

(* None = out of fuel (the Go loop would not have terminated within n*n+2 passes) *)
Definition reweight (counts sons : list Z) (rows : list (list edge)) : option (list Z) :=
  let n := length counts in
  let st := pass_leaves counts sons rows n (mkrw counts (map (fun _ => 0) counts)) in
  match passes (n * n + 2) counts sons rows n st with
  | Some st' => Some (r_weight st')
  | None => None
  end.

(** * FilterGraphOnRatio with ratio = p/q : keep the edge iff w_son / w_father <= (p/q)^dist *)
Definition keep_edge (p q : Z) (weights : list Z) (i : nat) (e : edge) : bool :=
  zth weights i * q ^ e_dist e <=? zth weights (e_father e) * p ^ e_dist e.

Definition filter_row (p q : Z) (weights : list Z) (i : nat) (es : list edge) (sons : list Z) : list edge * list Z :=
  fold_left (fun (acc : list edge * list Z) e =>
               let (kept, sons) := acc in
               if keep_edge p q weights i e then (kept ++ [e], sons)
               else (kept, set_nth sons (e_father e) (zth sons (e_father e) - 1)))
            es ([], sons).

Fixpoint filter_rows (p q : Z) (weights : list Z) (i : nat) (rows : list (list edge)) (sons : list Z)
  : list (list edge) * list Z :=
  match rows with
  | [] => ([], sons)
  | es :: t =>
      let (kept, sons1) := filter_row p q weights i es sons in
      let (rest, sons2) := filter_rows p q weights (S i) t sons1 in
      (kept :: rest, sons2)
  end.

(** * ObicleanStatus *)
Inductive status := SI | SH | SS.
Definition status_of (es : list edge) (sons : Z) : status :=
  match es with
  | [] => if 0 <? sons then SH else SS
  | _ => SI
  end.

(** * The whole per-sample pipeline, from the edges and son counters left by the worker pool *)
Record onode := mko { o_id : Z; o_count : Z; o_weight : Z; o_sons : Z; o_status : status; o_edges : list edge }.

Fixpoint zip_out (l : list node) (ws : list Z) (ss : list Z) (rows : list (list edge)) (i : nat) : list onode :=
  match l with
  | [] => []
  | x :: t =>
      mko (n_id x) (n_count x) (zth ws i) (zth ss i) (status_of (row_of rows i) (zth ss i)) (row_of rows i)
      :: zip_out t ws ss rows (S i)
  end.

(* after the two passes: ratio filter p/q (applied iff p < q), statuses *)
Definition finish2 (l : list node) (wts : list Z) (rows : list (list edge)) (sns : list Z) (p q : Z) : list onode :=
  let (rows', sns') := if p <? q then filter_rows p q wts 0 rows sns else (rows, sns) in
  zip_out l wts sns' rows' 0.

Fixpoint merge_rows (r1 r2 : list (list edge)) : list (list edge) :=
  match r1, r2 with
  | a :: t1, b :: t2 => (a ++ b) :: merge_rows t1 t2
  | _, _ => r1
  end.

(* sorted nodes [l]; rows and son counters left by the pool of buildSamplePairs ([rows1], [sns1]: the
   weights are computed from these, before the extension); rows and counters left by the pool of
   extendSimilarityGraph ([rows2] = all the edges, [sns2]) *)
Definition finish_graph2 (l : list node) (rows1 : list (list edge)) (sns1 : list Z)
           (rows2 : list (list edge)) (sns2 : list Z) (p q : Z) : option (list onode) :=
  match reweight (map n_count l) sns1 rows1 with
  | None => None
  | Some wts => Some (finish2 l wts rows2 sns2 p q)
  end.

(* distance 1: no second pass *)
Definition finish_graph (l : list node) (rows : list (list edge)) (sns : list Z) (p q : Z) : option (list onode) :=
  finish_graph2 l rows sns rows sns p q.

(* the graph of a sample for --distance step, --ratio p/q: what any complete run of the two pools with
   atomic increments produces (C13_schedule_independent, C13_schedule_independent_any_pass) *)
Definition model_graph_d (nodes : list node) (step p q : Z) : option (list onode) :=
  let l := sort_nodes nodes in
  let n := length l in
  let rows1 := all_rows l in
  let sns1 := son_counts n rows1 in
  if 1 <? step then
    let ext := ext_rows step l rows1 in
    finish_graph2 l rows1 sns1 (merge_rows rows1 ext)
                  (map (fun j => zth sns1 j + cnt j (concat ext)) (seq 0 n)) p q
  else finish_graph l rows1 sns1 p q.

Definition model_graph (nodes : list node) (p q : Z) : option (list onode) := model_graph_d nodes 1 p q.

(** * Correspondence: compare with the observation of the real code.
    The mutation (from, to, pos) of an observed edge is compared through what it means: applying
    it to the father's sequence must give the son's sequence ([edit_ok]); which of several
    equivalent positions inside a homopolymer is reported is not part of the property. *)
Definition apply_edit (father : list N) (from to : N) (pos : Z) : option (list N) :=
  if pos <? 0 then None else
  let p := Z.to_nat pos in
  let pre := firstn p father in
  let suf := skipn p father in
  if Nat.ltb (length father) p then None else
  if N.eqb from gap then (if N.eqb to gap then None else Some (pre ++ to :: suf))
  else match suf with
       | c :: suf' => if N.eqb c from then
                        (if N.eqb to gap then Some (pre ++ suf') else
                         if N.eqb to from then None else Some (pre ++ to :: suf'))
                      else None
       | [] => None
       end.

Definition edit_ok (l : list node) (i : nat) (e : edge) : bool :=
  match nth_error l i, nth_error l (e_father e) with
  | Some s, Some f =>
      match apply_edit (n_seq f) (e_from e) (e_to e) (e_pos e) with
      | Some r => seq_eqb r (n_seq s)
      | None => false
      end
  | _, _ => false
  end.

Definition status_eqb (a b : status) : bool :=
  match a, b with SI, SI | SH, SH | SS, SS => true | _, _ => false end.

Fixpoint edges_agree (l : list node) (i : nat) (m o : list edge) : bool :=
  match m, o with
  | [], [] => true
  | a :: m', b :: o' =>
      Nat.eqb (e_father a) (e_father b) && (e_dist a =? e_dist b)
      && (if e_dist a =? 1 then edit_ok l i a && edit_ok l i b
          else N.eqb (e_from b) gap && N.eqb (e_to b) gap && (e_pos b =? -1))
      && edges_agree l i m' o'
  | _, _ => false
  end.

Fixpoint onodes_agree (l : list node) (i : nat) (m o : list onode) : bool :=
  match m, o with
  | [], [] => true
  | a :: m', b :: o' =>
      (o_id a =? o_id b) && (o_count a =? o_count b) && (o_weight a =? o_weight b) && (o_sons a =? o_sons b)
      && status_eqb (o_status a) (o_status b) && edges_agree l i (o_edges a) (o_edges b)
      && onodes_agree l (S i) m' o'
  | _, _ => false
  end.

Record case := mkcase { c_nodes : list node; c_step : Z; c_p : Z; c_q : Z; c_obs : list onode }.

Definition case_ok (c : case) : bool :=
  match model_graph_d (c_nodes c) (c_step c) (c_p c) (c_q c) with
  | Some g => onodes_agree (sort_nodes (c_nodes c)) 0 g (c_obs c)
  | None => false
  end.

Fixpoint mismatches_from (i : nat) (l : list case) : list nat :=
  match l with
  | [] => []
  | c :: t => if case_ok c then mismatches_from (S i) t else i :: mismatches_from (S i) t
  end.
Definition mismatches (l : list case) : list nat := mismatches_from 0 l.

(** * annotateOBIClean: per sequence, over the samples in which it occurs *)
Record flags := mkf { f_head : bool; f_headcount : Z; f_internalcount : Z; f_singletoncount : Z; f_samplecount : Z }.
Definition count_status (x : status) (l : list status) : Z :=
  Z.of_nat (length (filter (status_eqb x) l)).
Definition annotate (sts : list status) : flags :=
  let h := count_status SH sts in
  let i := count_status SI sts in
  let s := count_status SS sts in
  mkf (0 <? h + s) h i s (h + i + s).

Definition flags_eqb (a b : flags) : bool :=
  Bool.eqb (f_head a) (f_head b) && (f_headcount a =? f_headcount b) && (f_internalcount a =? f_internalcount b)
  && (f_singletoncount a =? f_singletoncount b) && (f_samplecount a =? f_samplecount b).

Record acase := mkacase { a_statuses : list status; a_obs : flags }.
Fixpoint mismatches_annot_from (i : nat) (l : list acase) : list nat :=
  match l with
  | [] => []
  | c :: t => if flags_eqb (annotate (a_statuses c)) (a_obs c) then mismatches_annot_from (S i) t
              else i :: mismatches_annot_from (S i) t
  end.
Definition mismatches_annot (l : list acase) : list nat := mismatches_annot_from 0 l.
