(** C13 (round 3) — proofs about Model3.v: the 5 x 5 nucleotide-pair table, the ratio table of --save-ratio, the graph files of --save-graph. *)
From Coq Require Import List NArith ZArith Bool Arith Lia Sorting.Permutation Sorting.Sorted.
Import ListNotations.
From OBI.C13 Require Import Model Model2 Model3 Proofs Lcs Annot.
Open Scope Z_scope.

(** * the 5 x 5 table *)
Definition nuc5 (x : N) : Prop := In x [45; 97; 99; 103; 116]%N.
Definition acgt (x : N) : Prop := In x [97; 99; 103; 116]%N.

Lemma nuc_code_le4 : forall b, (nuc_code b <= 4)%nat.
Proof. intros b. unfold nuc_code. repeat (destruct (N.eqb _ _)); lia. Qed.

Lemma nuc_pair_lt_25 : forall a b, (nuc_pair a b < 25)%nat.
Proof. intros a b. unfold nuc_pair. pose proof (nuc_code_le4 a). pose proof (nuc_code_le4 b). lia. Qed.

Lemma nuc_pair_roundtrip : forall a b, nuc5 a -> nuc5 b -> int_to_nuc_pair (nuc_pair a b) = (a, b).
Proof.
  intros a b Ha Hb. unfold nuc5 in *. cbn [In] in Ha, Hb.
  repeat (destruct Ha as [Ha|Ha]; [subst a|]); try contradiction;
  repeat (destruct Hb as [Hb|Hb]; [subst b|]); try contradiction; vm_compute; reflexivity.
Qed.

Lemma nuc_code_other : forall a, ~ acgt a -> nuc_code a = 0%nat.
Proof.
  intros a H. unfold nuc_code, acgt in *. cbn [In] in H.
  destruct (N.eqb_spec a 97) as [->|]; [exfalso; apply H; auto|]. destruct (N.eqb_spec a 99) as [->|]; [exfalso; apply H; auto|].
  destruct (N.eqb_spec a 103) as [->|]; [exfalso; apply H; auto|]. destruct (N.eqb_spec a 116) as [->|]; [exfalso; apply H; auto 6|]. reflexivity.
Qed.

Lemma decode_code : forall a, decode_nuc (nuc_code a) = if Nat.eqb (nuc_code a) 0 then gap else a.
Proof.
  intros a. unfold nuc_code.
  destruct (N.eqb_spec a 97); [subst; reflexivity|]. destruct (N.eqb_spec a 99); [subst; reflexivity|].
  destruct (N.eqb_spec a 103); [subst; reflexivity|]. destruct (N.eqb_spec a 116); [subst; reflexivity|]. reflexivity.
Qed.

Lemma int_to_nuc_pair_spec : forall a b,
  int_to_nuc_pair (nuc_pair a b) = (decode_nuc (nuc_code a), decode_nuc (nuc_code b)).
Proof.
  intros a b. unfold int_to_nuc_pair, nuc_pair.
  pose proof (nuc_code_le4 b) as Hb.
  assert (E : ((nuc_code a * 5 + nuc_code b) / 5 = nuc_code a)%nat).
  { symmetry. apply (Nat.div_unique _ 5 _ (nuc_code b)); lia. }
  rewrite E. f_equal. f_equal. lia.
Qed.

(* a letter outside a/c/g/t is written as '-' : a substitution by such a letter reads as an indel *)
Lemma nuc_pair_outside_acgt : forall a b, ~ acgt a ->
  fst (int_to_nuc_pair (nuc_pair a b)) = gap /\ fst (int_to_nuc_pair (nuc_pair b a)) = decode_nuc (nuc_code b)
  /\ snd (int_to_nuc_pair (nuc_pair b a)) = gap.
Proof.
  intros a b H. rewrite !int_to_nuc_pair_spec. cbn [fst snd]. rewrite (nuc_code_other a H). repeat split; reflexivity.
Qed.

(** * EstimateRatio *)
Lemma in_edge_row : forall l g minw i son e m,
  In m (edge_row l g minw i son e) <->
  exists f fn, nth_error g (e_father e) = Some f /\ nth_error l (e_father e) = Some fn /\
    minw <= o_weight f /\ e_dist e = 1 /\
    m = mkmr (nuc_pair (e_from e) (e_to e)) i e
          (mkrr (o_id f) (o_status f) (fst (int_to_nuc_pair (nuc_pair (e_from e) (e_to e))))
                (snd (int_to_nuc_pair (nuc_pair (e_from e) (e_to e))))
                (o_weight f) (o_weight son) (o_count f) (o_count son) (e_pos e) (Z.of_nat (length (n_seq fn)))
                (count_nuc 97 (n_seq fn)) (count_nuc 99 (n_seq fn)) (count_nuc 103 (n_seq fn)) (count_nuc 116 (n_seq fn))).
Proof.
  intros l g minw i son e m. unfold edge_row.
  destruct (nth_error g (e_father e)) as [f|] eqn:Ef; [|split; [intros []|intros (f & fn & H & _); discriminate]].
  destruct (nth_error l (e_father e)) as [fn|] eqn:En; [|split; [intros []|intros (f' & fn & _ & H & _); discriminate]].
  destruct (minw <=? o_weight f) eqn:Ew; cbn [andb].
  - destruct (e_dist e =? 1) eqn:Ed.
    + apply Z.leb_le in Ew. apply Z.eqb_eq in Ed. split.
      * intros [<-|[]]. exists f, fn. repeat split; auto.
      * intros (f' & fn' & Hf & Hn & _ & _ & ->). injection Hf as <-. injection Hn as <-. left. reflexivity.
    + apply Z.eqb_neq in Ed. split; [intros []|intros (f' & fn' & _ & _ & _ & H & _); contradiction].
  - apply Z.leb_gt in Ew. split; [intros []|]. intros (f' & fn' & Hf & _ & H & _). injection Hf as <-. lia.
Qed.

Lemma in_all_edge_rows : forall l g minw rest i0 m,
  In m (all_edge_rows l g minw i0 rest) <->
  exists k son e, nth_error rest k = Some son /\ In e (o_edges son) /\ In m (edge_row l g minw (i0 + k) son e).
Proof.
  intros l g minw rest. induction rest as [|son t IH]; intros i0 m; cbn [all_edge_rows].
  - split; [intros []|]. intros (k & son & e & H & _). destruct k; discriminate.
  - rewrite in_app_iff, in_flat_map, IH. split.
    + intros [(e & He & Hm)|(k & s & e & Hk & He & Hm)].
      * exists 0%nat, son, e. rewrite Nat.add_0_r. auto.
      * exists (S k), s, e. replace (i0 + S k)%nat with (S i0 + k)%nat by lia. auto.
    + intros (k & s & e & Hk & He & Hm). destruct k as [|k].
      * injection Hk as <-. rewrite Nat.add_0_r in Hm. left. exists e. auto.
      * right. exists k, s, e. replace (S i0 + k)%nat with (i0 + S k)%nat by lia. auto.
Qed.

(* the 25 files, printed in the order of the codes: no row is lost or duplicated, and the codes never decrease *)
Lemma filter_lt_split : forall (rows : list mrow) n,
  Permutation (filter (fun r => Nat.ltb (mr_code r) (S n)) rows)
              (filter (fun r => Nat.ltb (mr_code r) n) rows ++ filter (fun r => Nat.eqb (mr_code r) n) rows).
Proof.
  intros rows n. induction rows as [|r t IH]; cbn [filter app]; [constructor|].
  destruct (Nat.ltb_spec (mr_code r) (S n)) as [H|H].
  - destruct (Nat.ltb_spec (mr_code r) n) as [H1|H1].
    + destruct (Nat.eqb_spec (mr_code r) n) as [H2|H2]; [lia|]. cbn [app]. constructor. exact IH.
    + destruct (Nat.eqb_spec (mr_code r) n) as [H2|H2]; [|lia].
      eapply perm_trans; [apply perm_skip; exact IH|]. apply Permutation_middle.
  - destruct (Nat.ltb_spec (mr_code r) n) as [H1|H1]; [lia|].
    destruct (Nat.eqb_spec (mr_code r) n) as [H2|H2]; [lia|]. exact IH.
Qed.

Lemma by_code_upto : forall (rows : list mrow) n,
  Permutation (flat_map (fun code => filter (fun r => Nat.eqb (mr_code r) code) rows) (seq 0 n))
              (filter (fun r => Nat.ltb (mr_code r) n) rows).
Proof.
  intros rows n. induction n as [|n IH].
  - cbn. induction rows as [|r t IHt]; cbn; [constructor|exact IHt].
  - rewrite seq_S, flat_map_app. cbn [flat_map plus]. rewrite app_nil_r.
    eapply perm_trans; [apply Permutation_app_tail; exact IH|]. symmetry. apply filter_lt_split.
Qed.

Lemma filter_all : forall (A : Type) (f : A -> bool) l, (forall x, In x l -> f x = true) -> filter f l = l.
Proof.
  intros A f l. induction l as [|x t IH]; intros H; cbn [filter]; [reflexivity|].
  rewrite (H x (or_introl eq_refl)). f_equal. apply IH. intros y Hy. apply H. right. exact Hy.
Qed.

Lemma by_code_perm : forall rows, (forall r, In r rows -> (mr_code r < 25)%nat) -> Permutation (by_code rows) rows.
Proof.
  intros rows H. unfold by_code. eapply perm_trans; [apply by_code_upto|].
  rewrite filter_all; [apply Permutation_refl|]. intros r Hr. apply Nat.ltb_lt. apply H. exact Hr.
Qed.

Lemma all_edge_rows_code : forall l g minw rest i0 r, In r (all_edge_rows l g minw i0 rest) -> (mr_code r < 25)%nat.
Proof.
  intros l g minw rest i0 r H. apply in_all_edge_rows in H. destruct H as (k & son & e & _ & _ & H).
  apply in_edge_row in H. destruct H as (f & fn & _ & _ & _ & _ & ->). cbn [mr_code]. apply nuc_pair_lt_25.
Qed.

Theorem ratio_table_perm : forall l g minw, Permutation (ratio_table l g minw) (all_edge_rows l g minw 0 g).
Proof. intros. unfold ratio_table. apply by_code_perm. intros r. apply all_edge_rows_code. Qed.

Lemma sorted_chunks : forall (rows : list mrow) n s,
  StronglySorted le (map mr_code (flat_map (fun code => filter (fun r => Nat.eqb (mr_code r) code) rows) (seq s n))) /\
  (forall c, In c (map mr_code (flat_map (fun code => filter (fun r => Nat.eqb (mr_code r) code) rows) (seq s n))) -> (s <= c)%nat).
Proof.
  intros rows n. induction n as [|n IH]; intros s; cbn [seq flat_map map].
  - split; [constructor|intros c []].
  - destruct (IH (S s)) as [IH1 IH2]. rewrite map_app.
    assert (Hc : forall c, In c (map mr_code (filter (fun r => Nat.eqb (mr_code r) s) rows)) -> c = s).
    { intros c Hc. apply in_map_iff in Hc. destruct Hc as (r & <- & Hr). apply filter_In in Hr. apply Nat.eqb_eq. apply Hr. }
    split.
    + induction (map mr_code (filter (fun r => Nat.eqb (mr_code r) s) rows)) as [|c t IHt]; cbn [app]; [exact IH1|].
      constructor.
      * apply IHt. intros c' Hc'. apply Hc. right. exact Hc'.
      * apply Forall_forall. intros y Hy. rewrite (Hc c (or_introl eq_refl)). apply in_app_or in Hy. destruct Hy as [Hy|Hy].
        -- rewrite (Hc y (or_intror Hy)). lia.
        -- pose proof (IH2 y Hy). lia.
    + intros c Hin. apply in_app_or in Hin. destruct Hin as [Hin|Hin]; [rewrite (Hc c Hin); lia|pose proof (IH2 c Hin); lia].
Qed.

Theorem ratio_table_sorted : forall l g minw, StronglySorted le (map mr_code (ratio_table l g minw)).
Proof. intros. unfold ratio_table, by_code. apply sorted_chunks. Qed.

(* what a row is: one per (son, remaining edge of distance 1 to a father weighing at least minw) *)
Theorem ratio_rows_exact : forall l g minw m,
  In m (ratio_table l g minw) <->
  exists son f fn, nth_error g (mr_son m) = Some son /\ In (mr_edge m) (o_edges son) /\
    nth_error g (e_father (mr_edge m)) = Some f /\ nth_error l (e_father (mr_edge m)) = Some fn /\
    minw <= o_weight f /\ e_dist (mr_edge m) = 1 /\
    mr_code m = nuc_pair (e_from (mr_edge m)) (e_to (mr_edge m)) /\
    mr_row m = mkrr (o_id f) (o_status f) (decode_nuc (nuc_code (e_from (mr_edge m)))) (decode_nuc (nuc_code (e_to (mr_edge m))))
                (o_weight f) (o_weight son) (o_count f) (o_count son) (e_pos (mr_edge m)) (Z.of_nat (length (n_seq fn)))
                (count_nuc 97 (n_seq fn)) (count_nuc 99 (n_seq fn)) (count_nuc 103 (n_seq fn)) (count_nuc 116 (n_seq fn)).
Proof.
  intros l g minw m. split.
  - intros H. apply (Permutation_in _ (ratio_table_perm l g minw)) in H.
    apply in_all_edge_rows in H. destruct H as (k & son & e & Hk & He & H).
    apply in_edge_row in H. destruct H as (f & fn & Hf & Hn & Hw & Hd & ->). cbn [mr_son mr_edge mr_code mr_row].
    exists son, f, fn. rewrite int_to_nuc_pair_spec. cbn [fst snd]. repeat split; auto.
  - intros (son & f & fn & Hs & He & Hf & Hn & Hw & Hd & Hc & Hr).
    apply (Permutation_in _ (Permutation_sym (ratio_table_perm l g minw))).
    apply in_all_edge_rows. exists (mr_son m), son, (mr_edge m). repeat split; auto.
    apply in_edge_row. exists f, fn. repeat split; auto.
    destruct m as [c s e r]. cbn [mr_son mr_edge mr_code mr_row] in *. subst c r.
    rewrite int_to_nuc_pair_spec. reflexivity.
Qed.

(** * Gml *)
Lemma in_gml_nodes_from : forall minw g i0 n,
  In n (gml_nodes_from minw i0 g) <->
  exists k o, nth_error g k = Some o /\ gml_listed o = true /\ n = gml_node minw (i0 + k) o.
Proof.
  intros minw g. induction g as [|o t IH]; intros i0 n; cbn [gml_nodes_from].
  - split; [intros []|]. intros (k & o & H & _). destruct k; discriminate.
  - rewrite in_app_iff, IH. split.
    + intros [H|(k & o' & Hk & Hl & ->)].
      * destruct (gml_listed o) eqn:El; [|destruct H]. destruct H as [<-|[]]. exists 0%nat, o. rewrite Nat.add_0_r. auto.
      * exists (S k), o'. replace (i0 + S k)%nat with (S i0 + k)%nat by lia. auto.
    + intros (k & o' & Hk & Hl & ->). destruct k as [|k].
      * injection Hk as <-. rewrite Hl, Nat.add_0_r. left. left. reflexivity.
      * right. exists k, o'. replace (S i0 + k)%nat with (i0 + S k)%nat by lia. auto.
Qed.

Lemma in_gml_edges_from : forall g i0 x,
  In x (gml_edges_from i0 g) <->
  exists k o e, nth_error g k = Some o /\ In e (o_edges o) /\ x = gml_edge (i0 + k) e.
Proof.
  induction g as [|o t IH]; intros i0 x; cbn [gml_edges_from].
  - split; [intros []|]. intros (k & o & e & H & _). destruct k; discriminate.
  - rewrite in_app_iff, in_map_iff, IH. split.
    + intros [(e & <- & He)|(k & o' & e & Hk & He & ->)].
      * exists 0%nat, o, e. rewrite Nat.add_0_r. auto.
      * exists (S k), o', e. replace (i0 + S k)%nat with (S i0 + k)%nat by lia. auto.
    + intros (k & o' & e & Hk & He & ->). destruct k as [|k].
      * injection Hk as <-. rewrite Nat.add_0_r. left. exists e. auto.
      * right. exists k, o', e. replace (S i0 + k)%nat with (i0 + S k)%nat by lia. auto.
Qed.

Lemma listed_status : forall o, o_status o = status_of (o_edges o) (o_sons o) ->
  (gml_listed o = true <-> o_status o <> SS) /\
  (0 <? o_sons o) && negb (has_edges o) = match o_status o with SH => true | _ => false end.
Proof.
  intros o ->. unfold gml_listed, has_edges, status_of. destruct (o_edges o); cbn [orb negb andb].
  - destruct (0 <? o_sons o); split; try reflexivity; split; intros H; try reflexivity; try discriminate; try congruence.
  - rewrite andb_false_r. split; try reflexivity. split; intros H; try reflexivity; try discriminate.
Qed.

(* the graph file of a sample lists exactly the sequences that are not singletons, the heads in blue, with
   their count and the shape decided by --min-eval-rate *)
Theorem graph_file_nodes_exact : forall nodes step p q g minw, model_graph_d nodes step p q = Some g ->
  forall n, In n (gml_nodes minw g) <->
    exists o, nth_error g (gn_id n) = Some o /\ o_status o <> SS /\
      n = mkgn (gn_id n) (minw <=? o_count o) (match o_status o with SH => true | _ => false end)
               (3 * Z.sqrt (o_count o)) (3 * Z.sqrt (o_count o)) (o_count o).
Proof.
  intros nodes step p q g minw Hg n. unfold gml_nodes. rewrite in_gml_nodes_from. split.
  - intros (k & o & Hk & Hl & ->). unfold gml_node. cbn [plus gn_id]. exists o.
    pose proof (graph_status _ _ _ _ _ o Hg (nth_error_In _ _ Hk)) as Hs. destruct (listed_status o Hs) as [L1 L2].
    split; [exact Hk|]. split; [apply L1; exact Hl|]. rewrite L2. reflexivity.
  - intros (o & Hk & Hne & Hn). exists (gn_id n), o. cbn [plus].
    pose proof (graph_status _ _ _ _ _ o Hg (nth_error_In _ _ Hk)) as Hs. destruct (listed_status o Hs) as [L1 L2].
    split; [exact Hk|]. split; [apply L1; exact Hne|]. rewrite Hn at 1. unfold gml_node. cbn [gn_id]. rewrite L2. reflexivity.
Qed.

(* ... and exactly the remaining edges, each with its distance (red beyond one difference) *)
Theorem graph_file_edges_exact : forall g x,
  In x (gml_edges g) <->
  exists o e, nth_error g (ge_src x) = Some o /\ In e (o_edges o) /\
    x = mkge (ge_src x) (e_father e) (1 <? e_dist e) (e_dist e).
Proof.
  intros g x. unfold gml_edges. rewrite in_gml_edges_from. split.
  - intros (k & o & e & Hk & He & ->). cbn [plus gml_edge ge_src]. exists o, e. auto.
  - intros (o & e & Hk & He & Hx). exists (ge_src x), o, e. cbn [plus]. auto.
Qed.

(** * end to end at the default distance: a row of the ratio table describes the true edit *)
Lemma filter_row_fst : forall p q w i es kept0 sons0,
  fst (fold_left (fun (acc : list edge * list Z) e =>
               let (kept, sons) := acc in
               if keep_edge p q w i e then (kept ++ [e], sons)
               else (kept, set_nth sons (e_father e) (zth sons (e_father e) - 1))) es (kept0, sons0))
  = kept0 ++ filter (keep_edge p q w i) es.
Proof.
  intros p q w i es. induction es as [|e es IH]; intros kept0 sons0; cbn [fold_left filter].
  - rewrite app_nil_r. reflexivity.
  - destruct (keep_edge p q w i e) eqn:K.
    + rewrite IH, <- app_assoc. reflexivity.
    + apply IH.
Qed.

Lemma filter_rows_fst : forall p q w rows i sons, fst (filter_rows p q w i rows sons) = kept_rows p q w i rows.
Proof.
  intros p q w rows. induction rows as [|es t IH]; intros i sons; cbn [filter_rows kept_rows]; [reflexivity|].
  unfold filter_row. pose proof (filter_row_fst p q w i es [] sons) as F.
  destruct (fold_left _ es ([], sons)) as [kept sons1]. cbn [fst app] in F.
  specialize (IH (S i) sons1). destruct (filter_rows p q w (S i) t sons1) as [rest sons2]. cbn [fst] in *.
  rewrite F, IH. reflexivity.
Qed.

Lemma row_of_kept : forall p q w rows i k,
  row_of (kept_rows p q w i rows) k = filter (keep_edge p q w (i + k)) (row_of rows k).
Proof.
  intros p q w rows. unfold row_of. induction rows as [|es t IH]; intros i k; cbn [kept_rows].
  - destruct k; reflexivity.
  - destruct k as [|k]; cbn [nth].
    + rewrite Nat.add_0_r. reflexivity.
    + rewrite IH. replace (S i + k)%nat with (i + S k)%nat by lia. reflexivity.
Qed.

Lemma zip_out_nth : forall l ws ss rows i0 k o, nth_error (zip_out l ws ss rows i0) k = Some o ->
  exists x, nth_error l k = Some x /\ o_edges o = row_of rows (i0 + k).
Proof.
  induction l as [|x t IH]; intros ws ss rows i0 k o H; cbn [zip_out] in H.
  - destruct k; discriminate.
  - destruct k as [|k]; cbn [nth_error] in *.
    + injection H as <-. exists x. rewrite Nat.add_0_r. auto.
    + apply IH in H. destruct H as (y & Hy & He). exists y. replace (i0 + S k)%nat with (S i0 + k)%nat by lia. auto.
Qed.

Lemma model_graph_edges_d1 : forall nodes p q g k o e, model_graph nodes p q = Some g ->
  nth_error g k = Some o -> In e (o_edges o) ->
  exists x, nth_error (sort_nodes nodes) k = Some x /\ In e (row_of (all_rows (sort_nodes nodes)) k).
Proof.
  intros nodes p q g k o e Hg Hk He. unfold model_graph, model_graph_d in Hg. cbn [Z.ltb Z.compare Pos.compare] in Hg.
  change (1 <? 1) with false in Hg. cbv iota in Hg. unfold finish_graph, finish_graph2 in Hg.
  destruct (reweight _ _ _) as [wts|]; [|discriminate]. injection Hg as <-.
  unfold finish2 in Hk. destruct (p <? q).
  - pose proof (filter_rows_fst p q wts (all_rows (sort_nodes nodes)) 0
                  (son_counts (length (sort_nodes nodes)) (all_rows (sort_nodes nodes)))) as F.
    destruct (filter_rows _ _ _ _ _ _) as [rows' sns']. cbn [fst] in F. subst rows'.
    apply zip_out_nth in Hk. destruct Hk as (x & Hx & Ho). exists x. split; [exact Hx|].
    rewrite Ho, row_of_kept in He. apply filter_In in He. cbn [plus] in He. apply He.
  - apply zip_out_nth in Hk. destruct Hk as (x & Hx & Ho). exists x. split; [exact Hx|]. rewrite Ho in He. exact He.
Qed.

Lemma decode_nuc5 : forall x, nuc5 x -> decode_nuc (nuc_code x) = x.
Proof.
  intros x H. unfold nuc5 in H. cbn [In] in H.
  repeat (destruct H as [H|H]; [subst x; reflexivity|]). contradiction.
Qed.

Lemma acgt_nuc5 : forall x, acgt x -> nuc5 x.
Proof. intros x H. right. exact H. Qed.

Theorem ratio_row_reports_the_edit : forall nodes p q g minw m,
  model_graph nodes p q = Some g ->
  (forall x, In x nodes -> Forall acgt (n_seq x)) ->
  In m (ratio_table (sort_nodes nodes) g minw) ->
  exists son father, nth_error (sort_nodes nodes) (mr_son m) = Some son /\
    nth_error (sort_nodes nodes) (e_father (mr_edge m)) = Some father /\
    n_count son < n_count father /\ rr_cto (mr_row m) = n_count son /\ rr_cfrom (mr_row m) = n_count father /\
    edit_at (rr_pos (mr_row m)) (rr_to (mr_row m)) (rr_from (mr_row m)) (n_seq son) (n_seq father).
Proof.
  intros nodes p q g minw m Hg Hall Hm.
  apply ratio_rows_exact in Hm. destruct Hm as (so & fo & fn & Hs & He & Hf & Hn & Hw & Hd & Hc & Hr).
  destruct (model_graph_edges_d1 _ _ _ _ _ _ _ Hg Hs He) as (son & Hson & Hrow).
  destruct (edge_is_the_edit nodes (mr_son m) son (mr_edge m) Hson Hrow) as (father & Hfa & Hlt & Hcnt & _ & Hed).
  exists son, father. split; [exact Hson|]. split; [exact Hfa|]. split; [exact Hcnt|].
  rewrite Hfa in Hn. injection Hn as <-.
  pose proof (graph_counts _ _ _ _ _ Hg) as Hcs.
  assert (Cs : o_count so = n_count son).
  { apply (f_equal (fun l => nth_error l (mr_son m))) in Hcs. rewrite !nth_error_map, Hs, Hson in Hcs. cbn in Hcs. congruence. }
  assert (Cf : o_count fo = n_count father).
  { apply (f_equal (fun l => nth_error l (e_father (mr_edge m)))) in Hcs. rewrite !nth_error_map, Hf, Hfa in Hcs. cbn in Hcs. congruence. }
  rewrite Hr. cbn [rr_cto rr_cfrom rr_pos rr_to rr_from]. split; [exact Cs|]. split; [exact Cf|].
  assert (As : Forall acgt (n_seq son)).
  { apply Hall. apply (Permutation_in _ (sort_perm nodes)). eapply nth_error_In. exact Hson. }
  assert (Af : Forall acgt (n_seq father)).
  { apply Hall. apply (Permutation_in _ (sort_perm nodes)). eapply nth_error_In. exact Hfa. }
  rewrite Forall_forall in As, Af.
  assert (N5 : nuc5 (e_to (mr_edge m)) /\ nuc5 (e_from (mr_edge m))).
  { destruct Hed as (pre & suf & _ & [(E1 & E2 & _)|[(E0 & E1 & E2)|(E0 & E1 & E2)]]).
    - split; apply acgt_nuc5; [apply As|apply Af]; [rewrite E1|rewrite E2]; apply in_or_app; right; left; reflexivity.
    - split; [apply acgt_nuc5; apply As; rewrite E1; apply in_or_app; right; left; reflexivity|rewrite E0; left; reflexivity].
    - split; [rewrite E0; left; reflexivity|apply acgt_nuc5; apply Af; rewrite E2; apply in_or_app; right; left; reflexivity]. }
  destruct N5 as [N1 N2]. rewrite (decode_nuc5 _ N1), (decode_nuc5 _ N2). exact Hed.
Qed.
(** * at the default distance the son counter written for a node is the number of remaining links to it *)
Lemma zip_out_nth_sons : forall l ws ss rows i0 k o, nth_error (zip_out l ws ss rows i0) k = Some o ->
  o_sons o = zth ss (i0 + k) /\ o_edges o = row_of rows (i0 + k).
Proof.
  induction l as [|x t IH]; intros ws ss rows i0 k o H; cbn [zip_out] in H.
  - destruct k; discriminate.
  - destruct k as [|k]; cbn [nth_error] in *.
    + injection H as <-. rewrite Nat.add_0_r. cbn [o_sons o_edges]. auto.
    + apply IH in H. replace (i0 + S k)%nat with (S i0 + k)%nat by lia. exact H.
Qed.

Lemma zip_out_length : forall l ws ss rows i0, length (zip_out l ws ss rows i0) = length l.
Proof. induction l as [|x t IH]; intros; cbn [zip_out length]; [reflexivity|]. rewrite IH. reflexivity. Qed.

Lemma zip_out_edges : forall l ws ss rows i0,
  map o_edges (zip_out l ws ss rows i0) = map (row_of rows) (seq i0 (length l)).
Proof.
  induction l as [|x t IH]; intros; cbn [zip_out map length seq]; [reflexivity|]. rewrite IH. reflexivity.
Qed.

Lemma map_row_of_all : forall rows : list (list edge), map (row_of rows) (seq 0 (length rows)) = rows.
Proof.
  intros rows. apply (nth_ext _ _ [] []).
  - rewrite map_length, seq_length. reflexivity.
  - intros n Hn. rewrite map_length, seq_length in Hn.
    rewrite (nth_indep _ [] (row_of rows 0)) by (rewrite map_length, seq_length; exact Hn).
    rewrite map_nth, seq_nth by exact Hn. reflexivity.
Qed.

Lemma kept_rows_length : forall p q w rows i, length (kept_rows p q w i rows) = length rows.
Proof. intros p q w rows. induction rows as [|es t IH]; intros i; cbn [kept_rows length]; [reflexivity|]. rewrite IH. reflexivity. Qed.

Theorem graph_sons_exact_d1 : forall nodes p q g j o, model_graph nodes p q = Some g ->
  nth_error g j = Some o -> o_sons o = cnt j (concat (map o_edges g)).
Proof.
  intros nodes p q g j o Hg Hj. unfold model_graph, model_graph_d in Hg.
  change (1 <? 1) with false in Hg. cbv iota in Hg. unfold finish_graph, finish_graph2 in Hg.
  destruct (reweight _ _ _) as [wts|]; [|discriminate]. injection Hg as <-.
  set (l := sort_nodes nodes) in *. set (rows := all_rows l) in *. set (n := length l) in *.
  assert (Lr : length rows = n) by (unfold rows, all_rows; apply all_rows_from_length).
  assert (Hb : forall es e, In es rows -> In e es -> (e_father e < n)%nat).
  { intros es e Hes He. apply In_nth with (d := []) in Hes. destruct Hes as (i & _ & <-).
    apply (all_rows_dag nodes i e). exact He. }
  assert (Hjn : (j < n)%nat).
  { (assert (Hj' : nth_error (finish2 l wts rows (son_counts n rows) p q) j <> None) by congruence;
      apply nth_error_Some in Hj'; unfold finish2 in Hj'; destruct (p <? q);
      [destruct (filter_rows _ _ _ _ _ _)|]; rewrite zip_out_length in Hj'; exact Hj'). }
  unfold finish2 in *. destruct (p <? q).
  - destruct (filter_exact p q wts rows n Hb) as [F1 F2].
    destruct (filter_rows p q wts 0 rows (son_counts n rows)) as [rows' sns']. cbn [fst snd] in F1, F2. subst rows'.
    apply zip_out_nth_sons in Hj. destruct Hj as [Hs _]. cbn [plus] in Hs. rewrite Hs, F2 by exact Hjn.
    rewrite zip_out_edges. fold n. rewrite <- (kept_rows_length p q wts rows 0) in Lr. rewrite <- Lr, map_row_of_all. reflexivity.
  - apply zip_out_nth_sons in Hj. destruct Hj as [Hs _]. cbn [plus] in Hs. rewrite Hs.
    rewrite zip_out_edges. fold n. rewrite <- Lr, map_row_of_all. unfold son_counts. rewrite Lr.
    rewrite nth_map_seq by exact Hjn. reflexivity.
Qed.

(* hence, after the ratio filter too: head = no remaining father and at least one remaining son *)
Theorem status_exact_after_filter_d1 : forall nodes p q g j o, model_graph nodes p q = Some g ->
  nth_error g j = Some o ->
  (o_status o = SI <-> o_edges o <> []) /\
  (o_status o = SH <-> o_edges o = [] /\ exists k s e, nth_error g k = Some s /\ In e (o_edges s) /\ e_father e = j) /\
  (o_status o = SS <-> o_edges o = [] /\ ~ exists k s e, nth_error g k = Some s /\ In e (o_edges s) /\ e_father e = j).
Proof.
  intros nodes p q g j o Hg Hj.
  pose proof (graph_status _ _ _ _ _ o Hg (nth_error_In _ _ Hj)) as Hs.
  pose proof (graph_sons_exact_d1 _ _ _ _ _ _ Hg Hj) as Hc.
  assert (P : 0 < o_sons o <-> exists k s e, nth_error g k = Some s /\ In e (o_edges s) /\ e_father e = j).
  { rewrite Hc, cnt_pos. split.
    - intros (e & He & Hf). apply in_concat in He. destruct He as (es & Hes & He).
      apply in_map_iff in Hes. destruct Hes as (s & <- & Hsin). apply In_nth_error in Hsin. destruct Hsin as (k & Hk).
      exists k, s, e. auto.
    - intros (k & s & e & Hk & He & Hf). exists e. split; [|exact Hf]. apply in_concat. exists (o_edges s).
      split; [apply in_map; eapply nth_error_In; exact Hk|exact He]. }
  rewrite Hs. unfold status_of. destruct (o_edges o) as [|e0 t].
  - destruct (Z.ltb_spec 0 (o_sons o)) as [H|H].
    + repeat split; try discriminate; try congruence; try (intros; apply P; exact H). intros [_ N]. exfalso. apply N. apply P. exact H.
    + repeat split; try discriminate; try congruence.
      * intros [_ E]. apply P in E. lia.
      * intros E. apply P in E. lia.
  - repeat split; try discriminate; try congruence; intros [E _]; discriminate.
Qed.

Theorem graph_file_no_dangling_edge_d1 : forall nodes p q g minw x, model_graph nodes p q = Some g ->
  In x (gml_edges g) ->
  (exists n, In n (gml_nodes minw g) /\ gn_id n = ge_src x) /\
  (exists n, In n (gml_nodes minw g) /\ gn_id n = ge_tgt x) /\ (ge_src x < ge_tgt x)%nat.
Proof.
  intros nodes p q g minw x Hg Hx. apply graph_file_edges_exact in Hx. destruct Hx as (o & e & Hk & He & Hx).
  destruct (model_graph_edges_d1 _ _ _ _ _ _ _ Hg Hk He) as (son & Hson & Hrow).
  pose proof (all_rows_dag nodes _ _ Hrow) as [Hlt Hlen].
  assert (Lg : length g = length (sort_nodes nodes)).
  { pose proof (graph_ids _ _ _ _ _ Hg) as Hi. apply (f_equal (@length Z)) in Hi. rewrite !map_length in Hi. exact Hi. }
  destruct (nth_error g (e_father e)) as [fo|] eqn:Ef; [|apply nth_error_None in Ef; lia].
  assert (Tx : ge_tgt x = e_father e) by (rewrite Hx; reflexivity).
  split; [|split].
  - exists (gml_node minw (ge_src x) o). split; [|reflexivity]. unfold gml_nodes. apply in_gml_nodes_from.
    exists (ge_src x), o. split; [exact Hk|]. split; [|reflexivity]. unfold gml_listed, has_edges. destruct (o_edges o); [destruct He|reflexivity].
  - exists (gml_node minw (e_father e) fo). split; [|rewrite Tx; reflexivity]. unfold gml_nodes. apply in_gml_nodes_from.
    exists (e_father e), fo. split; [exact Ef|]. split; [|reflexivity]. unfold gml_listed.
    assert (S : 0 < o_sons fo).
    { rewrite (graph_sons_exact_d1 _ _ _ _ _ _ Hg Ef). apply cnt_pos. exists e. split; [|reflexivity].
      apply in_concat. exists (o_edges o). split; [apply in_map; eapply nth_error_In; exact Hk|exact He]. }
    apply Z.ltb_lt in S. rewrite S. apply orb_true_r.
  - rewrite Tx. exact Hlt.
Qed.

(** * every distance: the son counter written for a node is the number of remaining links to it *)
Lemma finish2_sons : forall l wts rows p q n, length l = n -> length rows = n ->
  (forall es e, In es rows -> In e es -> (e_father e < n)%nat) ->
  forall j o, nth_error (finish2 l wts rows (son_counts n rows) p q) j = Some o ->
  o_sons o = cnt j (concat (map o_edges (finish2 l wts rows (son_counts n rows) p q))).
Proof.
  intros l wts rows p q n Ll Lr Hb j o Hj.
  assert (Hjn : (j < n)%nat).
  { assert (Hj' : nth_error (finish2 l wts rows (son_counts n rows) p q) j <> None) by congruence.
    apply nth_error_Some in Hj'. unfold finish2 in Hj'. destruct (p <? q);
      [destruct (filter_rows _ _ _ _ _ _)|]; rewrite zip_out_length in Hj'; lia. }
  unfold finish2 in *. destruct (p <? q).
  - destruct (filter_exact p q wts rows n Hb) as [F1 F2].
    destruct (filter_rows p q wts 0 rows (son_counts n rows)) as [rows' sns']. cbn [fst snd] in F1, F2. subst rows'.
    apply zip_out_nth_sons in Hj. destruct Hj as [Hs _]. cbn [plus] in Hs. rewrite Hs, F2 by exact Hjn.
    rewrite zip_out_edges, Ll. rewrite <- (kept_rows_length p q wts rows 0) in Lr. rewrite <- Lr, map_row_of_all. reflexivity.
  - apply zip_out_nth_sons in Hj. destruct Hj as [Hs _]. cbn [plus] in Hs. rewrite Hs.
    rewrite zip_out_edges, Ll. rewrite <- Lr at 2. rewrite map_row_of_all. unfold son_counts.
    rewrite nth_map_seq by exact Hjn. reflexivity.
Qed.

Lemma merge_rows_length : forall r1 r2, length (merge_rows r1 r2) = length r1.
Proof. induction r1 as [|a t IH]; intros r2; destruct r2; cbn [merge_rows length]; try reflexivity. rewrite IH. reflexivity. Qed.

Lemma merge_rows_nth : forall r1 r2 i, length r1 = length r2 -> row_of (merge_rows r1 r2) i = row_of r1 i ++ row_of r2 i.
Proof.
  unfold row_of. induction r1 as [|a t IH]; intros r2 i HL; destruct r2 as [|b t2]; try discriminate; cbn [merge_rows].
  - destruct i; reflexivity.
  - destruct i as [|i]; cbn [nth]; [reflexivity|]. apply IH. cbn [length] in HL. lia.
Qed.

Lemma cnt_concat_merge : forall j r1 r2, length r1 = length r2 ->
  cnt j (concat (merge_rows r1 r2)) = cnt j (concat r1) + cnt j (concat r2).
Proof.
  intros j. induction r1 as [|a t IH]; intros r2 HL; destruct r2 as [|b t2]; try discriminate; cbn [merge_rows concat].
  - reflexivity.
  - rewrite !cnt_app, IH by (cbn [length] in HL; lia). lia.
Qed.

Lemma ext_rows_from_length : forall step l rows1 i, length rows1 = length l -> length (ext_rows_from step i l rows1) = length l.
Proof.
  intros step. induction l as [|s t IH]; intros rows1 i HL; destruct rows1 as [|r1 rt]; try discriminate; cbn [ext_rows_from length].
  - reflexivity.
  - rewrite IH by (cbn [length] in HL; lia). reflexivity.
Qed.

Theorem graph_sons_exact : forall nodes step p q g j o, model_graph_d nodes step p q = Some g ->
  nth_error g j = Some o -> o_sons o = cnt j (concat (map o_edges g)).
Proof.
  intros nodes step p q g j o Hg Hj. unfold model_graph_d in Hg.
  set (l := sort_nodes nodes) in *. set (rows1 := all_rows l) in *. set (n := length l) in *.
  assert (L1 : length rows1 = n) by (unfold rows1, all_rows; apply all_rows_from_length).
  assert (B1 : forall i e, In e (row_of rows1 i) -> (e_father e < n)%nat).
  { intros i e He. apply (all_rows_dag nodes i e). exact He. }
  destruct (1 <? step) eqn:Es.
  - apply Z.ltb_lt in Es. unfold finish_graph2 in Hg.
    destruct (reweight _ _ _) as [wts|]; [|discriminate]. injection Hg as <-.
    set (ext := ext_rows step l rows1) in *.
    assert (L2 : length ext = n) by (unfold ext, ext_rows; apply ext_rows_from_length; exact L1).
    assert (E : map (fun j0 => zth (son_counts n rows1) j0 + cnt j0 (concat ext)) (seq 0 n) = son_counts n (merge_rows rows1 ext)).
    { unfold son_counts at 2. apply map_ext_in. intros a Ha. apply in_seq in Ha.
      unfold son_counts. rewrite nth_map_seq by lia. rewrite cnt_concat_merge by lia. reflexivity. }
    rewrite E in *. apply (finish2_sons l wts (merge_rows rows1 ext) p q n eq_refl); [rewrite merge_rows_length; exact L1| |exact Hj].
    intros es e Hes He. apply In_nth with (d := []) in Hes. destruct Hes as (i & Hi & <-).
    fold (row_of (merge_rows rows1 ext) i) in He. rewrite merge_rows_nth in He by lia. apply in_app_or in He. destruct He as [He|He].
    + exact (B1 i e He).
    + rewrite merge_rows_length, L1 in Hi. destruct (nth_error l i) as [son|] eqn:Ei; [|apply nth_error_None in Ei; unfold n in Hi; lia].
      destruct (extension_father_at_least_as_abundant nodes step i son e Es Ei He) as (f & Hf & _).
      apply nth_error_Some. unfold l in *. rewrite Hf. discriminate.
  - unfold finish_graph, finish_graph2 in Hg. destruct (reweight _ _ _) as [wts|]; [|discriminate]. injection Hg as <-.
    apply (finish2_sons l wts rows1 p q n eq_refl L1); [|exact Hj].
    intros es e Hes He. apply In_nth with (d := []) in Hes. destruct Hes as (i & _ & <-). exact (B1 i e He).
Qed.

Theorem status_exact_after_filter : forall nodes step p q g j o, model_graph_d nodes step p q = Some g ->
  nth_error g j = Some o ->
  (o_status o = SI <-> o_edges o <> []) /\
  (o_status o = SH <-> o_edges o = [] /\ exists k s e, nth_error g k = Some s /\ In e (o_edges s) /\ e_father e = j) /\
  (o_status o = SS <-> o_edges o = [] /\ ~ exists k s e, nth_error g k = Some s /\ In e (o_edges s) /\ e_father e = j).
Proof.
  intros nodes step p q g j o Hg Hj.
  pose proof (graph_status _ _ _ _ _ o Hg (nth_error_In _ _ Hj)) as Hs.
  pose proof (graph_sons_exact _ _ _ _ _ _ _ Hg Hj) as Hc.
  assert (P : 0 < o_sons o <-> exists k s e, nth_error g k = Some s /\ In e (o_edges s) /\ e_father e = j).
  { rewrite Hc, cnt_pos. split.
    - intros (e & He & Hf). apply in_concat in He. destruct He as (es & Hes & He).
      apply in_map_iff in Hes. destruct Hes as (s & <- & Hsin). apply In_nth_error in Hsin. destruct Hsin as (k & Hk).
      exists k, s, e. auto.
    - intros (k & s & e & Hk & He & Hf). exists e. split; [|exact Hf]. apply in_concat. exists (o_edges s).
      split; [apply in_map; eapply nth_error_In; exact Hk|exact He]. }
  rewrite Hs. unfold status_of. destruct (o_edges o) as [|e0 t].
  - destruct (Z.ltb_spec 0 (o_sons o)) as [H|H].
    + repeat split; try discriminate; try congruence; try (intros; apply P; exact H). intros [_ N]. exfalso. apply N. apply P. exact H.
    + repeat split; try discriminate; try congruence.
      * intros [_ E]. apply P in E. lia.
      * intros E. apply P in E. lia.
  - repeat split; try discriminate; try congruence; intros [E _]; discriminate.
Qed.

(* every remaining link of the model graph was made by one of the two passes, towards a later node *)
Lemma model_graph_edges : forall nodes step p q g k o e, model_graph_d nodes step p q = Some g ->
  nth_error g k = Some o -> In e (o_edges o) ->
  (k < e_father e < length (sort_nodes nodes))%nat.
Proof.
  intros nodes step p q g k o e Hg Hk He. unfold model_graph_d in Hg.
  set (l := sort_nodes nodes) in *. set (rows1 := all_rows l) in *.
  assert (L1 : length rows1 = length l) by (unfold rows1, all_rows; apply all_rows_from_length).
  assert (G : forall wts rows sns, nth_error (finish2 l wts rows sns p q) k = Some o ->
              exists x, nth_error l k = Some x /\ In e (row_of rows k)).
  { intros wts rows sns H. unfold finish2 in H. destruct (p <? q).
    - pose proof (filter_rows_fst p q wts rows 0 sns) as F.
      destruct (filter_rows _ _ _ _ _ _) as [rows' sns']. cbn [fst] in F. subst rows'.
      apply zip_out_nth in H. destruct H as (x & Hx & Ho). exists x. split; [exact Hx|].
      rewrite Ho, row_of_kept in He. apply filter_In in He. cbn [plus] in He. apply He.
    - apply zip_out_nth in H. destruct H as (x & Hx & Ho). exists x. split; [exact Hx|]. rewrite Ho in He. exact He. }
  destruct (1 <? step) eqn:Es.
  - apply Z.ltb_lt in Es. unfold finish_graph2 in Hg. destruct (reweight _ _ _) as [wts|]; [|discriminate]. injection Hg as <-.
    destruct (G _ _ _ Hk) as (x & Hx & Hin).
    assert (L2 : length (ext_rows step l rows1) = length l) by (unfold ext_rows; apply ext_rows_from_length; exact L1).
    rewrite merge_rows_nth in Hin by lia. apply in_app_or in Hin. destruct Hin as [Hin|Hin].
    + exact (all_rows_dag nodes k e Hin).
    + destruct (extension_father_at_least_as_abundant nodes step k x e Es Hx Hin) as (f & Hf & Hlt & _).
      split; [exact Hlt|]. apply nth_error_Some. unfold l in *. rewrite Hf. discriminate.
  - unfold finish_graph, finish_graph2 in Hg. destruct (reweight _ _ _) as [wts|]; [|discriminate]. injection Hg as <-.
    destruct (G _ _ _ Hk) as (x & Hx & Hin). exact (all_rows_dag nodes k e Hin).
Qed.

Theorem graph_file_no_dangling_edge : forall nodes step p q g minw x, model_graph_d nodes step p q = Some g ->
  In x (gml_edges g) ->
  (exists n, In n (gml_nodes minw g) /\ gn_id n = ge_src x) /\
  (exists n, In n (gml_nodes minw g) /\ gn_id n = ge_tgt x) /\ (ge_src x < ge_tgt x)%nat.
Proof.
  intros nodes step p q g minw x Hg Hx. apply graph_file_edges_exact in Hx. destruct Hx as (o & e & Hk & He & Hx).
  pose proof (model_graph_edges _ _ _ _ _ _ _ _ Hg Hk He) as [Hlt Hlen].
  assert (Lg : length g = length (sort_nodes nodes)).
  { pose proof (graph_ids _ _ _ _ _ Hg) as Hi. apply (f_equal (@length Z)) in Hi. rewrite !map_length in Hi. exact Hi. }
  destruct (nth_error g (e_father e)) as [fo|] eqn:Ef; [|apply nth_error_None in Ef; lia].
  assert (Tx : ge_tgt x = e_father e) by (rewrite Hx; reflexivity).
  split; [|split].
  - exists (gml_node minw (ge_src x) o). split; [|reflexivity]. unfold gml_nodes. apply in_gml_nodes_from.
    exists (ge_src x), o. split; [exact Hk|]. split; [|reflexivity]. unfold gml_listed, has_edges. destruct (o_edges o); [destruct He|reflexivity].
  - exists (gml_node minw (e_father e) fo). split; [|rewrite Tx; reflexivity]. unfold gml_nodes. apply in_gml_nodes_from.
    exists (e_father e), fo. split; [exact Ef|]. split; [|reflexivity]. unfold gml_listed.
    assert (S : 0 < o_sons fo).
    { rewrite (graph_sons_exact _ _ _ _ _ _ _ Hg Ef). apply cnt_pos. exists e. split; [|reflexivity].
      apply in_concat. exists (o_edges o). split; [apply in_map; eapply nth_error_In; exact Hk|exact He]. }
    apply Z.ltb_lt in S. rewrite S. apply orb_true_r.
  - rewrite Tx. exact Hlt.
Qed.
