(** C13 — property theorems about the float64 arithmetic of obiclean (Flocq; these two theorems depend on the
    axioms of the Coq real numbers, reported by Print Assumptions; Props.v stays axiom-free).
    [rnd] = IEEE-754 binary64 rounding to nearest even; float64(n) is exact for |n| <= 2^53; Go's `/` on float64 is
    the correctly rounded quotient; math.Pow(r, 1) = r; math.Round is exact. *)
From Coq Require Import ZArith Reals.
From Flocq Require Import Core BinarySingleNaN.
From OBI.C13 Require Import Float.
Existing Instance prec_gt_0_53.
Existing Instance prec_lt_emax_53.

(* FilterGraphOnRatio at distance 1: the float test [float64(w_son)/float64(w_father) <= r], r the double nearest to
   the decimal ratio P/Q typed by the user, IS the exact rational test of the model [w_son * Q <= w_father * P]
   whenever w_father * Q <= 2^52 — dyadic or not (0.1 = 1/10, 0.05 = 1/20, ...) *)
Theorem C13_ratio_test_float_exact : forall a b P Q : Z,
  (0 <= a)%Z -> (0 < b)%Z -> (0 < P)%Z -> (P < Q)%Z -> (b * Q <= 2 ^ 52)%Z ->
  Rle_bool (rnd (IZR a / IZR b)) (rnd (IZR P / IZR Q)) = (a * Q <=? b * P)%Z.
Proof. exact ratio_test_exact. Qed.
(* distance 2: [float64(w_son)/float64(w_father) <= math.Pow(r, 2)] with math.Pow(r, 2) = the rounded square of r IS the exact
   rational test [w_son * Q^2 <= w_father * P^2] whenever w_father * Q^2 <= 2^50, EXCEPT on the boundary
   w_son / w_father = (P/Q)^2 (there the float test depends on the rounding of r*r: 0.49 <= Pow(0.7, 2) is false) *)
Theorem C13_ratio_test_d2_float_exact_off_boundary : forall a b P Q : Z,
  (0 <= a)%Z -> (0 < b)%Z -> (0 < P)%Z -> (P < Q)%Z -> (b * (Q * Q) <= 2 ^ 50)%Z -> (a * (Q * Q) <> b * (P * P))%Z ->
  Rle_bool (rnd (IZR a / IZR b)) (rnd (rnd (IZR P / IZR Q) * rnd (IZR P / IZR Q))) = (a * (Q * Q) <=? b * (P * P))%Z.
Proof. exact ratio_test_d2_exact_off_boundary. Qed.
(* reweightSequences: [int(math.Round(float64(w) * float64(c) / swf))] IS the model's round-half-up integer quotient
   whenever w * c < 2^52 (the product and the sum swf are then exact) *)
Theorem C13_round_div_float_exact : forall num s : Z,
  (0 <= num)%Z -> (0 < s)%Z -> (num < 2 ^ 52)%Z -> (s <= 2 ^ 62)%Z ->
  Raux.Zfloor (rnd (IZR num / IZR s) + / 2)%R = ((2 * num + s) / (2 * s))%Z.
Proof. exact round_div_exact. Qed.
(* the same test on Flocq's IEEE-754 binary64 values: float64(a) / float64(b) <= r, for any finite double r, is the
   comparison of the rounded exact quotient with r *)
Theorem C13_b64_ratio_test : forall (a b : Z) (r : b64),
  (0 <= a <= 2 ^ 53)%Z -> (0 < b <= 2 ^ 53)%Z -> is_finite r = true ->
  Bleb (Bdiv mode_NE (of_Z a) (of_Z b)) r = Rle_bool (rnd (IZR a / IZR b)) (B2R r).
Proof. exact b64_ratio_test. Qed.
(* ... hence, r being the double nearest to the decimal P/Q, the binary64 test IS the integer test of the model *)
Theorem C13_b64_ratio_test_decimal : forall (a b P Q : Z) (r : b64),
  (0 <= a <= 2 ^ 53)%Z -> (0 < b)%Z -> (0 < P)%Z -> (P < Q)%Z -> (b * Q <= 2 ^ 52)%Z ->
  is_finite r = true -> B2R r = rnd (IZR P / IZR Q) ->
  Bleb (Bdiv mode_NE (of_Z a) (of_Z b)) r = (a * Q <=? b * P)%Z.
Proof. exact b64_ratio_test_decimal. Qed.
(* non-vacuity: 1/10 against ratio 0.1 is kept, 101/1000 is not *)
Example C13_ratio_test_float_nonvacuous :
  Rle_bool (rnd (IZR 1 / IZR 10)) (rnd (IZR 1 / IZR 10)) = true /\
  Rle_bool (rnd (IZR 101 / IZR 1000)) (rnd (IZR 1 / IZR 10)) = false.
Proof. exact ratio_test_exact_nonvacuous. Qed.
Print Assumptions C13_ratio_test_float_exact.
Print Assumptions C13_round_div_float_exact.
Print Assumptions C13_b64_ratio_test.
Print Assumptions C13_b64_ratio_test_decimal.
Print Assumptions C13_ratio_test_d2_float_exact_off_boundary.
