(** C13 — property theorems (statements only; every proof is [exact] of a lemma of Proofs.v).
    obiclean graph is exact and identical for any worker count.

    What is proved: kernel exactness (one substitution / one indel), edges exact, mutation = the edit,
    status and head flag exact, weights = unique solution of the propagation equation, ratio filter exact,
    schedule independence of both worker pools with an atomic increment (any number of workers, every
    schedule, every distance), finiteness of every run, existence of complete runs; REFUTED for the
    read-then-write increment of the original code (two witnesses).
    Round 2: the distance > 1 pass is exact (C13_extended_edges_exact, for every kernel exact inside its band; the
    model's plain LCS dynamic program is proved to be such a kernel: C13_lcs_table_optimal), its tie rule and the
    absence of an abundance test are theorems, the weights are those of the one-difference graph; the data set
    level (split by sample, union of the annotations over the samples, head flag and counts) is modelled and
    proved; the float64 tests are proved equal to the rational ones under stated bounds (PropsFloat.v, Flocq).
    What is NOT proved (modelled and tied to the code by the correspondence run only):
    - that the REAL banded kernel obialign.FastLCSScore satisfies [kernel_exact_in_band] is the hypothesis of
      C13_extended_edges_exact (property C09 checks it on every run; bounded theorems there);
    - math.Pow(ratio, dist) for dist >= 2 is modelled by the exact rational power;
    - the tie between the Go mutex and [inc_kind = Atomic] is the race detector, not a proof. *)
From Coq Require Import List NArith ZArith Bool Arith Sorting.Permutation.
Import ListNotations.
From OBI.C13 Require Import Model Proofs Model2 Lcs Annot.
Open Scope Z_scope.

(** ** The one-difference kernel (transcription of obialign.D1Or0) *)
(* it answers "one difference" exactly for the pairs one substitution or one indel apart *)
Theorem C13_d1or0_exact : forall s1 s2,
  (exists p a1 a2, d1or0 s1 s2 = One p a1 a2) <-> one_diff s1 s2.
Proof. exact d1or0_exact. Qed.
(* it answers "identical" exactly for equal sequences *)
Theorem C13_d1or0_same : forall s1 s2, d1or0 s1 s2 = Same <-> s1 = s2.
Proof. exact (fun s1 s2 => d1or0_at_same s1 s2 0). Qed.
(* it answers "further apart" exactly for the pairs that are neither equal nor one difference apart *)
Theorem C13_d1or0_far : forall s1 s2, d1or0 s1 s2 = Far <-> s1 <> s2 /\ ~ one_diff s1 s2.
Proof. exact d1or0_far. Qed.
(* the reported position and characters are the edit: at [p], s1 has a1 where s2 has a2 ('-' = absent) *)
Theorem C13_d1or0_reports_the_edit : forall s1 s2 p a1 a2,
  d1or0 s1 s2 = One p a1 a2 -> edit_at p a1 a2 s1 s2.
Proof. exact d1or0_edit. Qed.

(** ** The graph: sorted sample, rows *)
Theorem C13_sort_is_a_permutation : forall nodes, Permutation (sort_nodes nodes) nodes.
Proof. exact sort_perm. Qed.
(* [core] within a sample, son i is linked to father j iff father is strictly more abundant and the
   two sequences are one substitution or one indel apart — for every pair of nodes *)
Theorem C13_edges_exact : forall nodes i j son father,
  let l := sort_nodes nodes in
  nth_error l i = Some son -> nth_error l j = Some father ->
  ((exists e, In e (row_of (all_rows l) i) /\ e_father e = j) <->
   (n_count son < n_count father /\ one_diff (n_seq son) (n_seq father))).
Proof. exact edges_exact. Qed.
(* every edge carries distance 1 and the mutation father -> son: (from)->(to)@pos *)
Theorem C13_mutation_reproduces_edit : forall nodes i son e,
  let l := sort_nodes nodes in
  nth_error l i = Some son -> In e (row_of (all_rows l) i) ->
  exists father, nth_error l (e_father e) = Some father /\ (i < e_father e)%nat /\
    n_count son < n_count father /\ e_dist e = 1 /\
    edit_at (e_pos e) (e_to e) (e_from e) (n_seq son) (n_seq father).
Proof. exact edge_is_the_edit. Qed.

(* the test applied by the correspondence to the (from, to, pos) reported by the real code accepts only
   genuine edits father -> son (whatever position inside a homopolymer the code chooses to report) *)
Theorem C13_reported_mutation_check_is_sound : forall l i e son father,
  nth_error l i = Some son -> nth_error l (e_father e) = Some father ->
  edit_ok l i e = true -> edit_at (e_pos e) (e_to e) (e_from e) (n_seq son) (n_seq father).
Proof. exact edit_ok_sound. Qed.

(** ** The worker pool *)
(* [core] atomic increments: whatever the number of workers (>= 1) and whatever the schedule, a run
   that cannot be continued has written exactly [rows] and the son counters of the sequential
   computation — edges, counters (hence weights, statuses, head flags: functions of these, see
   [finish_graph]) do not depend on the schedule *)
Theorem C13_schedule_independent : forall rows nw sched s, (1 <= nw)%nat ->
  prun Atomic rows nw sched (pinit (length rows)) = Some s -> terminal Atomic rows nw s ->
  read_edges (length rows) s = rows /\ read_sons (length rows) s = son_counts (length rows) rows.
Proof. exact schedule_independent. Qed.
(* the invariant behind it holds in every reachable state *)
Theorem C13_pool_invariant : forall rows nw sched s,
  prun Atomic rows nw sched (pinit (length rows)) = Some s -> Inv rows nw (fun _ => 0) s.
Proof. exact pool_invariant. Qed.
(* the same for a pass that dispatches only the rows [q0] and starts from counters [s0]
   (extendSimilarityGraph: the rows left without edge by the first pass; rows = the extension rows) *)
Theorem C13_schedule_independent_any_pass : forall rows nw q0 s0,
  NoDup q0 -> (forall i, In i q0 -> (i < length rows)%nat) -> (forall i, ~ In i q0 -> row_of rows i = []) ->
  forall sched s, (1 <= nw)%nat ->
  prun Atomic rows nw sched (pinit_gen q0 s0) = Some s -> terminal Atomic rows nw s ->
  read_edges (length rows) s = rows /\
  read_sons (length rows) s = map (fun j => s0 j + cnt j (concat rows)) (seq 0 (length rows)).
Proof. exact schedule_independent_gen. Qed.
(* hence everything written for the sample (weights, son counts, statuses, edges) after any complete
   run of any number of workers is the model graph, a function of the input *)
Theorem C13_output_independent_of_workers : forall nodes p q nw sched s,
  let l := sort_nodes nodes in
  let rows := all_rows l in
  (1 <= nw)%nat ->
  prun Atomic rows nw sched (pinit (length l)) = Some s -> terminal Atomic rows nw s ->
  finish_graph l (read_edges (length l) s) (read_sons (length l) s) p q = model_graph nodes p q.
Proof. exact output_independent. Qed.
(* --distance > 1: two pools in sequence (the second dispatches the rows left without edge, starts from
   the counters of the first and adds the extension rows); whatever the numbers of workers and the two
   schedules, what is written is the model graph *)
Theorem C13_output_independent_of_workers_any_distance : forall nodes step p q nw1 sched1 s1 nw2 sched2 s2,
  let l := sort_nodes nodes in
  let n := length l in
  let rows1 := all_rows l in
  (1 <= nw1)%nat -> (1 <= nw2)%nat -> 1 < step ->
  prun Atomic rows1 nw1 sched1 (pinit n) = Some s1 -> terminal Atomic rows1 nw1 s1 ->
  let e1 := read_edges n s1 in
  let ext := ext_rows step l e1 in
  prun Atomic ext nw2 sched2 (pinit_gen (ext_queue e1) (sons s1)) = Some s2 -> terminal Atomic ext nw2 s2 ->
  finish_graph2 l e1 (read_sons n s1) (merge_rows e1 (read_edges n s2)) (read_sons n s2) p q
  = model_graph_d nodes step p q.
Proof. exact output_independent_two_passes. Qed.
(* no run is infinite (both increment kinds): a schedule of enabled steps is never longer than the measure *)
Theorem C13_runs_are_finite : forall k rows nw sched s s',
  prun k rows nw sched s = Some s' -> (length sched + measure rows nw s' <= measure rows nw s)%nat.
Proof. exact runs_are_finite. Qed.

(* ... and from every state some schedule leads to a state that cannot be continued: the hypotheses of
   the theorems above are satisfiable for every input, every number of workers *)
Theorem C13_complete_run_exists : forall k rows nw s,
  exists sched s', prun k rows nw sched s = Some s' /\ terminal k rows nw s'.
Proof. exact complete_run_exists. Qed.

(** ** Status *)
(* without ratio filter: internal iff the node has a strictly more abundant one-difference neighbour,
   head iff it has none but is such a neighbour of some node, singleton otherwise *)
Theorem C13_status_exact : forall nodes i x,
  let l := sort_nodes nodes in
  let st := status_of (row_of (all_rows l) i) (cnt i (concat (all_rows l))) in
  nth_error l i = Some x ->
  (st = SI <-> has_father l x) /\
  (st = SH <-> ~ has_father l x /\ has_son l x) /\
  (st = SS <-> ~ has_father l x /\ ~ has_son l x).
Proof. exact status_exact. Qed.

(* what the race can NOT change: with either increment kind the edges written by a complete run are exactly
   the rows (they are row-private) — the unsynchronised increment only affects the son counters *)
Theorem C13_edges_exact_for_both_increment_kinds : forall k rows nw q0 s0,
  NoDup q0 -> (forall i, ~ In i q0 -> row_of rows i = []) ->
  forall sched s, (1 <= nw)%nat ->
  prun k rows nw sched (pinit_gen q0 s0) = Some s -> terminal k rows nw s ->
  forall i, edges s i = row_of rows i.
Proof. exact edges_exact_any_kind. Qed.

(* ... and it can only make a counter too small, never too large: a lost update never adds a son *)
Theorem C13_counters_never_exceed_for_both_increment_kinds : forall k rows nw q0 s0,
  NoDup q0 -> (forall i, In i q0 -> (i < length rows)%nat) -> (forall i, ~ In i q0 -> row_of rows i = []) ->
  forall sched s, (1 <= nw)%nat ->
  prun k rows nw sched (pinit_gen q0 s0) = Some s -> terminal k rows nw s ->
  forall j, sons s j <= s0 j + cnt j (concat rows).
Proof. exact counters_never_exceed. Qed.

(** REFUTED for the original code (plain [father.SonCount++] = ReadThenWrite): a complete run of
    two workers on a 3-node star loses one increment.  The same interleaving was observed on the
    real code (race detector + diverging son counts); repaired by the fix: commit recorded in
    known_findings.d/C13.json, after which the code is the Atomic instance. *)
Theorem C13_lost_update_refuted :
  prun ReadThenWrite star_rows 2 lost_sched (pinit 3) = Some lost_final /\
  terminal ReadThenWrite star_rows 2 lost_final /\
  read_edges 3 lost_final = star_rows /\
  read_sons 3 lost_final = [0; 0; 1] /\ son_counts 3 star_rows = [0; 0; 2].
Proof. exact lost_update. Qed.

(** ** Head flag and counts (annotateOBIClean) *)
(* obiclean_head iff the sequence is head or singleton in at least one sample; the three counts partition
   the samples in which the sequence occurs *)
Theorem C13_head_flag_exact : forall sts,
  (f_head (annotate sts) = true <-> In SH sts \/ In SS sts) /\
  (0 < f_headcount (annotate sts) <-> In SH sts) /\
  f_samplecount (annotate sts) = Z.of_nat (length sts) /\
  f_headcount (annotate sts) + f_internalcount (annotate sts) + f_singletoncount (annotate sts) = Z.of_nat (length sts).
Proof. exact annotate_exact. Qed.

(** ** Weights (reweightSequences) *)
(* [core] the weights written for a sample are the unique solution of
     weight j = count j + sum over the sons i of j of round (weight i * count j / sum of the counts of the fathers of i)
   ([given counts rows W i j] is what i gives to j): every node passes its final weight on to its fathers,
   whatever the order of the sweeps; in particular the Go loop stops (no out-of-fuel) *)
Theorem C13_reweight_exact : forall nodes,
  let l := sort_nodes nodes in
  let n := length l in
  let rows := all_rows l in
  let counts := map n_count l in
  exists W, reweight counts (son_counts n rows) rows = Some W /\ length W = n /\
    (forall j, (j < n)%nat -> zth W j = zth counts j + total (fun i => given counts rows W i j) n) /\
    (forall W', (forall j, (j < n)%nat -> zth W' j = zth counts j + total (fun i => given counts rows W' i j) n) ->
       forall j, (j < n)%nat -> zth W' j = zth W j).
Proof. exact model_weights_exact. Qed.
(* the model graph is defined for every input, every distance and ratio *)
Theorem C13_model_graph_total : forall nodes step p q, model_graph_d nodes step p q <> None.
Proof. exact model_graph_total. Qed.

(** ** Ratio filter *)
(* FilterGraphOnRatio keeps exactly the edges with w_son / w_father <= (p/q)^dist and, started from the
   exact son counters, leaves for every node the number of its remaining sons: after the filter, status h
   means "no remaining father, at least one remaining son" *)
Theorem C13_filter_exact : forall p q w rows n,
  (forall es e, In es rows -> In e es -> (e_father e < n)%nat) ->
  fst (filter_rows p q w 0 rows (son_counts n rows)) = kept_rows p q w 0 rows /\
  forall j, (j < n)%nat ->
    zth (snd (filter_rows p q w 0 rows (son_counts n rows))) j = cnt j (concat (kept_rows p q w 0 rows)).
Proof. exact filter_exact. Qed.

(* ... and the lost increment reaches the output: with --ratio 0.25 the centre of a 3-node star is
   written as singleton instead of head *)
Theorem C13_lost_update_changes_status_refuted :
  prun ReadThenWrite star_rows2 2 lost_sched (pinit 3) = Some lost_final2 /\
  terminal ReadThenWrite star_rows2 2 lost_final2 /\
  map o_status (match finish_graph (sort_nodes star_nodes) (read_edges 3 lost_final2) (read_sons 3 lost_final2) 1 4
                with Some g => g | None => [] end) = [SI; SS; SS] /\
  map o_status (match model_graph star_nodes 1 4 with Some g => g | None => [] end) = [SI; SS; SH].
Proof. exact lost_update_changes_status. Qed.

(** ** Round 2 — distance > 1 (extendSimilarityGraph) *)
(* the plain dynamic program of the model computes, for every pair of sequences, the lexicographic optimum
   (longest common subsequence first, then the largest number of mismatch columns = the shortest alignment)
   over ALL global alignments (inductive relation [ali]) *)
Theorem C13_lcs_table_optimal : forall a b, lex_opt a b (last (lcs_table a b) (0, 0)).
Proof. exact lcs_table_optimal. Qed.
(* hence [lcs_d] is THE distance used by the code: alignment length - lcs of that alignment = its mismatch and
   gap columns; the distance is a function of the pair, symmetric, 0 only for equal sequences, 1 only for
   one-difference pairs *)
Theorem C13_lcs_distance_exact : forall a b,
  lcs_dist a b (lcs_d a b) /\ (forall d, lcs_dist a b d -> d = lcs_d a b) /\ lcs_dist b a (lcs_d a b).
Proof.
  exact (fun a b => conj (lcs_d_exact a b)
          (conj (fun d H => lcs_dist_functional a b d _ H (lcs_d_exact a b)) (lcs_dist_sym a b _ (lcs_d_exact a b)))).
Qed.
Theorem C13_lcs_distance_small : forall a b d, lcs_dist a b d ->
  0 <= d /\ (d = 0 -> a = b) /\ (d = 1 -> one_diff a b) /\ (a <> b -> ~ one_diff a b -> 2 <= d).
Proof.
  exact (fun a b d H => conj (lcs_dist_nonneg a b d H)
          (conj (fun E => lcs_dist_zero a b (eq_ind d _ H 0 E))
                (conj (fun E => lcs_dist_one a b (eq_ind d _ H 1 E)) (lcs_dist_far a b d H)))).
Qed.
(* the kernel of the model is exact inside (and outside) its band *)
Theorem C13_model_kernel_exact_in_band : kernel_exact_in_band model_kernel.
Proof. exact model_kernel_exact. Qed.
(* [core] for EVERY kernel that is exact inside its band (hypothesis on obialign.FastLCSScore, checked by property
   C09), extendSimilarityGraph links son i — a row left without edge by the first pass — to every LATER node j of
   the sorted sample that is neither equal nor one difference apart and whose distance is at most --distance;
   the edge carries that distance.  No abundance test: "later" is all that is required of the father. *)
Theorem C13_extended_edges_exact : forall kern, kernel_exact_in_band kern ->
  forall step l rows1 i j son father, 0 < step ->
  length rows1 = length l -> nth_error l i = Some son -> nth_error l j = Some father ->
  forall d,
  (In (mke j gap gap (-1) d) (row_of (ext_rows_k kern step l rows1) i) <->
   (row_of rows1 i = [] /\ (i < j)%nat /\ n_seq son <> n_seq father /\ ~ one_diff (n_seq son) (n_seq father) /\
    lcs_dist (n_seq son) (n_seq father) d /\ d <= step)).
Proof. exact extended_edges_exact. Qed.
(* the extension pass of the model graph (the one compared with the code on every run) is that instance:
   a sequence without more abundant one-difference neighbour is linked to every later node within the distance *)
Theorem C13_model_extended_edges_exact : forall nodes step i j son father d,
  let l := sort_nodes nodes in
  1 < step -> nth_error l i = Some son -> nth_error l j = Some father ->
  (In (mke j gap gap (-1) d) (row_of (ext_rows step l (all_rows l)) i) <->
   (~ has_father l son /\ (i < j)%nat /\ n_seq son <> n_seq father /\ ~ one_diff (n_seq son) (n_seq father) /\
    lcs_dist (n_seq son) (n_seq father) d /\ d <= step)).
Proof. exact model_extended_edges_exact. Qed.
(* tie rule: every edge of the extension goes to a later node of the stably sorted sample — at least as abundant,
   NOT strictly more abundant — with 2 <= distance <= --distance and no position / characters *)
Theorem C13_extension_father_at_least_as_abundant : forall nodes step i son e,
  let l := sort_nodes nodes in
  1 < step -> nth_error l i = Some son -> In e (row_of (ext_rows step l (all_rows l)) i) ->
  exists father, nth_error l (e_father e) = Some father /\ (i < e_father e)%nat /\ n_count son <= n_count father /\
    e = mke (e_father e) gap gap (-1) (e_dist e) /\ lcs_dist (n_seq son) (n_seq father) (e_dist e) /\ 2 <= e_dist e <= step.
Proof. exact extension_father_at_least_as_abundant. Qed.
(* ... so that between equally abundant sequences the direction of the link is the order of the records in the
   loaded data set: the same two records in the other order exchange internal and head (witness; this is why
   Load must return the records in a reproducible order — fix: commit recorded in known_findings.d/C13.json) *)
Theorem C13_extension_tie_follows_input_order :
  id_status_weight (model_graph_d tie_ab 2 1 1) = [(0, SI, 1); (1, SH, 1)] /\
  id_status_weight (model_graph_d tie_ba 2 1 1) = [(1, SI, 1); (0, SH, 1)].
Proof. exact extension_tie_follows_input_order. Qed.
(* reweightSequences is not re-run after the extension: the weights written with --distance > 1 are exactly those
   of the one-difference graph (in the witness above the head keeps weight 1) *)
Theorem C13_extension_does_not_change_weights : forall nodes step p q,
  option_map (map o_weight) (model_graph_d nodes step p q) = option_map (map o_weight) (model_graph nodes p q).
Proof. exact extension_does_not_change_weights. Qed.

(* REFUTED for the read-then-write increment also in the pool of extendSimilarityGraph (--distance 2): two workers, two
   sequences two substitutions away from a common more abundant centre; one increment is lost and, with --ratio 0.25,
   the centre is written singleton instead of head (the code takes the same lock there since the round 1 fix) *)
Theorem C13_lost_update_distance2_refuted :
  star2_rows1 = [[]; []; []] /\
  prun ReadThenWrite star2_ext 2 lost_sched (pinit_gen (ext_queue star2_rows1) (fun _ => 0)) = Some lost_final_d2 /\
  terminal ReadThenWrite star2_ext 2 lost_final_d2 /\
  read_edges 3 lost_final_d2 = star2_ext /\
  read_sons 3 lost_final_d2 = [0; 0; 1] /\ map (fun j => cnt j (concat star2_ext)) (seq 0 3) = [0; 0; 2] /\
  map o_status (match finish_graph2 star2_l star2_rows1 [0; 0; 0] (merge_rows star2_rows1 (read_edges 3 lost_final_d2))
                                    (read_sons 3 lost_final_d2) 1 4 with Some g => g | None => [] end) = [SI; SS; SS] /\
  map o_status (match model_graph_d star2_nodes 2 1 4 with Some g => g | None => [] end) = [SI; SS; SH].
Proof. exact lost_update_distance2. Qed.

(** ** Round 2 — the data set: split by sample, union over the samples (CLIOBIClean, Mutation, annotateOBIClean) *)
(* every sequence of the data set receives exactly one entry (status, weight) per sample of its merged_sample map *)
Theorem C13_annots_cover_every_sample : forall ds step p q d, In d ds ->
  length (annots ds step p q d) = length (d_counts d) /\
  map sa_sample (annots ds step p q d) = map fst (d_counts d).
Proof. exact annots_cover_every_sample. Qed.
(* ... which is the status / weight / fathers of the node carrying its id in the graph of that sample *)
Theorem C13_annots_per_sample : forall ds step p q d a,
  In a (annots ds step p q d) <->
  exists c, In (sa_sample a, c) (d_counts d) /\ annot_in_sample ds step p q (d_id d) (sa_sample a) = Some a.
Proof. exact annots_per_sample. Qed.
(* with distinct ids, that node is the sequence's OWN node of the count-sorted sample: it carries its id, its sequence
   and its count in that sample, and the status written is the status of that node (status_of its remaining edges and
   son counter: C13_status_exact / C13_filter_exact say what these mean) *)
Theorem C13_annot_reads_own_node : forall ds step p q d s c,
  NoDup (map d_id ds) -> In d ds -> lookupZ s (d_counts d) = Some c ->
  exists g k o, model_graph_d (sample_nodes ds s) step p q = Some g /\
    nth_error (sort_nodes (sample_nodes ds s)) k = Some (mkn (d_id d) (d_seq d) c) /\
    nth_error g k = Some o /\ o_id o = d_id d /\ o_count o = c /\
    o_status o = status_of (o_edges o) (o_sons o) /\
    annot_in_sample ds step p q (d_id d) s =
      Some (mksa s (o_status o) (o_weight o) (map (fun e => o_id (nth (e_father e) g dummy_onode)) (o_edges o))).
Proof. exact annot_reads_own_node. Qed.
(* obiclean_head iff head or singleton in at least one of its samples; obiclean_samplecount = number of its samples;
   the three counts count the statuses and partition the samples *)
Theorem C13_dataset_flags_exact : forall ds step p q d, In d ds ->
  let l := annots ds step p q d in
  (f_head (flags_of l) = true <-> exists a, In a l /\ (sa_status a = SH \/ sa_status a = SS)) /\
  f_samplecount (flags_of l) = Z.of_nat (length (d_counts d)) /\
  f_headcount (flags_of l) = count_status SH (map sa_status l) /\
  f_internalcount (flags_of l) = count_status SI (map sa_status l) /\
  f_singletoncount (flags_of l) = count_status SS (map sa_status l) /\
  f_headcount (flags_of l) + f_internalcount (flags_of l) + f_singletoncount (flags_of l) = Z.of_nat (length (d_counts d)).
Proof. exact dataset_flags_exact. Qed.
(* the keys of obiclean_mutation are the union over the samples of the fathers of the sequence's node *)
Theorem C13_mutation_keys_union : forall ds step p q d f,
  In f (mutation_keys (annots ds step p q d)) <-> exists a, In a (annots ds step p q d) /\ In f (sa_fathers a).
Proof. exact mutation_keys_union. Qed.

(** ** Round 2 — obiiter.Load (as fixed): the data set handed to the graph construction does not depend on the order in
      which the reader's workers deliver the batches *)
Theorem C13_load_arrival_independent : forall (A : Type) (arr arr' : list (Z * list A)),
  NoDup (map fst arr) -> Permutation arr arr' -> load arr = load arr'.
Proof. exact (@load_arrival_independent). Qed.

(* non-vacuity of the round 2 statements: two samples, the direction of the link flips between them *)
Definition ex_ds : list dseq :=
  [mkd 0 [97;99;103;116]%N [(0, 10); (1, 1)]; mkd 1 [97;99;99;116]%N [(0, 3); (1, 4)]; mkd 2 [97;97;97;97;97;97]%N [(1, 4)]].
Example C13_dataset_nonvacuous :
  map (fun d => (map sa_status (annots ex_ds 2 1 1 d), mutation_keys (annots ex_ds 2 1 1 d), f_head (flags_of (annots ex_ds 2 1 1 d)))) ex_ds
  = [([SH; SI], [1], true); ([SI; SH], [0], true); ([SS], [], true)] /\
  lcs_d [97;97;97;97]%N [97;99;99;97]%N = 2.
Proof. split; vm_compute; reflexivity. Qed.

(** non-vacuity: a sample with a star and a tie; a complete atomic run of 2 workers on it *)
Definition ex_nodes : list node :=
  [mkn 0 [97;99;103;116]%N 10; mkn 1 [97;99;99;116]%N 3; mkn 2 [97;99;116]%N 3; mkn 3 [97;99;103;116;116]%N 1].
Example C13_edges_exact_nonvacuous :
  all_rows (sort_nodes ex_nodes) =
    [[mke 3 gap 116%N 4 1]; [mke 3 103%N 99%N 2 1]; [mke 3 103%N gap 2 1]; []] /\
  model_graph ex_nodes 1 1 <> None.
Proof. split; [vm_compute; reflexivity|vm_compute; discriminate]. Qed.
Example C13_schedule_independent_nonvacuous :
  exists sched s, prun Atomic (all_rows (sort_nodes ex_nodes)) 2 sched (pinit 4) = Some s /\
    read_sons 4 s = [0; 0; 0; 3].
Proof.
  exists [0;1;0;1;0;1;0;0;0;1;1]%nat.
  destruct (prun Atomic (all_rows (sort_nodes ex_nodes)) 2 [0;1;0;1;0;1;0;0;0;1;1]%nat (pinit 4)) as [s|] eqn:E.
  - exists s. split; [reflexivity|]. vm_compute in E. inversion E. vm_compute. reflexivity.
  - vm_compute in E. discriminate.
Qed.

Print Assumptions C13_d1or0_exact.
Print Assumptions C13_d1or0_same.
Print Assumptions C13_d1or0_reports_the_edit.
Print Assumptions C13_sort_is_a_permutation.
Print Assumptions C13_edges_exact.
Print Assumptions C13_mutation_reproduces_edit.
Print Assumptions C13_schedule_independent.
Print Assumptions C13_pool_invariant.
Print Assumptions C13_reported_mutation_check_is_sound.
Print Assumptions C13_head_flag_exact.
Print Assumptions C13_reweight_exact.
Print Assumptions C13_model_graph_total.
Print Assumptions C13_filter_exact.
Print Assumptions C13_d1or0_far.
Print Assumptions C13_complete_run_exists.
Print Assumptions C13_edges_exact_for_both_increment_kinds.
Print Assumptions C13_counters_never_exceed_for_both_increment_kinds.
Print Assumptions C13_lost_update_refuted.
Print Assumptions C13_schedule_independent_any_pass.
Print Assumptions C13_output_independent_of_workers.
Print Assumptions C13_output_independent_of_workers_any_distance.
Print Assumptions C13_runs_are_finite.
Print Assumptions C13_status_exact.
Print Assumptions C13_lost_update_changes_status_refuted.
Print Assumptions C13_lcs_table_optimal.
Print Assumptions C13_lcs_distance_exact.
Print Assumptions C13_lcs_distance_small.
Print Assumptions C13_model_kernel_exact_in_band.
Print Assumptions C13_extended_edges_exact.
Print Assumptions C13_model_extended_edges_exact.
Print Assumptions C13_extension_father_at_least_as_abundant.
Print Assumptions C13_extension_tie_follows_input_order.
Print Assumptions C13_extension_does_not_change_weights.
Print Assumptions C13_annots_cover_every_sample.
Print Assumptions C13_annots_per_sample.
Print Assumptions C13_dataset_flags_exact.
Print Assumptions C13_mutation_keys_union.
Print Assumptions C13_lost_update_distance2_refuted.
Print Assumptions C13_annot_reads_own_node.
Print Assumptions C13_load_arrival_independent.
