(** C13 (round 2) — the float64 tests of obiclean against the exact rational tests of the model (Flocq).
    [rnd] is IEEE-754 binary64 round-to-nearest-even (with gradual underflow). *)
From Coq Require Import ZArith Reals Lia Lra.
From Flocq Require Import Core Relative.
Open Scope R_scope.

Definition fexp := FLT_exp (-1074) 53.
Definition rnd (x : R) : R := round radix2 fexp ZnearestE x.

Lemma p53 : (0 < 53)%Z. Proof. lia. Qed.
Local Instance fexp_valid : Valid_exp fexp := FLT_exp_valid (-1074) 53 (prec_gt_0_ := p53).

Definition eps : R := / IZR (2 ^ 53).
Lemma eps_val : / 2 * bpow radix2 (- (53) + 1) = eps.
Proof. unfold eps. change (- (53) + 1)%Z with (-52)%Z. simpl bpow. change (Z.pow_pos 2 52) with (2 ^ 52)%Z.
  replace (IZR (2 ^ 53)) with (2 * IZR (2 ^ 52)) by (rewrite <- mult_IZR; f_equal). field.
  apply not_0_IZR. lia. Qed.
Lemma eps_pos : 0 < eps. Proof. unfold eps. apply Rinv_0_lt_compat, IZR_lt. lia. Qed.

Lemma rel_err : forall x, bpow radix2 (-1022) <= Rabs x -> Rabs (rnd x - x) <= eps * Rabs x.
Proof.
  intros x H. rewrite <- eps_val. apply (relative_error_N_FLT radix2 (-1074) 53 p53 (fun n => negb (Z.even n)) x). exact H.
Qed.

Lemma tiny_le : bpow radix2 (-1022) <= 2 * eps.
Proof.
  unfold eps. replace (2 * / IZR (2 ^ 53)) with (bpow radix2 (-52)).
  - apply bpow_le. lia.
  - simpl bpow. change (Z.pow_pos 2 52) with (2 ^ 52)%Z.
    replace (IZR (2 ^ 53)) with (2 * IZR (2 ^ 52)) by (rewrite <- mult_IZR; f_equal). field. apply not_0_IZR. lia.
Qed.

Lemma rnd_le : forall x y, x <= y -> rnd x <= rnd y.
Proof. intros x y H. apply round_le; [exact fexp_valid|apply valid_rnd_N|exact H]. Qed.

Lemma rnd_ge_1 : forall x, 1 <= x -> 1 <= rnd x.
Proof.
  intros x H. apply round_ge_generic; [exact fexp_valid|apply valid_rnd_N| |exact H].
  change 1 with (bpow radix2 0). apply generic_format_bpow. unfold fexp, FLT_exp. cbn. lia.
Qed.

(* a real y in [2 eps, 1 - 2 eps] and a real x at least 2 eps above it never round to the same float nor past each other *)
Lemma rnd_separates : forall x y, 2 * eps <= y -> y <= 1 - 2 * eps -> y + 2 * eps <= x -> rnd y < rnd x.
Proof.
  intros x y Hy Hy1 Hgap. pose proof eps_pos as Ep. pose proof tiny_le as T.
  assert (Ey : Rabs (rnd y - y) <= eps * Rabs y) by (apply rel_err; rewrite Rabs_pos_eq; lra).
  rewrite (Rabs_pos_eq y) in Ey by lra. apply Rabs_le_inv in Ey.
  assert (Y : eps * y < eps) by (assert (eps * y < eps * 1) by (apply Rmult_lt_compat_l; lra); lra).
  destruct (Rle_lt_dec 1 x) as [X1|X1].
  - pose proof (rnd_ge_1 x X1) as R1. lra.
  - assert (Ex : Rabs (rnd x - x) <= eps * Rabs x) by (apply rel_err; rewrite Rabs_pos_eq; lra).
    rewrite (Rabs_pos_eq x) in Ex by lra. apply Rabs_le_inv in Ex.
    assert (X : eps * x < eps) by (assert (eps * x < eps * 1) by (apply Rmult_lt_compat_l; lra); lra).
    lra.
Qed.

Lemma two_eps : 2 * eps = / IZR (2 ^ 52).
Proof.
  unfold eps. replace (IZR (2 ^ 53)) with (2 * IZR (2 ^ 52)) by (rewrite <- mult_IZR; f_equal). field.
  apply not_0_IZR. lia.
Qed.

Lemma inv_ge_two_eps : forall n : Z, (0 < n)%Z -> (n <= 2 ^ 52)%Z -> 2 * eps <= / IZR n.
Proof.
  intros n H0 H. rewrite two_eps. apply Rinv_le; [apply IZR_lt; exact H0|apply IZR_le; exact H].
Qed.

(** FilterGraphOnRatio at distance 1: [float64(w_son) / float64(w_father) <= ratio], the ratio being the double
    nearest to the decimal P/Q typed by the user, decides exactly [w_son * Q <= w_father * P] as soon as
    w_father * Q <= 2^52 (the conversions of integers below 2^53 are exact; math.Pow(r, 1) = r). *)
Theorem ratio_test_exact : forall a b P Q : Z,
  (0 <= a)%Z -> (0 < b)%Z -> (0 < P)%Z -> (P < Q)%Z -> (b * Q <= 2 ^ 52)%Z ->
  Rle_bool (rnd (IZR a / IZR b)) (rnd (IZR P / IZR Q)) = (a * Q <=? b * P)%Z.
Proof.
  intros a b P Q Ha Hb HP HPQ Hbound.
  assert (HQ : (0 < Q)%Z) by lia.
  assert (Rb : 0 < IZR b) by (apply IZR_lt; exact Hb).
  assert (RQ : 0 < IZR Q) by (apply IZR_lt; exact HQ).
  assert (Qle : (Q <= 2 ^ 52)%Z) by nia.
  destruct (Z.leb_spec (a * Q) (b * P)) as [Hle|Hgt].
  - apply Rle_bool_true, rnd_le.
    apply IZR_le in Hle. rewrite !mult_IZR in Hle.
    apply Rmult_le_reg_r with (r := IZR b * IZR Q); [apply Rmult_lt_0_compat; assumption|].
    replace (IZR a / IZR b * (IZR b * IZR Q)) with (IZR a * IZR Q) by (field; lra).
    replace (IZR P / IZR Q * (IZR b * IZR Q)) with (IZR b * IZR P) by (field; lra). exact Hle.
  - apply Rle_bool_false, rnd_separates.
    + (* 2 eps <= P/Q *)
      apply Rle_trans with (/ IZR Q); [apply inv_ge_two_eps; assumption|].
      unfold Rdiv. rewrite <- (Rmult_1_l (/ IZR Q)) at 1. apply Rmult_le_compat_r; [left; apply Rinv_0_lt_compat; exact RQ|].
      apply IZR_le. lia.
    + (* P/Q <= 1 - 2 eps *)
      assert (E : IZR P / IZR Q <= 1 - / IZR Q).
      { replace (1 - / IZR Q) with ((IZR Q - 1) / IZR Q) by (field; lra).
        unfold Rdiv. apply Rmult_le_compat_r; [left; apply Rinv_0_lt_compat; exact RQ|].
        rewrite <- minus_IZR. apply IZR_le. lia. }
      pose proof (inv_ge_two_eps Q HQ Qle). lra.
    + (* P/Q + 2 eps <= a/b *)
      assert (E : IZR a / IZR b - IZR P / IZR Q = IZR (a * Q - b * P) * / (IZR b * IZR Q)).
      { rewrite minus_IZR, !mult_IZR. field. lra. }
      assert (G : / (IZR b * IZR Q) <= IZR (a * Q - b * P) * / (IZR b * IZR Q)).
      { rewrite <- (Rmult_1_l (/ (IZR b * IZR Q))) at 1.
        apply Rmult_le_compat_r; [left; apply Rinv_0_lt_compat, Rmult_lt_0_compat; assumption|].
        apply IZR_le. lia. }
      assert (B : 2 * eps <= / (IZR b * IZR Q)).
      { rewrite <- mult_IZR. apply inv_ge_two_eps; [nia|exact Hbound]. }
      lra.
Qed.

(** reweightSequences: [int(math.Round(float64(w) * float64(c) / swf))] with num = w * c < 2^52 (so that the
    product is exact) and swf the exact sum of the fathers' counts is the model's round-half-up quotient
    [(2 num + s) / (2 s)] (math.Round is exact: round half away from zero = floor (x + 1/2) for x >= 0). *)
Lemma half_odd_format : forall k : Z, (1 <= k)%Z -> (k <= 2 ^ 52)%Z -> generic_format radix2 fexp (IZR k - / 2).
Proof.
  intros k H1 H2. apply generic_format_FLT. apply (FLT_spec radix2 (-1074) 53 _ (Float radix2 (2 * k - 1) (-1))).
  - unfold F2R. cbn [Fnum Fexp]. change (bpow radix2 (-1)) with (/ 2). rewrite minus_IZR, mult_IZR. field.
  - cbn [Fnum]. change (radix2 ^ 53)%Z with (2 ^ 53)%Z. lia.
  - cbn [Fexp]. lia.
Qed.

Theorem round_div_exact : forall num s : Z,
  (0 <= num)%Z -> (0 < s)%Z -> (num < 2 ^ 52)%Z -> (s <= 2 ^ 62)%Z ->
  Zfloor (rnd (IZR num / IZR s) + / 2) = ((2 * num + s) / (2 * s))%Z.
Proof.
  intros num s Hn Hs Hb Hsb. set (k := ((2 * num + s) / (2 * s))%Z). set (v := IZR num / IZR s).
  assert (Rs : 0 < IZR s) by (apply IZR_lt; exact Hs).
  assert (K1 : (2 * s * k <= 2 * num + s)%Z) by (apply Z.mul_div_le; lia).
  assert (K2 : (2 * num + s < 2 * s * (k + 1))%Z).
  { replace (k + 1)%Z with (Z.succ k) by lia. apply Z.mul_succ_div_gt. lia. }
  assert (K0 : (0 <= k)%Z) by (apply Z.div_pos; lia).
  assert (Kle : (k <= 2 ^ 52)%Z) by nia.
  assert (V0 : 0 <= v) by (unfold v, Rdiv; apply Rmult_le_pos; [apply IZR_le; exact Hn|left; apply Rinv_0_lt_compat; exact Rs]).
  assert (Vs : v * IZR s = IZR num) by (unfold v; field; lra).
  (* k - 1/2 <= v <= k + 1/2 - 1/(2s) *)
  assert (L : IZR k - / 2 <= v).
  { apply Rmult_le_reg_r with (r := 2 * IZR s); [lra|]. replace (v * (2 * IZR s)) with (2 * IZR num) by (rewrite <- Vs; ring).
    replace ((IZR k - / 2) * (2 * IZR s)) with (2 * IZR s * IZR k - IZR s) by field.
    apply IZR_le in K1. rewrite plus_IZR, !mult_IZR in K1. lra. }
  assert (U : v <= IZR k + / 2 - / (2 * IZR s)).
  { apply Rmult_le_reg_r with (r := 2 * IZR s); [lra|]. replace (v * (2 * IZR s)) with (2 * IZR num) by (rewrite <- Vs; ring).
    replace ((IZR k + / 2 - / (2 * IZR s)) * (2 * IZR s)) with (2 * IZR s * (IZR k + 1) - IZR s - 1) by (field; lra).
    assert (K2' : (2 * num + s <= 2 * s * (k + 1) - 1)%Z) by lia.
    apply IZR_le in K2'. rewrite minus_IZR, plus_IZR, !mult_IZR, plus_IZR in K2'. lra. }
  apply Zfloor_imp. rewrite plus_IZR. split.
  - (* lower bound: k - 1/2 is a double (or k = 0) *)
    destruct (Z.eq_dec k 0) as [E|E].
    + rewrite E. assert (0 <= rnd v); [|lra].
      replace 0 with (rnd 0) by (apply round_0; apply valid_rnd_N). apply rnd_le. exact V0.
    + assert (IZR k - / 2 <= rnd v); [|lra].
      apply round_ge_generic; [exact fexp_valid|apply valid_rnd_N|apply half_odd_format; lia|exact L].
  - (* upper bound: the relative error of the quotient is below 1/(2s) *)
    destruct (Z.eq_dec num 0) as [E|E].
    + assert (v = 0) by (unfold v; rewrite E; unfold Rdiv; ring). rewrite H.
      replace (rnd 0) with 0 by (symmetry; apply round_0; apply valid_rnd_N).
      assert (0 <= IZR k) by (apply IZR_le; exact K0). lra.
    + assert (N1 : 1 <= IZR num) by (apply IZR_le; lia).
      assert (Vlow : / IZR s <= v).
      { unfold v, Rdiv. rewrite <- (Rmult_1_l (/ IZR s)) at 1. apply Rmult_le_compat_r; [left; apply Rinv_0_lt_compat; exact Rs|exact N1]. }
      assert (Tiny : bpow radix2 (-1022) <= / IZR s).
      { apply Rle_trans with (/ IZR (2 ^ 62)); [|apply Rinv_le; [exact Rs|apply IZR_le; exact Hsb]].
        replace (/ IZR (2 ^ 62)) with (bpow radix2 (-62)) by (simpl bpow; reflexivity). apply bpow_le. lia. }
      assert (Ev : Rabs (rnd v - v) <= eps * Rabs v) by (apply rel_err; rewrite Rabs_pos_eq; lra).
      rewrite (Rabs_pos_eq v) in Ev by lra. apply Rabs_le_inv in Ev.
      assert (EV : eps * v < / (2 * IZR s)).
      { apply Rmult_lt_reg_r with (r := 2 * IZR s); [lra|].
        replace (/ (2 * IZR s) * (2 * IZR s)) with 1 by (field; lra).
        replace (eps * v * (2 * IZR s)) with (2 * eps * IZR num) by (rewrite <- Vs; ring).
        rewrite two_eps. apply Rmult_lt_reg_l with (r := IZR (2 ^ 52)); [apply IZR_lt; lia|].
        replace (IZR (2 ^ 52) * (/ IZR (2 ^ 52) * IZR num)) with (IZR num) by (field; apply not_0_IZR; lia).
        rewrite Rmult_1_r. apply IZR_lt. exact Hb. }
      lra.
Qed.

(* the hypotheses are satisfiable and both outcomes occur *)
Example ratio_test_exact_nonvacuous :
  Rle_bool (rnd (IZR 1 / IZR 10)) (rnd (IZR 1 / IZR 10)) = true /\
  Rle_bool (rnd (IZR 101 / IZR 1000)) (rnd (IZR 1 / IZR 10)) = false.
Proof. split; rewrite ratio_test_exact by lia; reflexivity. Qed.

(** * Distance 2: [float64(w_son)/float64(w_father) <= math.Pow(r, 2)], math.Pow(r, 2) being the rounded square of r
      (Go: frexp, one rounded product of the mantissas, ldexp).  Off the boundary w_son/w_father = (P/Q)^2 the float
      test is the exact rational test. *)
Lemma sq_mono : forall a b, 0 <= a <= b -> a * a <= b * b.
Proof. intros a b H. nra. Qed.
Lemma y_bounds : forall e T rr y, 0 < e <= / 100 -> 0 < T <= 1 ->
  T * ((1 - e) * (1 - e)) <= rr <= T * ((1 + e) * (1 + e)) -> rr * (1 - e) <= y <= rr * (1 + e) ->
  T - 3 * e <= y <= T + 4 * e.
Proof.
  intros e T rr y He HT Hrr Hy.
  assert (C1 : (1 + e) * (1 + e) * (1 + e) <= 1 + 4 * e) by nra.
  assert (C2 : 1 - 3 * e <= (1 - e) * (1 - e) * (1 - e)) by nra.
  assert (U : y <= T * ((1 + e) * (1 + e) * (1 + e))).
  { apply Rle_trans with (rr * (1 + e)); [lra|]. replace (T * ((1 + e) * (1 + e) * (1 + e))) with (T * ((1 + e) * (1 + e)) * (1 + e)) by ring.
    apply Rmult_le_compat_r; lra. }
  assert (L : T * ((1 - e) * (1 - e) * (1 - e)) <= y).
  { apply Rle_trans with (rr * (1 - e)); [|lra]. replace (T * ((1 - e) * (1 - e) * (1 - e))) with (T * ((1 - e) * (1 - e)) * (1 - e)) by ring.
    apply Rmult_le_compat_r; lra. }
  assert (U2 : T * ((1 + e) * (1 + e) * (1 + e)) <= T * (1 + 4 * e)) by (apply Rmult_le_compat_l; lra).
  assert (L2 : T * (1 - 3 * e) <= T * ((1 - e) * (1 - e) * (1 - e))) by (apply Rmult_le_compat_l; lra).
  assert (T * e <= e) by nra.
  split; nra.
Qed.

Lemma eps_small : eps <= / 100.
Proof. unfold eps. apply Rinv_le; [lra|]. apply IZR_le. lia. Qed.
Lemma eight_eps : 8 * eps = / IZR (2 ^ 50).
Proof.
  unfold eps. replace (IZR (2 ^ 53)) with (8 * IZR (2 ^ 50)) by (rewrite <- mult_IZR; f_equal). field.
  apply not_0_IZR. lia.
Qed.
Lemma rel_bounds : forall v, 2 * eps <= v -> v * (1 - eps) <= rnd v <= v * (1 + eps).
Proof.
  intros v H. pose proof eps_pos. pose proof tiny_le.
  assert (E : Rabs (rnd v - v) <= eps * Rabs v) by (apply rel_err; rewrite Rabs_pos_eq; lra).
  rewrite (Rabs_pos_eq v) in E by lra. apply Rabs_le_inv in E. lra.
Qed.

Theorem ratio_test_d2_exact_off_boundary : forall a b P Q : Z,
  (0 <= a)%Z -> (0 < b)%Z -> (0 < P)%Z -> (P < Q)%Z -> (b * (Q * Q) <= 2 ^ 50)%Z -> (a * (Q * Q) <> b * (P * P))%Z ->
  Rle_bool (rnd (IZR a / IZR b)) (rnd (rnd (IZR P / IZR Q) * rnd (IZR P / IZR Q))) = (a * (Q * Q) <=? b * (P * P))%Z.
Proof.
  intros a b P Q Ha Hb HP HPQ Hbound Hne.
  pose proof eps_pos as Ep. pose proof eps_small as Es.
  assert (HQ : (0 < Q)%Z) by lia.
  assert (Rb : 0 < IZR b) by (apply IZR_lt; exact Hb).
  assert (RQ : 0 < IZR Q) by (apply IZR_lt; exact HQ).
  assert (RP : 0 < IZR P) by (apply IZR_lt; exact HP).
  assert (QQ : (Q * Q <= 2 ^ 50)%Z) by nia.
  set (D := IZR P / IZR Q). set (x := IZR a / IZR b). set (T := D * D).
  assert (IQpos : 0 < / IZR Q) by (apply Rinv_0_lt_compat; exact RQ).
  assert (IQ : / IZR Q <= D).
  { unfold D, Rdiv. rewrite <- (Rmult_1_l (/ IZR Q)) at 1. apply Rmult_le_compat_r; [left; exact IQpos|apply IZR_le; lia]. }
  assert (D1 : D <= 1 - / IZR Q).
  { unfold D. replace (1 - / IZR Q) with ((IZR Q - 1) / IZR Q) by (field; lra).
    unfold Rdiv. apply Rmult_le_compat_r; [left; exact IQpos|]. rewrite <- minus_IZR. apply IZR_le. lia. }
  assert (IQQ : 8 * eps <= / IZR Q * / IZR Q).
  { replace (/ IZR Q * / IZR Q) with (/ (IZR Q * IZR Q)) by (field; lra).
    rewrite eight_eps, <- mult_IZR. apply Rinv_le; [apply IZR_lt; nia|apply IZR_le; exact QQ]. }
  assert (T_low : 8 * eps <= T).
  { apply Rle_trans with (/ IZR Q * / IZR Q); [exact IQQ|]. unfold T. apply sq_mono. lra. }
  assert (D0 : 0 < D) by lra.
  assert (T_up : T <= 1 - / IZR Q).
  { unfold T. apply Rle_trans with (D * 1); [apply Rmult_le_compat_l; lra|lra]. }
  assert (IQ8 : 8 * eps <= / IZR Q).
  { apply Rle_trans with (/ IZR Q * / IZR Q); [exact IQQ|]. rewrite <- (Rmult_1_r (/ IZR Q)) at 3.
    apply Rmult_le_compat_l; [lra|]. rewrite <- Rinv_1. apply Rinv_le; [lra|apply IZR_le; lia]. }
  (* r = rnd D, y = rnd (r * r) *)
  pose proof (rel_bounds D ltac:(lra)) as Br. set (r := rnd D) in *.
  assert (Brr : T * ((1 - eps) * (1 - eps)) <= r * r <= T * ((1 + eps) * (1 + eps))).
  { unfold T. split.
    - replace (D * D * ((1 - eps) * (1 - eps))) with ((D * (1 - eps)) * (D * (1 - eps))) by ring. apply sq_mono.
      split; [apply Rmult_le_pos; lra|lra].
    - replace (D * D * ((1 + eps) * (1 + eps))) with ((D * (1 + eps)) * (D * (1 + eps))) by ring. apply sq_mono.
      split; [|lra]. apply Rle_trans with (D * (1 - eps)); [apply Rmult_le_pos; lra|lra]. }
  assert (rr_low : 2 * eps <= r * r).
  { apply Rle_trans with (T * ((1 - eps) * (1 - eps))); [|lra].
    assert (/ 2 <= (1 - eps) * (1 - eps)) by nra. apply Rle_trans with (T * / 2); [lra|apply Rmult_le_compat_l; lra]. }
  pose proof (rel_bounds (r * r) rr_low) as By. set (y := rnd (r * r)) in *.
  pose proof (y_bounds eps T (r * r) y (conj Ep Es) ltac:(lra) Brr By) as [y_low y_up].
  (* x - T as a quotient of integers *)
  assert (Ex : x - T = IZR (a * (Q * Q) - b * (P * P)) * / (IZR b * (IZR Q * IZR Q))).
  { unfold x, T, D. rewrite minus_IZR, !mult_IZR. field. lra. }
  assert (Den : 8 * eps <= / (IZR b * (IZR Q * IZR Q))).
  { rewrite eight_eps, <- !mult_IZR. apply Rinv_le; [apply IZR_lt; nia|apply IZR_le; exact Hbound]. }
  set (den := / (IZR b * (IZR Q * IZR Q))) in *.
  assert (X0 : 0 <= x) by (unfold x, Rdiv; apply Rmult_le_pos; [apply IZR_le; exact Ha|left; apply Rinv_0_lt_compat; exact Rb]).
  destruct (Z.leb_spec (a * (Q * Q)) (b * (P * P))) as [Hle|Hgt].
  - assert (Hlt : (a * (Q * Q) - b * (P * P) <= -1)%Z) by lia.
    apply IZR_le in Hlt. set (num := IZR (a * (Q * Q) - b * (P * P))) in *.
    assert (Gap : x <= T - 8 * eps).
    { assert (num * den <= -1 * den) by (apply Rmult_le_compat_r; lra). lra. }
    apply Rle_bool_true.
    destruct (Req_dec x 0) as [Z0|NZ].
    + rewrite Z0. replace (rnd 0) with 0 by (symmetry; apply round_0; apply valid_rnd_N). lra.
    + assert (Xlow : 2 * eps <= x).
      { assert (A1 : 1 <= IZR a).
        { apply IZR_le. assert (a <> 0)%Z; [|lia]. intros E. apply NZ. unfold x. rewrite E. unfold Rdiv. ring. }
        assert (/ IZR b <= x) by (unfold x, Rdiv; rewrite <- (Rmult_1_l (/ IZR b)) at 1; apply Rmult_le_compat_r; [left; apply Rinv_0_lt_compat; exact Rb|exact A1]).
        assert (8 * eps <= / IZR b); [|lra].
        rewrite eight_eps. apply Rinv_le; [exact Rb|apply IZR_le; nia]. }
      pose proof (rel_bounds x Xlow) as Bx.
      assert (x * eps <= eps) by (rewrite <- (Rmult_1_l eps) at 2; apply Rmult_le_compat_r; lra). lra.
  - assert (Hge : (1 <= a * (Q * Q) - b * (P * P))%Z) by lia.
    apply IZR_le in Hge. set (num := IZR (a * (Q * Q) - b * (P * P))) in *.
    assert (Gap : T + 8 * eps <= x).
    { assert (1 * den <= num * den) by (apply Rmult_le_compat_r; lra). lra. }
    apply Rle_bool_false.
    destruct (Rle_lt_dec 1 x) as [X1|X1].
    + pose proof (rnd_ge_1 x X1). lra.
    + pose proof (rel_bounds x ltac:(lra)) as Bx.
      assert (x * eps <= eps) by (rewrite <- (Rmult_1_l eps) at 2; apply Rmult_le_compat_r; lra). lra.
Qed.

(** * Link with the IEEE-754 binary64 operations of Flocq (what Go's float64 conversion, `/` and `<=` are) *)
From Flocq Require Import BinarySingleNaN.

Lemma p_lt_emax : Prec_lt_emax 53 1024. Proof. unfold Prec_lt_emax; lia. Qed.
Local Instance prec_gt_0_53 : Prec_gt_0 53 := p53.
Local Instance prec_lt_emax_53 : Prec_lt_emax 53 1024 := p_lt_emax.
Definition b64 := binary_float 53 1024.
(* float64(n) *)
Definition of_Z (n : Z) : b64 := binary_normalize 53 1024 p53 p_lt_emax mode_NE n 0 false.

Lemma fexp_same : forall e, SpecFloat.fexp 53 1024 e = fexp e.
Proof. reflexivity. Qed.

Lemma int_format : forall n : Z, (Z.abs n <= 2 ^ 53)%Z -> generic_format radix2 fexp (IZR n).
Proof.
  intros n H. destruct (Z.eq_dec (Z.abs n) (2 ^ 53)) as [E|E].
  - apply generic_format_FLT. apply (FLT_spec radix2 (-1074) 53 _ (Float radix2 (n / 2 ^ 53) 53)).
    + unfold F2R. cbn [Fnum Fexp]. change (bpow radix2 53) with (IZR (2 ^ 53)). rewrite <- mult_IZR. f_equal.
      assert (n = 2 ^ 53 \/ n = - 2 ^ 53)%Z as [K|K] by lia; rewrite K; reflexivity.
    + cbn [Fnum]. assert (n = 2 ^ 53 \/ n = - 2 ^ 53)%Z as [K|K] by lia; rewrite K; reflexivity.
    + cbn [Fexp]. lia.
  - apply generic_format_FLT. apply (FLT_spec radix2 (-1074) 53 _ (Float radix2 n 0)).
    + unfold F2R. cbn [Fnum Fexp]. simpl bpow. ring.
    + cbn [Fnum]. change (radix2 ^ 53)%Z with (2 ^ 53)%Z. lia.
    + cbn [Fexp]. lia.
Qed.

Lemma rnd_int : forall n : Z, (Z.abs n <= 2 ^ 53)%Z -> rnd (IZR n) = IZR n.
Proof. intros n H. apply round_generic; [apply valid_rnd_N|apply int_format; exact H]. Qed.

Lemma of_Z_correct : forall n : Z, (Z.abs n <= 2 ^ 53)%Z -> B2R (of_Z n) = IZR n /\ is_finite (of_Z n) = true.
Proof.
  intros n H. unfold of_Z.
  pose proof (binary_normalize_correct 53 1024 p53 p_lt_emax mode_NE n 0 false) as C. cbv zeta in C.
  assert (X : F2R (Float radix2 n 0) = IZR n) by (unfold F2R; cbn [Fnum Fexp]; simpl bpow; ring).
  rewrite X in C. change (round radix2 (SpecFloat.fexp 53 1024) (round_mode mode_NE) (IZR n)) with (rnd (IZR n)) in C.
  rewrite rnd_int in C by exact H.
  rewrite Rlt_bool_true in C.
  - destruct C as (A & B & _). auto.
  - rewrite <- abs_IZR. apply Rle_lt_trans with (IZR (2 ^ 53)); [apply IZR_le; exact H|].
    change (IZR (2 ^ 53)) with (bpow radix2 53). apply bpow_lt. lia.
Qed.

(** the comparison executed by FilterGraphOnRatio (distance 1), on binary64 values *)
Theorem b64_ratio_test : forall (a b : Z) (r : b64),
  (0 <= a <= 2 ^ 53)%Z -> (0 < b <= 2 ^ 53)%Z -> is_finite r = true ->
  Bleb (Bdiv mode_NE (of_Z a) (of_Z b)) r = Rle_bool (rnd (IZR a / IZR b)) (B2R r).
Proof.
  intros a b r Ha Hb Hr.
  destruct (of_Z_correct a) as [Ra Fa]; [lia|]. destruct (of_Z_correct b) as [Rb Fb]; [lia|].
  assert (Rb0 : 0 < IZR b) by (apply IZR_lt; lia).
  pose proof (Bdiv_correct 53 1024 prec_gt_0_53 prec_lt_emax_53 mode_NE (of_Z a) (of_Z b)) as C.
  rewrite Ra, Rb in C. specialize (C ltac:(lra)).
  change (round radix2 (SpecFloat.fexp 53 1024) (round_mode mode_NE) (IZR a / IZR b)) with (rnd (IZR a / IZR b)) in C.
  assert (Q0 : 0 <= IZR a / IZR b) by (apply Rmult_le_pos; [apply IZR_le; lia|left; apply Rinv_0_lt_compat; exact Rb0]).
  assert (Q1 : IZR a / IZR b <= IZR (2 ^ 53)).
  { apply Rle_trans with (IZR a); [|apply IZR_le; lia].
    apply Rmult_le_reg_r with (r := IZR b); [exact Rb0|]. replace (IZR a / IZR b * IZR b) with (IZR a) by (field; lra).
    rewrite <- (Rmult_1_r (IZR a)) at 1. apply Rmult_le_compat_l; [apply IZR_le; lia|apply IZR_le; lia]. }
  assert (B0 : 0 <= rnd (IZR a / IZR b)).
  { replace 0 with (rnd 0) by (apply round_0; apply valid_rnd_N). apply rnd_le. exact Q0. }
  assert (B1 : rnd (IZR a / IZR b) <= IZR (2 ^ 53)).
  { rewrite <- (rnd_int (2 ^ 53)) by (cbn; lia). apply rnd_le. exact Q1. }
  rewrite Rlt_bool_true in C.
  - destruct C as (V & F & _). rewrite Bleb_correct; [rewrite V; reflexivity|rewrite F; exact Fa|exact Hr].
  - rewrite Rabs_pos_eq by exact B0. apply Rle_lt_trans with (IZR (2 ^ 53)); [exact B1|].
    change (IZR (2 ^ 53)) with (bpow radix2 53). apply bpow_lt. lia.
Qed.

(* ... with r the double nearest to the decimal P/Q (strconv.ParseFloat is correctly rounded): the binary64 test IS the
   integer test of the model *)
Theorem b64_ratio_test_decimal : forall (a b P Q : Z) (r : b64),
  (0 <= a <= 2 ^ 53)%Z -> (0 < b)%Z -> (0 < P)%Z -> (P < Q)%Z -> (b * Q <= 2 ^ 52)%Z ->
  is_finite r = true -> B2R r = rnd (IZR P / IZR Q) ->
  Bleb (Bdiv mode_NE (of_Z a) (of_Z b)) r = (a * Q <=? b * P)%Z.
Proof.
  intros a b P Q r Ha Hb HP HPQ Hbound Hr Er.
  rewrite b64_ratio_test; [|exact Ha|nia|exact Hr]. rewrite Er. apply ratio_test_exact; lia.
Qed.
