(** C13 (round 3) — property theorems about what `obiclean --save-ratio FILE --save-graph DIR --min-eval-rate N`
    writes next to the annotated sequences (graph.go: nucPair, intToNucPair, EstimateRatio, EmpiricalDistCsv, Gml),
    as functions of the per-sample graph of Model.v (statements only; every proof is [exact] of a lemma of Proofs3.v).
    The files are tied to the real command on every run: the rows of the table and the nodes / edges of the graph
    files written by the built command are compared with [ratio_table], [gml_nodes], [gml_edges] evaluated by
    vm_compute on the same data sets (mismatches_ratio, mismatches_gml) and with a direct oracle.
    Not proved: the text layout of the two files (parsed by the check), text/template, math.Sqrt on counts
    (modelled by the integer square root). *)
From Coq Require Import List NArith ZArith Bool Arith Sorting.Permutation Sorting.Sorted.
Import ListNotations.
From OBI.C13 Require Import Model Model2 Model3 Proofs Proofs3.
Open Scope Z_scope.

(** ** The table of nucleotide pairs *)
(* whatever the two bytes, the code stays inside the 25 files allocated by EstimateRatio (no index out of range) *)
Theorem C13_nucpair_in_table : forall a b, (nuc_pair a b < 25)%nat.
Proof. exact nuc_pair_lt_25. Qed.
(* on '-', a, c, g, t the code is read back as the pair it was made from *)
Theorem C13_nucpair_roundtrip : forall a b, nuc5 a -> nuc5 b -> int_to_nuc_pair (nuc_pair a b) = (a, b).
Proof. exact nuc_pair_roundtrip. Qed.
(* any other letter (n, r, y, ...) is written as '-': in the table a substitution by such a letter reads as an indel
   (observation recorded in known_findings.d/C13.json; outside the statement of C13, which is about a/c/g/t reads) *)
Theorem C13_nucpair_outside_acgt_is_gap : forall a b, ~ acgt a ->
  fst (int_to_nuc_pair (nuc_pair a b)) = gap /\ fst (int_to_nuc_pair (nuc_pair b a)) = decode_nuc (nuc_code b)
  /\ snd (int_to_nuc_pair (nuc_pair b a)) = gap.
Proof. exact nuc_pair_outside_acgt. Qed.

(** ** The ratio table (--save-ratio) of one sample: [l] the count-sorted nodes, [g] any graph over them *)
(* filing the rows under 25 codes and printing the files one after the other loses and duplicates nothing ... *)
Theorem C13_ratio_table_loses_no_row : forall l g minw,
  Permutation (ratio_table l g minw) (all_edge_rows l g minw 0 g).
Proof. exact ratio_table_perm. Qed.
(* ... and the table is sorted by nucleotide pair *)
Theorem C13_ratio_table_sorted_by_code : forall l g minw, StronglySorted le (map mr_code (ratio_table l g minw)).
Proof. exact ratio_table_sorted. Qed.
(* a row = a son, one of its remaining edges of distance 1, the father of that edge weighing at least --min-eval-rate;
   it carries the father's id and status, the two weights, the two counts, the position, the father's length and
   composition, and the two letters as the table of pairs renders them *)
Theorem C13_ratio_rows_exact : forall l g minw m,
  In m (ratio_table l g minw) <->
  exists son f fn, nth_error g (mr_son m) = Some son /\ In (mr_edge m) (o_edges son) /\
    nth_error g (e_father (mr_edge m)) = Some f /\ nth_error l (e_father (mr_edge m)) = Some fn /\
    minw <= o_weight f /\ e_dist (mr_edge m) = 1 /\
    mr_code m = nuc_pair (e_from (mr_edge m)) (e_to (mr_edge m)) /\
    mr_row m = mkrr (o_id f) (o_status f) (decode_nuc (nuc_code (e_from (mr_edge m)))) (decode_nuc (nuc_code (e_to (mr_edge m))))
                (o_weight f) (o_weight son) (o_count f) (o_count son) (e_pos (mr_edge m)) (Z.of_nat (length (n_seq fn)))
                (count_nuc 97 (n_seq fn)) (count_nuc 99 (n_seq fn)) (count_nuc 103 (n_seq fn)) (count_nuc 116 (n_seq fn)).
Proof. exact ratio_rows_exact. Qed.
(* [core of the round] end to end at the default distance, for a/c/g/t reads and every ratio: each row of the table
   written for the sample describes a true link of the graph — its father is strictly more abundant than its son
   (the two counts of the row), and (From, To, Position) is the edit that turns the father's sequence into the son's *)
Theorem C13_ratio_row_reports_the_edit : forall nodes p q g minw m,
  model_graph nodes p q = Some g ->
  (forall x, In x nodes -> Forall acgt (n_seq x)) ->
  In m (ratio_table (sort_nodes nodes) g minw) ->
  exists son father, nth_error (sort_nodes nodes) (mr_son m) = Some son /\
    nth_error (sort_nodes nodes) (e_father (mr_edge m)) = Some father /\
    n_count son < n_count father /\ rr_cto (mr_row m) = n_count son /\ rr_cfrom (mr_row m) = n_count father /\
    edit_at (rr_pos (mr_row m)) (rr_to (mr_row m)) (rr_from (mr_row m)) (n_seq son) (n_seq father).
Proof. exact ratio_row_reports_the_edit. Qed.

(** ** The graph files (--save-graph), for the graph of the model, every distance and ratio *)
(* the file of a sample lists exactly the sequences that are not singletons there, under their position in the
   count-sorted sample, heads (and only heads) in blue, circles from --min-eval-rate reads on *)
Theorem C13_graph_file_nodes_exact : forall nodes step p q g minw, model_graph_d nodes step p q = Some g ->
  forall n, In n (gml_nodes minw g) <->
    exists o, nth_error g (gn_id n) = Some o /\ o_status o <> SS /\
      n = mkgn (gn_id n) (minw <=? o_count o) (match o_status o with SH => true | _ => false end)
               (3 * Z.sqrt (o_count o)) (3 * Z.sqrt (o_count o)) (o_count o).
Proof. exact graph_file_nodes_exact. Qed.
(* ... and exactly the remaining edges son -> father, labelled with their distance, red beyond one difference *)
Theorem C13_graph_file_edges_exact : forall g x,
  In x (gml_edges g) <->
  exists o e, nth_error g (ge_src x) = Some o /\ In e (o_edges o) /\
    x = mkge (ge_src x) (e_father e) (1 <? e_dist e) (e_dist e).
Proof. exact graph_file_edges_exact. Qed.

(** ** What the two passes and the ratio filter leave, for every --distance and --ratio *)
(* the son counter of every node is the number of REMAINING links that point to it ... *)
Theorem C13_son_counter_exact_after_filter : forall nodes step p q g j o, model_graph_d nodes step p q = Some g ->
  nth_error g j = Some o -> o_sons o = cnt j (concat (map o_edges g)).
Proof. exact graph_sons_exact. Qed.
(* ... so that the status written is: internal iff a link to a father remains, head iff none remains but the node is
   still the father of some remaining link, singleton iff it takes part in no remaining link (C13_status_exact of
   round 1 is the case distance 1 without filter) *)
Theorem C13_status_exact_after_filter : forall nodes step p q g j o, model_graph_d nodes step p q = Some g ->
  nth_error g j = Some o ->
  (o_status o = SI <-> o_edges o <> []) /\
  (o_status o = SH <-> o_edges o = [] /\ exists k s e, nth_error g k = Some s /\ In e (o_edges s) /\ e_father e = j) /\
  (o_status o = SS <-> o_edges o = [] /\ ~ exists k s e, nth_error g k = Some s /\ In e (o_edges s) /\ e_father e = j).
Proof. exact status_exact_after_filter. Qed.
(* every remaining link goes to a LATER node of the count-sorted sample (the graph is acyclic) *)
Theorem C13_links_go_forward : forall nodes step p q g k o e, model_graph_d nodes step p q = Some g ->
  nth_error g k = Some o -> In e (o_edges o) -> (k < e_father e < length (sort_nodes nodes))%nat.
Proof. exact model_graph_edges. Qed.
(* the graph file has no dangling edge: both ends of every edge are listed nodes, the father after the son *)
Theorem C13_graph_file_no_dangling_edge : forall nodes step p q g minw x, model_graph_d nodes step p q = Some g ->
  In x (gml_edges g) ->
  (exists n, In n (gml_nodes minw g) /\ gn_id n = ge_src x) /\
  (exists n, In n (gml_nodes minw g) /\ gn_id n = ge_tgt x) /\ (ge_src x < ge_tgt x)%nat.
Proof. exact graph_file_no_dangling_edge. Qed.

(** ** Non-vacuity: a 3-sequence sample (acgt x 10, acct x 3, act x 1), --ratio 0.5, --min-eval-rate 4: the hypotheses
    of C13_ratio_row_reports_the_edit are met and the table has the two rows whose father weighs 14 *)
Definition ex3_nodes := [mkn 0 [97;99;103;116]%N 10; mkn 1 [97;99;99;116]%N 3; mkn 2 [97;99;116]%N 1].
Example C13_ratio_table_nonvacuous :
  (forall x, In x ex3_nodes -> Forall acgt (n_seq x)) /\
  exists g, model_graph ex3_nodes 1 2 = Some g /\
    map mr_row (ratio_table (sort_nodes ex3_nodes) g 4) =
      [mkrr 0 SH 103 45 14 1 10 1 2 4 1 1 1 1; mkrr 0 SH 103 99 14 3 10 3 2 4 1 1 1 1] /\
    gml_nodes 4 g = [mkgn 0 false false 3 3 1; mkgn 1 false false 3 3 3; mkgn 2 true true 9 9 10] /\
    gml_edges g = [mkge 0 1 false 1; mkge 0 2 false 1; mkge 1 2 false 1].
Proof.
  split.
  - intros x [<-|[<-|[<-|[]]]]; cbn [n_seq]; repeat (apply Forall_cons; [unfold acgt; cbn [In]; tauto|]); apply Forall_nil.
  - eexists. split; [vm_compute; reflexivity|]. vm_compute. repeat split; reflexivity.
Qed.

Print Assumptions C13_nucpair_in_table.
Print Assumptions C13_nucpair_roundtrip.
Print Assumptions C13_nucpair_outside_acgt_is_gap.
Print Assumptions C13_ratio_table_loses_no_row.
Print Assumptions C13_ratio_table_sorted_by_code.
Print Assumptions C13_ratio_rows_exact.
Print Assumptions C13_ratio_row_reports_the_edit.
Print Assumptions C13_graph_file_nodes_exact.
Print Assumptions C13_graph_file_edges_exact.
Print Assumptions C13_son_counter_exact_after_filter.
Print Assumptions C13_status_exact_after_filter.
Print Assumptions C13_graph_file_no_dangling_edge.
Print Assumptions C13_links_go_forward.
