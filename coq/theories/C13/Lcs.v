(** C13 (round 2) — the plain LCS dynamic program of the model computes the lexicographic optimum
    (matches, then mismatch columns) over all global alignments: lcs_d = alilength - lcs. *)
From Coq Require Import List NArith ZArith Bool Arith Lia.
Import ListNotations.
From OBI.C13 Require Import Model Proofs Model2.
Open Scope Z_scope.

Inductive ali : list N -> list N -> Z -> Z -> Prop :=   (* matches, mismatch columns *)
| ali_nil : ali [] [] 0 0
| ali_gap_l : forall x a b l m, ali a b l m -> ali (x :: a) b l m
| ali_gap_r : forall y a b l m, ali a b l m -> ali a (y :: b) l m
| ali_match : forall x a b l m, ali a b l m -> ali (x :: a) (x :: b) (l + 1) m
| ali_mis : forall x y a b l m, x <> y -> ali a b l m -> ali (x :: a) (y :: b) l (m + 1).

Definition lex_le (p q : Z * Z) : Prop := fst p < fst q \/ (fst p = fst q /\ snd p <= snd q).
Definition lex_opt (a b : list N) (p : Z * Z) : Prop :=
  ali a b (fst p) (snd p) /\ forall l m, ali a b l m -> lex_le (l, m) p.

Lemma lex_le_refl : forall p, lex_le p p.
Proof. intros [a b]; unfold lex_le; cbn; lia. Qed.
Lemma lex_le_trans : forall p q r, lex_le p q -> lex_le q r -> lex_le p r.
Proof. intros [a b] [c d] [e f]; unfold lex_le; cbn; lia. Qed.
Lemma lex_le_antisym : forall p q, lex_le p q -> lex_le q p -> p = q.
Proof. intros [a b] [c d]; unfold lex_le; cbn; intros; f_equal; lia. Qed.
Lemma pmax_l : forall p q, lex_le p (pmax p q).
Proof.
  intros [a b] [c d]. unfold pmax, lex_le. cbn.
  destruct (a <? c) eqn:E1; cbn; [apply Z.ltb_lt in E1; lia|].
  destruct (a =? c) eqn:E2; cbn; [|lia]. destruct (b <? d) eqn:E3; cbn; [|lia].
  apply Z.eqb_eq in E2. apply Z.ltb_lt in E3. lia.
Qed.
Lemma pmax_r : forall p q, lex_le q (pmax p q).
Proof.
  intros [a b] [c d]. unfold pmax, lex_le. cbn.
  destruct (a <? c) eqn:E1; cbn; [lia|]. apply Z.ltb_ge in E1.
  destruct (a =? c) eqn:E2; cbn.
  - apply Z.eqb_eq in E2. destruct (b <? d) eqn:E3; cbn; [lia|]. apply Z.ltb_ge in E3. lia.
  - apply Z.eqb_neq in E2. lia.
Qed.
Lemma pmax_cases : forall p q, pmax p q = p \/ pmax p q = q.
Proof. intros p q. unfold pmax. destruct (_ || _); auto. Qed.

Lemma ali_nil_l : forall b, ali [] b 0 0.
Proof. induction b; [constructor|apply ali_gap_r; assumption]. Qed.
Lemma ali_nil_r : forall a, ali a [] 0 0.
Proof. induction a; [constructor|apply ali_gap_l; assumption]. Qed.
Lemma ali_nil_l_inv : forall b l m, ali [] b l m -> l = 0 /\ m = 0.
Proof. induction b; intros l m H; inversion H; subst; auto. Qed.
Lemma ali_nil_r_inv : forall a l m, ali a [] l m -> l = 0 /\ m = 0.
Proof. induction a; intros l m H; inversion H; subst; auto. Qed.

(** reference optimum by structural recursion *)
Fixpoint opt (a b : list N) {struct a} : Z * Z :=
  match a with
  | [] => (0, 0)
  | x :: a' =>
      (fix optb (b : list N) : Z * Z :=
         match b with
         | [] => (0, 0)
         | y :: b' =>
             let d := opt a' b' in
             let m := if N.eqb x y then 1 else 0 in
             pmax (pmax (fst d + m, snd d + (1 - m)) (opt a' b)) (optb b')
         end) b
  end.

Lemma opt_nil_r : forall a, opt a [] = (0, 0).
Proof. destruct a; reflexivity. Qed.
Lemma opt_cons : forall x a y b,
  opt (x :: a) (y :: b) =
  pmax (pmax (fst (opt a b) + (if N.eqb x y then 1 else 0), snd (opt a b) + (1 - (if N.eqb x y then 1 else 0))) (opt a (y :: b)))
       (opt (x :: a) b).
Proof. reflexivity. Qed.

Lemma opt_lex_opt : forall a b, lex_opt a b (opt a b).
Proof.
  induction a as [|x a IHa].
  - intros b. split; [apply ali_nil_l|]. intros l m H. apply ali_nil_l_inv in H. destruct H; subst. apply lex_le_refl.
  - induction b as [|y b IHb].
    + rewrite opt_nil_r. split; [apply ali_nil_r|]. intros l m H. apply ali_nil_r_inv in H. destruct H; subst. apply lex_le_refl.
    + rewrite opt_cons.
      destruct (IHa b) as [D1 D2]. destruct (IHa (y :: b)) as [U1 U2]. destruct IHb as [L1 L2].
      set (dg := (fst (opt a b) + (if N.eqb x y then 1 else 0), snd (opt a b) + (1 - (if N.eqb x y then 1 else 0)))).
      assert (Dg : ali (x :: a) (y :: b) (fst dg) (snd dg)).
      { unfold dg. cbn [fst snd]. destruct (N.eqb_spec x y) as [E|E].
        - subst y. replace (snd (opt a b) + (1 - 1)) with (snd (opt a b)) by lia. apply ali_match. exact D1.
        - replace (fst (opt a b) + 0) with (fst (opt a b)) by lia. replace (snd (opt a b) + (1 - 0)) with (snd (opt a b) + 1) by lia.
          apply ali_mis; assumption. }
      split.
      * destruct (pmax_cases (pmax dg (opt a (y :: b))) (opt (x :: a) b)) as [E|E]; rewrite E.
        -- destruct (pmax_cases dg (opt a (y :: b))) as [E'|E']; rewrite E'; [exact Dg|apply ali_gap_l; exact U1].
        -- apply ali_gap_r. exact L1.
      * intros l m H. inversion H; subst.
        -- eapply lex_le_trans; [apply U2; eassumption|]. eapply lex_le_trans; [apply pmax_r|apply pmax_l].
        -- eapply lex_le_trans; [apply L2; eassumption|]. apply pmax_r.
        -- eapply lex_le_trans; [|apply pmax_l]. eapply lex_le_trans; [|apply pmax_l].
           match goal with Hx : ali a b _ _ |- _ => apply D2 in Hx; revert Hx end.
           unfold dg, lex_le. cbn [fst snd]. rewrite N.eqb_refl. lia.
        -- eapply lex_le_trans; [|apply pmax_l]. eapply lex_le_trans; [|apply pmax_l].
           match goal with Hx : ali a b _ _ |- _ => apply D2 in Hx; revert Hx end.
           unfold dg, lex_le. cbn [fst snd]. destruct (N.eqb_spec x y); [congruence|]. lia.
Qed.

(** alignments read backwards *)
Lemma ali_snoc_gap_l : forall a b l m x, ali a b l m -> ali (a ++ [x]) b l m.
Proof. intros a b l m x H. induction H; cbn; try (constructor; assumption). apply ali_gap_l, ali_nil. Qed.
Lemma ali_snoc_gap_r : forall a b l m y, ali a b l m -> ali a (b ++ [y]) l m.
Proof. intros a b l m y H. induction H; cbn; try (constructor; assumption). apply ali_gap_r, ali_nil. Qed.
Lemma ali_snoc_match : forall a b l m x, ali a b l m -> ali (a ++ [x]) (b ++ [x]) (l + 1) m.
Proof. intros a b l m x H. induction H; cbn; try (constructor; assumption). apply (ali_match x [] [] 0 0), ali_nil. Qed.
Lemma ali_snoc_mis : forall a b l m x y, x <> y -> ali a b l m -> ali (a ++ [x]) (b ++ [y]) l (m + 1).
Proof. intros a b l m x y N H. induction H; cbn; try (constructor; assumption). apply (ali_mis x y [] [] 0 0 N), ali_nil. Qed.
Lemma ali_rev : forall a b l m, ali a b l m -> ali (rev a) (rev b) l m.
Proof.
  intros a b l m H. induction H; cbn [rev].
  - constructor.
  - apply ali_snoc_gap_l; assumption.
  - apply ali_snoc_gap_r; assumption.
  - apply ali_snoc_match; assumption.
  - apply ali_snoc_mis; assumption.
Qed.
Lemma lex_opt_rev : forall a b p, lex_opt (rev a) (rev b) p -> lex_opt a b p.
Proof.
  intros a b p [H1 H2]. split.
  - apply ali_rev in H1. rewrite !rev_involutive in H1. exact H1.
  - intros l m H. apply H2. apply ali_rev. exact H.
Qed.
Lemma lex_opt_functional : forall a b p q, lex_opt a b p -> lex_opt a b q -> p = q.
Proof.
  intros a b [p1 p2] [q1 q2] [A1 A2] [B1 B2]. apply lex_le_antisym; [apply B2; exact A1|apply A2; exact B1].
Qed.
Lemma ali_sym : forall a b l m, ali a b l m -> ali b a l m.
Proof. intros a b l m H. induction H; try (constructor; assumption). apply ali_mis; [congruence|assumption]. Qed.
Lemma ali_bounds : forall a b l m, ali a b l m ->
  0 <= l /\ 0 <= m /\ 2 * l + 2 * m <= Z.of_nat (length a) + Z.of_nat (length b).
Proof. intros a b l m H. induction H; cbn [length]; lia. Qed.

(** the table: row after the prefix whose reverse is [ra] = opt ra (reversed prefixes of b) *)
Fixpoint rprefixes_from (rb : list N) (b : list N) : list (list N) :=
  match b with
  | [] => []
  | y :: t => (y :: rb) :: rprefixes_from (y :: rb) t
  end.
Definition rowspec (ra : list N) (b : list N) : list (Z * Z) := map (opt ra) ([] :: rprefixes_from [] b).

Lemma lcs_row_spec : forall x ra b rb,
  lcs_row x b (map (opt ra) (rprefixes_from rb b)) (opt ra rb) (opt (x :: ra) rb)
  = map (opt (x :: ra)) (rprefixes_from rb b).
Proof.
  intros x ra. induction b as [|y b IH]; intros rb; cbn [rprefixes_from map lcs_row]; [reflexivity|].
  rewrite <- opt_cons. f_equal. apply IH.
Qed.

Lemma table_step : forall x ra b,
  (0, 0) :: lcs_row x b (tl (rowspec ra b)) (hd (0, 0) (rowspec ra b)) (0, 0) = rowspec (x :: ra) b.
Proof.
  intros x ra b. unfold rowspec. cbn [map tl hd].
  pose proof (lcs_row_spec x ra b []) as H. change (opt (x :: ra) []) with (0, 0) in *.
  rewrite H. reflexivity.
Qed.

Lemma table_fold : forall a ra b,
  fold_left (fun prev x => (0, 0) :: lcs_row x b (tl prev) (hd (0, 0) prev) (0, 0)) a (rowspec ra b)
  = rowspec (rev a ++ ra) b.
Proof.
  induction a as [|x a IH]; intros ra b; cbn [fold_left rev app]; [reflexivity|].
  rewrite table_step, IH, <- app_assoc. reflexivity.
Qed.

Lemma rprefixes_last : forall b rb d, last (map (opt d) (rb :: rprefixes_from rb b)) (0, 0) = opt d (rev b ++ rb).
Proof.
  induction b as [|y b IH]; intros rb d; [reflexivity|].
  cbn [rprefixes_from]. change (map (opt d) (rb :: (y :: rb) :: rprefixes_from (y :: rb) b))
    with (opt d rb :: map (opt d) ((y :: rb) :: rprefixes_from (y :: rb) b)).
  cbn [last]. cbn [map]. cbn [map] in IH. rewrite IH. cbn [rev]. rewrite <- app_assoc. reflexivity.
Qed.

Lemma lcs_table_opt : forall a b, last (lcs_table a b) (0, 0) = opt (rev a) (rev b).
Proof.
  intros a b. unfold lcs_table.
  assert (E : map (fun _ : N => (0, 0)) (gap :: b) = rowspec [] b).
  { unfold rowspec. cbn [map]. f_equal.
    assert (G : forall rb, map (fun _ : N => (0, 0)) b = map (opt []) (rprefixes_from rb b)).
    { induction b as [|y b IH]; intros rb; cbn [map rprefixes_from]; [reflexivity|]. f_equal. apply IH. }
    apply G. }
  rewrite E, table_fold, app_nil_r. unfold rowspec. rewrite rprefixes_last, app_nil_r. reflexivity.
Qed.

Theorem lcs_table_optimal : forall a b, lex_opt a b (last (lcs_table a b) (0, 0)).
Proof. intros a b. rewrite lcs_table_opt. apply lex_opt_rev, opt_lex_opt. Qed.

(** the distance the code uses: alignment length - lcs of the shortest alignment among those with a longest
    common subsequence = number of mismatch and gap columns *)
Definition lcs_dist (a b : list N) (d : Z) : Prop :=
  exists p, lex_opt a b p /\ d = Z.of_nat (length a) + Z.of_nat (length b) - 2 * fst p - snd p.

Theorem lcs_d_exact : forall a b, lcs_dist a b (lcs_d a b).
Proof.
  intros a b. exists (last (lcs_table a b) (0, 0)). split; [apply lcs_table_optimal|].
  unfold lcs_d. destruct (last (lcs_table a b) (0, 0)). reflexivity.
Qed.
Theorem lcs_dist_functional : forall a b d d', lcs_dist a b d -> lcs_dist a b d' -> d = d'.
Proof. intros a b d d' (p & P & E) (q & Q & F). rewrite (lex_opt_functional a b p q P Q) in E. congruence. Qed.
Theorem lcs_dist_sym : forall a b d, lcs_dist a b d -> lcs_dist b a d.
Proof.
  intros a b d (p & [P1 P2] & E). exists p. split; [|lia]. split; [apply ali_sym; exact P1|].
  intros l m H. apply P2, ali_sym, H.
Qed.
Theorem lcs_dist_nonneg : forall a b d, lcs_dist a b d -> 0 <= d.
Proof. intros a b d (p & [P1 _] & E). apply ali_bounds in P1. lia. Qed.

Lemma ali_zero_eq : forall a b l m, ali a b l m ->
  m + (Z.of_nat (length a) + Z.of_nat (length b) - 2 * l - 2 * m) = 0 -> a = b.
Proof.
  intros a b l m H. induction H; intros E; cbn [length] in *.
  - reflexivity.
  - apply ali_bounds in H. lia.
  - apply ali_bounds in H. lia.
  - f_equal. apply IHali. lia.
  - apply ali_bounds in H0. lia.
Qed.
Lemma one_diff_cons : forall x a b, one_diff a b -> one_diff (x :: a) (x :: b).
Proof.
  intros x a b H. inversion H; subst.
  - apply (od_sub (x :: p)). assumption.
  - apply (od_del (x :: p)).
  - apply (od_ins (x :: p)).
Qed.
Lemma ali_one_diff : forall a b l m, ali a b l m ->
  m + (Z.of_nat (length a) + Z.of_nat (length b) - 2 * l - 2 * m) = 1 -> one_diff a b.
Proof.
  intros a b l m H. induction H; intros E; cbn [length] in *.
  - lia.
  - assert (a = b) by (eapply ali_zero_eq; [eassumption|lia]). subst b. apply (od_del [] x a).
  - assert (a = b) by (eapply ali_zero_eq; [eassumption|lia]). subst b. apply (od_ins [] y a).
  - apply one_diff_cons, IHali. lia.
  - assert (a = b) by (eapply ali_zero_eq; [eassumption|lia]). subst b. apply (od_sub [] x y a). assumption.
Qed.
Theorem lcs_dist_zero : forall a b, lcs_dist a b 0 -> a = b.
Proof. intros a b (p & [P _] & E). eapply ali_zero_eq; [exact P|lia]. Qed.
Theorem lcs_dist_one : forall a b, lcs_dist a b 1 -> one_diff a b.
Proof. intros a b (p & [P _] & E). eapply ali_one_diff; [exact P|lia]. Qed.
Theorem lcs_dist_far : forall a b d, lcs_dist a b d -> a <> b -> ~ one_diff a b -> 2 <= d.
Proof.
  intros a b d H N1 N2. pose proof (lcs_dist_nonneg a b d H).
  destruct (Z.eq_dec d 0) as [E|E]; [subst; exfalso; apply N1, lcs_dist_zero, H|].
  destruct (Z.eq_dec d 1) as [E1|E1]; [subst; exfalso; apply N2, lcs_dist_one, H|]. lia.
Qed.

(** * extendSimilarityGraph: the links are exactly the pairs within the distance, for every kernel that is
      exact inside its band (obialign.FastLCSScore: property C09) *)
Definition kernel_exact_in_band (kern : Z -> list N -> list N -> Z * Z) : Prop :=
  forall step a b d, 0 < step -> lcs_dist a b d ->
    (d <= step -> 0 <= fst (kern step a b) /\ snd (kern step a b) - fst (kern step a b) = d) /\
    (step < d -> fst (kern step a b) < 0 \/ step < snd (kern step a b) - fst (kern step a b)).

Lemma model_kernel_exact : kernel_exact_in_band model_kernel.
Proof.
  intros step a b d Hs Hd. pose proof (lcs_dist_functional a b _ _ Hd (lcs_d_exact a b)) as E.
  pose proof (lcs_table_optimal a b) as [A _]. apply ali_bounds in A.
  unfold lcs_d in E. unfold model_kernel. destruct (last (lcs_table a b) (0, 0)) as [l m]. cbn [fst snd] in *.
  split; intros H; [split; lia|right; lia].
Qed.

Section Ext.
Variable kern : Z -> list N -> list N -> Z * Z.
Hypothesis kern_exact : kernel_exact_in_band kern.

Lemma ext_row_from_k_spec : forall step son rest j e, 0 < step ->
  In e (ext_row_from_k kern step son j rest) <->
  exists k f d, nth_error rest k = Some f /\ n_seq son <> n_seq f /\ ~ one_diff (n_seq son) (n_seq f) /\
     lcs_dist (n_seq son) (n_seq f) d /\ d <= step /\ e = mke (j + k) gap gap (-1) d.
Proof.
  intros step son rest. induction rest as [|f t IH]; intros j e Hs; cbn [ext_row_from_k].
  - split; [intros []|]. intros (k & f & d & H & _). destruct k; discriminate.
  - assert (Tail : In e (ext_row_from_k kern step son (S j) t) <->
       exists k f0 d, nth_error (f :: t) (S k) = Some f0 /\ n_seq son <> n_seq f0 /\ ~ one_diff (n_seq son) (n_seq f0) /\
         lcs_dist (n_seq son) (n_seq f0) d /\ d <= step /\ e = mke (j + S k) gap gap (-1) d).
    { rewrite (IH (S j) e Hs). split; intros (k & f0 & d & A & B & C & D & E & F); exists k, f0, d; cbn [nth_error] in *;
        (split; [exact A|]; split; [exact B|]; split; [exact C|]; split; [exact D|]; split; [exact E|]); rewrite F; f_equal; lia. }
    pose proof (lcs_d_exact (n_seq son) (n_seq f)) as Hd.
    destruct (kern_exact step (n_seq son) (n_seq f) _ Hs Hd) as [K1 K2].
    assert (Hpos : (0 <? step) = true) by (apply Z.ltb_lt; exact Hs).
    split.
    + intros H.
      assert (Hc : (d1or0 (n_seq son) (n_seq f) = Far /\ lcs_d (n_seq son) (n_seq f) <= step /\
                    e = mke j gap gap (-1) (lcs_d (n_seq son) (n_seq f)))
                   \/ In e (ext_row_from_k kern step son (S j) t)).
      { destruct (d1or0 (n_seq son) (n_seq f)) eqn:E; try (right; exact H).
        destruct (kern step (n_seq son) (n_seq f)) as [lcs lali] eqn:EK. cbn [fst snd] in *.
        rewrite Hpos, andb_true_r in H.
        destruct ((0 <=? lcs) && (lali - lcs <=? step)) eqn:T; [|right; exact H].
        apply andb_true_iff in T. destruct T as [T1 T2]. apply Z.leb_le in T1. apply Z.leb_le in T2.
        destruct H as [H|H]; [|right; exact H]. left. split; [reflexivity|].
        destruct (Z_le_gt_dec (lcs_d (n_seq son) (n_seq f)) step) as [Hle|Hgt].
        - destruct (K1 Hle) as [_ K]. split; [exact Hle|]. rewrite <- K. auto.
        - exfalso. destruct K2 as [K|K]; lia. }
      destruct Hc as [(E & Hle & He)|Hc].
      * apply d1or0_far in E. destruct E as [E1 E2].
        exists 0%nat, f, (lcs_d (n_seq son) (n_seq f)). cbn [nth_error]. rewrite Nat.add_0_r. auto 8.
      * apply Tail in Hc. destruct Hc as (k & f0 & d & Hc). exists (S k), f0, d. exact Hc.
    + intros (k & f0 & d & A & B & C & D & E & F). destruct k as [|k].
      * cbn in A. inversion A; subst f0.
        assert (Far_ : d1or0 (n_seq son) (n_seq f) = Far) by (apply d1or0_far; auto).
        rewrite Far_. pose proof (lcs_dist_functional _ _ _ _ D Hd) as Ed. subst d.
        destruct (K1 E) as [K K']. destruct (kern step (n_seq son) (n_seq f)) as [lcs lali]. cbn [fst snd] in *.
        assert (T1 : (0 <=? lcs) = true) by (apply Z.leb_le; exact K).
        assert (T2 : (lali - lcs <=? step) = true) by (apply Z.leb_le; lia).
        rewrite T1, T2, Hpos. cbn [andb]. left. rewrite F, K'. f_equal. lia.
      * assert (T : In e (ext_row_from_k kern step son (S j) t)) by (apply Tail; exists k, f0, d; auto 8).
        destruct (d1or0 (n_seq son) (n_seq f)); try exact T.
        destruct (kern step (n_seq son) (n_seq f)) as [lcs lali].
        destruct ((0 <=? lcs) && (lali - lcs <=? step) && (0 <? step)); [right|]; exact T.
Qed.

Lemma ext_rows_from_k_nth : forall step l rows1 i r son, length rows1 = length l ->
  nth_error l r = Some son ->
  row_of (ext_rows_from_k kern step i l rows1) r =
  match row_of rows1 r with [] => ext_row_from_k kern step son (S (i + r)) (skipn (S r) l) | _ :: _ => [] end.
Proof.
  induction l as [|x l IH]; intros rows1 i r son HL H.
  - destruct r; discriminate.
  - destruct rows1 as [|r1 rt]; [discriminate|]. cbn [length] in HL.
    destruct r as [|r]; cbn in H.
    + inversion H; subst. unfold row_of. cbn [ext_rows_from_k nth skipn]. rewrite Nat.add_0_r. reflexivity.
    + cbn [ext_rows_from_k]. unfold row_of. cbn [nth]. fold (row_of (ext_rows_from_k kern step (S i) l rt) r). fold (row_of rt r).
      rewrite (IH rt (S i) r son) by (try lia; exact H). cbn [skipn]. replace (S i + r)%nat with (i + S r)%nat by lia. reflexivity.
Qed.

(* [core] the extension links son i (a row left without edge by the first pass) to EVERY later node j of the
   sorted sample (no abundance test: later = at least as abundant) that is neither equal nor one difference
   apart and whose distance is at most step; the edge carries that distance *)
Theorem extended_edges_exact : forall step l rows1 i j son father, 0 < step ->
  length rows1 = length l -> nth_error l i = Some son -> nth_error l j = Some father ->
  forall d,
  (In (mke j gap gap (-1) d) (row_of (ext_rows_k kern step l rows1) i) <->
   (row_of rows1 i = [] /\ (i < j)%nat /\ n_seq son <> n_seq father /\ ~ one_diff (n_seq son) (n_seq father) /\
    lcs_dist (n_seq son) (n_seq father) d /\ d <= step)).
Proof.
  intros step l rows1 i j son father Hs HL Hi Hj d. unfold ext_rows_k.
  rewrite (ext_rows_from_k_nth step l rows1 0 i son HL Hi). cbn [Nat.add].
  destruct (row_of rows1 i) as [|e0 r0] eqn:R.
  - rewrite (ext_row_from_k_spec step son _ (S i) _ Hs). split.
    + intros (k & f & d' & A & B & C & D & E & F). rewrite nth_error_skipn in A. inversion F. subst d'.
      assert (Ej : j = (S i + k)%nat) by lia. subst j. assert (f = father) by congruence. subst f.
      split; [reflexivity|]. split; [lia|]. auto.
    + intros (_ & Hij & B & C & D & E). exists (j - S i)%nat, father, d. rewrite nth_error_skipn.
      replace (S i + (j - S i))%nat with j by lia. auto 8.
  - split; [intros []|]. intros (H & _). discriminate.
Qed.

(* every edge of the extension has this shape *)
Theorem extended_edges_shape : forall step l rows1 i son e, 0 < step ->
  length rows1 = length l -> nth_error l i = Some son -> In e (row_of (ext_rows_k kern step l rows1) i) ->
  exists father, nth_error l (e_father e) = Some father /\ (i < e_father e)%nat /\
    e = mke (e_father e) gap gap (-1) (e_dist e) /\ lcs_dist (n_seq son) (n_seq father) (e_dist e) /\ 2 <= e_dist e <= step.
Proof.
  intros step l rows1 i son e Hs HL Hi He. unfold ext_rows_k in He.
  rewrite (ext_rows_from_k_nth step l rows1 0 i son HL Hi) in He. cbn [Nat.add] in He.
  destruct (row_of rows1 i); [|destruct He].
  apply (ext_row_from_k_spec step son _ (S i) _ Hs) in He. destruct He as (k & f & d & A & B & C & D & E & F).
  rewrite nth_error_skipn in A. subst e. cbn [e_father e_dist]. exists f. split; [exact A|]. split; [lia|].
  split; [reflexivity|]. split; [exact D|]. split; [|exact E].
  eapply lcs_dist_far; eassumption.
Qed.
End Ext.

(** the model's own extension pass is the instance [kern := model_kernel] *)
Lemma ext_row_from_model : forall step son rest j,
  ext_row_from_k model_kernel step son j rest = ext_row_from step son j rest.
Proof.
  intros step son rest. induction rest as [|f t IH]; intros j; cbn [ext_row_from_k ext_row_from]; [reflexivity|].
  rewrite IH. destruct (d1or0 (n_seq son) (n_seq f)); try reflexivity.
  pose proof (lcs_table_optimal (n_seq son) (n_seq f)) as [A _]. apply ali_bounds in A.
  unfold model_kernel, lcs_d. destruct (last (lcs_table (n_seq son) (n_seq f)) (0, 0)) as [l m]. cbn [fst snd] in *.
  assert (T : (0 <=? l) = true) by (apply Z.leb_le; lia). rewrite T. cbn [andb].
  replace (Z.of_nat (length (n_seq son)) + Z.of_nat (length (n_seq f)) - l - m - l)
    with (Z.of_nat (length (n_seq son)) + Z.of_nat (length (n_seq f)) - 2 * l - m) by lia.
  reflexivity.
Qed.
Lemma ext_rows_model : forall step l rows1, ext_rows_k model_kernel step l rows1 = ext_rows step l rows1.
Proof.
  intros step l rows1. unfold ext_rows_k, ext_rows. generalize 0%nat. revert rows1.
  induction l as [|x l IH]; intros rows1 i; destruct rows1 as [|r rt]; cbn [ext_rows_from_k ext_rows_from]; try reflexivity.
  rewrite IH, ext_row_from_model. reflexivity.
Qed.

(* the extension of the model graph: exact, for the sorted sample and the rows of the first pass *)
Theorem model_extended_edges_exact : forall nodes step i j son father d,
  let l := sort_nodes nodes in
  1 < step -> nth_error l i = Some son -> nth_error l j = Some father ->
  (In (mke j gap gap (-1) d) (row_of (ext_rows step l (all_rows l)) i) <->
   (~ has_father l son /\ (i < j)%nat /\ n_seq son <> n_seq father /\ ~ one_diff (n_seq son) (n_seq father) /\
    lcs_dist (n_seq son) (n_seq father) d /\ d <= step)).
Proof.
  intros nodes step i j son father d l Hs Hi Hj. rewrite <- ext_rows_model.
  assert (HL : length (all_rows l) = length l) by (unfold all_rows; apply all_rows_from_length).
  rewrite (extended_edges_exact model_kernel model_kernel_exact step l (all_rows l) i j son father ltac:(lia) HL Hi Hj d).
  pose proof (row_nonempty_iff nodes i son Hi) as R. fold l in R.
  split; intros (A & B); (split; [|exact B]).
  - intros F. apply R in F. apply F. exact A.
  - destruct (row_of (all_rows l) i) eqn:E; [reflexivity|]. exfalso. apply A, R. discriminate.
Qed.

(* no abundance test in the extension: the father is only known to be at least as abundant (later in the
   stably sorted sample); equally abundant sequences are linked from the earlier to the later one *)
Theorem extension_father_at_least_as_abundant : forall nodes step i son e,
  let l := sort_nodes nodes in
  1 < step -> nth_error l i = Some son -> In e (row_of (ext_rows step l (all_rows l)) i) ->
  exists father, nth_error l (e_father e) = Some father /\ (i < e_father e)%nat /\ n_count son <= n_count father /\
    e = mke (e_father e) gap gap (-1) (e_dist e) /\ lcs_dist (n_seq son) (n_seq father) (e_dist e) /\ 2 <= e_dist e <= step.
Proof.
  intros nodes step i son e l Hs Hi He. rewrite <- ext_rows_model in He.
  assert (HL : length (all_rows l) = length l) by (unfold all_rows; apply all_rows_from_length).
  destruct (extended_edges_shape model_kernel model_kernel_exact step l (all_rows l) i son e ltac:(lia) HL Hi He)
    as (f & A & B & C & D & E).
  exists f. split; [exact A|]. split; [exact B|]. split; [|auto].
  apply (sorted_nth l (sort_sorted nodes) i (e_father e) son f); [lia|exact Hi|exact A].
Qed.

(** reweightSequences runs at the end of the first pass only: the weights written with --distance > 1 are
    those of the one-difference graph (the extension edges carry no weight) *)
Lemma zip_out_weights : forall l ws ss rows i,
  map o_weight (zip_out l ws ss rows i) = map (zth ws) (seq i (length l)).
Proof. induction l as [|x l IH]; intros ws ss rows i; cbn [zip_out map length seq o_weight]; [reflexivity|]. f_equal. apply IH. Qed.
Theorem extension_does_not_change_weights : forall nodes step p q,
  option_map (map o_weight) (model_graph_d nodes step p q) = option_map (map o_weight) (model_graph nodes p q).
Proof.
  intros nodes step p q. unfold model_graph, model_graph_d. rewrite Z.ltb_irrefl.
  destruct (1 <? step); [|reflexivity]. unfold finish_graph, finish_graph2.
  destruct (reweight _ _ _) as [w|]; [|reflexivity]. cbn [option_map]. f_equal. unfold finish2.
  repeat match goal with |- context [if ?c then _ else _] => destruct c end;
  repeat match goal with |- context [filter_rows ?a ?b ?c ?d ?e ?f] => destruct (filter_rows a b c d e f) end;
  rewrite !zip_out_weights; reflexivity.
Qed.

(* the direction of a link between equally abundant sequences follows the order of the records in the data
   set: the same two records in the other order exchange internal and head (and the head keeps weight 1) *)
Definition tie_ab : list node := [mkn 0 [97;97;97;97]%N 1; mkn 1 [97;99;99;97]%N 1].
Definition tie_ba : list node := [mkn 1 [97;99;99;97]%N 1; mkn 0 [97;97;97;97]%N 1].
Definition id_status_weight (g : option (list onode)) : list (Z * status * Z) :=
  match g with Some l => map (fun o => (o_id o, o_status o, o_weight o)) l | None => [] end.
Lemma extension_tie_follows_input_order :
  id_status_weight (model_graph_d tie_ab 2 1 1) = [(0, SI, 1); (1, SH, 1)] /\
  id_status_weight (model_graph_d tie_ba 2 1 1) = [(1, SI, 1); (0, SH, 1)].
Proof. split; vm_compute; reflexivity. Qed.

(** * The lost update at --distance 2: the pool of extendSimilarityGraph with the read-then-write increment *)
(* two sequences two substitutions away from a more abundant centre, not linked at distance 1 *)
Definition star2_nodes : list node :=
  [mkn 0 [99;99;97;97;97;97;97;97]%N 1; mkn 1 [97;97;97;97;97;97;99;99]%N 2; mkn 2 [97;97;97;97;97;97;97;97]%N 16].
Definition star2_l : list node := sort_nodes star2_nodes.
Definition star2_rows1 : list (list edge) := all_rows star2_l.
Definition star2_ext : list (list edge) := ext_rows 2 star2_l star2_rows1.
Definition lost_final_d2 : pstate :=
  match prun ReadThenWrite star2_ext 2 lost_sched (pinit_gen (ext_queue star2_rows1) (fun _ => 0)) with
  | Some s => s | None => pinit 0 end.

Lemma lost_update_distance2 :
  star2_rows1 = [[]; []; []] /\
  prun ReadThenWrite star2_ext 2 lost_sched (pinit_gen (ext_queue star2_rows1) (fun _ => 0)) = Some lost_final_d2 /\
  terminal ReadThenWrite star2_ext 2 lost_final_d2 /\
  read_edges 3 lost_final_d2 = star2_ext /\
  read_sons 3 lost_final_d2 = [0; 0; 1] /\ map (fun j => cnt j (concat star2_ext)) (seq 0 3) = [0; 0; 2] /\
  map o_status (match finish_graph2 star2_l star2_rows1 [0; 0; 0] (merge_rows star2_rows1 (read_edges 3 lost_final_d2))
                                    (read_sons 3 lost_final_d2) 1 4 with Some g => g | None => [] end) = [SI; SS; SS] /\
  map o_status (match model_graph_d star2_nodes 2 1 4 with Some g => g | None => [] end) = [SI; SS; SH].
Proof.
  split; [vm_compute; reflexivity|]. split.
  { unfold lost_final_d2.
    destruct (prun ReadThenWrite star2_ext 2 lost_sched (pinit_gen (ext_queue star2_rows1) (fun _ => 0))) eqn:E; [reflexivity|].
    vm_compute in E. discriminate. }
  split.
  { intro w. unfold pstep. destruct (Nat.ltb w 2) eqn:E; [|reflexivity].
    apply Nat.ltb_lt in E. destruct w as [|[|w]]; try lia; vm_compute; reflexivity. }
  repeat split; vm_compute; reflexivity.
Qed.
