(** C13 — lemmas: the D1Or0 kernel is exact, the rows are exactly the one-difference pairs towards
    a strictly more abundant node, every complete run of the atomic pool ends in the same graph,
    the read-then-write pool loses an update. *)
From Coq Require Import List NArith ZArith Bool Arith Lia Sorting.Sorted Sorting.Permutation Wf_nat.
Import ListNotations.
From OBI.C13 Require Import Model.
Open Scope Z_scope.


(** * The one-difference relation and the D1Or0 kernel *)
Inductive one_diff : list N -> list N -> Prop :=
| od_sub : forall p x y s, x <> y -> one_diff (p ++ x :: s) (p ++ y :: s)
| od_del : forall p x s, one_diff (p ++ x :: s) (p ++ s)
| od_ins : forall p x s, one_diff (p ++ s) (p ++ x :: s).

(* the edit reported by the kernel: at [pos] the first sequence has [a1], the second [a2] *)
Definition edit_at (pos : Z) (a1 a2 : N) (s1 s2 : list N) : Prop :=
  exists pre suf, Z.of_nat (length pre) = pos /\
    ((s1 = pre ++ a1 :: suf /\ s2 = pre ++ a2 :: suf /\ a1 <> a2) \/
     (a2 = gap /\ s1 = pre ++ a1 :: suf /\ s2 = pre ++ suf) \/
     (a1 = gap /\ s1 = pre ++ suf /\ s2 = pre ++ a2 :: suf)).

Lemma seq_eqb_eq : forall a b, seq_eqb a b = true <-> a = b.
Proof.
  induction a as [|x a IH]; destruct b as [|y b]; cbn; split; intros H; try reflexivity; try discriminate.
  - apply andb_true_iff in H. destruct H as [H1 H2]. apply N.eqb_eq in H1. apply IH in H2. congruence.
  - inversion H; subst. rewrite N.eqb_refl. cbn. apply IH. reflexivity.
Qed.

Lemma seq_eqb_refl : forall a, seq_eqb a a = true.
Proof. intros. apply seq_eqb_eq. reflexivity. Qed.

Lemma d1or0_at_sound : forall s1 s2 pos p a1 a2, 0 <= pos ->
  d1or0_at pos s1 s2 = One p a1 a2 ->
  exists pre suf, p = pos + Z.of_nat (length pre) /\
    ((s1 = pre ++ a1 :: suf /\ s2 = pre ++ a2 :: suf /\ a1 <> a2) \/
     (a2 = gap /\ s1 = pre ++ a1 :: suf /\ s2 = pre ++ suf) \/
     (a1 = gap /\ s1 = pre ++ suf /\ s2 = pre ++ a2 :: suf)).
Proof.
  induction s1 as [|x t1 IH]; intros s2 pos p a1 a2 Hpos H; destruct s2 as [|y t2]; cbn [d1or0_at] in H.
  - discriminate.
  - destruct t2; [|discriminate]. inversion H; subst. exists [], []. cbn. split; [lia|]. right; right. auto.
  - destruct t1; [|discriminate]. inversion H; subst. exists [], []. cbn. split; [lia|]. right; left. auto.
  - destruct (N.eqb_spec x y) as [->|Hxy].
    + apply IH in H; [|lia]. destruct H as (pre & suf & Hp & Hc). exists (y :: pre), suf.
      split; [cbn [length]; lia|]. cbn [app].
      destruct Hc as [(A & B & C)|[(A & B & C)|(A & B & C)]]; subst; auto.
    + destruct (seq_eqb t1 t2) eqn:E1.
      { apply seq_eqb_eq in E1. inversion H; subst. exists [], t2. cbn. split; [lia|]. left. auto. }
      destruct (seq_eqb t1 (y :: t2)) eqn:E2.
      { apply seq_eqb_eq in E2. inversion H; subst. exists [], (y :: t2). cbn. split; [lia|]. right; left. auto. }
      destruct (seq_eqb (x :: t1) t2) eqn:E3; [|discriminate].
      apply seq_eqb_eq in E3. inversion H; subst. exists [], (x :: t1). cbn. split; [lia|]. right; right. auto.
Qed.

Lemma d1or0_edit : forall s1 s2 p a1 a2, d1or0 s1 s2 = One p a1 a2 -> edit_at p a1 a2 s1 s2.
Proof.
  intros s1 s2 p a1 a2 H. apply d1or0_at_sound in H; [|lia].
  destruct H as (pre & suf & Hp & Hc). exists pre, suf. split; [lia|exact Hc].
Qed.

Lemma edit_one_diff : forall p a1 a2 s1 s2, edit_at p a1 a2 s1 s2 -> one_diff s1 s2.
Proof.
  intros p a1 a2 s1 s2 (pre & suf & _ & [(A & B & C)|[(A & B & C)|(A & B & C)]]); subst; constructor; assumption.
Qed.

Definition is_one (r : d1res) : Prop := exists p a1 a2, r = One p a1 a2.

Lemma d1_skip : forall pre pos r1 r2,
  d1or0_at pos (pre ++ r1) (pre ++ r2) = d1or0_at (pos + Z.of_nat (length pre)) r1 r2.
Proof.
  induction pre as [|x pre IH]; intros pos r1 r2.
  - cbn. f_equal. lia.
  - cbn [app length]. cbn [d1or0_at]. rewrite N.eqb_refl. rewrite IH. f_equal. lia.
Qed.

Lemma d1_del : forall s x pos, is_one (d1or0_at pos (x :: s) s).
Proof.
  induction s as [|y s IH]; intros x pos.
  - cbn. repeat eexists.
  - cbn [d1or0_at]. destruct (N.eqb_spec x y) as [->|Hxy]; [apply IH|].
    destruct (seq_eqb (y :: s) s); [repeat eexists|].
    rewrite seq_eqb_refl. repeat eexists.
Qed.

Lemma d1_ins : forall s x pos, is_one (d1or0_at pos s (x :: s)).
Proof.
  induction s as [|y s IH]; intros x pos.
  - cbn. repeat eexists.
  - cbn [d1or0_at]. destruct (N.eqb_spec y x) as [->|Hxy]; [apply IH|].
    destruct (seq_eqb s (y :: s)); [repeat eexists|].
    destruct (seq_eqb s (x :: y :: s)); [repeat eexists|].
    rewrite seq_eqb_refl. repeat eexists.
Qed.

Lemma one_diff_d1 : forall s1 s2, one_diff s1 s2 -> is_one (d1or0 s1 s2).
Proof.
  intros s1 s2 H. unfold d1or0. destruct H as [p x y s Hxy|p x s|p x s]; rewrite d1_skip.
  - cbn [d1or0_at]. destruct (N.eqb_spec x y); [contradiction|]. rewrite seq_eqb_refl. repeat eexists.
  - apply d1_del.
  - apply d1_ins.
Qed.

Theorem d1or0_exact : forall s1 s2, is_one (d1or0 s1 s2) <-> one_diff s1 s2.
Proof.
  intros; split.
  - intros (p & a1 & a2 & H). eapply edit_one_diff, d1or0_edit, H.
  - apply one_diff_d1.
Qed.

Lemma d1or0_at_same : forall s1 s2 pos, d1or0_at pos s1 s2 = Same <-> s1 = s2.
Proof.
  induction s1 as [|x t1 IH]; intros s2 pos; destruct s2 as [|y t2]; cbn [d1or0_at]; split; intros H; try reflexivity; try discriminate.
  - destruct t2; discriminate.
  - destruct t1; discriminate.
  - destruct (N.eqb_spec x y) as [->|Hxy].
    + apply IH in H. congruence.
    + destruct (seq_eqb t1 t2); [discriminate|]. destruct (seq_eqb t1 (y :: t2)); [discriminate|].
      destruct (seq_eqb (x :: t1) t2); discriminate.
  - inversion H; subst. rewrite N.eqb_refl. apply IH. reflexivity.
Qed.

(** * Sorting *)
Definition le_count (a b : node) : Prop := n_count a <= n_count b.

Lemma insert_perm : forall x l, Permutation (insert_node x l) (x :: l).
Proof.
  induction l as [|y t IH]; cbn; [apply Permutation_refl|].
  destruct (n_count x <=? n_count y); [apply Permutation_refl|].
  eapply perm_trans; [apply perm_skip, IH|apply perm_swap].
Qed.

Lemma sort_perm : forall l, Permutation (sort_nodes l) l.
Proof.
  induction l as [|x l IH]; cbn; [constructor|].
  eapply perm_trans; [apply insert_perm|apply perm_skip, IH].
Qed.

Lemma insert_sorted : forall x l, StronglySorted le_count l -> StronglySorted le_count (insert_node x l).
Proof.
  induction l as [|y t IH]; intros S; cbn.
  - constructor; constructor.
  - inversion S as [|? ? St Fy]; subst. destruct (Z.leb_spec (n_count x) (n_count y)) as [Hle|Hgt].
    + constructor; [exact S|]. constructor; [exact Hle|].
      eapply Forall_impl; [|exact Fy]. intros a Ha. unfold le_count in *. lia.
    + constructor; [apply IH; exact St|].
      eapply Permutation_Forall; [apply Permutation_sym, insert_perm|].
      constructor; [unfold le_count; lia|exact Fy].
Qed.

Lemma sort_sorted : forall l, StronglySorted le_count (sort_nodes l).
Proof. induction l as [|x l IH]; cbn; [constructor|apply insert_sorted, IH]. Qed.

Lemma sorted_nth : forall l, StronglySorted le_count l ->
  forall i j a b, (i <= j)%nat -> nth_error l i = Some a -> nth_error l j = Some b -> n_count a <= n_count b.
Proof.
  induction l as [|x l IH]; intros S i j a b Hij Ha Hb.
  - destruct i; discriminate.
  - inversion S as [|? ? St Fx]; subst. destruct i as [|i]; destruct j as [|j]; cbn in Ha, Hb.
    + inversion Ha; inversion Hb; subst. lia.
    + inversion Ha; subst. rewrite Forall_forall in Fx. apply Fx. eapply nth_error_In; eauto.
    + lia.
    + apply (IH St i j a b); [lia|exact Ha|exact Hb].
Qed.

(** * Rows *)
Lemma row_from_spec : forall son rest j e,
  In e (row_from son j rest) <->
  exists k f pos a1 a2, nth_error rest k = Some f /\ n_count son < n_count f /\
     d1or0 (n_seq son) (n_seq f) = One pos a1 a2 /\ e = mke (j + k) a2 a1 pos 1.
Proof.
  intros son rest. induction rest as [|f t IH]; intros j e; cbn [row_from].
  - split; [intros []|]. intros (k & f & pos & a1 & a2 & H & _). destruct k; discriminate.
  - assert (Tail : In e (row_from son (S j) t) <->
       exists k f0 pos a1 a2, nth_error (f :: t) (S k) = Some f0 /\ n_count son < n_count f0 /\
         d1or0 (n_seq son) (n_seq f0) = One pos a1 a2 /\ e = mke (j + S k) a2 a1 pos 1).
    { rewrite IH. split; intros (k & f0 & pos & a1 & a2 & A & B & C & D); exists k, f0, pos, a1, a2; cbn [nth_error] in *;
        (split; [exact A|]; split; [exact B|]; split; [exact C|]); rewrite D; f_equal; lia. }
    split.
    + intros H.
      assert (Hc : (n_count son < n_count f /\ exists pos a1 a2, d1or0 (n_seq son) (n_seq f) = One pos a1 a2 /\ e = mke j a2 a1 pos 1)
                   \/ In e (row_from son (S j) t)).
      { destruct (Z.ltb_spec (n_count son) (n_count f)) as [Hlt|Hge]; [|right; exact H].
        destruct (d1or0 (n_seq son) (n_seq f)) as [| |pos a1 a2] eqn:E; try (right; exact H).
        destruct H as [H|H]; [|right; exact H]. left. split; [exact Hlt|]. exists pos, a1, a2. auto. }
      destruct Hc as [(Hlt & pos & a1 & a2 & E & He)|Hc].
      * exists 0%nat, f, pos, a1, a2. cbn. rewrite Nat.add_0_r. auto.
      * apply Tail in Hc. destruct Hc as (k & f0 & pos & a1 & a2 & Hc). exists (S k), f0, pos, a1, a2. exact Hc.
    + intros (k & f0 & pos & a1 & a2 & A & B & C & D). destruct k as [|k].
      * cbn in A. inversion A; subst f0. apply Z.ltb_lt in B. rewrite B, C. left. rewrite D. f_equal. lia.
      * assert (T : In e (row_from son (S j) t)) by (apply Tail; exists k, f0, pos, a1, a2; auto).
        destruct (n_count son <? n_count f); [|exact T].
        destruct (d1or0 (n_seq son) (n_seq f)); try exact T. right; exact T.
Qed.

Lemma all_rows_from_nth : forall l i r son,
  nth_error l r = Some son ->
  row_of (all_rows_from i l) r = row_from son (S (i + r)) (skipn (S r) l).
Proof.
  induction l as [|x l IH]; intros i r son H.
  - destruct r; discriminate.
  - destruct r as [|r]; cbn in H.
    + inversion H; subst. cbn. rewrite Nat.add_0_r. reflexivity.
    + cbn [all_rows_from]. unfold row_of. cbn [nth]. fold (row_of (all_rows_from (S i) l) r).
      rewrite (IH (S i) r son H). cbn [skipn]. f_equal. lia.
Qed.

Lemma nth_error_skipn : forall (A : Type) (l : list A) a k, nth_error (skipn a l) k = nth_error l (a + k).
Proof.
  induction l as [|x l IH]; intros a k.
  - rewrite skipn_nil. destruct k, a; reflexivity.
  - destruct a; [reflexivity|]. cbn. apply IH.
Qed.

Theorem edges_exact : forall nodes i j son father,
  let l := sort_nodes nodes in
  nth_error l i = Some son -> nth_error l j = Some father ->
  ((exists e, In e (row_of (all_rows l) i) /\ e_father e = j) <->
   (n_count son < n_count father /\ one_diff (n_seq son) (n_seq father))).
Proof.
  intros nodes i j son father l Hi Hj. unfold all_rows. rewrite (all_rows_from_nth l 0 i son Hi). cbn [Nat.add].
  split.
  - intros (e & He & Hf). apply row_from_spec in He.
    destruct He as (k & f & pos & a1 & a2 & A & B & C & D). rewrite nth_error_skipn in A.
    subst e. cbn [e_father] in Hf. rewrite Hf in A. assert (Ef : f = father) by congruence.
    subst f. split; [exact B|]. apply d1or0_exact. exists pos, a1, a2. exact C.
  - intros (Hlt & Hod).
    assert (Hij : (i < j)%nat).
    { destruct (le_lt_dec j i) as [Hle|Hlt']; [|exact Hlt'].
      pose proof (sorted_nth l (sort_sorted nodes) j i father son Hle Hj Hi). lia. }
    apply d1or0_exact in Hod. destruct Hod as (pos & a1 & a2 & Hd).
    exists (mke j a2 a1 pos 1). split; [|reflexivity]. apply row_from_spec.
    exists (j - S i)%nat, father, pos, a1, a2. rewrite nth_error_skipn.
    replace (S i + (j - S i))%nat with j by lia. auto.
Qed.

Theorem edge_is_the_edit : forall nodes i son e,
  let l := sort_nodes nodes in
  nth_error l i = Some son -> In e (row_of (all_rows l) i) ->
  exists father, nth_error l (e_father e) = Some father /\ (i < e_father e)%nat /\
    n_count son < n_count father /\ e_dist e = 1 /\
    edit_at (e_pos e) (e_to e) (e_from e) (n_seq son) (n_seq father).
Proof.
  intros nodes i son e l Hi He. unfold all_rows in He. rewrite (all_rows_from_nth l 0 i son Hi) in He.
  apply row_from_spec in He. destruct He as (k & f & pos & a1 & a2 & A & B & C & D).
  rewrite nth_error_skipn in A. subst e. cbn. exists f. split; [exact A|]. split; [lia|]. split; [exact B|].
  split; [reflexivity|]. apply d1or0_edit. exact C.
Qed.


(** * Schedule independence of the pool with atomic increments *)
Fixpoint total (f : nat -> Z) (n : nat) : Z :=
  match n with O => 0 | S m => total f m + f m end.

Lemma total_ext : forall f g n, (forall i, (i < n)%nat -> f i = g i) -> total f n = total g n.
Proof.
  induction n as [|n IH]; intros H; cbn [total]; [reflexivity|].
  rewrite IH by (intros; apply H; lia). rewrite H by lia. reflexivity.
Qed.

Lemma total_zero : forall n, total (fun _ => 0) n = 0.
Proof. induction n as [|n IH]; cbn [total]; lia. Qed.

Lemma total_upd : forall (f : nat -> Z) i v n, (i < n)%nat ->
  total (upd f i v) n = total f n - f i + v.
Proof.
  induction n as [|n IH]; intros Hi; [lia|]. cbn [total].
  destruct (Nat.eq_dec i n) as [->|Hne].
  - assert (E : total (upd f n v) n = total f n).
    { apply total_ext. intros j Hj. unfold upd. destruct (Nat.eqb_spec j n); [lia|reflexivity]. }
    rewrite E. unfold upd. rewrite Nat.eqb_refl. lia.
  - rewrite IH by lia. unfold upd. destruct (Nat.eqb_spec n i); [lia|]. lia.
Qed.

Lemma cnt_app : forall j a b, cnt j (a ++ b) = cnt j a + cnt j b.
Proof. intros. unfold cnt. rewrite filter_app, app_length. lia. Qed.

Lemma cnt_nil : forall j, cnt j [] = 0.
Proof. reflexivity. Qed.

Lemma cnt_one : forall j e, cnt j [e] = if Nat.eqb (e_father e) j then 1 else 0.
Proof. intros. unfold cnt. cbn. destruct (Nat.eqb (e_father e) j); reflexivity. Qed.

Lemma cnt_concat_total : forall j (rows : list (list edge)),
  cnt j (concat rows) = total (fun i => cnt j (row_of rows i)) (length rows).
Proof.
  intros j rows. induction rows as [|r rows IH] using rev_ind; [reflexivity|].
  rewrite concat_app, cnt_app, app_length. cbn [length concat]. rewrite Nat.add_1_r. cbn [total].
  rewrite app_nil_r. unfold row_of at 2. rewrite app_nth2 by lia. rewrite Nat.sub_diag. cbn [nth].
  rewrite IH. f_equal. apply total_ext. intros i Hi. unfold row_of. rewrite app_nth1 by lia. reflexivity.
Qed.

Lemma map_row_of_seq : forall (l : list (list edge)), map (row_of l) (seq 0 (length l)) = l.
Proof.
  induction l as [|a l IH]; [reflexivity|]. cbn [length seq map]. rewrite <- seq_shift, map_map.
  unfold row_of at 1. cbn [nth]. f_equal. exact IH.
Qed.

Definition owner (x : wstate) : option nat :=
  match x with Idle => None | Working i _ => Some i | Loaded i _ _ _ => Some i end.

Definition terminal (k : inc_kind) (rows : list (list edge)) (nw : nat) (s : pstate) : Prop :=
  forall w, pstep k rows nw w s = None.

Section Pool.
Variable rows : list (list edge).
Variable nw : nat.
Let n := length rows.
(* initial channel content (the rows that are dispatched) and initial counters:
   buildSamplePairs: every row, counters 0; extendSimilarityGraph: the rows without edge, the counters left by the first pass *)
Variable q0 : list nat.
Variable s0 : nat -> Z.
Hypothesis q0_nodup : NoDup q0.
Hypothesis q0_lt : forall i, In i q0 -> (i < n)%nat.
Hypothesis rows_q0 : forall i, ~ In i q0 -> row_of rows i = [].

Record Inv (s : pstate) : Prop := {
  I_nodup : NoDup (queue s);
  I_q : forall i, In i (queue s) ->
        (i < n)%nat /\ edges s i = [] /\ forall w, owner (ws s w) <> Some i;
  I_w : forall w i todo, ws s w = Working i todo ->
        (i < n)%nat /\ edges s i ++ todo = row_of rows i /\ ~ In i (queue s) /\
        forall w', w' <> w -> owner (ws s w') <> Some i;
  I_nl : forall w i t f v, ws s w <> Loaded i t f v;
  I_out : forall w, (nw <= w)%nat -> ws s w = Idle;
  I_done : forall i, ~ In i (queue s) -> (forall w, owner (ws s w) <> Some i) -> edges s i = row_of rows i;
  I_sons : forall j, sons s j = s0 j + total (fun i => cnt j (edges s i)) n }.

Lemma inv_init : Inv (pinit_gen q0 s0).
Proof.
  constructor; cbn.
  - exact q0_nodup.
  - intros i Hi. split; [apply q0_lt; exact Hi|]. split; [reflexivity|]. intros w; cbn; discriminate.
  - intros; discriminate.
  - intros; discriminate.
  - reflexivity.
  - intros i Hi _. symmetry. apply rows_q0. exact Hi.
  - intros j. erewrite total_ext; [rewrite total_zero; lia|]. reflexivity.
Qed.

Lemma inv_step : forall s w s', Inv s -> pstep Atomic rows nw w s = Some s' -> Inv s'.
Proof.
  intros s w s' I H. unfold pstep in H.
  destruct (Nat.ltb w nw) eqn:Hw; [|discriminate]. apply Nat.ltb_lt in Hw.
  destruct (ws s w) as [|i todo|i todo f v] eqn:Ew.
  - (* take *)
    destruct (queue s) as [|i q] eqn:Eq; [discriminate|]. inversion H; subst s'; clear H.
    pose proof (I_nodup s I) as ND. rewrite Eq in ND. inversion ND as [|? ? Hni NDq]; subst.
    destruct (I_q s I i) as (Hin & Hei & Hoi); [rewrite Eq; left; reflexivity|].
    constructor; cbn.
    + exact NDq.
    + intros i' Hi'. destruct (I_q s I i') as (A & B & C); [rewrite Eq; right; exact Hi'|].
      split; [exact A|]. split; [exact B|]. intros w0. unfold upd. destruct (Nat.eqb_spec w0 w).
      * cbn. intros E; inversion E; subst. contradiction.
      * apply C.
    + intros w0 i0 todo0. unfold upd. destruct (Nat.eqb_spec w0 w) as [->|Hne].
      * intros E; inversion E; subst. split; [exact Hin|]. split; [rewrite Hei; reflexivity|].
        split; [exact Hni|]. intros w' Hw'. destruct (Nat.eqb_spec w' w); [contradiction|]. apply Hoi.
      * intros E. destruct (I_w s I w0 i0 todo0 E) as (A & B & C & D). rewrite Eq in C.
        split; [exact A|]. split; [exact B|]. split; [intro X; apply C; right; exact X|].
        intros w' Hw'. destruct (Nat.eqb_spec w' w) as [->|].
        -- cbn. intros X; inversion X; subst. apply C. left; reflexivity.
        -- apply D; exact Hw'.
    + intros w0 i0 t0 f0 v0. unfold upd. destruct (Nat.eqb_spec w0 w); [discriminate|]. apply (I_nl s I).
    + intros w0 Hw0. unfold upd. destruct (Nat.eqb_spec w0 w); [lia|]. apply (I_out s I); exact Hw0.
    + intros i' Hq' Ho'.
      assert (Hne : i' <> i).
      { intros ->. apply (Ho' w). unfold upd. rewrite Nat.eqb_refl. reflexivity. }
      apply (I_done s I).
      * rewrite Eq. intros [X|X]; [congruence|contradiction].
      * intros w0. specialize (Ho' w0). unfold upd in Ho'. destruct (Nat.eqb_spec w0 w) as [E0|E0].
        -- rewrite E0, Ew. discriminate.
        -- exact Ho'.
    + apply (I_sons s I).
  - destruct todo as [|e todo].
    + (* finish the row *)
      inversion H; subst s'; clear H.
      destruct (I_w s I w i [] Ew) as (Hin & Hrow & Hnq & Hoth). rewrite app_nil_r in Hrow.
      constructor; cbn.
      * apply (I_nodup s I).
      * intros i' Hi'. destruct (I_q s I i' Hi') as (A & B & C). split; [exact A|]. split; [exact B|].
        intros w0. unfold upd. destruct (Nat.eqb_spec w0 w); [discriminate|apply C].
      * intros w0 i0 todo0. unfold upd. destruct (Nat.eqb_spec w0 w) as [->|Hne]; [discriminate|].
        intros E. destruct (I_w s I w0 i0 todo0 E) as (A & B & C & D).
        split; [exact A|]. split; [exact B|]. split; [exact C|].
        intros w' Hw'. destruct (Nat.eqb_spec w' w); [discriminate|]. apply D; exact Hw'.
      * intros w0 i0 t0 f0 v0. unfold upd. destruct (Nat.eqb_spec w0 w); [discriminate|]. apply (I_nl s I).
      * intros w0 Hw0. unfold upd. destruct (Nat.eqb_spec w0 w); [reflexivity|]. apply (I_out s I); exact Hw0.
      * intros i' Hq' Ho'. destruct (Nat.eq_dec i' i) as [->|Hne]; [exact Hrow|].
        apply (I_done s I); [exact Hq'|]. intros w0. specialize (Ho' w0). unfold upd in Ho'.
        destruct (Nat.eqb_spec w0 w) as [E0|E0]; [rewrite E0, Ew; cbn; congruence|exact Ho'].
      * apply (I_sons s I).
    + (* emit one edge and increment its father *)
      inversion H; subst s'; clear H.
      destruct (I_w s I w i (e :: todo) Ew) as (Hin & Hrow & Hnq & Hoth).
      constructor; cbn.
      * apply (I_nodup s I).
      * intros i' Hi'. destruct (I_q s I i' Hi') as (A & B & C). split; [exact A|].
        assert (Hne : i' <> i) by (intros ->; contradiction).
        split.
        -- unfold upd. destruct (Nat.eqb_spec i' i); [contradiction|exact B].
        -- intros w0. unfold upd. destruct (Nat.eqb_spec w0 w); [cbn; congruence|apply C].
      * intros w0 i0 todo0. unfold upd at 1. destruct (Nat.eqb_spec w0 w) as [->|Hne].
        -- intros E; inversion E; subst. split; [exact Hin|]. split.
           ++ unfold upd. rewrite Nat.eqb_refl. rewrite <- app_assoc. exact Hrow.
           ++ split; [exact Hnq|]. intros w' Hw'. unfold upd. destruct (Nat.eqb_spec w' w); [contradiction|].
              apply Hoth; exact Hw'.
        -- intros E. destruct (I_w s I w0 i0 todo0 E) as (A & B & C & D).
           assert (Hi0 : i0 <> i).
           { intros ->. apply (Hoth w0 Hne). rewrite E. reflexivity. }
           split; [exact A|]. split.
           ++ unfold upd. destruct (Nat.eqb_spec i0 i); [contradiction|exact B].
           ++ split; [exact C|]. intros w' Hw'. unfold upd. destruct (Nat.eqb_spec w' w) as [->|].
              ** cbn. congruence.
              ** apply D; exact Hw'.
      * intros w0 i0 t0 f0 v0. unfold upd. destruct (Nat.eqb_spec w0 w); [discriminate|]. apply (I_nl s I).
      * intros w0 Hw0. unfold upd. destruct (Nat.eqb_spec w0 w); [lia|]. apply (I_out s I); exact Hw0.
      * intros i' Hq' Ho'.
        assert (Hne : i' <> i).
        { intros ->. apply (Ho' w). unfold upd. rewrite Nat.eqb_refl. reflexivity. }
        unfold upd at 1. destruct (Nat.eqb_spec i' i); [contradiction|].
        apply (I_done s I); [exact Hq'|]. intros w0. specialize (Ho' w0). unfold upd in Ho'.
        destruct (Nat.eqb_spec w0 w) as [E0|E0]; [rewrite E0, Ew; cbn; congruence|exact Ho'].
      * intros j.
        assert (E : total (fun i0 => cnt j (upd (edges s) i (edges s i ++ [e]) i0)) n =
                    total (upd (fun i0 => cnt j (edges s i0)) i (cnt j (edges s i ++ [e]))) n).
        { apply total_ext. intros i0 _. unfold upd. destruct (Nat.eqb i0 i); reflexivity. }
        rewrite E, total_upd by exact Hin. rewrite cnt_app, cnt_one.
        pose proof (I_sons s I j) as Sj. pose proof (I_sons s I (e_father e)) as Sf.
        unfold upd. destruct (Nat.eqb_spec j (e_father e)) as [->|Hj].
        -- rewrite Nat.eqb_refl. lia.
        -- destruct (Nat.eqb_spec (e_father e) j); [congruence|]. lia.
  - exfalso. apply (I_nl s I w i todo f v Ew).
Qed.

Lemma inv_run : forall sched s s', Inv s -> prun Atomic rows nw sched s = Some s' -> Inv s'.
Proof.
  induction sched as [|w t IH]; intros s s' I H; cbn in H.
  - inversion H; subst; exact I.
  - destruct (pstep Atomic rows nw w s) as [s1|] eqn:E; [|discriminate].
    apply (IH s1); [eapply inv_step; eauto|exact H].
Qed.

Lemma inv_terminal : forall s, (1 <= nw)%nat -> Inv s -> terminal Atomic rows nw s ->
  (forall i, edges s i = row_of rows i) /\ (forall j, sons s j = s0 j + cnt j (concat rows)).
Proof.
  intros s Hnw I T.
  assert (Hidle : forall w, ws s w = Idle).
  { intros w. destruct (le_lt_dec nw w) as [H|H]; [apply (I_out s I); exact H|].
    specialize (T w). unfold pstep in T. apply Nat.ltb_lt in H. rewrite H in T.
    destruct (ws s w) as [|i [|e todo]|i todo f v]; try discriminate. reflexivity. }
  assert (Hq : queue s = []).
  { specialize (T 0%nat). unfold pstep in T. assert (H : Nat.ltb 0 nw = true) by (apply Nat.ltb_lt; lia).
    rewrite H, Hidle in T. destruct (queue s); [reflexivity|discriminate]. }
  assert (He : forall i, edges s i = row_of rows i).
  { intros i. apply (I_done s I); [rewrite Hq; intros []|]. intros w. rewrite Hidle. discriminate. }
  split; [exact He|]. intros j. rewrite (I_sons s I j), cnt_concat_total. f_equal.
  apply total_ext. intros i _. rewrite He. reflexivity.
Qed.

Theorem schedule_independent_gen : forall sched s, (1 <= nw)%nat ->
  prun Atomic rows nw sched (pinit_gen q0 s0) = Some s -> terminal Atomic rows nw s ->
  read_edges n s = rows /\ read_sons n s = map (fun j => s0 j + cnt j (concat rows)) (seq 0 n).
Proof.
  intros sched s Hnw R T.
  destruct (inv_terminal s Hnw (inv_run sched _ _ inv_init R) T) as (He & Hs).
  split.
  - unfold read_edges. rewrite (map_ext _ _ He). apply map_row_of_seq.
  - unfold read_sons. apply map_ext. exact Hs.
Qed.
End Pool.

(* buildSamplePairs: every row is dispatched, the counters start at 0 *)
Theorem schedule_independent : forall rows nw sched s, (1 <= nw)%nat ->
  prun Atomic rows nw sched (pinit (length rows)) = Some s -> terminal Atomic rows nw s ->
  read_edges (length rows) s = rows /\ read_sons (length rows) s = son_counts (length rows) rows.
Proof.
  intros rows nw sched s Hnw R T.
  assert (Q : forall i, ~ In i (seq 0 (length rows)) -> row_of rows i = []).
  { intros i Hi. unfold row_of. apply nth_overflow.
    destruct (le_lt_dec (length rows) i) as [H|H]; [exact H|]. exfalso. apply Hi. apply in_seq. lia. }
  assert (L : forall i, In i (seq 0 (length rows)) -> (i < length rows)%nat) by (intros i Hi; apply in_seq in Hi; lia).
  destruct (schedule_independent_gen rows nw (seq 0 (length rows)) (fun _ => 0) (seq_NoDup _ _) L Q sched s Hnw R T) as (A & B).
  split; [exact A|]. rewrite B. unfold son_counts. apply map_ext. intros j. lia.
Qed.

Lemma pool_invariant : forall rows nw sched s,
  prun Atomic rows nw sched (pinit (length rows)) = Some s -> Inv rows nw (fun _ => 0) s.
Proof.
  intros rows nw sched s R.
  assert (Q : forall i, ~ In i (seq 0 (length rows)) -> row_of rows i = []).
  { intros i Hi. unfold row_of. apply nth_overflow.
    destruct (le_lt_dec (length rows) i) as [H|H]; [exact H|]. exfalso. apply Hi. apply in_seq. lia. }
  assert (L : forall i, In i (seq 0 (length rows)) -> (i < length rows)%nat) by (intros i Hi; apply in_seq in Hi; lia).
  eapply inv_run; [|exact R]. apply inv_init; [apply seq_NoDup|exact L|exact Q].
Qed.

(** * The lost update: witness for the unsynchronised [father.SonCount++] *)
(* rows of a 3-node star: nodes 0 and 1 both point to node 2 *)
Definition star_rows : list (list edge) :=
  [[mke 2 97%N 99%N 0 1]; [mke 2 97%N 103%N 0 1]; []].
(* take, take, read, read, write, write, finish, finish, take row 2, finish *)
Definition lost_sched : list nat := [0;1;0;1;0;1;0;1;0;0]%nat.
Definition lost_final : pstate :=
  match prun ReadThenWrite star_rows 2 lost_sched (pinit 3) with Some s => s | None => pinit 0 end.

Lemma lost_update :
  prun ReadThenWrite star_rows 2 lost_sched (pinit 3) = Some lost_final /\
  terminal ReadThenWrite star_rows 2 lost_final /\
  read_edges 3 lost_final = star_rows /\
  read_sons 3 lost_final = [0; 0; 1] /\ son_counts 3 star_rows = [0; 0; 2].
Proof.
  split.
  { unfold lost_final. destruct (prun ReadThenWrite star_rows 2 lost_sched (pinit 3)) eqn:E; [reflexivity|].
    vm_compute in E. discriminate. }
  split.
  { intro w. unfold pstep. destruct (Nat.ltb w 2) eqn:E; [|reflexivity].
    apply Nat.ltb_lt in E. destruct w as [|[|w]]; try lia; vm_compute; reflexivity. }
  split; [|split]; vm_compute; reflexivity.
Qed.


Lemma all_rows_from_length : forall l i, length (all_rows_from i l) = length l.
Proof. induction l as [|x l IH]; intros i; cbn; [reflexivity|]. rewrite IH. reflexivity. Qed.

(** the whole output of a sample after any complete atomic run is the model graph *)
Theorem output_independent : forall nodes p q nw sched s,
  let l := sort_nodes nodes in
  let rows := all_rows l in
  (1 <= nw)%nat ->
  prun Atomic rows nw sched (pinit (length l)) = Some s -> terminal Atomic rows nw s ->
  finish_graph l (read_edges (length l) s) (read_sons (length l) s) p q = model_graph nodes p q.
Proof.
  intros nodes p q nw sched s l rows Hnw R T.
  assert (Len : length rows = length l) by (unfold rows, all_rows; apply all_rows_from_length).
  rewrite <- Len in R.
  destruct (schedule_independent rows nw sched s Hnw R T) as (A & B).
  rewrite Len in A, B. rewrite A, B. reflexivity.
Qed.

(** * Status *)
Lemma cnt_pos : forall j l, 0 < cnt j l <-> exists e, In e l /\ e_father e = j.
Proof.
  intros j l. unfold cnt. split.
  - intros H. destruct (filter (fun e => Nat.eqb (e_father e) j) l) as [|e t] eqn:E; [cbn in H; lia|].
    assert (I : In e (filter (fun e => Nat.eqb (e_father e) j) l)) by (rewrite E; left; reflexivity).
    apply filter_In in I. destruct I as [I1 I2]. exists e. split; [exact I1|]. apply Nat.eqb_eq. exact I2.
  - intros (e & I & F).
    assert (I' : In e (filter (fun e => Nat.eqb (e_father e) j) l)) by (apply filter_In; split; [exact I|apply Nat.eqb_eq; exact F]).
    destruct (filter (fun e => Nat.eqb (e_father e) j) l); [destruct I'|cbn; lia].
Qed.

Lemma in_concat_rows : forall (rows : list (list edge)) e,
  In e (concat rows) <-> exists r, (r < length rows)%nat /\ In e (row_of rows r).
Proof.
  intros rows e. rewrite in_concat. split.
  - intros (x & Hx & He). destruct (In_nth _ _ [] Hx) as (r & Hr & Hn). exists r. split; [exact Hr|].
    unfold row_of. rewrite Hn. exact He.
  - intros (r & Hr & He). exists (row_of rows r). split; [apply nth_In; exact Hr|exact He].
Qed.

Definition has_father (l : list node) (x : node) : Prop :=
  exists f, In f l /\ n_count x < n_count f /\ one_diff (n_seq x) (n_seq f).
Definition has_son (l : list node) (x : node) : Prop :=
  exists s, In s l /\ n_count s < n_count x /\ one_diff (n_seq s) (n_seq x).

Lemma row_nonempty_iff : forall nodes i x,
  let l := sort_nodes nodes in
  nth_error l i = Some x ->
  (row_of (all_rows l) i <> [] <-> has_father l x).
Proof.
  intros nodes i x l Hi. split.
  - intros H. destruct (row_of (all_rows l) i) as [|e t] eqn:E; [congruence|].
    assert (I : In e (row_of (all_rows l) i)) by (rewrite E; left; reflexivity).
    destruct (edge_is_the_edit nodes i x e Hi I) as (f & Hf & _ & Hc & _ & He).
    exists f. split; [eapply nth_error_In; exact Hf|]. split; [exact Hc|]. eapply edit_one_diff; exact He.
  - intros (f & Hf & Hc & Hd). apply In_nth_error in Hf. destruct Hf as (j & Hj).
    destruct (proj2 (edges_exact nodes i j x f Hi Hj) (conj Hc Hd)) as (e & He & _).
    intros E. fold l in He. rewrite E in He. destruct He.
Qed.

Lemma sons_pos_iff : forall nodes j x,
  let l := sort_nodes nodes in
  nth_error l j = Some x ->
  (0 < cnt j (concat (all_rows l)) <-> has_son l x).
Proof.
  intros nodes j x l Hj. rewrite cnt_pos. split.
  - intros (e & He & Hf). apply in_concat_rows in He. destruct He as (r & Hr & He).
    unfold all_rows in Hr. rewrite all_rows_from_length in Hr.
    destruct (nth_error l r) as [s|] eqn:Er; [|apply nth_error_None in Er; lia].
    destruct (edge_is_the_edit nodes r s e Er He) as (f & Hf' & _ & Hc & _ & Hed).
    fold l in Hf'. rewrite Hf in Hf'. assert (f = x) by congruence. subst f.
    exists s. split; [eapply nth_error_In; exact Er|]. split; [exact Hc|]. eapply edit_one_diff; exact Hed.
  - intros (s & Hs & Hc & Hd). apply In_nth_error in Hs. destruct Hs as (r & Hr).
    destruct (proj2 (edges_exact nodes r j s x Hr Hj) (conj Hc Hd)) as (e & He & Hf).
    exists e. split; [|exact Hf]. apply in_concat_rows. exists r. split; [|exact He].
    unfold all_rows. rewrite all_rows_from_length. apply nth_error_Some. fold l. congruence.
Qed.

(* status without ratio filter: internal iff it has a more abundant one-difference neighbour, head iff
   it has none but is such a neighbour of somebody, singleton otherwise *)
Theorem status_exact : forall nodes i x,
  let l := sort_nodes nodes in
  let st := status_of (row_of (all_rows l) i) (cnt i (concat (all_rows l))) in
  nth_error l i = Some x ->
  (st = SI <-> has_father l x) /\
  (st = SH <-> ~ has_father l x /\ has_son l x) /\
  (st = SS <-> ~ has_father l x /\ ~ has_son l x).
Proof.
  intros nodes i x l st Hi.
  pose proof (row_nonempty_iff nodes i x Hi) as RF. pose proof (sons_pos_iff nodes i x Hi) as SP.
  fold l in RF, SP. unfold st, status_of.
  destruct (row_of (all_rows l) i) as [|e t] eqn:E.
  - assert (NF : ~ has_father l x) by (intros F; apply RF in F; congruence).
    destruct (Z.ltb_spec 0 (cnt i (concat (all_rows l)))) as [Hp|Hn].
    + apply SP in Hp. repeat split; try discriminate; try tauto.
    + assert (NS : ~ has_son l x) by (intros S; apply SP in S; lia).
      repeat split; try discriminate; try tauto.
  - assert (F : has_father l x) by (apply RF; discriminate).
    repeat split; try discriminate; try tauto.
Qed.

(** * The lost update changes the written status *)
Definition star_nodes : list node :=
  [mkn 0 [97;99;103;116]%N 1; mkn 1 [97;97;103;99]%N 4; mkn 2 [97;97;103;116]%N 5].
Definition star_rows2 : list (list edge) := all_rows (sort_nodes star_nodes).
Definition lost_final2 : pstate :=
  match prun ReadThenWrite star_rows2 2 lost_sched (pinit 3) with Some s => s | None => pinit 0 end.

Lemma lost_update_changes_status :
  prun ReadThenWrite star_rows2 2 lost_sched (pinit 3) = Some lost_final2 /\
  terminal ReadThenWrite star_rows2 2 lost_final2 /\
  map o_status (match finish_graph (sort_nodes star_nodes) (read_edges 3 lost_final2) (read_sons 3 lost_final2) 1 4
                with Some g => g | None => [] end) = [SI; SS; SS] /\
  map o_status (match model_graph star_nodes 1 4 with Some g => g | None => [] end) = [SI; SS; SH].
Proof.
  split.
  { unfold lost_final2. destruct (prun ReadThenWrite star_rows2 2 lost_sched (pinit 3)) eqn:E; [reflexivity|].
    vm_compute in E. discriminate. }
  split.
  { intro w. unfold pstep. destruct (Nat.ltb w 2) eqn:E; [|reflexivity].
    apply Nat.ltb_lt in E. destruct w as [|[|w]]; try lia; vm_compute; reflexivity. }
  split; vm_compute; reflexivity.
Qed.

(** * Every run is finite: a measure that decreases at every step *)
Definition wmeasure (x : wstate) : nat :=
  match x with
  | Idle => 0
  | Working _ todo => 1 + 2 * length todo
  | Loaded _ todo _ _ => 2 + 2 * length todo
  end.
Fixpoint wsum (f : nat -> wstate) (n : nat) : nat :=
  match n with O => 0 | S m => wsum f m + wmeasure (f m) end.
Definition qmeasure (rows : list (list edge)) (q : list nat) : nat :=
  fold_right (fun i a => 2 + 2 * length (row_of rows i) + a)%nat 0%nat q.
Definition measure (rows : list (list edge)) (nw : nat) (s : pstate) : nat :=
  (qmeasure rows (queue s) + wsum (ws s) nw)%nat.

Lemma wsum_upd : forall f w v n, (w < n)%nat ->
  (wsum (upd f w v) n + wmeasure (f w) = wsum f n + wmeasure v)%nat.
Proof.
  induction n as [|n IH]; intros Hw; [lia|]. cbn [wsum].
  destruct (Nat.eq_dec w n) as [->|Hne].
  - unfold upd at 2. rewrite Nat.eqb_refl.
    assert (E2 : forall m, (m <= n)%nat -> wsum (upd f n v) m = wsum f m).
    { induction m as [|m IHm]; intros Hm; [reflexivity|]. cbn [wsum]. rewrite IHm by lia.
      unfold upd. destruct (Nat.eqb_spec m n); [lia|reflexivity]. }
    rewrite (E2 n) by lia. lia.
  - assert (IH' := IH ltac:(lia)). unfold upd at 2. destruct (Nat.eqb_spec n w); [lia|]. lia.
Qed.

Lemma step_decreases : forall k rows nw w s s',
  pstep k rows nw w s = Some s' -> (measure rows nw s' < measure rows nw s)%nat.
Proof.
  intros k rows nw w s s' H. unfold pstep in H.
  destruct (Nat.ltb w nw) eqn:Hw; [|discriminate]. apply Nat.ltb_lt in Hw.
  unfold measure.
  destruct (ws s w) as [|i todo|i todo f v] eqn:Ew.
  - destruct (queue s) as [|i q] eqn:Eq; [discriminate|]. inversion H; subst s'; clear H. cbn [queue ws].
    pose proof (wsum_upd (ws s) w (Working i (row_of rows i)) nw Hw) as U. rewrite Ew in U. cbn [wmeasure] in U.
    cbn [qmeasure fold_right]. fold (qmeasure rows q). lia.
  - destruct todo as [|e todo].
    + inversion H; subst s'; clear H. cbn [queue ws].
      pose proof (wsum_upd (ws s) w Idle nw Hw) as U. rewrite Ew in U. cbn [wmeasure length] in U. lia.
    + destruct k; inversion H; subst s'; clear H; cbn [queue ws].
      * pose proof (wsum_upd (ws s) w (Working i todo) nw Hw) as U. rewrite Ew in U. cbn [wmeasure length] in U. lia.
      * pose proof (wsum_upd (ws s) w (Loaded i todo (e_father e) (sons s (e_father e))) nw Hw) as U.
        rewrite Ew in U. cbn [wmeasure length] in U. lia.
  - inversion H; subst s'; clear H. cbn [queue ws].
    pose proof (wsum_upd (ws s) w (Working i todo) nw Hw) as U. rewrite Ew in U. cbn [wmeasure] in U. lia.
Qed.

Theorem runs_are_finite : forall k rows nw sched s s',
  prun k rows nw sched s = Some s' -> (length sched + measure rows nw s' <= measure rows nw s)%nat.
Proof.
  induction sched as [|w t IH]; intros s s' H; cbn in H.
  - inversion H; subst. cbn. lia.
  - destruct (pstep k rows nw w s) as [s1|] eqn:E; [|discriminate].
    apply step_decreases in E. apply IH in H. cbn [length]. lia.
Qed.


(** * The two passes (--distance > 1) *)
Lemma ext_rows_from_length : forall step l rows1 i, length rows1 = length l ->
  length (ext_rows_from step i l rows1) = length l.
Proof.
  induction l as [|x l IH]; intros rows1 i H; destruct rows1 as [|r rt]; cbn in *; try reflexivity; try discriminate.
  rewrite IH by lia. reflexivity.
Qed.

Lemma ext_rows_from_skip : forall step l rows1 k i,
  row_of rows1 i <> [] -> row_of (ext_rows_from step k l rows1) i = [].
Proof.
  induction l as [|x l IH]; intros rows1 k i H; destruct rows1 as [|r rt]; cbn [ext_rows_from].
  - destruct i; reflexivity.
  - destruct i; reflexivity.
  - destruct i; reflexivity.
  - destruct i as [|i]; unfold row_of in *; cbn [nth] in *.
    + destruct r; [congruence|reflexivity].
    + apply IH. exact H.
Qed.

Lemma ext_queue_spec : forall rows1 i,
  In i (ext_queue rows1) <-> (i < length rows1)%nat /\ row_of rows1 i = [].
Proof.
  intros rows1 i. unfold ext_queue. rewrite filter_In, in_seq. split.
  - intros [A B]. split; [lia|]. destruct (row_of rows1 i); [reflexivity|discriminate].
  - intros [A B]. split; [lia|]. rewrite B. reflexivity.
Qed.

Lemma nth_map_seq : forall (f : nat -> Z) n j, (j < n)%nat -> zth (map f (seq 0 n)) j = f j.
Proof.
  intros f n j H. unfold zth. rewrite (nth_indep _ 0 (f 0%nat)) by (rewrite map_length, seq_length; exact H).
  rewrite map_nth, seq_nth by exact H. reflexivity.
Qed.

Theorem output_independent_two_passes : forall nodes step p q nw1 sched1 s1 nw2 sched2 s2,
  let l := sort_nodes nodes in
  let n := length l in
  let rows1 := all_rows l in
  (1 <= nw1)%nat -> (1 <= nw2)%nat -> 1 < step ->
  prun Atomic rows1 nw1 sched1 (pinit n) = Some s1 -> terminal Atomic rows1 nw1 s1 ->
  let e1 := read_edges n s1 in
  let ext := ext_rows step l e1 in
  prun Atomic ext nw2 sched2 (pinit_gen (ext_queue e1) (sons s1)) = Some s2 -> terminal Atomic ext nw2 s2 ->
  finish_graph2 l e1 (read_sons n s1) (merge_rows e1 (read_edges n s2)) (read_sons n s2) p q
  = model_graph_d nodes step p q.
Proof.
  intros nodes step p q nw1 sched1 s1 nw2 sched2 s2 l n rows1 H1 H2 Hstep R1 T1 e1 ext R2 T2.
  assert (Len : length rows1 = n) by (unfold rows1, all_rows; apply all_rows_from_length).
  assert (R1' : prun Atomic rows1 nw1 sched1 (pinit (length rows1)) = Some s1) by (rewrite Len; exact R1).
  destruct (schedule_independent rows1 nw1 sched1 s1 H1 R1' T1) as (A & B).
  rewrite Len in A, B.
  assert (E1 : e1 = rows1) by exact A. clearbody e1. subst e1.
  assert (LenE : length ext = n) by (unfold ext, ext_rows; apply ext_rows_from_length; exact Len).
  assert (Q1 : NoDup (ext_queue rows1)) by (unfold ext_queue; apply NoDup_filter, seq_NoDup).
  assert (Q2 : forall i, In i (ext_queue rows1) -> (i < length ext)%nat).
  { intros i Hi. apply ext_queue_spec in Hi. lia. }
  assert (Q3 : forall i, ~ In i (ext_queue rows1) -> row_of ext i = []).
  { intros i Hi. destruct (le_lt_dec (length rows1) i) as [Hge|Hlt].
    - unfold row_of. apply nth_overflow. lia.
    - unfold ext, ext_rows. apply ext_rows_from_skip. intros E. apply Hi. apply ext_queue_spec. split; assumption. }
  destruct (schedule_independent_gen ext nw2 (ext_queue rows1) (sons s1) Q1 Q2 Q3 sched2 s2 H2 R2 T2) as (C & D).
  rewrite LenE in C, D.
  unfold model_graph_d. fold l. fold n. fold rows1.
  assert (St : (1 <? step) = true) by (apply Z.ltb_lt; exact Hstep). rewrite St.
  fold ext. rewrite C, D, B. f_equal.
  apply map_ext_in. intros j Hj. apply in_seq in Hj. f_equal.
  rewrite <- B. unfold read_sons. rewrite nth_map_seq by lia. reflexivity.
Qed.


(** * The checker used by the correspondence is sound: an accepted (from, to, pos) is an edit father -> son *)
Lemma apply_edit_sound : forall father from to pos son,
  apply_edit father from to pos = Some son -> edit_at pos to from son father.
Proof.
  intros father from to pos son H. unfold apply_edit in H.
  destruct (Z.ltb_spec pos 0) as [Hneg|Hpos]; [discriminate|].
  destruct (Nat.ltb_spec (length father) (Z.to_nat pos)) as [Hlong|Hle]; [discriminate|].
  remember (Z.to_nat pos) as p eqn:Ep.
  assert (Hsplit : firstn p father ++ skipn p father = father) by apply firstn_skipn.
  assert (Hlen : Z.of_nat (length (firstn p father)) = pos).
  { rewrite firstn_length_le by exact Hle. lia. }
  destruct (N.eqb_spec from gap) as [Hfg|Hfg].
  - destruct (N.eqb_spec to gap) as [Htg|Htg]; [discriminate|]. inversion H; subst son.
    exists (firstn p father), (skipn p father). split; [exact Hlen|]. right; left.
    split; [exact Hfg|]. split; [reflexivity|]. symmetry; exact Hsplit.
  - destruct (skipn p father) as [|c suf'] eqn:Es; [discriminate|].
    destruct (N.eqb_spec c from) as [->|Hc]; [|discriminate].
    destruct (N.eqb_spec to gap) as [Htg|Htg].
    + inversion H; subst son. exists (firstn p father), suf'. split; [exact Hlen|]. right; right.
      split; [exact Htg|]. split; [reflexivity|]. symmetry; exact Hsplit.
    + destruct (N.eqb_spec to from) as [Htf|Htf]; [discriminate|]. inversion H; subst son.
      exists (firstn p father), suf'. split; [exact Hlen|]. left.
      split; [reflexivity|]. split; [symmetry; exact Hsplit|exact Htf].
Qed.

Theorem edit_ok_sound : forall l i e son father,
  nth_error l i = Some son -> nth_error l (e_father e) = Some father ->
  edit_ok l i e = true -> edit_at (e_pos e) (e_to e) (e_from e) (n_seq son) (n_seq father).
Proof.
  intros l i e son father Hs Hf H. unfold edit_ok in H. rewrite Hs, Hf in H.
  destruct (apply_edit (n_seq father) (e_from e) (e_to e) (e_pos e)) as [r|] eqn:E; [|discriminate].
  apply seq_eqb_eq in H. subst r. apply apply_edit_sound. exact E.
Qed.


(** * FilterGraphOnRatio keeps exactly the edges within the ratio and keeps the son counters exact *)
Lemma set_nth_length : forall l i v, length (set_nth l i v) = length l.
Proof. induction l as [|x l IH]; intros [|i] v; cbn; try reflexivity. rewrite IH. reflexivity. Qed.

Lemma zth_set_nth : forall l i v j, (i < length l)%nat ->
  zth (set_nth l i v) j = if Nat.eqb j i then v else zth l j.
Proof.
  unfold zth. induction l as [|x l IH]; intros i v j H; [cbn in H; lia|].
  destruct i as [|i]; destruct j as [|j]; cbn; try reflexivity.
  apply IH. cbn in H. lia.
Qed.

Fixpoint kept_rows (p q : Z) (w : list Z) (i : nat) (rows : list (list edge)) : list (list edge) :=
  match rows with
  | [] => []
  | es :: t => filter (keep_edge p q w i) es :: kept_rows p q w (S i) t
  end.
Fixpoint removed_edges (p q : Z) (w : list Z) (i : nat) (rows : list (list edge)) : list edge :=
  match rows with
  | [] => []
  | es :: t => filter (fun e => negb (keep_edge p q w i e)) es ++ removed_edges p q w (S i) t
  end.

Lemma cnt_cons : forall j e l, cnt j (e :: l) = (if Nat.eqb (e_father e) j then 1 else 0) + cnt j l.
Proof. intros. change (e :: l) with ([e] ++ l). rewrite cnt_app, cnt_one. reflexivity. Qed.

Lemma filter_row_spec : forall p q w i es kept0 sons0,
  (forall e, In e es -> (e_father e < length sons0)%nat) ->
  let r := fold_left (fun (acc : list edge * list Z) e =>
               let (kept, sons) := acc in
               if keep_edge p q w i e then (kept ++ [e], sons)
               else (kept, set_nth sons (e_father e) (zth sons (e_father e) - 1))) es (kept0, sons0) in
  fst r = kept0 ++ filter (keep_edge p q w i) es /\ length (snd r) = length sons0 /\
  forall j, zth (snd r) j = zth sons0 j - cnt j (filter (fun e => negb (keep_edge p q w i e)) es).
Proof.
  intros p q w i es. induction es as [|e es IH]; intros kept0 sons0 Hf; cbn [fold_left filter].
  - cbn. rewrite app_nil_r. split; [reflexivity|]. split; [reflexivity|]. intros j. unfold zth. lia.
  - destruct (keep_edge p q w i e) eqn:K; cbn [negb].
    + destruct (IH (kept0 ++ [e]) sons0) as (A & B & C); [intros; apply Hf; right; assumption|].
      split; [rewrite A, <- app_assoc; reflexivity|]. split; [exact B|exact C].
    + assert (He : (e_father e < length sons0)%nat) by (apply Hf; left; reflexivity).
      destruct (IH kept0 (set_nth sons0 (e_father e) (zth sons0 (e_father e) - 1))) as (A & B & C).
      { intros e' He'. rewrite set_nth_length. apply Hf. right. exact He'. }
      split; [exact A|]. split; [rewrite B, set_nth_length; reflexivity|].
      intros j. rewrite C, zth_set_nth by exact He. rewrite cnt_cons.
      destruct (Nat.eqb_spec j (e_father e)) as [->|Hne].
      * rewrite Nat.eqb_refl. lia.
      * destruct (Nat.eqb_spec (e_father e) j); [congruence|]. lia.
Qed.

Lemma filter_rows_spec : forall p q w rows i sons,
  (forall es e, In es rows -> In e es -> (e_father e < length sons)%nat) ->
  fst (filter_rows p q w i rows sons) = kept_rows p q w i rows /\
  length (snd (filter_rows p q w i rows sons)) = length sons /\
  forall j, zth (snd (filter_rows p q w i rows sons)) j = zth sons j - cnt j (removed_edges p q w i rows).
Proof.
  intros p q w rows. induction rows as [|es t IH]; intros i sons Hf; cbn [filter_rows kept_rows removed_edges].
  - cbn. split; [reflexivity|]. split; [reflexivity|]. intros j. unfold zth. cbn. lia.
  - unfold filter_row.
    pose proof (filter_row_spec p q w i es [] sons (fun e He => Hf es e (or_introl eq_refl) He)) as S1.
    cbv zeta in S1.
    destruct (fold_left _ es ([], sons)) as [kept sons1] eqn:E1. cbn [fst snd] in S1.
    destruct S1 as (A & B & C).
    assert (Hf' : forall es' e, In es' t -> In e es' -> (e_father e < length sons1)%nat).
    { intros es' e H1 H2. rewrite B. apply (Hf es' e); [right; exact H1|exact H2]. }
    specialize (IH (S i) sons1 Hf').
    destruct (filter_rows p q w (S i) t sons1) as [rest sons2] eqn:E2. cbn [fst snd] in *.
    destruct IH as (A2 & B2 & C2).
    split; [rewrite A, A2; reflexivity|]. split; [rewrite B2, B; reflexivity|].
    intros j. rewrite C2, C, cnt_app. lia.
Qed.

Lemma cnt_filter_split : forall j f l,
  cnt j l = cnt j (filter f l) + cnt j (filter (fun e => negb (f e)) l).
Proof.
  intros j f l. induction l as [|e l IH]; [reflexivity|]. cbn [filter]. rewrite cnt_cons.
  destruct (f e); cbn [negb]; rewrite cnt_cons; lia.
Qed.

Lemma cnt_kept_removed : forall j p q w rows i,
  cnt j (concat rows) = cnt j (concat (kept_rows p q w i rows)) + cnt j (removed_edges p q w i rows).
Proof.
  intros j p q w rows. induction rows as [|es t IH]; intros i; [reflexivity|].
  cbn [concat kept_rows removed_edges]. rewrite !cnt_app, (IH (S i)), (cnt_filter_split j (keep_edge p q w i) es). lia.
Qed.

(* started from the exact son counters, the filter leaves, for every node, the number of remaining sons *)
Theorem filter_exact : forall p q w rows n,
  (forall es e, In es rows -> In e es -> (e_father e < n)%nat) ->
  fst (filter_rows p q w 0 rows (son_counts n rows)) = kept_rows p q w 0 rows /\
  forall j, (j < n)%nat ->
    zth (snd (filter_rows p q w 0 rows (son_counts n rows))) j = cnt j (concat (kept_rows p q w 0 rows)).
Proof.
  intros p q w rows n Hf.
  assert (L : length (son_counts n rows) = n) by (unfold son_counts; rewrite map_length, seq_length; reflexivity).
  destruct (filter_rows_spec p q w rows 0 (son_counts n rows)) as (A & B & C).
  { intros es e H1 H2. rewrite L. eapply Hf; eauto. }
  split; [exact A|]. intros j Hj. rewrite C. unfold son_counts. rewrite nth_map_seq by exact Hj.
  rewrite (cnt_kept_removed j p q w rows 0). lia.
Qed.


(** * A complete run exists from every state (both increment kinds) *)
Fixpoint find_enabled (k : inc_kind) (rows : list (list edge)) (nw : nat) (s : pstate) (m : nat) : option nat :=
  match m with
  | O => None
  | S m' => match pstep k rows nw m' s with Some _ => Some m' | None => find_enabled k rows nw s m' end
  end.

Lemma find_enabled_none : forall k rows nw s m, find_enabled k rows nw s m = None ->
  forall w, (w < m)%nat -> pstep k rows nw w s = None.
Proof.
  induction m as [|m IH]; intros H w Hw; [lia|]. cbn in H.
  destruct (pstep k rows nw m s) eqn:E; [discriminate|].
  destruct (Nat.eq_dec w m) as [->|Hne]; [exact E|]. apply IH; [exact H|lia].
Qed.

Lemma find_enabled_some : forall k rows nw s m w, find_enabled k rows nw s m = Some w ->
  exists s', pstep k rows nw w s = Some s'.
Proof.
  induction m as [|m IH]; intros w H; [discriminate|]. cbn in H.
  destruct (pstep k rows nw m s) as [s'|] eqn:E.
  - inversion H; subst. exists s'. exact E.
  - apply IH. exact H.
Qed.

Theorem complete_run_exists : forall k rows nw s,
  exists sched s', prun k rows nw sched s = Some s' /\ terminal k rows nw s'.
Proof.
  intros k rows nw s. remember (measure rows nw s) as M eqn:EM. revert s EM.
  induction M as [M IH] using lt_wf_ind. intros s EM.
  destruct (find_enabled k rows nw s nw) as [w|] eqn:F.
  - destruct (find_enabled_some _ _ _ _ _ _ F) as (s1 & E1).
    pose proof (step_decreases _ _ _ _ _ _ E1) as D.
    destruct (IH (measure rows nw s1) ltac:(lia) s1 eq_refl) as (sched & s' & R & T).
    exists (w :: sched), s'. split; [cbn; rewrite E1; exact R|exact T].
  - exists [], s. split; [reflexivity|]. intros w.
    destruct (le_lt_dec nw w) as [Hge|Hlt].
    + unfold pstep. destruct (Nat.ltb_spec w nw); [lia|reflexivity].
    + eapply find_enabled_none; eauto.
Qed.

(** the three answers of the kernel are exclusive and exhaustive *)
Lemma d1or0_far : forall s1 s2, d1or0 s1 s2 = Far <-> s1 <> s2 /\ ~ one_diff s1 s2.
Proof.
  intros s1 s2. pose proof (d1or0_exact s1 s2) as E. pose proof (d1or0_at_same s1 s2 0) as S.
  fold (d1or0 s1 s2) in S. unfold is_one in E.
  destruct (d1or0 s1 s2) as [| |p a1 a2] eqn:D.
  - split; [intros _|reflexivity]. split.
    + intros Heq. apply S in Heq. discriminate.
    + intros Hod. apply E in Hod. destruct Hod as (p & a1 & a2 & X). discriminate.
  - split; [discriminate|]. intros [Hne _]. exfalso. apply Hne. apply S. reflexivity.
  - split; [discriminate|]. intros [_ Hn]. exfalso. apply Hn. apply E. exists p, a1, a2. reflexivity.
Qed.


(** * reweightSequences terminates within three sweeps when the son counters are exact *)
Lemma cnt_nonneg : forall j l, 0 <= cnt j l.
Proof. intros. unfold cnt. lia. Qed.

Lemma total_nonneg_zero : forall f n, (forall i, 0 <= f i) -> total f n = 0 -> forall i, (i < n)%nat -> f i = 0.
Proof.
  induction n as [|n IH]; intros Hf H i Hi; [lia|]. cbn [total] in H.
  assert (0 <= total f n). { clear -Hf. induction n; cbn [total]; [lia|]. specialize (Hf n). lia. }
  specialize (Hf n) as Hn. destruct (Nat.eq_dec i n) as [->|]; [lia|]. apply IH; [exact Hf|lia|lia].
Qed.

Lemma total_plus : forall f g n, total (fun i => f i + g i) n = total f n + total g n.
Proof. induction n as [|n IH]; cbn [total]; [reflexivity|]. rewrite IH. lia. Qed.

Section Reweight.
Variable counts : list Z.
Variable rows : list (list edge).
Variable n : nat.
Hypothesis Hcounts : length counts = n.
Hypothesis Hdag : forall i e, In e (row_of rows i) -> (i < e_father e < n)%nat.
Hypothesis Hrows : length rows = n.
Let sons := son_counts n rows.

Definition inc_added (a : list Z) (e : edge) : list Z := set_nth a (e_father e) (zth a (e_father e) + 1).
Definition fire_a (i : nat) (a : list Z) : list Z := fold_left inc_added (row_of rows i) (set_nth a i 0).

Lemma rfunc_added_gen : forall (es : list edge) wi swf w a,
  r_added (fold_left (fun (st : rw) e =>
               let f := e_father e in
               mkrw (set_nth (r_weight st) f (zth (r_weight st) f + round_div (wi * zth counts f) swf))
                    (set_nth (r_added st) f (zth (r_added st) f + 1))) es (mkrw w a))
  = fold_left inc_added es a.
Proof.
  induction es as [|e es IH]; intros wi swf w a; [reflexivity|]. cbn [fold_left]. cbn [r_weight r_added].
  rewrite IH. reflexivity.
Qed.

Lemma rfunc_added : forall i st, r_added (rfunc counts rows i st) = fire_a i (r_added st).
Proof. intros i st. unfold rfunc, fire_a. apply rfunc_added_gen. Qed.

Lemma inc_fold_spec : forall es a, (forall e, In e es -> (e_father e < length a)%nat) ->
  length (fold_left inc_added es a) = length a /\
  forall j, zth (fold_left inc_added es a) j = zth a j + cnt j es.
Proof.
  induction es as [|e es IH]; intros a Hf; cbn [fold_left].
  - split; [reflexivity|]. intros j. unfold cnt. cbn. lia.
  - assert (He : (e_father e < length a)%nat) by (apply Hf; left; reflexivity).
    destruct (IH (inc_added a e)) as (A & B).
    { intros e' He'. unfold inc_added. rewrite set_nth_length. apply Hf. right. exact He'. }
    unfold inc_added in *. rewrite set_nth_length in A. split; [exact A|].
    intros j. rewrite B, zth_set_nth by exact He. rewrite cnt_cons.
    destruct (Nat.eqb_spec j (e_father e)) as [->|Hne].
    + rewrite Nat.eqb_refl. lia.
    + destruct (Nat.eqb_spec (e_father e) j); [congruence|]. lia.
Qed.

Lemma fire_a_spec : forall i a, (i < n)%nat -> length a = n ->
  length (fire_a i a) = n /\
  forall j, zth (fire_a i a) j = (if Nat.eqb j i then 0 else zth a j) + cnt j (row_of rows i).
Proof.
  intros i a Hi Ha. unfold fire_a.
  destruct (inc_fold_spec (row_of rows i) (set_nth a i 0)) as (A & B).
  { intros e He. rewrite set_nth_length, Ha. apply (Hdag i e He). }
  rewrite set_nth_length in A. split; [lia|]. intros j. rewrite B, zth_set_nth by lia. reflexivity.
Qed.

Lemma sons_spec : forall j, (j < n)%nat -> zth sons j = total (fun i => cnt j (row_of rows i)) n.
Proof.
  intros j Hj. unfold sons, son_counts. rewrite nth_map_seq by exact Hj.
  rewrite cnt_concat_total, Hrows. reflexivity.
Qed.

Lemma no_edge_into_leaf : forall j i, (j < n)%nat -> zth sons j = 0 -> (i < n)%nat -> cnt j (row_of rows i) = 0.
Proof.
  intros j i Hj H Hi. rewrite sons_spec in H by exact Hj.
  apply (total_nonneg_zero (fun i => cnt j (row_of rows i)) n); [intros; apply cnt_nonneg|exact H|exact Hi].
Qed.

Lemma no_edge_backwards : forall j i, (j <= i)%nat -> cnt j (row_of rows i) = 0.
Proof.
  intros j i Hji. destruct (Z.eq_dec (cnt j (row_of rows i)) 0) as [E|E]; [exact E|].
  assert (P : 0 < cnt j (row_of rows i)) by (pose proof (cnt_nonneg j (row_of rows i)); lia).
  apply cnt_pos in P. destruct P as (e & He & Hf). pose proof (Hdag i e He). lia.
Qed.

Definition leaf (i : nat) : bool := zth sons i =? 0.

(* added counters after the leaves below k have fired *)
Definition A_leaves (k j : nat) : Z :=
  total (fun i => if leaf i && Nat.ltb i k then cnt j (row_of rows i) else 0) n.
(* ... after all the leaves and the inner nodes below k have fired *)
Definition A_inner (k j : nat) : Z :=
  total (fun i => if leaf i || Nat.ltb i k then cnt j (row_of rows i) else 0) n.

Lemma total_step : forall (c : nat -> bool) (g : nat -> Z) k, (k < n)%nat ->
  total (fun i => if c i && Nat.ltb i (S k) then g i else 0) n =
  total (fun i => if c i && Nat.ltb i k then g i else 0) n + (if c k then g k else 0).
Proof.
  intros c g k Hk.
  assert (E : total (fun i => if c i && Nat.ltb i (S k) then g i else 0) n =
              total (fun i => (if c i && Nat.ltb i k then g i else 0) + (if Nat.eqb i k then (if c k then g k else 0) else 0)) n).
  { apply total_ext. intros i _. destruct (Nat.eqb_spec i k) as [->|Hne].
    - rewrite Nat.ltb_irrefl. assert (Nat.ltb k (S k) = true) by (apply Nat.ltb_lt; lia). rewrite H.
      rewrite andb_false_r, andb_true_r. lia.
    - assert (Nat.ltb i (S k) = Nat.ltb i k).
      { destruct (Nat.ltb_spec i (S k)), (Nat.ltb_spec i k); try reflexivity; lia. }
      rewrite H. lia. }
  rewrite E, total_plus. f_equal.
  assert (U : forall v m, (k < m)%nat -> total (fun i => if Nat.eqb i k then v else 0) m = v).
  { intros v. induction m as [|m IHm]; intros Hm; [lia|]. cbn [total].
    destruct (Nat.eq_dec k m) as [->|Hne].
    - rewrite Nat.eqb_refl. assert (Z0 : total (fun i => if Nat.eqb i m then v else 0) m = 0).
      { erewrite total_ext; [apply total_zero|]. intros i Hi. destruct (Nat.eqb_spec i m); [lia|reflexivity]. }
      rewrite Z0. lia.
    - rewrite IHm by lia. destruct (Nat.eqb_spec m k); [lia|]. lia. }
  apply U. exact Hk.
Qed.

Lemma pass_leaves_added : forall st0, length (r_added st0) = n -> (forall j, zth (r_added st0) j = 0) ->
  let st := pass_leaves counts sons rows n st0 in
  length (r_added st) = n /\ forall j, (j < n)%nat -> zth (r_added st) j = A_leaves n j.
Proof.
  intros st0 L0 Z0. unfold pass_leaves.
  assert (G : forall k, (k <= n)%nat ->
     let st := fold_left (fun st i => if zth sons i =? 0 then rfunc counts rows i st else st) (seq 0 k) st0 in
     length (r_added st) = n /\ forall j, (j < n)%nat -> zth (r_added st) j = A_leaves k j).
  { induction k as [|k IH]; intros Hk.
    - cbn. split; [exact L0|]. intros j _. rewrite Z0. unfold A_leaves. symmetry.
      erewrite total_ext; [apply total_zero|]. intros i _. cbn. rewrite andb_false_r. reflexivity.
    - rewrite seq_S, fold_left_app. cbn [fold_left Nat.add]. destruct (IH ltac:(lia)) as (A & B). cbv zeta in A, B.
      set (stk := fold_left (fun st i => if zth sons i =? 0 then rfunc counts rows i st else st) (seq 0 k) st0) in *.
      assert (Step : forall j, A_leaves (S k) j = A_leaves k j + (if leaf k then cnt j (row_of rows k) else 0)).
      { intros j. unfold A_leaves. apply (total_step leaf (fun i => cnt j (row_of rows i))). lia. }
      assert (Lk : leaf k = (zth sons k =? 0)) by reflexivity.
      destruct (zth sons k =? 0) eqn:Lk0.
      + rewrite rfunc_added. destruct (fire_a_spec k (r_added stk) ltac:(lia) A) as (C & D).
        split; [exact C|]. intros j Hj. rewrite D, Step, Lk.
        destruct (Nat.eqb_spec j k) as [->|Hne]; [|rewrite B by exact Hj; reflexivity].
        assert (Zk : A_leaves k k = 0).
        { unfold A_leaves. erewrite total_ext; [apply total_zero|]. intros i Hi.
          apply Z.eqb_eq in Lk0. rewrite (no_edge_into_leaf k i) by (try exact Lk0; lia).
          destruct (leaf i && Nat.ltb i k); reflexivity. }
        lia.
      + split; [exact A|]. intros j Hj. rewrite Step, Lk, B by exact Hj. lia. }
  apply (G n). lia.
Qed.

Lemma total_nonneg : forall f m, (forall i, 0 <= f i) -> 0 <= total f m.
Proof. intros f m Hf. induction m as [|m IH]; cbn [total]; [lia|]. specialize (Hf m). lia. Qed.

Lemma sons_nonneg : forall j, (j < n)%nat -> 0 <= zth sons j.
Proof. intros j Hj. rewrite sons_spec by exact Hj. apply total_nonneg. intros; apply cnt_nonneg. Qed.

Definition A_in (k j : nat) : Z :=
  A_leaves n j + total (fun i => if negb (leaf i) && Nat.ltb i k then cnt j (row_of rows i) else 0) n.

Definition inner_step (p : rw * bool) (i : nat) : rw * bool :=
  let (st, done) := p in
  if (0 <? zth sons i) && (zth sons i =? zth (r_added st) i)
  then (rfunc counts rows i st, true) else (st, done).

Lemma sons_split : forall k, (k < n)%nat -> zth sons k = A_in k k.
Proof.
  intros k Hk. rewrite sons_spec by exact Hk. unfold A_in, A_leaves. rewrite <- total_plus.
  apply total_ext. intros i Hi.
  assert (Ln : Nat.ltb i n = true) by (apply Nat.ltb_lt; exact Hi). rewrite Ln, andb_true_r.
  destruct (leaf i); cbn [negb andb]; [lia|].
  destruct (Nat.ltb_spec i k); [lia|]. rewrite (no_edge_backwards k i) by lia. lia.
Qed.

Definition inner (i : nat) : bool := 0 <? zth sons i.
Definition fire_all (order : list nat) (st : rw) : rw := fold_left (fun st i => rfunc counts rows i st) order st.

Lemma pass_inner_first : forall st0, length (r_added st0) = n ->
  (forall j, (j < n)%nat -> zth (r_added st0) j = A_leaves n j) ->
  length (r_added (fst (pass_inner counts sons rows n st0))) = n /\
  (forall j, (j < n)%nat -> zth (r_added (fst (pass_inner counts sons rows n st0))) j = 0) /\
  fst (pass_inner counts sons rows n st0) = fire_all (filter inner (seq 0 n)) st0.
Proof.
  intros st0 L0 Z0. unfold pass_inner. change (fun (p : rw * bool) (i : nat) => let (st, done) := p in
     if (0 <? zth sons i) && (zth sons i =? zth (r_added st) i) then (rfunc counts rows i st, true) else (st, done)) with inner_step.
  assert (G : forall k, (k <= n)%nat ->
     let st := fst (fold_left inner_step (seq 0 k) (st0, false)) in
     length (r_added st) = n /\
     (forall j, (j < n)%nat -> zth (r_added st) j = if (0 <? zth sons j) && Nat.ltb j k then 0 else A_in k j) /\
     st = fire_all (filter inner (seq 0 k)) st0).
  { induction k as [|k IH]; intros Hk.
    - cbn [seq fold_left fst]. split; [exact L0|]. split; [|reflexivity]. intros j Hj. rewrite andb_false_r, Z0 by exact Hj.
      unfold A_in. erewrite (total_ext (fun i => if negb (leaf i) && Nat.ltb i 0 then _ else 0)); [rewrite total_zero; lia|].
      intros i _. cbn. rewrite andb_false_r. reflexivity.
    - rewrite seq_S, fold_left_app, filter_app. unfold fire_all. rewrite fold_left_app. fold (fire_all (filter inner (seq 0 k)) st0).
      cbn [fold_left Nat.add filter]. destruct (IH ltac:(lia)) as (A & B & O). cbv zeta in A, B, O. rewrite <- O. clear O.
      destruct (fold_left inner_step (seq 0 k) (st0, false)) as [stk dk]. cbn [fst] in A, B |- *. unfold inner_step, inner.
      assert (Step : forall j, A_in (S k) j = A_in k j + (if negb (leaf k) then cnt j (row_of rows k) else 0)).
      { intros j. unfold A_in. rewrite (total_step (fun i => negb (leaf i)) (fun i => cnt j (row_of rows i))) by lia. lia. }
      assert (Lk : leaf k = (zth sons k =? 0)) by reflexivity.
      assert (Ak : zth (r_added stk) k = A_in k k).
      { rewrite B by lia. rewrite Nat.ltb_irrefl, andb_false_r. reflexivity. }
      destruct (0 <? zth sons k) eqn:Pk.
      + (* inner node: all its sons have been added *)
        apply Z.ltb_lt in Pk.
        assert (Nl : leaf k = false) by (rewrite Lk; apply Z.eqb_neq; lia).
        rewrite Ak, <- sons_split by lia. rewrite Z.eqb_refl. cbn [andb fst].
        assert (P : (0 <? zth sons k) = true) by (apply Z.ltb_lt; exact Pk). cbn [fold_left].
        rewrite rfunc_added. destruct (fire_a_spec k (r_added stk) ltac:(lia) A) as (C & D).
        split; [exact C|]. split; [|reflexivity]. intros j Hj. rewrite D, Step, Nl. cbn [negb].
        destruct (Nat.eqb_spec j k) as [->|Hne].
        * assert (T : Nat.ltb k (S k) = true) by (apply Nat.ltb_lt; lia). rewrite T.
          rewrite P. cbn [andb].
          rewrite (no_edge_backwards k k) by lia. lia.
        * assert (T : Nat.ltb j (S k) = Nat.ltb j k).
          { destruct (Nat.ltb_spec j (S k)), (Nat.ltb_spec j k); try reflexivity; lia. }
          rewrite T, B by exact Hj.
          destruct ((0 <? zth sons j) && Nat.ltb j k) eqn:Cj; [|lia].
          apply andb_true_iff in Cj. destruct Cj as [_ Cj]. apply Nat.ltb_lt in Cj.
          rewrite (no_edge_backwards j k) by lia. lia.
      + (* leaf: already fired in the first sweep *)
        cbn [andb fst]. apply Z.ltb_ge in Pk. pose proof (sons_nonneg k ltac:(lia)) as Nk.
        assert (Yl : leaf k = true) by (rewrite Lk; apply Z.eqb_eq; lia).
        assert (P : (0 <? zth sons k) = false) by (apply Z.ltb_ge; lia). cbn [fold_left].
        split; [exact A|]. split; [|reflexivity]. intros j Hj. rewrite Step, Yl. cbn [negb]. rewrite Z.add_0_r.
        destruct (Nat.eqb_spec j k) as [->|Hne].
        * rewrite P. cbn [andb]. exact Ak.
        * assert (T : Nat.ltb j (S k) = Nat.ltb j k).
          { destruct (Nat.ltb_spec j (S k)), (Nat.ltb_spec j k); try reflexivity; lia. }
          rewrite T. apply B. exact Hj. }
  destruct (G n ltac:(lia)) as (A & B & O). cbv zeta in A, B, O. split; [exact A|]. split; [|exact O].
  intros j Hj. rewrite B by exact Hj.
  assert (T : Nat.ltb j n = true) by (apply Nat.ltb_lt; exact Hj). rewrite T, andb_true_r.
  destruct (0 <? zth sons j) eqn:Pj; [reflexivity|].
  apply Z.ltb_ge in Pj. pose proof (sons_nonneg j Hj) as Nj. assert (Zj : zth sons j = 0) by lia.
  unfold A_in, A_leaves. rewrite <- total_plus. erewrite total_ext; [apply total_zero|].
  intros i Hi. cbv beta. rewrite (no_edge_into_leaf j i Hj Zj Hi).
  destruct (leaf i && Nat.ltb i n), (negb (leaf i) && Nat.ltb i n); reflexivity.
Qed.

Lemma pass_inner_second : forall st, (forall j, (j < n)%nat -> zth (r_added st) j = 0) ->
  pass_inner counts sons rows n st = (st, false).
Proof.
  intros st Z. unfold pass_inner.
  assert (G : forall l, (forall i, In i l -> (i < n)%nat) ->
     fold_left (fun (p : rw * bool) (i : nat) => let (st, done) := p in
        if (0 <? zth sons i) && (zth sons i =? zth (r_added st) i) then (rfunc counts rows i st, true) else (st, done))
       l (st, false) = (st, false)).
  { induction l as [|i l IH]; intros Hl; [reflexivity|]. cbn [fold_left].
    rewrite Z by (apply Hl; left; reflexivity).
    destruct (0 <? zth sons i) eqn:P.
    - apply Z.ltb_lt in P. assert (E : (zth sons i =? 0) = false) by (apply Z.eqb_neq; lia). rewrite E. cbn [andb].
      apply IH. intros; apply Hl; right; assumption.
    - cbn [andb]. apply IH. intros; apply Hl; right; assumption. }
  apply G. intros i Hi. apply in_seq in Hi. lia.
Qed.

Theorem reweight_total : reweight counts sons rows <> None.
Proof.
  unfold reweight. rewrite Hcounts.
  set (st0 := mkrw counts (map (fun _ => 0) counts)).
  assert (L0 : length (r_added st0) = n) by (cbn; rewrite map_length; exact Hcounts).
  assert (Z0 : forall j, zth (r_added st0) j = 0).
  { intros j. cbn. unfold zth. clear. revert j. induction counts as [|c l IH]; intros [|j]; cbn; try reflexivity. apply IH. }
  destruct (pass_leaves_added st0 L0 Z0) as (L1 & Z1). cbv zeta in L1, Z1.
  set (st1 := pass_leaves counts sons rows n st0) in *.
  destruct (pass_inner_first st1 L1 Z1) as (L2 & Z2 & _).
  replace (n * n + 2)%nat with (S (S (n * n))) by lia. cbn [passes].
  destruct (pass_inner counts sons rows n st1) as [st2 d2] eqn:E2. cbn [fst] in L2, Z2.
  destruct d2; [|discriminate].
  rewrite (pass_inner_second st2 Z2). discriminate.
Qed.

(** ** the weights: every node gives its final weight to its fathers, in proportion of their counts *)
Definition swf_of (i : nat) : Z := fold_left (fun a e => a + zth counts (e_father e)) (row_of rows i) 0.
Definition contrib (w : list Z) (i : nat) (e : edge) : Z :=
  round_div (zth w i * zth counts (e_father e)) (swf_of i).
Fixpoint sumf (j : nat) (v : edge -> Z) (es : list edge) : Z :=
  match es with
  | [] => 0
  | e :: t => (if Nat.eqb (e_father e) j then v e else 0) + sumf j v t
  end.
(* what node i gives to node j when its weight is [zth w i] *)
Definition given (w : list Z) (i j : nat) : Z := sumf j (contrib w i) (row_of rows i).
Definition lsum (f : nat -> Z) (l : list nat) : Z := fold_right (fun i a => f i + a) 0 l.

Definition add_w (v : edge -> Z) (w : list Z) (e : edge) : list Z :=
  set_nth w (e_father e) (zth w (e_father e) + v e).

Lemma rfunc_weight_gen : forall (es : list edge) wi swf w a,
  r_weight (fold_left (fun (st : rw) e =>
               let f := e_father e in
               mkrw (set_nth (r_weight st) f (zth (r_weight st) f + round_div (wi * zth counts f) swf))
                    (set_nth (r_added st) f (zth (r_added st) f + 1))) es (mkrw w a))
  = fold_left (add_w (fun e => round_div (wi * zth counts (e_father e)) swf)) es w.
Proof.
  induction es as [|e es IH]; intros wi swf w a; [reflexivity|]. cbn [fold_left]. cbn [r_weight r_added].
  rewrite IH. reflexivity.
Qed.

Lemma addw_fold_spec : forall v es w, (forall e, In e es -> (e_father e < length w)%nat) ->
  length (fold_left (add_w v) es w) = length w /\
  forall j, zth (fold_left (add_w v) es w) j = zth w j + sumf j v es.
Proof.
  intros v. induction es as [|e es IH]; intros w Hf; cbn [fold_left sumf].
  - split; [reflexivity|]. intros j. lia.
  - assert (He : (e_father e < length w)%nat) by (apply Hf; left; reflexivity).
    destruct (IH (add_w v w e)) as (A & B).
    { intros e' He'. unfold add_w. rewrite set_nth_length. apply Hf. right. exact He'. }
    unfold add_w in *. rewrite set_nth_length in A. split; [exact A|].
    intros j. rewrite B, zth_set_nth by exact He.
    destruct (Nat.eqb_spec j (e_father e)) as [->|Hne].
    + rewrite Nat.eqb_refl. lia.
    + destruct (Nat.eqb_spec (e_father e) j); [congruence|]. lia.
Qed.

Lemma rfunc_weight : forall i st, (i < n)%nat -> length (r_weight st) = n ->
  length (r_weight (rfunc counts rows i st)) = n /\
  forall j, zth (r_weight (rfunc counts rows i st)) j = zth (r_weight st) j + given (r_weight st) i j.
Proof.
  intros i st Hi L. unfold rfunc. rewrite rfunc_weight_gen.
  destruct (addw_fold_spec (fun e => round_div (zth (r_weight st) i * zth counts (e_father e))
              (fold_left (fun a e => a + zth counts (e_father e)) (row_of rows i) 0)) (row_of rows i) (r_weight st)) as (A & B).
  { intros e He. rewrite L. apply (Hdag i e He). }
  split; [lia|]. intros j. rewrite B. reflexivity.
Qed.

Lemma sumf_zero : forall j v es, (forall e, In e es -> e_father e <> j) -> sumf j v es = 0.
Proof.
  induction es as [|e es IH]; intros H; [reflexivity|]. cbn [sumf].
  destruct (Nat.eqb_spec (e_father e) j) as [E|E]; [exfalso; apply (H e); [left; reflexivity|exact E]|].
  rewrite IH; [lia|]. intros; apply H; right; assumption.
Qed.

Lemma sumf_ext : forall j v v' es, (forall e, v e = v' e) -> sumf j v es = sumf j v' es.
Proof. induction es as [|e es IH]; intros H; [reflexivity|]. cbn [sumf]. rewrite H, IH by exact H. reflexivity. Qed.

Lemma given_ext : forall w w' i j, zth w' i = zth w i -> given w' i j = given w i j.
Proof. intros w w' i j H. unfold given. apply sumf_ext. intros e. unfold contrib. rewrite H. reflexivity. Qed.

Definition Wt (pre : list nat) (w : list Z) : Prop :=
  length w = n /\ forall j, (j < n)%nat -> zth w j = zth counts j + lsum (fun i => given w i j) pre.

Lemma lsum_app : forall f a b, lsum f (a ++ b) = lsum f a + lsum f b.
Proof.
  induction a as [|x a IH]; intros b; [reflexivity|].
  change (lsum f ((x :: a) ++ b)) with (f x + lsum f (a ++ b)). change (lsum f (x :: a)) with (f x + lsum f a).
  rewrite IH. lia.
Qed.

Lemma lsum_cons : forall f x l, lsum f (x :: l) = f x + lsum f l.
Proof. reflexivity. Qed.
Lemma lsum_nil : forall f, lsum f [] = 0.
Proof. reflexivity. Qed.

Lemma lsum_ext_in : forall f g l, (forall i, In i l -> f i = g i) -> lsum f l = lsum g l.
Proof.
  induction l as [|x l IH]; intros H; [reflexivity|]. rewrite !lsum_cons. rewrite H by (left; reflexivity).
  rewrite IH; [reflexivity|]. intros; apply H; right; assumption.
Qed.

(* firing the nodes of [order] one after the other, none of them being a father of a node fired before it *)
Lemma fire_all_weights : forall order pre st,
  Wt pre (r_weight st) ->
  (forall k, In k order -> (k < n)%nat) ->
  (forall pre' k post, order = pre' ++ k :: post ->
     forall e, In e (row_of rows k) -> ~ In (e_father e) (pre ++ pre')) ->
  Wt (pre ++ order) (r_weight (fire_all order st)).
Proof.
  induction order as [|k order IH]; intros pre st W Hlt Hord.
  - cbn. rewrite app_nil_r. exact W.
  - unfold fire_all. cbn [fold_left]. fold (fire_all order (rfunc counts rows k st)).
    replace (pre ++ k :: order) with ((pre ++ [k]) ++ order) by (rewrite <- app_assoc; reflexivity).
    destruct W as (L & E).
    assert (Hk : (k < n)%nat) by (apply Hlt; left; reflexivity).
    destruct (rfunc_weight k st Hk L) as (L' & E').
    assert (NF : forall i, In i (pre ++ [k]) -> given (r_weight st) k i = 0).
    { intros i Hi. unfold given. apply sumf_zero. intros e He Hf.
      apply in_app_or in Hi. destruct Hi as [Hi|[Hi|[]]].
      - apply (Hord [] k order eq_refl e He). rewrite app_nil_r, Hf. exact Hi.
      - pose proof (Hdag k e He). lia. }
    apply IH.
    + split; [exact L'|]. intros j Hj. rewrite E', E by exact Hj. rewrite lsum_app, lsum_cons, lsum_nil.
      assert (S1 : lsum (fun i => given (r_weight (rfunc counts rows k st)) i j) pre = lsum (fun i => given (r_weight st) i j) pre).
      { apply lsum_ext_in. intros i Hi. apply given_ext. rewrite E', NF by (apply in_or_app; left; exact Hi). lia. }
      assert (S2 : given (r_weight (rfunc counts rows k st)) k j = given (r_weight st) k j).
      { apply given_ext. rewrite E', NF by (apply in_or_app; right; left; reflexivity). lia. }
      rewrite S1, S2. lia.
    + intros k' Hk'. apply Hlt. right. exact Hk'.
    + intros pre' k' post Ho e He. rewrite <- app_assoc. cbn [app].
      apply (Hord (k :: pre') k' post); [cbn; rewrite Ho; reflexivity|exact He].
Qed.

Lemma fold_cond_filter : forall (c : nat -> bool) l st,
  fold_left (fun st i => if c i then rfunc counts rows i st else st) l st = fire_all (filter c l) st.
Proof.
  induction l as [|x l IH]; intros st; [reflexivity|]. cbn [fold_left filter].
  destruct (c x); [unfold fire_all; cbn [fold_left]; apply IH|apply IH].
Qed.

Lemma filter_seq_sorted : forall (c : nat -> bool) m a pre k post,
  filter c (seq a m) = pre ++ k :: post -> forall x, In x pre -> (x < k)%nat.
Proof.
  induction m as [|m IH]; intros a pre k post H x Hx; [destruct pre; discriminate|].
  cbn [seq filter] in H. destruct (c a).
  - destruct pre as [|y pre]; [destruct Hx|]. cbn in H. inversion H; subst y.
    assert (Kin : In k (filter c (seq (S a) m))) by (rewrite H2; apply in_or_app; right; left; reflexivity).
    apply filter_In in Kin. destruct Kin as [Kin _]. apply in_seq in Kin.
    destruct Hx as [<-|Hx]; [lia|]. eapply IH; eauto.
  - eapply IH; eauto.
Qed.

Lemma father_is_inner : forall k e, (k < n)%nat -> In e (row_of rows k) -> 0 < zth sons (e_father e).
Proof.
  intros k e Hk He. pose proof (Hdag k e He) as D. rewrite sons_spec by lia.
  assert (P : 0 < cnt (e_father e) (row_of rows k)) by (apply cnt_pos; exists e; split; [exact He|reflexivity]).
  assert (G : forall m, (k < m)%nat -> 0 < total (fun i => cnt (e_father e) (row_of rows i)) m).
  { induction m as [|m IHm]; intros Hm; [lia|]. cbn [total].
    pose proof (total_nonneg (fun i => cnt (e_father e) (row_of rows i)) m (fun i => cnt_nonneg _ _)).
    pose proof (cnt_nonneg (e_father e) (row_of rows m)).
    destruct (Nat.eq_dec k m) as [<-|]; [lia|]. specialize (IHm ltac:(lia)). lia. }
  apply G. exact Hk.
Qed.

Lemma lsum_filter_split : forall f (c : nat -> bool) l,
  lsum f (filter c l) + lsum f (filter (fun i => negb (c i)) l) = lsum f l.
Proof. induction l as [|x l IH]; [reflexivity|]. cbn [filter]. destruct (c x); cbn [negb]; rewrite !lsum_cons; lia. Qed.

Lemma lsum_seq : forall f m, lsum f (seq 0 m) = total f m.
Proof. induction m as [|m IH]; [reflexivity|]. rewrite seq_S, lsum_app, IH, lsum_cons, lsum_nil. cbn [total Nat.add]. lia. Qed.

(* the weights written by reweightSequences: the solution of "weight = count + what the sons give" *)
Theorem reweight_exact : exists W, reweight counts sons rows = Some W /\ length W = n /\
  forall j, (j < n)%nat -> zth W j = zth counts j + total (fun i => given W i j) n.
Proof.
  unfold reweight. rewrite Hcounts.
  set (st0 := mkrw counts (map (fun _ => 0) counts)).
  assert (L0 : length (r_added st0) = n) by (cbn; rewrite map_length; exact Hcounts).
  assert (Z0 : forall j, zth (r_added st0) j = 0).
  { intros j. cbn. unfold zth. clear. revert j. induction counts as [|c l IH]; intros [|j]; cbn; try reflexivity. apply IH. }
  destruct (pass_leaves_added st0 L0 Z0) as (L1 & Z1). cbv zeta in L1, Z1.
  assert (O1 : pass_leaves counts sons rows n st0 = fire_all (filter leaf (seq 0 n)) st0).
  { unfold pass_leaves. apply (fold_cond_filter leaf). }
  set (st1 := pass_leaves counts sons rows n st0) in *.
  destruct (pass_inner_first st1 L1 Z1) as (L2 & Z2 & O2).
  replace (n * n + 2)%nat with (S (S (n * n))) by lia. cbn [passes].
  destruct (pass_inner counts sons rows n st1) as [st2 d2] eqn:E2. cbn [fst] in L2, Z2, O2.
  assert (W0 : Wt [] (r_weight st0)) by (split; [exact Hcounts|intros j _; unfold st0; cbn [r_weight]; rewrite lsum_nil; lia]).
  assert (W1 : Wt (filter leaf (seq 0 n)) (r_weight st1)).
  { rewrite O1. apply (fire_all_weights (filter leaf (seq 0 n)) [] st0 W0).
    - intros k Hk. apply filter_In in Hk. destruct Hk as [Hk _]. apply in_seq in Hk. lia.
    - intros pre' k post Ho e He Hin. cbn [app] in Hin.
      assert (Kin : In k (filter leaf (seq 0 n))) by (rewrite Ho; apply in_or_app; right; left; reflexivity).
      apply filter_In in Kin. destruct Kin as [Kin _]. apply in_seq in Kin.
      assert (Fin : In (e_father e) (filter leaf (seq 0 n))) by (rewrite Ho; apply in_or_app; left; exact Hin).
      apply filter_In in Fin. destruct Fin as [_ Fl]. unfold leaf in Fl. apply Z.eqb_eq in Fl.
      pose proof (father_is_inner k e ltac:(lia) He). lia. }
  assert (W2 : Wt (filter leaf (seq 0 n) ++ filter inner (seq 0 n)) (r_weight st2)).
  { rewrite O2. apply (fire_all_weights (filter inner (seq 0 n)) (filter leaf (seq 0 n)) st1 W1).
    - intros k Hk. apply filter_In in Hk. destruct Hk as [Hk _]. apply in_seq in Hk. lia.
    - intros pre' k post Ho e He Hin.
      assert (Kin : In k (filter inner (seq 0 n))) by (rewrite Ho; apply in_or_app; right; left; reflexivity).
      apply filter_In in Kin. destruct Kin as [Kin _]. apply in_seq in Kin.
      pose proof (father_is_inner k e ltac:(lia) He) as Fi. pose proof (Hdag k e He) as D.
      apply in_app_or in Hin. destruct Hin as [Hin|Hin].
      + apply filter_In in Hin. destruct Hin as [_ Fl]. unfold leaf in Fl. apply Z.eqb_eq in Fl. lia.
      + pose proof (filter_seq_sorted inner n 0 pre' k post Ho _ Hin). lia. }
  assert (Tail : length (r_weight st2) = n /\
     forall j, (j < n)%nat -> zth (r_weight st2) j = zth counts j + total (fun i => given (r_weight st2) i j) n).
  { destruct W2 as (LW & EW). split; [exact LW|].
  intros j Hj. rewrite EW by exact Hj. f_equal. rewrite lsum_app, <- lsum_seq.
  rewrite <- (lsum_filter_split (fun i => given (r_weight st2) i j) leaf (seq 0 n)). f_equal.
  assert (FE : filter inner (seq 0 n) = filter (fun i => negb (leaf i)) (seq 0 n)).
  { apply filter_ext_in. intros i Hi. apply in_seq in Hi. unfold inner, leaf.
    pose proof (sons_nonneg i ltac:(lia)). destruct (Z.ltb_spec 0 (zth sons i)), (Z.eqb_spec (zth sons i) 0); cbn; try reflexivity; lia. }
  rewrite FE. reflexivity. }
  exists (r_weight st2). split; [|exact Tail].
  destruct d2; [|reflexivity]. rewrite (pass_inner_second st2 Z2). reflexivity.
Qed.

(* ... and that equation has one solution only: the weights do not depend on the order of the sweeps *)
Theorem weights_unique : forall W W',
  (forall j, (j < n)%nat -> zth W j = zth counts j + total (fun i => given W i j) n) ->
  (forall j, (j < n)%nat -> zth W' j = zth counts j + total (fun i => given W' i j) n) ->
  forall j, (j < n)%nat -> zth W j = zth W' j.
Proof.
  intros W W' E E'. induction j as [j IH] using lt_wf_ind. intros Hj.
  rewrite E, E' by exact Hj. f_equal. apply total_ext. intros i Hi.
  destruct (le_lt_dec j i) as [Hge|Hlt].
  - unfold given. rewrite !sumf_zero; [reflexivity| |]; intros e He Hf; pose proof (Hdag i e He); lia.
  - apply given_ext. apply IH; [exact Hlt|lia].
Qed.
End Reweight.

Lemma all_rows_dag : forall nodes i e,
  In e (row_of (all_rows (sort_nodes nodes)) i) -> (i < e_father e < length (sort_nodes nodes))%nat.
Proof.
  intros nodes i e He.
  destruct (nth_error (sort_nodes nodes) i) as [son|] eqn:Ei.
  - destruct (edge_is_the_edit nodes i son e Ei He) as (f & Hf & Hlt & _).
    split; [exact Hlt|]. apply nth_error_Some. congruence.
  - exfalso. apply nth_error_None in Ei. unfold row_of in He. rewrite nth_overflow in He; [destruct He|].
    unfold all_rows. rewrite all_rows_from_length. exact Ei.
Qed.

(* the model never runs out of fuel: the Go loop of reweightSequences stops after at most three sweeps *)
Theorem model_graph_total : forall nodes step p q, model_graph_d nodes step p q <> None.
Proof.
  intros nodes step p q. unfold model_graph_d, finish_graph, finish_graph2.
  set (l := sort_nodes nodes).
  pose proof (reweight_total (map n_count l) (all_rows l) (length l) (map_length _ _)
                (all_rows_dag nodes) (all_rows_from_length l 0)) as T.
  destruct (1 <? step); destruct (reweight (map n_count l) (son_counts (length l) (all_rows l)) (all_rows l)); try discriminate; contradiction.
Qed.

(* for the graph of any sample: the weights written are the unique solution of
   weight j = count j + sum over the sons i of j of round (weight i * count j / sum of the counts of the fathers of i) *)
Theorem model_weights_exact : forall nodes,
  let l := sort_nodes nodes in
  let n := length l in
  let rows := all_rows l in
  let counts := map n_count l in
  exists W, reweight counts (son_counts n rows) rows = Some W /\ length W = n /\
    (forall j, (j < n)%nat -> zth W j = zth counts j + total (fun i => given counts rows W i j) n) /\
    (forall W', (forall j, (j < n)%nat -> zth W' j = zth counts j + total (fun i => given counts rows W' i j) n) ->
       forall j, (j < n)%nat -> zth W' j = zth W j).
Proof.
  intros nodes l n rows counts.
  destruct (reweight_exact counts rows n (map_length _ _) (all_rows_dag nodes) (all_rows_from_length l 0)) as (W & R & L & E).
  exists W. split; [exact R|]. split; [exact L|]. split; [exact E|].
  intros W' E' j Hj. exact (weights_unique counts rows n (map_length _ _) (all_rows_dag nodes) (all_rows_from_length l 0) W' W E' E j Hj).
Qed.


(** * Head flag and counts *)
Lemma count_status_pos : forall x l, 0 < count_status x l <-> In x l.
Proof.
  intros x l. unfold count_status. induction l as [|y l IH]; cbn [filter].
  - cbn. split; [lia|intros []].
  - destruct (status_eqb x y) eqn:E.
    + split; [intros _|intros _; cbn [length]; lia]. left. destruct x, y; try discriminate; reflexivity.
    + rewrite IH. split; [intros H; right; exact H|]. intros [H|H]; [|exact H]. subst y. destruct x; discriminate.
Qed.

Lemma count_status_total : forall l,
  count_status SH l + count_status SI l + count_status SS l = Z.of_nat (length l).
Proof.
  unfold count_status. induction l as [|y l IH]; [reflexivity|]. cbn [filter length].
  destruct y; cbn [status_eqb length]; lia.
Qed.

Theorem annotate_exact : forall sts,
  (f_head (annotate sts) = true <-> In SH sts \/ In SS sts) /\
  (0 < f_headcount (annotate sts) <-> In SH sts) /\
  f_samplecount (annotate sts) = Z.of_nat (length sts) /\
  f_headcount (annotate sts) + f_internalcount (annotate sts) + f_singletoncount (annotate sts) = Z.of_nat (length sts).
Proof.
  intros sts. unfold annotate. cbn [f_head f_headcount f_internalcount f_singletoncount f_samplecount].
  pose proof (count_status_total sts) as T.
  pose proof (count_status_pos SH sts) as PH. pose proof (count_status_pos SS sts) as PS.
  assert (NH : 0 <= count_status SH sts) by (unfold count_status; lia).
  assert (NS : 0 <= count_status SS sts) by (unfold count_status; lia).
  split; [|split; [exact PH|split; lia]].
  rewrite Z.ltb_lt. split.
  - intros H. destruct (Z.ltb_spec 0 (count_status SH sts)) as [A|A]; [left; apply PH; exact A|].
    right. apply PS. lia.
  - intros [H|H]; [apply PH in H|apply PS in H]; lia.
Qed.


(** * What the race can and cannot change: for BOTH increment kinds the edges are exact
    (they are row-private); only the son counters depend on the kind *)
Definition todo_of (x : wstate) : option (nat * list edge) :=
  match x with Idle => None | Working i t => Some (i, t) | Loaded i t _ _ => Some (i, t) end.

Lemma owner_todo : forall x i t, todo_of x = Some (i, t) -> owner x = Some i.
Proof. intros [|i0 t0|i0 t0 f v] i t H; cbn in *; congruence. Qed.

Section PoolAnyKind.
Variable k : inc_kind.
Variable rows : list (list edge).
Variable nw : nat.
Variable q0 : list nat.
Variable s0 : nat -> Z.
Hypothesis q0_nodup : NoDup q0.
Hypothesis rows_q0 : forall i, ~ In i q0 -> row_of rows i = [].

Record InvE (s : pstate) : Prop := {
  E_nodup : NoDup (queue s);
  E_q : forall i, In i (queue s) -> edges s i = [] /\ forall w, owner (ws s w) <> Some i;
  E_w : forall w i todo, todo_of (ws s w) = Some (i, todo) ->
        edges s i ++ todo = row_of rows i /\ ~ In i (queue s) /\
        forall w', w' <> w -> owner (ws s w') <> Some i;
  E_out : forall w, (nw <= w)%nat -> ws s w = Idle;
  E_done : forall i, ~ In i (queue s) -> (forall w, owner (ws s w) <> Some i) -> edges s i = row_of rows i }.

Lemma invE_init : InvE (pinit_gen q0 s0).
Proof.
  constructor; cbn.
  - exact q0_nodup.
  - intros i Hi. split; [reflexivity|]. intros w; cbn; discriminate.
  - intros; discriminate.
  - reflexivity.
  - intros i Hi _. symmetry. apply rows_q0. exact Hi.
Qed.

(* a step that only replaces the state of worker w by x, keeping its row and (possibly) appending to its row *)
Lemma invE_same_row : forall s w i todo todo' x ed,
  InvE s -> todo_of (ws s w) = Some (i, todo) -> todo_of x = Some (i, todo') ->
  (forall i', i' <> i -> ed i' = edges s i') -> ed i ++ todo' = edges s i ++ todo ->
  forall sn, InvE (mkp (queue s) (upd (ws s) w x) ed sn).
Proof.
  intros s w i todo todo' x ed I Tw Tx Hed Hrow sn.
  destruct (E_w s I w i todo Tw) as (Hr & Hnq & Hoth).
  pose proof (owner_todo _ _ _ Tx) as Ox.
  constructor; cbn.
  - apply (E_nodup s I).
  - intros i' Hi'. destruct (E_q s I i' Hi') as (B & C).
    assert (Hne : i' <> i) by (intros ->; contradiction).
    split; [rewrite Hed by exact Hne; exact B|].
    intros w0. unfold upd. destruct (Nat.eqb_spec w0 w); [rewrite Ox; congruence|apply C].
  - intros w0 i0 todo0. unfold upd at 1. destruct (Nat.eqb_spec w0 w) as [->|Hne].
    + intros E. rewrite Tx in E. inversion E; subst i0 todo0. split; [rewrite Hrow; exact Hr|].
      split; [exact Hnq|]. intros w' Hw'. unfold upd. destruct (Nat.eqb_spec w' w); [contradiction|]. apply Hoth; exact Hw'.
    + intros E. destruct (E_w s I w0 i0 todo0 E) as (B & C & D).
      assert (Hi0 : i0 <> i).
      { intros ->. apply (Hoth w0 Hne). eapply owner_todo; exact E. }
      split; [rewrite Hed by exact Hi0; exact B|]. split; [exact C|].
      intros w' Hw'. unfold upd. destruct (Nat.eqb_spec w' w) as [->|]; [rewrite Ox; congruence|apply D; exact Hw'].
  - intros w0 Hw0. unfold upd. destruct (Nat.eqb_spec w0 w) as [->|]; [|apply (E_out s I); exact Hw0].
    exfalso. rewrite (E_out s I w Hw0) in Tw. discriminate.
  - intros i' Hq' Ho'.
    assert (Hne : i' <> i).
    { intros ->. apply (Ho' w). unfold upd. rewrite Nat.eqb_refl. exact Ox. }
    rewrite Hed by exact Hne. apply (E_done s I); [exact Hq'|]. intros w0. specialize (Ho' w0). unfold upd in Ho'.
    destruct (Nat.eqb_spec w0 w) as [E0|E0]; [rewrite E0, (owner_todo _ _ _ Tw); congruence|exact Ho'].
Qed.

Lemma invE_step : forall s w s', (w < nw)%nat -> InvE s -> pstep k rows nw w s = Some s' -> InvE s'.
Proof.
  intros s w s' Hw I H. unfold pstep in H.
  assert (L : Nat.ltb w nw = true) by (apply Nat.ltb_lt; exact Hw). rewrite L in H.
  destruct (ws s w) as [|i todo|i todo f v] eqn:Ew.
  - (* take *)
    destruct (queue s) as [|i q] eqn:Eq; [discriminate|]. inversion H; subst s'; clear H.
    pose proof (E_nodup s I) as ND. rewrite Eq in ND. inversion ND as [|? ? Hni NDq]; subst.
    destruct (E_q s I i) as (Hei & Hoi); [rewrite Eq; left; reflexivity|].
    constructor; cbn.
    + exact NDq.
    + intros i' Hi'. destruct (E_q s I i') as (B & C); [rewrite Eq; right; exact Hi'|].
      split; [exact B|]. intros w0. unfold upd. destruct (Nat.eqb_spec w0 w).
      * cbn. intros E; inversion E; subst. contradiction.
      * apply C.
    + intros w0 i0 todo0. unfold upd. destruct (Nat.eqb_spec w0 w) as [->|Hne].
      * cbn. intros E; inversion E; subst. split; [rewrite Hei; reflexivity|].
        split; [exact Hni|]. intros w' Hw'. destruct (Nat.eqb_spec w' w); [contradiction|]. apply Hoi.
      * intros E. destruct (E_w s I w0 i0 todo0 E) as (B & C & D). rewrite Eq in C.
        split; [exact B|]. split; [intro X; apply C; right; exact X|].
        intros w' Hw'. destruct (Nat.eqb_spec w' w) as [->|].
        -- cbn. intros X; inversion X; subst. apply C. left; reflexivity.
        -- apply D; exact Hw'.
    + intros w0 Hw0. unfold upd. destruct (Nat.eqb_spec w0 w); [lia|]. apply (E_out s I); exact Hw0.
    + intros i' Hq' Ho'.
      assert (Hne : i' <> i).
      { intros ->. apply (Ho' w). unfold upd. rewrite Nat.eqb_refl. reflexivity. }
      apply (E_done s I).
      * rewrite Eq. intros [X|X]; [congruence|contradiction].
      * intros w0. specialize (Ho' w0). unfold upd in Ho'. destruct (Nat.eqb_spec w0 w) as [E0|E0].
        -- rewrite E0, Ew. discriminate.
        -- exact Ho'.
  - destruct todo as [|e todo].
    + (* finish the row *)
      inversion H; subst s'; clear H.
      assert (Tw : todo_of (ws s w) = Some (i, [])) by (rewrite Ew; reflexivity).
      destruct (E_w s I w i [] Tw) as (Hrow & Hnq & Hoth). rewrite app_nil_r in Hrow.
      constructor; cbn.
      * apply (E_nodup s I).
      * intros i' Hi'. destruct (E_q s I i' Hi') as (B & C). split; [exact B|].
        intros w0. unfold upd. destruct (Nat.eqb_spec w0 w); [discriminate|apply C].
      * intros w0 i0 todo0. unfold upd. destruct (Nat.eqb_spec w0 w) as [->|Hne]; [discriminate|].
        intros E. destruct (E_w s I w0 i0 todo0 E) as (B & C & D).
        split; [exact B|]. split; [exact C|].
        intros w' Hw'. destruct (Nat.eqb_spec w' w); [discriminate|]. apply D; exact Hw'.
      * intros w0 Hw0. unfold upd. destruct (Nat.eqb_spec w0 w); [reflexivity|]. apply (E_out s I); exact Hw0.
      * intros i' Hq' Ho'. destruct (Nat.eq_dec i' i) as [->|Hne]; [exact Hrow|].
        apply (E_done s I); [exact Hq'|]. intros w0. specialize (Ho' w0). unfold upd in Ho'.
        destruct (Nat.eqb_spec w0 w) as [E0|E0]; [rewrite E0, Ew; cbn; congruence|exact Ho'].
    + (* emit one edge (and increment or read the counter) *)
      assert (Tw : todo_of (ws s w) = Some (i, e :: todo)) by (rewrite Ew; reflexivity).
      assert (Ed : forall i', i' <> i -> upd (edges s) i (edges s i ++ [e]) i' = edges s i').
      { intros i' Hne. unfold upd. destruct (Nat.eqb_spec i' i); [contradiction|reflexivity]. }
      assert (Er : upd (edges s) i (edges s i ++ [e]) i ++ todo = edges s i ++ e :: todo).
      { unfold upd. rewrite Nat.eqb_refl, <- app_assoc. reflexivity. }
      destruct k; inversion H; subst s'; clear H.
      * apply (invE_same_row s w i (e :: todo) todo (Working i todo) _ I Tw eq_refl Ed Er).
      * apply (invE_same_row s w i (e :: todo) todo (Loaded i todo (e_father e) (sons s (e_father e))) _ I Tw eq_refl Ed Er).
  - (* write back the counter *)
    inversion H; subst s'; clear H.
    assert (Tw : todo_of (ws s w) = Some (i, todo)) by (rewrite Ew; reflexivity).
    apply (invE_same_row s w i todo todo (Working i todo) (edges s) I Tw eq_refl); reflexivity.
Qed.

Lemma invE_run : forall sched s s', InvE s -> prun k rows nw sched s = Some s' -> InvE s'.
Proof.
  induction sched as [|w t IH]; intros s s' I H; cbn in H.
  - inversion H; subst; exact I.
  - destruct (pstep k rows nw w s) as [s1|] eqn:E; [|discriminate].
    assert (Hw : (w < nw)%nat).
    { unfold pstep in E. destruct (Nat.ltb_spec w nw); [assumption|discriminate]. }
    apply (IH s1); [eapply invE_step; eauto|exact H].
Qed.

Theorem edges_exact_any_kind : forall sched s, (1 <= nw)%nat ->
  prun k rows nw sched (pinit_gen q0 s0) = Some s -> terminal k rows nw s ->
  forall i, edges s i = row_of rows i.
Proof.
  intros sched s Hnw R T. pose proof (invE_run sched _ _ invE_init R) as I.
  assert (Hidle : forall w, ws s w = Idle).
  { intros w. destruct (le_lt_dec nw w) as [H|H]; [apply (E_out s I); exact H|].
    specialize (T w). unfold pstep in T. apply Nat.ltb_lt in H. rewrite H in T.
    destruct (ws s w) as [|i [|e todo]|i todo f v]; try discriminate; try reflexivity.
    destruct k; discriminate. }
  assert (Hq : queue s = []).
  { specialize (T 0%nat). unfold pstep in T. assert (H : Nat.ltb 0 nw = true) by (apply Nat.ltb_lt; lia).
    rewrite H, Hidle in T. destruct (queue s); [reflexivity|discriminate]. }
  intros i. apply (E_done s I); [rewrite Hq; intros []|]. intros w. rewrite Hidle. discriminate.
Qed.
End PoolAnyKind.


(** * ... and the counters can only be too small: a lost update never adds a son *)
Section PoolUndercount.
Variable k : inc_kind.
Variable rows : list (list edge).
Variable nw : nat.
Let n := length rows.
Variable q0 : list nat.
Variable s0 : nat -> Z.
Hypothesis q0_lt : forall i, In i q0 -> (i < n)%nat.

Definition emitted (s : pstate) (j : nat) : Z := total (fun i => cnt j (edges s i)) n.

Record InvS (s : pstate) : Prop := {
  S_q : forall i, In i (queue s) -> (i < n)%nat;
  S_w : forall w i todo, todo_of (ws s w) = Some (i, todo) -> (i < n)%nat;
  S_sons : forall j, sons s j <= s0 j + emitted s j;
  S_ld : forall w i t f v, ws s w = Loaded i t f v -> v + 1 <= s0 f + emitted s f }.

Lemma invS_init : InvS (pinit_gen q0 s0).
Proof.
  constructor; cbn.
  - exact q0_lt.
  - intros; discriminate.
  - intros j. unfold emitted. cbn. erewrite total_ext; [rewrite total_zero; lia|]. reflexivity.
  - intros; discriminate.
Qed.

Lemma emitted_append : forall s i e j sn wsn qn, (i < n)%nat ->
  emitted (mkp qn wsn (upd (edges s) i (edges s i ++ [e])) sn) j =
  emitted s j + (if Nat.eqb (e_father e) j then 1 else 0).
Proof.
  intros s i e j sn wsn qn Hi. unfold emitted. cbn [edges].
  assert (E : total (fun i0 => cnt j (upd (edges s) i (edges s i ++ [e]) i0)) n =
              total (upd (fun i0 => cnt j (edges s i0)) i (cnt j (edges s i ++ [e]))) n).
  { apply total_ext. intros i0 _. unfold upd. destruct (Nat.eqb i0 i); reflexivity. }
  rewrite E, total_upd by exact Hi. rewrite cnt_app, cnt_one. lia.
Qed.

Lemma invS_step : forall s w s', InvS s -> pstep k rows nw w s = Some s' -> InvS s'.
Proof.
  intros s w s' I H. unfold pstep in H.
  destruct (Nat.ltb w nw) eqn:Hw; [|discriminate].
  destruct (ws s w) as [|i todo|i todo f v] eqn:Ew.
  - destruct (queue s) as [|i q] eqn:Eq; [discriminate|]. inversion H; subst s'; clear H.
    constructor; cbn.
    + intros i' Hi'. apply (S_q s I). rewrite Eq. right. exact Hi'.
    + intros w0 i0 t0. unfold upd. destruct (Nat.eqb_spec w0 w).
      * cbn. intros E; inversion E; subst. apply (S_q s I). rewrite Eq. left. reflexivity.
      * apply (S_w s I).
    + apply (S_sons s I).
    + intros w0 i0 t0 f0 v0. unfold upd. destruct (Nat.eqb_spec w0 w); [discriminate|]. apply (S_ld s I).
  - assert (Hi : (i < n)%nat) by (apply (S_w s I w i todo); rewrite Ew; reflexivity).
    destruct todo as [|e todo].
    + inversion H; subst s'; clear H. constructor; cbn.
      * apply (S_q s I).
      * intros w0 i0 t0. unfold upd. destruct (Nat.eqb_spec w0 w); [discriminate|]. apply (S_w s I).
      * apply (S_sons s I).
      * intros w0 i0 t0 f0 v0. unfold upd. destruct (Nat.eqb_spec w0 w); [discriminate|]. apply (S_ld s I).
    + destruct k; inversion H; subst s'; clear H.
      * (* atomic *)
        constructor.
        -- cbn. apply (S_q s I).
        -- cbn. intros w0 i0 t0. unfold upd. destruct (Nat.eqb_spec w0 w).
           ++ cbn. intros E; inversion E; subst. exact Hi.
           ++ apply (S_w s I).
        -- intros j. rewrite emitted_append by exact Hi. cbn [sons]. pose proof (S_sons s I j) as Sj.
           pose proof (S_sons s I (e_father e)) as Sf. unfold upd.
           destruct (Nat.eqb_spec j (e_father e)) as [->|Hj].
           ++ rewrite Nat.eqb_refl. lia.
           ++ destruct (Nat.eqb_spec (e_father e) j); [congruence|]. lia.
        -- intros w0 i0 t0 f0 v0 E. rewrite emitted_append by exact Hi. cbn [ws] in E. unfold upd in E.
           destruct (Nat.eqb_spec w0 w); [discriminate|]. pose proof (S_ld s I w0 i0 t0 f0 v0 E).
           destruct (Nat.eqb (e_father e) f0); lia.
      * (* read *)
        constructor.
        -- cbn. apply (S_q s I).
        -- cbn. intros w0 i0 t0. unfold upd. destruct (Nat.eqb_spec w0 w).
           ++ cbn. intros E; inversion E; subst. exact Hi.
           ++ apply (S_w s I).
        -- intros j. rewrite emitted_append by exact Hi. cbn [sons]. pose proof (S_sons s I j) as Sj.
           destruct (Nat.eqb (e_father e) j); lia.
        -- intros w0 i0 t0 f0 v0 E. rewrite emitted_append by exact Hi. cbn [ws] in E. unfold upd in E.
           destruct (Nat.eqb_spec w0 w).
           ++ inversion E; subst. rewrite Nat.eqb_refl. pose proof (S_sons s I (e_father e)). lia.
           ++ pose proof (S_ld s I w0 i0 t0 f0 v0 E). destruct (Nat.eqb (e_father e) f0); lia.
  - (* write *)
    inversion H; subst s'; clear H.
    assert (Em : forall j sn wsn, emitted (mkp (queue s) wsn (edges s) sn) j = emitted s j) by reflexivity.
    constructor.
    + cbn. apply (S_q s I).
    + cbn. intros w0 i0 t0. unfold upd. destruct (Nat.eqb_spec w0 w).
      * cbn. intros E; inversion E; subst. apply (S_w s I w i0 t0). rewrite Ew. reflexivity.
      * apply (S_w s I).
    + intros j. rewrite Em. cbn [sons]. unfold upd. destruct (Nat.eqb_spec j f) as [->|].
      * apply (S_ld s I w i todo f v Ew).
      * apply (S_sons s I).
    + intros w0 i0 t0 f0 v0 E. rewrite Em. cbn [ws] in E. unfold upd in E.
      destruct (Nat.eqb_spec w0 w); [discriminate|]. apply (S_ld s I w0 i0 t0 f0 v0 E).
Qed.

Lemma invS_run : forall sched s s', InvS s -> prun k rows nw sched s = Some s' -> InvS s'.
Proof.
  induction sched as [|w t IH]; intros s s' I H; cbn in H.
  - inversion H; subst; exact I.
  - destruct (pstep k rows nw w s) as [s1|] eqn:E; [|discriminate].
    apply (IH s1); [eapply invS_step; eauto|exact H].
Qed.
End PoolUndercount.

Theorem counters_never_exceed : forall k rows nw q0 s0,
  NoDup q0 -> (forall i, In i q0 -> (i < length rows)%nat) -> (forall i, ~ In i q0 -> row_of rows i = []) ->
  forall sched s, (1 <= nw)%nat ->
  prun k rows nw sched (pinit_gen q0 s0) = Some s -> terminal k rows nw s ->
  forall j, sons s j <= s0 j + cnt j (concat rows).
Proof.
  intros k rows nw q0 s0 ND LT RQ sched s Hnw R T j.
  pose proof (edges_exact_any_kind k rows nw q0 s0 ND RQ sched s Hnw R T) as He.
  pose proof (invS_run k rows nw s0 sched _ _ (invS_init rows q0 s0 LT) R) as I.
  pose proof (S_sons rows s0 s I j) as Sj. unfold emitted in Sj.
  rewrite cnt_concat_total. erewrite total_ext in Sj; [exact Sj|]. intros i _. cbv beta. rewrite He. reflexivity.
Qed.
