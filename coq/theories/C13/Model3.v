(** C13 (round 3) — executable definitions for what `obiclean --save-ratio` and `--save-graph` write
    (graph.go: nucPair, intToNucPair, EstimateRatio, EmpiricalDistCsv, Gml), as functions of the per-sample
    graph of Model.v.  Definitions only. *)
From Coq Require Import List NArith ZArith Bool Arith.
Import ListNotations.
From OBI.C13 Require Import Model Model2.
Open Scope Z_scope.

(** * nucPair / intToNucPair: the 5 x 5 table of (father letter, son letter), 0 = anything but a, c, g, t *)
Definition nuc_code (b : N) : nat :=
  if N.eqb b 97 then 1%nat else if N.eqb b 99 then 2%nat else if N.eqb b 103 then 3%nat
  else if N.eqb b 116 then 4%nat else 0%nat.
Definition nuc_pair (a b : N) : nat := (nuc_code a * 5 + nuc_code b)%nat.
(* decode = []byte{'-','a','c','g','t'}; an index beyond 4 would panic in Go: modelled by the impossible byte 0 *)
Definition decode_nuc (c : nat) : N := nth c [45; 97; 99; 103; 116]%N 0%N.
Definition int_to_nuc_pair (code : nat) : N * N :=
  let c1 := (code / 5)%nat in (decode_nuc c1, decode_nuc (code - c1 * 5)%nat).

(** * EstimateRatio: one row per edge of distance 1 whose father weighs at least [minw], filed under the
      code of its nucleotide pair; EmpiricalDistCsv prints the 25 files in the order of the codes *)
Record rrow := mkrr { rr_father : Z; rr_status : status; rr_from : N; rr_to : N;
                      rr_wfrom : Z; rr_wto : Z; rr_cfrom : Z; rr_cto : Z; rr_pos : Z; rr_len : Z;
                      rr_a : Z; rr_c : Z; rr_g : Z; rr_t : Z }.
(* the row with where it comes from: its code, the position of the son in the sorted sample, the edge *)
Record mrow := mkmr { mr_code : nat; mr_son : nat; mr_edge : edge; mr_row : rrow }.

Definition count_nuc (x : N) (s : list N) : Z := Z.of_nat (length (filter (N.eqb x) s)).

Definition edge_row (l : list node) (g : list onode) (minw : Z) (i : nat) (son : onode) (e : edge) : list mrow :=
  match nth_error g (e_father e), nth_error l (e_father e) with
  | Some f, Some fn =>
      if (minw <=? o_weight f) && (e_dist e =? 1) then
        let code := nuc_pair (e_from e) (e_to e) in
        let s := n_seq fn in
        [mkmr code i e
              (mkrr (o_id f) (o_status f) (fst (int_to_nuc_pair code)) (snd (int_to_nuc_pair code))
                    (o_weight f) (o_weight son) (o_count f) (o_count son) (e_pos e) (Z.of_nat (length s))
                    (count_nuc 97 s) (count_nuc 99 s) (count_nuc 103 s) (count_nuc 116 s))]
      else []
  | _, _ => []
  end.

Fixpoint all_edge_rows (l : list node) (g : list onode) (minw : Z) (i : nat) (rest : list onode) : list mrow :=
  match rest with
  | [] => []
  | son :: t => flat_map (edge_row l g minw i son) (o_edges son) ++ all_edge_rows l g minw (S i) t
  end.

Definition by_code (rows : list mrow) : list mrow :=
  flat_map (fun code => filter (fun r => Nat.eqb (mr_code r) code) rows) (seq 0 25).

(* [l] the sorted nodes, [g] the graph of the sample *)
Definition ratio_table (l : list node) (g : list onode) (minw : Z) : list mrow :=
  by_code (all_edge_rows l g minw 0 g).

(** * Gml: the nodes that have a father or a son, every edge *)
Record gnode := mkgn { gn_id : nat; gn_circle : bool; gn_blue : bool; gn_h : Z; gn_w : Z; gn_weight : Z }.
Record gedge := mkge { ge_src : nat; ge_tgt : nat; ge_red : bool; ge_label : Z }.

Definition has_edges (o : onode) : bool := match o_edges o with [] => false | _ :: _ => true end.
Definition gml_listed (o : onode) : bool := has_edges o || (0 <? o_sons o).
Definition gml_node (minw : Z) (i : nat) (o : onode) : gnode :=
  mkgn i (minw <=? o_count o) ((0 <? o_sons o) && negb (has_edges o))
       (3 * Z.sqrt (o_count o)) (3 * Z.sqrt (o_count o)) (o_count o).

Fixpoint gml_nodes_from (minw : Z) (i : nat) (g : list onode) : list gnode :=
  match g with
  | [] => []
  | o :: t => (if gml_listed o then [gml_node minw i o] else []) ++ gml_nodes_from minw (S i) t
  end.
Definition gml_edge (i : nat) (e : edge) : gedge := mkge i (e_father e) (1 <? e_dist e) (e_dist e).
Fixpoint gml_edges_from (i : nat) (g : list onode) : list gedge :=
  match g with
  | [] => []
  | o :: t => map (gml_edge i) (o_edges o) ++ gml_edges_from (S i) t
  end.
Definition gml_nodes (minw : Z) (g : list onode) : list gnode := gml_nodes_from minw 0 g.
Definition gml_edges (g : list onode) : list gedge := gml_edges_from 0 g.

(** * Correspondence with the files written by the command *)
(* the ratio table is compared as a multiset (the order of the rows is not part of the property); From, To and
   Position of an observed row are judged by what they mean: the edit they describe turns the father into the son *)
Definition rrow_match (l : list node) (m : mrow) (r : rrow) : bool :=
  let x := mr_row m in
  (rr_father x =? rr_father r) && status_eqb (rr_status x) (rr_status r)
  && N.eqb (rr_from x) (rr_from r) && N.eqb (rr_to x) (rr_to r)
  && (rr_wfrom x =? rr_wfrom r) && (rr_wto x =? rr_wto r) && (rr_cfrom x =? rr_cfrom r) && (rr_cto x =? rr_cto r)
  && (rr_len x =? rr_len r) && (rr_a x =? rr_a r) && (rr_c x =? rr_c r) && (rr_g x =? rr_g r) && (rr_t x =? rr_t r)
  && edit_ok l (mr_son m) (mke (e_father (mr_edge m)) (rr_from r) (rr_to r) (rr_pos r) 1).

Fixpoint remove_first {A} (f : A -> bool) (l : list A) : option (list A) :=
  match l with
  | [] => None
  | x :: t => if f x then Some t else match remove_first f t with Some t' => Some (x :: t') | None => None end
  end.

Fixpoint rows_agree (l : list node) (ms : list mrow) (obs : list rrow) : bool :=
  match ms with
  | [] => match obs with [] => true | _ :: _ => false end
  | m :: t => match remove_first (rrow_match l m) obs with
              | Some obs' => rows_agree l t obs'
              | None => false
              end
  end.

Record rcase := mkrcase { rc_nodes : list node; rc_step : Z; rc_p : Z; rc_q : Z; rc_min : Z; rc_obs : list rrow }.
Definition rcase_ok (c : rcase) : bool :=
  match model_graph_d (rc_nodes c) (rc_step c) (rc_p c) (rc_q c) with
  | Some g => let l := sort_nodes (rc_nodes c) in rows_agree l (ratio_table l g (rc_min c)) (rc_obs c)
  | None => false
  end.
Fixpoint mismatches_ratio_from (i : nat) (l : list rcase) : list nat :=
  match l with
  | [] => []
  | c :: t => if rcase_ok c then mismatches_ratio_from (S i) t else i :: mismatches_ratio_from (S i) t
  end.
Definition mismatches_ratio (l : list rcase) : list nat := mismatches_ratio_from 0 l.

Definition gnode_eqb (a b : gnode) : bool :=
  Nat.eqb (gn_id a) (gn_id b) && Bool.eqb (gn_circle a) (gn_circle b) && Bool.eqb (gn_blue a) (gn_blue b)
  && (gn_h a =? gn_h b) && (gn_w a =? gn_w b) && (gn_weight a =? gn_weight b).
Definition gedge_eqb (a b : gedge) : bool :=
  Nat.eqb (ge_src a) (ge_src b) && Nat.eqb (ge_tgt a) (ge_tgt b) && Bool.eqb (ge_red a) (ge_red b) && (ge_label a =? ge_label b).

Record gcase := mkgcase { gc_nodes : list node; gc_step : Z; gc_p : Z; gc_q : Z; gc_min : Z;
                          gc_gnodes : list gnode; gc_gedges : list gedge }.
Definition gcase_ok (c : gcase) : bool :=
  match model_graph_d (gc_nodes c) (gc_step c) (gc_p c) (gc_q c) with
  | Some g => all2 gnode_eqb (gml_nodes (gc_min c) g) (gc_gnodes c) && all2 gedge_eqb (gml_edges g) (gc_gedges c)
  | None => false
  end.
Fixpoint mismatches_gml_from (i : nat) (l : list gcase) : list nat :=
  match l with
  | [] => []
  | c :: t => if gcase_ok c then mismatches_gml_from (S i) t else i :: mismatches_gml_from (S i) t
  end.
Definition mismatches_gml (l : list gcase) : list nat := mismatches_gml_from 0 l.
